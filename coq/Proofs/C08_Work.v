(* C08 (work / allocation part): proofs about Model/C08_Work.v.

   Framework: a parser step p : list Z -> PR A is  wf d cs ks ca ka  when, on every
   byte string bs,
     - if it succeeds with remaining input rest, it consumed c = |bs|-|rest| >= d
       bytes, used <= cs*c + ks steps and allocated <= ca*c + ka;
     - if it fails, the error is not OutOfFuel and steps <= cs*|bs| + ks,
       alloc <= ca*|bs| + ka.
   wf is closed under sequencing (wf_bind) and under every loop shape of the code
   (gloop_wf), provided the loop body consumes at least one byte (d >= 1): this is
   the "every iteration strictly consumes input" argument, and it is what makes the
   fuel |bs|+1 sufficient. *)
From Coq Require Import ZArith List Bool Lia.
From TV Require Import Base.Prelude Model.C08_Work.
Import ListNotations.
Open Scope Z_scope.

(* ---- lists ------------------------------------------------------------------- *)
Lemma zlen_nil {A} : zlen (@nil A) = 0.
Proof. reflexivity. Qed.
Lemma zlen_cons {A} (x : A) l : zlen (x :: l) = zlen l + 1.
Proof. unfold zlen. cbn [length]. lia. Qed.
Lemma zlen_nonneg {A} (l : list A) : 0 <= zlen l.
Proof. unfold zlen. lia. Qed.
Lemma zlen_app {A} (a b : list A) : zlen (a ++ b) = zlen a + zlen b.
Proof. unfold zlen. rewrite app_length. lia. Qed.

Lemma zlen_firstn {A} n (l : list A) : 0 <= n <= zlen l -> zlen (firstn (Z.to_nat n) l) = n.
Proof. unfold zlen. intros H. rewrite firstn_length. lia. Qed.
Lemma zlen_firstn_le {A} n (l : list A) : zlen (firstn n l) <= zlen l.
Proof. unfold zlen. rewrite firstn_length. lia. Qed.
Lemma zlen_skipn {A} n (l : list A) : 0 <= n <= zlen l -> zlen (skipn (Z.to_nat n) l) = zlen l - n.
Proof. unfold zlen. intros H. rewrite skipn_length. lia. Qed.
Lemma zlen_skipn_neg {A} n (l : list A) : n <= 0 -> skipn (Z.to_nat n) l = l /\ firstn (Z.to_nat n) l = [].
Proof. intros H. replace (Z.to_nat n) with 0%nat by lia. split; reflexivity. Qed.

Lemma bytes_ok_firstn n l : bytes_ok l -> bytes_ok (firstn n l).
Proof.
  unfold bytes_ok. revert l. induction n as [|n IH]; intros l H; cbn [firstn]; [constructor|].
  destruct l as [|x l]; [constructor|]. inversion H; subst. constructor; auto.
Qed.
Lemma bytes_ok_skipn n l : bytes_ok l -> bytes_ok (skipn n l).
Proof.
  unfold bytes_ok. revert l. induction n as [|n IH]; intros l H; cbn [skipn]; [exact H|].
  destruct l as [|x l]; [constructor|]. inversion H; subst. auto.
Qed.
Lemma bytes_ok_app a b : bytes_ok a -> bytes_ok b -> bytes_ok (a ++ b).
Proof. unfold bytes_ok. intros. apply Forall_app. split; assumption. Qed.

(* big-endian value of n bytes is below 256^n *)
Lemma be_fold_range l : forall acc, 0 <= acc -> bytes_ok l ->
  0 <= fold_left (fun a b => a * 256 + b) l acc < (acc + 1) * 256 ^ zlen l.
Proof.
  induction l as [|x l IH]; intros acc Ha Hb; cbn [fold_left].
  - change (zlen (@nil Z)) with 0. rewrite Z.pow_0_r. lia.
  - inversion Hb as [|? ? Hx Hl]; subst.
    assert (H0 : 0 <= acc * 256 + x) by lia.
    specialize (IH (acc * 256 + x) H0 Hl).
    rewrite zlen_cons. rewrite Z.pow_add_r by (pose proof (zlen_nonneg l); lia).
    assert (Hp : 0 < 256 ^ zlen l) by (apply Z.pow_pos_nonneg; pose proof (zlen_nonneg l); lia).
    change (256 ^ 1) with 256. nia.
Qed.
Lemma be_int_range l : bytes_ok l -> 0 <= be_int l < 256 ^ zlen l.
Proof. intros H. pose proof (be_fold_range l 0 ltac:(lia) H) as R. unfold be_int. lia. Qed.

(* ---- the cost monad ----------------------------------------------------------- *)
Lemma mbind_ok {A B} (x : A) s a (f : A -> M B) :
  mbind (Ok x, s, a) f = (fst (fst (f x)), s + snd (fst (f x)), a + snd (f x)).
Proof. unfold mbind. destruct (f x) as [[r s'] a']. reflexivity. Qed.
Lemma mbind_err {A B} e s a (f : A -> M B) : mbind (Err e, s, a) f = (Err e, s, a).
Proof. reflexivity. Qed.

(* ---- well-formed parser steps -------------------------------------------------- *)
Definition wf {A} (d cs ks ca ka : Z) (p : list Z -> PR A) : Prop :=
  forall bs, bytes_ok bs ->
    match p bs with
    | (Ok (_, rest), s, a) =>
        bytes_ok rest /\ 0 <= zlen bs - zlen rest /\ d <= zlen bs - zlen rest /\
        0 <= s <= cs * (zlen bs - zlen rest) + ks /\
        0 <= a <= ca * (zlen bs - zlen rest) + ka
    | (Err e, s, a) =>
        e <> OutOfFuel /\ 0 <= s <= cs * zlen bs + ks /\ 0 <= a <= ca * zlen bs + ka
    end.

Lemma wf_weaken {A} d cs ks ca ka d' cs' ks' ca' ka' (p : list Z -> PR A) :
  wf d cs ks ca ka p -> d' <= d -> cs <= cs' -> ks <= ks' -> ca <= ca' -> ka <= ka' ->
  wf d' cs' ks' ca' ka' p.
Proof.
  intros H ? ? ? ? ? bs Hb. specialize (H bs Hb). pose proof (zlen_nonneg bs).
  destruct (p bs) as [[[[v rest]|e] s] a].
  - destruct H as (? & ? & ? & ? & ?). repeat split; try assumption; try lia; nia.
  - destruct H as (? & ? & ?). repeat split; try assumption; try lia; nia.
Qed.

Lemma wf_ext {A} d cs ks ca ka (p q : list Z -> PR A) :
  (forall bs, p bs = q bs) -> wf d cs ks ca ka p -> wf d cs ks ca ka q.
Proof. intros E H bs Hb. rewrite <- E. apply H. exact Hb. Qed.

Lemma wf_bind {A B} d1 d2 cs ks1 ks2 ca ka1 ka2 (p : list Z -> PR A) (q : A -> list Z -> PR B) :
  0 <= cs -> 0 <= ca -> 0 <= ks2 -> 0 <= ka2 ->
  wf d1 cs ks1 ca ka1 p -> (forall v, wf d2 cs ks2 ca ka2 (q v)) ->
  wf (d1 + d2) cs (ks1 + ks2) ca (ka1 + ka2) (fun bs => '(v, r) <~ p bs ;; q v r).
Proof.
  intros Hcs Hca Hks Hka Hp Hq bs Hb. specialize (Hp bs Hb).
  destruct (p bs) as [[[[v r]|e] s] a].
  - destruct Hp as (Hr & Hc & Hd & Hs & Ha). rewrite mbind_ok.
    specialize (Hq v r Hr). destruct (q v r) as [[[[w rest]|e] s2] a2]; cbn [fst snd].
    + destruct Hq as (? & ? & ? & ? & ?). repeat split; try assumption; try lia; nia.
    + destruct Hq as (? & ? & ?). pose proof (zlen_nonneg r). repeat split; try assumption; try lia; nia.
  - rewrite mbind_err. destruct Hp as (? & ? & ?). repeat split; try assumption; lia.
Qed.

Lemma wf_ret {A} (v : A) : wf 0 0 0 0 0 (fun bs => mret (v, bs)).
Proof. intros bs Hb. unfold mret. repeat split; try assumption; lia. Qed.

(* ---- primitives ---------------------------------------------------------------- *)
Lemma p_fix_spec n bs : bytes_ok bs ->
  match p_fix n bs with
  | (Ok (t, rest), s, a) =>
      bytes_ok t /\ bytes_ok rest /\ zlen t = Z.max 0 n /\ zlen bs - zlen rest = Z.max 0 n /\
      n <= zlen bs /\ s = 1 /\ a = Z.max 0 n /\ bs = t ++ rest
  | (Err e, s, a) => e = DecodeError /\ s = 1 /\ a = 0 /\ zlen bs < n
  end.
Proof.
  intros Hb. unfold p_fix. destruct (zlen bs <? n) eqn:E.
  - repeat split; lia.
  - assert (Hn : n <= zlen bs) by lia.
    destruct (Z_le_gt_dec n 0) as [Hneg|Hpos].
    + destruct (zlen_skipn_neg n bs Hneg) as [-> ->]. rewrite zlen_nil.
      repeat split; try assumption; try constructor; try lia.
    + rewrite zlen_firstn, zlen_skipn by lia.
      repeat split; try lia.
      * apply bytes_ok_firstn. exact Hb.
      * apply bytes_ok_skipn. exact Hb.
      * symmetry. apply firstn_skipn.
Qed.

Lemma wf_fix n : wf 0 0 1 1 0 (p_fix n).
Proof.
  intros bs Hb. pose proof (p_fix_spec n bs Hb) as S.
  destruct (p_fix n bs) as [[[[t rest]|e] s] a].
  - destruct S as (? & ? & ? & ? & ? & ? & ? & ?). repeat split; try assumption; lia.
  - destruct S as (-> & ? & ? & ?). pose proof (zlen_nonneg bs). repeat split; try discriminate; lia.
Qed.

Lemma p_get_spec n bs : bytes_ok bs -> 0 <= n ->
  match p_get n bs with
  | (Ok (v, rest), s, a) =>
      bytes_ok rest /\ zlen bs - zlen rest = n /\ 0 <= v < 256 ^ n /\ s = 1 /\ a = n
  | (Err e, s, a) => e = DecodeError /\ s = 1 /\ a = 0 /\ zlen bs < n
  end.
Proof.
  intros Hb Hn. unfold p_get. pose proof (p_fix_spec n bs Hb) as S.
  destruct (p_fix n bs) as [[[[t rest]|e] s] a].
  - rewrite mbind_ok. cbn [fst snd mret].
    destruct S as (Ht & Hr & Hl & Hc & ? & ? & ? & ?). rewrite Z.max_r in * by lia.
    pose proof (be_int_range t Ht) as R. rewrite Hl in R. repeat split; try assumption; lia.
  - rewrite mbind_err. exact S.
Qed.

Lemma wf_get n : 0 <= n -> wf n 0 1 1 0 (p_get n).
Proof.
  intros Hn bs Hb. pose proof (p_get_spec n bs Hb Hn) as S.
  destruct (p_get n bs) as [[[[v rest]|e] s] a].
  - destruct S as (? & ? & ? & ? & ?). repeat split; try assumption; lia.
  - destruct S as (-> & ? & ? & ?). pose proof (zlen_nonneg bs). repeat split; try discriminate; lia.
Qed.

Lemma p_var_spec ll bs : bytes_ok bs -> 0 <= ll ->
  match p_var ll bs with
  | (Ok (t, rest), s, a) =>
      bytes_ok t /\ bytes_ok rest /\ zlen bs - zlen rest = ll + zlen t /\
      zlen t < 256 ^ ll /\ s = 2 /\ a = ll + zlen t
  | (Err e, s, a) => e = DecodeError /\ 1 <= s <= 2 /\ 0 <= a <= ll /\ a <= zlen bs
  end.
Proof.
  intros Hb Hl. unfold p_var. pose proof (p_get_spec ll bs Hb Hl) as S.
  destruct (p_get ll bs) as [[[[n r]|e] s] a].
  - destruct S as (Hr & Hc & Hv & -> & ->). rewrite mbind_ok.
    pose proof (p_fix_spec n r Hr) as F.
    destruct (p_fix n r) as [[[[t rest]|e] s2] a2]; cbn [fst snd].
    + destruct F as (? & ? & Hlt & Hc2 & ? & -> & -> & ?). rewrite Z.max_r in * by lia.
      repeat split; try assumption; lia.
    + destruct F as (-> & -> & -> & ?). pose proof (zlen_nonneg r). repeat split; lia.
  - rewrite mbind_err. destruct S as (-> & -> & -> & ?). pose proof (zlen_nonneg bs). repeat split; lia.
Qed.

Lemma wf_var ll : 0 <= ll -> wf ll 0 2 1 0 (p_var ll).
Proof.
  intros Hl bs Hb. pose proof (p_var_spec ll bs Hb Hl) as S.
  destruct (p_var ll bs) as [[[[t rest]|e] s] a].
  - destruct S as (? & ? & ? & ? & ? & ?). pose proof (zlen_nonneg t). repeat split; try assumption; lia.
  - destruct S as (-> & ? & ? & ?). pose proof (zlen_nonneg bs).
    repeat split; try discriminate; lia.
Qed.

(* ---- loops ---------------------------------------------------------------------- *)
Lemma loop_test_err k st bs e : loop_test k st bs = Err e -> e = DecodeError.
Proof.
  destruct k; cbn [loop_test]; try discriminate.
  destruct (st =? 0); [discriminate|]. destruct (st <? 0); [|discriminate].
  intros H. injection H as <-. reflexivity.
Qed.

(* Every loop of the code, with a body that consumes at least d >= 1 bytes per round,
   run with fuel > number of remaining bytes: never OutOfFuel; the per-round overhead
   (ks + 1 test/step, ka + 1 list cell) is absorbed into the slopes Cs, Ca. *)
Lemma gloop_wf {A} (k : loopkind) (elem : list Z -> PR A) d cs ks ca ka Cs Ca :
  1 <= d -> 0 <= cs -> 0 <= ks -> 0 <= ca -> 0 <= ka ->
  cs <= Cs -> ca <= Ca -> cs * d + ks + 1 <= Cs * d -> ca * d + ka + 1 <= Ca * d ->
  wf d cs ks ca ka elem ->
  forall fuel st bs, bytes_ok bs -> (length bs < fuel)%nat ->
    match gloop k elem fuel st bs with
    | (Ok (_, rest), s, a) =>
        bytes_ok rest /\ 0 <= zlen bs - zlen rest /\
        0 <= s <= Cs * (zlen bs - zlen rest) + (ks + 1) /\
        0 <= a <= Ca * (zlen bs - zlen rest) + (ka + 1)
    | (Err e, s, a) =>
        e <> OutOfFuel /\ 0 <= s <= Cs * zlen bs + (ks + 1) /\ 0 <= a <= Ca * zlen bs + (ka + 1)
    end.
Proof.
  intros Hd Hcs Hks Hca Hka HCs HCa Hs Ha Hwf.
  induction fuel as [|f IH]; intros st bs Hb Hf; [lia|].
  cbn [gloop]. pose proof (zlen_nonneg bs) as Hn.
  destruct (loop_test k st bs) as [[|]|e] eqn:T.
  - unfold mtick. rewrite mbind_ok. specialize (Hwf bs Hb).
    destruct (elem bs) as [[[[v r]|e] s1] a1].
    + destruct Hwf as (Hr & Hc & Hdd & Hs1 & Ha1). rewrite mbind_ok.
      assert (Hf' : (length r < f)%nat) by (unfold zlen in *; lia).
      specialize (IH (loop_upd k st (zlen bs - zlen r)) r Hr Hf').
      destruct (gloop k elem f (loop_upd k st (zlen bs - zlen r)) r) as [[[[vs r']|e] s2] a2].
      * rewrite mbind_ok. cbn [fst snd mret]. destruct IH as (Hr' & Hc' & Hs2 & Ha2).
        assert (cs * (zlen bs - zlen r - d) <= Cs * (zlen bs - zlen r - d)) by nia.
        assert (ca * (zlen bs - zlen r - d) <= Ca * (zlen bs - zlen r - d)) by nia.
        repeat split; try assumption; try lia; nia.
      * rewrite mbind_err. cbn [fst snd]. destruct IH as (He & Hs2 & Ha2).
        pose proof (zlen_nonneg r).
        assert (cs * (zlen bs - zlen r - d) <= Cs * (zlen bs - zlen r - d)) by nia.
        assert (ca * (zlen bs - zlen r - d) <= Ca * (zlen bs - zlen r - d)) by nia.
        repeat split; try assumption; try lia; nia.
    + rewrite mbind_err. cbn [fst snd]. destruct Hwf as (He & Hs1 & Ha1).
      repeat split; try assumption; try lia; nia.
  - rewrite Z.sub_diag. repeat split; try assumption; lia.
  - apply loop_test_err in T. subst e. repeat split; try discriminate; try lia; nia.
Qed.

Lemma wf_run_loop {A} (k : loopkind) (elem : list Z -> PR A) d cs ks ca ka Cs Ca st :
  1 <= d -> 0 <= cs -> 0 <= ks -> 0 <= ca -> 0 <= ka ->
  cs <= Cs -> ca <= Ca -> cs * d + ks + 1 <= Cs * d -> ca * d + ka + 1 <= Ca * d ->
  wf d cs ks ca ka elem ->
  wf 0 Cs (ks + 1) Ca (ka + 1) (run_loop k elem st).
Proof.
  intros. intros bs Hb. unfold run_loop.
  pose proof (gloop_wf k elem d cs ks ca ka Cs Ca ltac:(assumption) ltac:(assumption)
                ltac:(assumption) ltac:(assumption) ltac:(assumption) ltac:(assumption)
                ltac:(assumption) ltac:(assumption) ltac:(assumption) ltac:(assumption)
                (S (length bs)) st bs Hb ltac:(lia)) as G.
  destruct (gloop k elem (S (length bs)) st bs) as [[[[vs r]|e] s] a].
  - destruct G as (? & ? & ? & ?). repeat split; try assumption; lia.
  - exact G.
Qed.

(* a Count loop that runs at least once consumes what its body consumes *)
Lemma wf_count_loop_pos {A} (elem : list Z -> PR A) d cs ks ca ka Cs Ca st :
  0 < st ->
  1 <= d -> 0 <= cs -> 0 <= ks -> 0 <= ca -> 0 <= ka ->
  cs <= Cs -> ca <= Ca -> cs * d + ks + 1 <= Cs * d -> ca * d + ka + 1 <= Ca * d ->
  wf d cs ks ca ka elem ->
  wf d Cs (ks + 1) Ca (ka + 1) (run_loop Count elem st).
Proof.
  intros Hst Hd Hcs Hks Hca Hka HCs HCa Hs Ha Hwf bs Hb.
  pose proof (wf_run_loop Count elem d cs ks ca ka Cs Ca st Hd Hcs Hks Hca Hka HCs HCa Hs Ha Hwf bs Hb) as G.
  destruct (run_loop Count elem st bs) as [[[[vs r]|e] s] a] eqn:E; [|exact G].
  destruct G as (G1 & G2 & _ & G4 & G5). repeat split; try assumption; try lia.
  (* the first round ran *)
  unfold run_loop in E. cbn [gloop loop_test] in E.
  replace (0 <? st) with true in E by (symmetry; apply Z.ltb_lt; exact Hst).
  unfold mtick in E. rewrite mbind_ok in E. pose proof (Hwf bs Hb) as H1.
  destruct (elem bs) as [[[[v r1]|e1] s1] a1].
  - destruct H1 as (Hr1 & Hc1 & Hd1 & _). rewrite mbind_ok in E.
    assert (Hf' : (length r1 < length bs)%nat) by (unfold zlen in *; lia).
    pose proof (gloop_wf Count elem d cs ks ca ka Cs Ca Hd Hcs Hks Hca Hka HCs HCa Hs Ha Hwf
                  (length bs) (loop_upd Count st (zlen bs - zlen r1)) r1 Hr1 Hf') as GG.
    destruct (gloop Count elem (length bs) (loop_upd Count st (zlen bs - zlen r1)) r1)
      as [[[[vs2 r2]|e2] s2] a2].
    + rewrite mbind_ok in E. cbn [fst snd mret] in E.
      assert (r = r2) by congruence. subst r2.
      destruct GG as (_ & GG & _). lia.
    + rewrite mbind_err in E. cbn [fst snd] in E. discriminate.
  - rewrite mbind_err in E. cbn [fst snd] in E. discriminate.
Qed.

(* ---- the same lemmas in the shape used by the derivations below ------------------- *)
(* slopes cs, ca are fixed by the goal; d, ks, ka are computed by unification *)
Lemma wf_relax {A} d cs ks ca ka d' ks' ka' (p : list Z -> PR A) :
  wf d cs ks ca ka p -> d' <= d -> ks <= ks' -> ka <= ka' -> wf d' cs ks' ca ka' p.
Proof. intros. eapply wf_weaken; eauto; lia. Qed.

Lemma wf_seq {A B} d1 d2 cs ks1 ks2 ca ka1 ka2 (p : list Z -> PR A) (q : A -> list Z -> PR B) :
  wf d1 cs ks1 ca ka1 p -> (forall v, wf d2 cs ks2 ca ka2 (q v)) ->
  0 <= cs -> 0 <= ca -> 0 <= ks2 -> 0 <= ka2 ->
  wf (d1 + d2) cs (ks1 + ks2) ca (ka1 + ka2) (fun bs => '(v, r) <~ p bs ;; q v r).
Proof. intros. apply wf_bind; assumption. Qed.

Lemma wf_get' n cs ca : 0 <= n -> 0 <= cs -> 1 <= ca -> wf n cs 1 ca 0 (p_get n).
Proof. intros. eapply wf_weaken; [apply wf_get; assumption|lia..]. Qed.
Lemma wf_fix' n cs ca : 0 <= cs -> 1 <= ca -> wf 0 cs 1 ca 0 (p_fix n).
Proof. intros. eapply wf_weaken; [apply wf_fix|lia..]. Qed.
Lemma wf_var' ll cs ca : 0 <= ll -> 0 <= cs -> 1 <= ca -> wf ll cs 2 ca 0 (p_var ll).
Proof. intros. eapply wf_weaken; [apply wf_var; assumption|lia..]. Qed.
Lemma wf_ret' {A} (v : A) cs ca : 0 <= cs -> 0 <= ca -> wf 0 cs 0 ca 0 (fun bs => mret (v, bs)).
Proof. intros. eapply wf_weaken; [apply wf_ret|lia..]. Qed.
Lemma wf_err' {A} e d cs ks ca ka : e <> OutOfFuel -> 0 <= cs -> 0 <= ks -> 0 <= ca -> 0 <= ka ->
  wf d cs ks ca ka (fun bs : list Z => @merr (A * list Z) e).
Proof.
  intros He ? ? ? ? bs Hb. unfold merr. pose proof (zlen_nonneg bs). repeat split; try assumption; nia.
Qed.

Lemma wf_loop {A} (k : loopkind) (elem : list Z -> PR A) d cs ks ca ka Cs Ca st :
  wf d cs ks ca ka elem ->
  1 <= d -> 0 <= cs -> 0 <= ks -> 0 <= ca -> 0 <= ka ->
  cs <= Cs -> ca <= Ca -> cs * d + ks + 1 <= Cs * d -> ca * d + ka + 1 <= Ca * d ->
  wf 0 Cs (ks + 1) Ca (ka + 1) (run_loop k elem st).
Proof. intros. apply (wf_run_loop k elem d cs ks ca ka Cs Ca st); assumption. Qed.

Lemma wf_lencheck {A} (elem : list Z -> PR A) d cs ks ca ka Cs Ca ll :
  wf d cs ks ca ka elem ->
  0 <= ll ->
  1 <= d -> 0 <= cs -> 0 <= ks -> 0 <= ca -> 0 <= ka ->
  cs <= Cs -> 1 <= Ca -> ca <= Ca -> cs * d + ks + 1 <= Cs * d -> ca * d + ka + 1 <= Ca * d ->
  wf ll Cs (ks + 2) Ca (ka + 1) (lencheck_loop elem ll).
Proof.
  intros. unfold lencheck_loop.
  eapply wf_relax;
    [eapply wf_seq; [apply (wf_get' ll Cs Ca); lia | intros L; apply (wf_loop LenCheck elem d cs ks ca ka Cs Ca L); assumption | lia..] | lia..].
Qed.

(* ---- whole-input parsers ----------------------------------------------------------- *)
(* top cs ks ca ka f (Model/C08_Work.v): f is linear_work cs ks and linear_alloc ca ka *)

Lemma top_weaken {A} cs ks ca ka cs' ks' ca' ka' (f : list Z -> M A) :
  top cs ks ca ka f -> cs <= cs' -> ks <= ks' -> ca <= ca' -> ka <= ka' -> top cs' ks' ca' ka' f.
Proof.
  intros H ? ? ? ? bs Hb. destruct (H bs Hb) as (? & ? & ?). pose proof (zlen_nonneg bs).
  repeat split; try assumption; try lia; nia.
Qed.

Lemma top_end {A} (v : A) cs ca : 0 <= cs -> 0 <= ca -> top cs 0 ca 0 (fun r => p_end v r).
Proof.
  intros ? ? bs Hb. pose proof (zlen_nonneg bs).
  destruct bs; cbn [p_end mret merr m_out m_steps m_alloc fst snd];
    repeat split; try discriminate; try lia; nia.
Qed.

Lemma top_ret {A} (v : A) cs ca : 0 <= cs -> 0 <= ca -> top cs 0 ca 0 (fun _ => mret v).
Proof.
  intros ? ? bs Hb. pose proof (zlen_nonneg bs).
  cbn [mret m_out m_steps m_alloc fst snd]. repeat split; try discriminate; try lia; nia.
Qed.

Lemma top_seq {A B} d cs ks1 ks2 ca ka1 ka2 (p : list Z -> PR A) (q : A -> list Z -> M B) :
  wf d cs ks1 ca ka1 p -> (forall v, top cs ks2 ca ka2 (q v)) ->
  0 <= cs -> 0 <= ca -> 0 <= ks2 -> 0 <= ka2 ->
  top cs (ks1 + ks2) ca (ka1 + ka2) (fun bs => '(v, r) <~ p bs ;; q v r).
Proof.
  intros Hp Hq Hcs Hca Hks Hka bs Hb. specialize (Hp bs Hb).
  destruct (p bs) as [[[[v r]|e] s] a].
  - destruct Hp as (Hr & Hc & Hd & Hs & Ha). rewrite mbind_ok.
    destruct (Hq v r Hr) as (Q1 & Q2 & Q3). unfold m_out, m_steps, m_alloc in *.
    destruct (q v r) as [[r2 s2] a2]. cbn [fst snd] in *. pose proof (zlen_nonneg r).
    repeat split; try assumption; try lia; nia.
  - rewrite mbind_err. destruct Hp as (? & ? & ?). unfold m_out, m_steps, m_alloc. cbn [fst snd].
    repeat split; try lia. congruence.
Qed.

Lemma top_map {A B} cs ks ca ka (f : list Z -> M A) (g : A -> B) :
  top cs ks ca ka f -> top cs ks ca ka (fun bs => v <~ f bs ;; mret (g v)).
Proof.
  intros H bs Hb. destruct (H bs Hb) as (H1 & H2 & H3). unfold m_out, m_steps, m_alloc in *.
  destruct (f bs) as [[[v|e] s] a]; cbn [fst snd] in *.
  - rewrite mbind_ok. cbn [mret fst snd]. repeat split; try discriminate; lia.
  - rewrite mbind_err. cbn [fst snd]. repeat split; try lia. congruence.
Qed.

Lemma top_nil_case {A} cs ks ca ka (v0 : A) (f : list Z -> M A) :
  0 <= ks -> 0 <= ka ->
  top cs ks ca ka f ->
  top cs ks ca ka (fun bs => match bs with [] => mret v0 | _ :: _ => f bs end).
Proof.
  intros ? ? H bs Hb. destruct bs as [|x l].
  - change (zlen (@nil Z)) with 0. cbn [mret m_out m_steps m_alloc fst snd].
    repeat split; try discriminate; lia.
  - apply H. exact Hb.
Qed.

Lemma top_loop_all {A} (elem : list Z -> PR A) d cs ks ca ka Cs Ca :
  wf d cs ks ca ka elem ->
  1 <= d -> 0 <= cs -> 0 <= ks -> 0 <= ca -> 0 <= ka ->
  cs <= Cs -> ca <= Ca -> cs * d + ks + 1 <= Cs * d -> ca * d + ka + 1 <= Ca * d ->
  top Cs (ks + 1) Ca (ka + 1) (loop_all elem).
Proof.
  intros. unfold loop_all.
  eapply top_weaken;
    [eapply top_seq; [apply (wf_loop UntilEmpty elem d cs ks ca ka Cs Ca 0); assumption | intros v; apply (top_ret v Cs Ca); lia | lia..] | lia..].
Qed.

(* ---- the extension parsers ---------------------------------------------------------- *)
Lemma sni_elem_wf : wf 3 0 3 1 0 sni_elem.
Proof.
  unfold sni_elem.
  eapply wf_relax;
    [eapply wf_seq;
       [apply (wf_get' 1 0 1); lia
       |intros t; eapply wf_seq;
          [apply (wf_var' 2 0 1); lia | intros nm; apply (wf_ret' (t, nm) 0 1); lia | lia..]
       |lia..]
    |lia..].
Qed.

Ltac wf_prim :=
  lazymatch goal with
  | |- wf _ ?cs _ ?ca _ (p_get ?n) => apply (wf_get' n cs ca); lia
  | |- wf _ ?cs _ ?ca _ (p_var ?n) => apply (wf_var' n cs ca); lia
  | |- wf _ ?cs _ ?ca _ (p_fix ?n) => apply (wf_fix' n cs ca); lia
  | |- wf _ ?cs _ ?ca _ (fun r => mret (?v, r)) => apply (wf_ret' v cs ca); lia
  end.

Lemma parse_sni_top : top 2 5 2 1 parse_sni.
Proof.
  unfold parse_sni. apply top_nil_case; [lia|lia|].
  eapply top_weaken;
    [eapply top_seq;
       [apply (wf_lencheck sni_elem 3 0 3 1 0 2 2 2 sni_elem_wf); lia
       |intros v; apply (top_end (Some v) 2 2); lia | lia..]
    |lia..].
Qed.

Lemma alpn_elem_wf : wf 1 0 2 1 0 alpn_elem.
Proof.
  unfold alpn_elem.
  eapply wf_relax; [eapply wf_seq; [wf_prim | intros n; wf_prim | lia..] | lia..].
Qed.

Lemma parse_alpn_top : top 3 4 2 1 parse_alpn.
Proof.
  unfold parse_alpn.
  eapply top_weaken;
    [eapply top_seq;
       [apply (wf_lencheck alpn_elem 1 0 2 1 0 3 2 2 alpn_elem_wf); lia
       |intros v; apply (top_end v 3 2); lia | lia..]
    |lia..].
Qed.

Lemma parse_npn_top : top 3 3 2 1 parse_npn.
Proof.
  unfold parse_npn.
  apply (top_loop_all (p_var 1) 1 0 2 1 0 3 2); try lia. apply wf_var. lia.
Qed.

Lemma key_share_elem_wf : wf 4 0 3 1 0 key_share_elem.
Proof.
  unfold key_share_elem.
  eapply wf_relax;
    [eapply wf_seq;
       [wf_prim | intros t; eapply wf_seq; [wf_prim | intros nm; apply (wf_ret' (t, nm) 0 1); lia | lia..] | lia..]
    |lia..].
Qed.

Lemma parse_key_shares_top : top 1 5 2 1 parse_key_shares.
Proof.
  unfold parse_key_shares. apply top_nil_case; [lia|lia|].
  eapply top_weaken;
    [eapply top_seq;
       [apply (wf_lencheck key_share_elem 4 0 3 1 0 1 2 2 key_share_elem_wf); lia
       |intros v; apply (top_end (Some v) 1 2); lia | lia..]
    |lia..].
Qed.

Lemma psk_identity_elem_wf : wf 6 0 3 1 0 psk_identity_elem.
Proof.
  unfold psk_identity_elem.
  eapply wf_relax;
    [eapply wf_seq;
       [wf_prim | intros t; eapply wf_seq; [wf_prim | intros nm; apply (wf_ret' (nm, t) 0 1); lia | lia..] | lia..]
    |lia..].
Qed.

Lemma parse_psk_top : top 3 9 2 2 parse_psk.
Proof.
  unfold parse_psk. apply top_nil_case; [lia|lia|].
  eapply top_weaken;
    [eapply top_seq;
       [apply (wf_lencheck psk_identity_elem 6 0 3 1 0 3 2 2 psk_identity_elem_wf); lia
       |intros ids; eapply top_seq;
          [apply (wf_lencheck (p_var 1) 1 0 2 1 0 3 2 2 (wf_var 1 ltac:(lia))); lia
          |intros bnd; apply (top_end (Some (ids, bnd)) 3 2); lia | lia..]
       |lia..]
    |lia..].
Qed.

Lemma parse_status_request_top : top 2 7 2 1 parse_status_request.
Proof.
  unfold parse_status_request. apply top_nil_case; [lia|lia|].
  eapply top_weaken;
    [eapply top_seq;
       [apply (wf_get' 1 2 2); lia
       |intros ty; eapply top_seq;
          [apply (wf_lencheck (p_var 2) 2 0 2 1 0 2 2 2 (wf_var 2 ltac:(lia))); lia
          |intros ids; eapply top_seq;
             [apply (wf_var' 2 2 2); lia
             |intros ext; apply (top_end (Some (ty, ids, ext)) 2 2); lia | lia..]
          |lia..]
       |lia..]
    |lia..].
Qed.

(* ---- sub-parsers run on a copied payload (Parser(p.getVarBytes(ll))) ---------------- *)
Lemma wf_var_sub {B C} ll (sub : list Z -> M B) (g : B -> C) ch kh cah kah :
  0 <= ll -> 0 <= ch -> 0 <= kh -> 0 <= cah -> 0 <= kah ->
  top ch kh cah kah sub ->
  wf ll ch (kh + 2) (cah + 1) kah
     (fun bs => '(pl, r) <~ p_var ll bs ;; v <~ sub pl ;; mret (g v, r)).
Proof.
  intros Hl Hch Hkh Hcah Hkah Hsub bs Hb. pose proof (p_var_spec ll bs Hb Hl) as S.
  pose proof (zlen_nonneg bs) as Hn.
  destruct (p_var ll bs) as [[[[pl r]|e] s] a].
  - destruct S as (Hpl & Hr & Hc & _ & -> & ->). rewrite mbind_ok.
    destruct (Hsub pl Hpl) as (S1 & S2 & S3). unfold m_out, m_steps, m_alloc in *.
    pose proof (zlen_nonneg pl). pose proof (zlen_nonneg r).
    destruct (sub pl) as [[[v|e] s2] a2]; cbn [fst snd] in *.
    + rewrite mbind_ok. cbn [mret fst snd]. repeat split; try assumption; try lia; nia.
    + rewrite mbind_err. cbn [fst snd]. repeat split; try lia; try nia. congruence.
  - rewrite mbind_err. destruct S as (-> & ? & ? & ?). repeat split; try discriminate; try lia; nia.
Qed.

Lemma top_var_sub {B C} ll (sub : list Z -> M B) (fin : B -> list Z -> M C) ch kh cah kah :
  0 <= ll -> 0 <= ch -> 0 <= kh -> 0 <= cah -> 0 <= kah ->
  top ch kh cah kah sub ->
  (forall v r, m_out (fin v r) <> Err OutOfFuel /\ m_steps (fin v r) = 0 /\ m_alloc (fin v r) = 0) ->
  top ch (kh + 2) (cah + 1) kah (fun bs => '(pl, r) <~ p_var ll bs ;; v <~ sub pl ;; fin v r).
Proof.
  intros Hl Hch Hkh Hcah Hkah Hsub Hfin bs Hb. pose proof (p_var_spec ll bs Hb Hl) as S.
  pose proof (zlen_nonneg bs) as Hn.
  destruct (p_var ll bs) as [[[[pl r]|e] s] a].
  - destruct S as (Hpl & Hr & Hc & _ & -> & ->). rewrite mbind_ok.
    destruct (Hsub pl Hpl) as (S1 & S2 & S3). unfold m_out, m_steps, m_alloc in *.
    pose proof (zlen_nonneg pl). pose proof (zlen_nonneg r).
    destruct (sub pl) as [[[v|e] s2] a2]; cbn [fst snd] in *.
    + rewrite mbind_ok. destruct (Hfin v r) as (F1 & F2 & F3).
      destruct (fin v r) as [[r3 s3] a3]. cbn [fst snd] in *. subst s3 a3.
      repeat split; try assumption; try lia; nia.
    + rewrite mbind_err. cbn [fst snd]. repeat split; try lia; try nia. congruence.
  - rewrite mbind_err. unfold m_out, m_steps, m_alloc. cbn [fst snd].
    destruct S as (-> & ? & ? & ?). repeat split; try discriminate; try lia; nia.
Qed.

(* ---- generic extension lists ----------------------------------------------------------- *)
Lemma ext_elem_wf {B} (h : Z -> list Z -> M B) ch kh cah kah :
  0 <= ch -> 0 <= kh -> 0 <= cah -> 0 <= kah ->
  (forall t, top ch kh cah kah (h t)) ->
  wf 4 ch (kh + 3) (cah + 1) kah (ext_elem h).
Proof.
  intros. unfold ext_elem.
  eapply wf_relax;
    [eapply wf_seq;
       [apply (wf_get' 2 ch (cah + 1)); lia
       |intros t; apply (wf_var_sub 2 (h t) (fun v => (t, v)) ch kh cah kah); auto; lia
       |lia..]
    |lia..].
Qed.

Lemma h_raw_top t : top 0 0 0 0 (h_raw t).
Proof. intros bs Hb. unfold h_raw. cbn [mret m_out m_steps m_alloc fst snd]. repeat split; try discriminate; lia. Qed.

Lemma ext_elem_raw_wf : wf 4 0 3 1 0 (ext_elem h_raw).
Proof. apply (ext_elem_wf h_raw 0 0 0 0); try lia. exact h_raw_top. Qed.

Lemma parse_ext_list_top : top 1 4 2 1 parse_ext_list.
Proof.
  unfold parse_ext_list, parse_ext_list_with.
  apply (top_loop_all (ext_elem h_raw) 4 0 3 1 0 1 2 ext_elem_raw_wf); lia.
Qed.

(* any family of type-specific parsers that are linear on their payload *)
Lemma parse_ext_list_with_top {B} (h : Z -> list Z -> M B) ch kh cah kah Cs Ca :
  0 <= ch -> 0 <= kh -> 0 <= cah -> 0 <= kah ->
  (forall t, top ch kh cah kah (h t)) ->
  ch <= Cs -> cah + 1 <= Ca -> ch * 4 + (kh + 3) + 1 <= Cs * 4 -> (cah + 1) * 4 + kah + 1 <= Ca * 4 ->
  top Cs (kh + 4) Ca (kah + 1) (parse_ext_list_with h).
Proof.
  intros. unfold parse_ext_list_with.
  eapply top_weaken;
    [apply (top_loop_all (ext_elem h) 4 ch (kh + 3) (cah + 1) kah Cs Ca); try lia;
     apply ext_elem_wf; assumption
    |lia..].
Qed.

Lemma h_client_hello_top t : top 3 9 2 2 (h_client_hello t).
Proof.
  unfold h_client_hello.
  destruct (t =? 0); [eapply top_weaken; [apply top_map; apply parse_sni_top|lia..]|].
  destruct (t =? 16); [eapply top_weaken; [apply top_map; apply parse_alpn_top|lia..]|].
  destruct (t =? 13172); [eapply top_weaken; [apply top_map; apply parse_npn_top|lia..]|].
  destruct (t =? 51); [eapply top_weaken; [apply top_map; apply parse_key_shares_top|lia..]|].
  destruct (t =? 41); [eapply top_weaken; [apply top_map; apply parse_psk_top|lia..]|].
  destruct (t =? 5); [eapply top_weaken; [apply top_map; apply parse_status_request_top|lia..]|].
  intros bs Hb. pose proof (zlen_nonneg bs).
  cbn [mret m_out m_steps m_alloc fst snd]. repeat split; try discriminate; lia.
Qed.

(* number of elements returned by a loop whose body consumes >= d bytes *)
Lemma gloop_count {A} (k : loopkind) (elem : list Z -> PR A) d cs ks ca ka :
  1 <= d -> wf d cs ks ca ka elem ->
  forall fuel st bs vs rest s a, bytes_ok bs ->
    gloop k elem fuel st bs = (Ok (vs, rest), s, a) ->
    bytes_ok rest /\ 0 <= d * zlen vs <= zlen bs - zlen rest.
Proof.
  intros Hd Hwf. induction fuel as [|f IH]; intros st bs vs rest s a Hb E; cbn [gloop] in E.
  - destruct (loop_test k st bs) as [[|]|e]; try discriminate.
    injection E as <- <- _ _. change (zlen (@nil A)) with 0. split; [assumption|lia].
  - destruct (loop_test k st bs) as [[|]|e]; try discriminate.
    + unfold mtick in E. rewrite mbind_ok in E. specialize (Hwf bs Hb).
      destruct (elem bs) as [[[[v r]|e] s1] a1]; [|rewrite mbind_err in E; discriminate].
      destruct Hwf as (Hr & Hc & Hdd & _). rewrite mbind_ok in E.
      destruct (gloop k elem f (loop_upd k st (zlen bs - zlen r)) r) as [[[[vs2 r2]|e] s2] a2] eqn:G;
        [|rewrite mbind_err in E; discriminate].
      rewrite mbind_ok in E. cbn [mret fst snd] in E.
      destruct (IH _ _ _ _ _ _ Hr G) as (Hr2 & Hcnt).
      assert (vs = v :: vs2 /\ rest = r2) as [-> ->] by (split; congruence).
      rewrite zlen_cons. split; [assumption|]. pose proof (zlen_nonneg vs2). nia.
    + injection E as <- <- _ _. change (zlen (@nil A)) with 0. split; [assumption|lia].
Qed.

Lemma loop_all_count {A} (elem : list Z -> PR A) d cs ks ca ka bs vs :
  1 <= d -> wf d cs ks ca ka elem -> bytes_ok bs ->
  m_out (loop_all elem bs) = Ok vs -> 0 <= d * zlen vs <= zlen bs.
Proof.
  intros Hd Hwf Hb. unfold loop_all, run_loop.
  destruct (gloop UntilEmpty elem (S (length bs)) 0 bs) as [[[[ws r]|e] s] a] eqn:G.
  - rewrite mbind_ok. cbn [mret m_out fst snd]. intros H. injection H as <-.
    destruct (gloop_count UntilEmpty elem d cs ks ca ka Hd Hwf _ _ _ _ _ _ _ Hb G) as (_ & Hc).
    pose proof (zlen_nonneg r). lia.
  - rewrite mbind_err. cbn [m_out fst snd]. discriminate.
Qed.

(* the duplicate test of ClientHello.parse: one step and one cell per parsed extension *)
Lemma reject_duplicates_cost {B} (exts : list (Z * B)) :
  m_out (reject_duplicates exts) <> Err OutOfFuel /\
  m_steps (reject_duplicates exts) = zlen exts /\ m_alloc (reject_duplicates exts) = zlen exts.
Proof.
  unfold reject_duplicates, mtick. rewrite mbind_ok.
  destruct (has_dup (map fst exts)); cbn [mret merr m_out m_steps m_alloc fst snd];
    repeat split; try discriminate; lia.
Qed.

(* an extension loop followed by the duplicate test: one more step / cell per 4 input bytes *)
Lemma ext_list_nodup_top {B} (h : Z -> list Z -> M B) ch kh cah kah Cs Ca :
  0 <= ch -> 0 <= kh -> 0 <= cah -> 0 <= kah ->
  (forall t, top ch kh cah kah (h t)) ->
  ch <= Cs -> cah + 1 <= Ca -> ch * 4 + (kh + 3) + 1 <= Cs * 4 -> (cah + 1) * 4 + kah + 1 <= Ca * 4 ->
  top (Cs + 1) (kh + 4) (Ca + 1) (kah + 1)
      (fun bs => exts <~ parse_ext_list_with h bs ;; reject_duplicates exts).
Proof.
  intros H1 H2 H3 H4 Hh H5 H6 H7 H8 bs Hb. pose proof (zlen_nonneg bs).
  destruct (parse_ext_list_with_top h ch kh cah kah Cs Ca H1 H2 H3 H4 Hh H5 H6 H7 H8 bs Hb) as (P1 & P2 & P3).
  pose proof (loop_all_count (ext_elem h) 4 ch (kh + 3) (cah + 1) kah bs) as C.
  unfold parse_ext_list_with in *. unfold m_out, m_steps, m_alloc in *.
  destruct (loop_all (ext_elem h) bs) as [[[exts|e] s] a]; cbn [fst snd] in *.
  - rewrite mbind_ok.
    specialize (C exts ltac:(lia) (ext_elem_wf h ch kh cah kah H1 H2 H3 H4 Hh) Hb eq_refl).
    destruct (reject_duplicates_cost exts) as (R1 & R2 & R3). unfold m_out, m_steps, m_alloc in *.
    rewrite R2, R3. cbn [fst snd]. repeat split; try assumption; lia.
  - rewrite mbind_err. cbn [fst snd]. repeat split; try lia. congruence.
Qed.

Lemma parse_client_hello_exts_top : top 8 13 5 3 parse_client_hello_exts.
Proof.
  unfold parse_client_hello_exts.
  apply (ext_list_nodup_top h_client_hello 3 9 2 2 7 4); try lia. exact h_client_hello_top.
Qed.

Lemma parse_ext_list_nodup_top : top 2 4 3 1 parse_ext_list_nodup.
Proof.
  unfold parse_ext_list_nodup, parse_ext_list.
  apply (ext_list_nodup_top h_raw 0 0 0 0 1 2); try lia. exact h_raw_top.
Qed.

(* ---- certificate lists ------------------------------------------------------------------ *)
Section CertProofs.
  Variable cert_chk : list Z -> option exn.
  (* the oracle never yields the model-internal fuel marker *)
  Hypothesis cert_chk_sane : forall c, cert_chk c <> Some OutOfFuel.

  Lemma cert_entry_tail_wf c :
    wf 2 1 5 2 1 (fun r1 => match cert_chk c with
                            | None => '(exts, r2) <~ lencheck_loop (ext_elem h_raw) 2 r1 ;; mret ((c, exts), r2)
                            | Some e => merr e
                            end).
  Proof.
    destruct (cert_chk c) as [e|] eqn:E.
    - apply wf_err'; try lia. intros ->. exact (cert_chk_sane c E).
    - eapply wf_relax;
        [eapply wf_seq;
           [apply (wf_lencheck (ext_elem h_raw) 4 0 3 1 0 1 2 2 ext_elem_raw_wf); lia
           |intros exts; apply (wf_ret' (c, exts) 1 2); lia | lia..]
        |lia..].
  Qed.

  Lemma cert_entry_wf : wf 5 1 7 2 1 (cert_entry cert_chk).
  Proof.
    unfold cert_entry.
    eapply wf_relax;
      [eapply wf_seq; [apply (wf_var' 3 1 2); lia | intros c; apply cert_entry_tail_wf | lia..] | lia..].
  Qed.

  Lemma cert_entries_top : top 3 8 3 2 (loop_all (cert_entry cert_chk)).
  Proof. apply (top_loop_all (cert_entry cert_chk) 5 1 7 2 1 3 3 cert_entry_wf); lia. Qed.

  Lemma fin_check_free {A} (c : bool) (v : A) :
    m_out (if c then mret v else merr DecodeError) <> Err OutOfFuel /\
    m_steps (if c then mret v else @merr A DecodeError) = 0 /\
    m_alloc (if c then mret v else @merr A DecodeError) = 0.
  Proof. destruct c; cbn; repeat split; discriminate. Qed.

  (* the stopLengthCheck test compares against the position where the check started;
     n0 stands for the number of bytes that remained at that point *)
  Lemma parse_cert_list_body_top n0 L :
    top 3 12 4 2
      (fun r0 => '(ctx, r1) <~ p_var 1 r0 ;;
                 '(lst, r2) <~ p_var 3 r1 ;;
                 es <~ loop_all (cert_entry cert_chk) lst ;;
                 if n0 - zlen r2 =? L then mret (ctx, es) else merr DecodeError).
  Proof.
    eapply top_weaken;
      [eapply top_seq;
         [apply (wf_var' 1 3 4); lia
         |intros ctx;
          apply (top_var_sub 3 (loop_all (cert_entry cert_chk))
                   (fun es r2 => if n0 - zlen r2 =? L then mret (ctx, es) else merr DecodeError)
                   3 8 3 2); try lia; [exact cert_entries_top | intros; apply fin_check_free]
         |lia..]
      |lia..].
  Qed.

  Lemma parse_cert_list_top : top 3 13 4 2 (parse_cert_list cert_chk).
  Proof.
    unfold parse_cert_list.
    eapply top_weaken;
      [eapply top_seq;
         [apply (wf_get' 3 3 4); lia
         |intros L r0 Hr0; exact (parse_cert_list_body_top (zlen r0) L r0 Hr0)
         |lia..]
      |lia..].
  Qed.

  (* TLS 1.2 list: while index != chainLength *)
  Lemma cert12_elem_wf : wf 3 0 2 1 0 (cert12_elem cert_chk).
  Proof.
    intros bs Hb. unfold cert12_elem. pose proof (p_var_spec 3 bs Hb ltac:(lia)) as S.
    pose proof (zlen_nonneg bs).
    destruct (p_var 3 bs) as [[[[c r]|e] s] a].
    - destruct S as (Hc & Hr & Hl & _ & -> & ->). rewrite mbind_ok. pose proof (zlen_nonneg c). pose proof (zlen_nonneg r).
      destruct c as [|x c'].
      + cbn [merr fst snd]. repeat split; try discriminate; lia.
      + destruct (cert_chk (x :: c')) as [e|] eqn:E.
        * cbn [merr fst snd]. repeat split; try lia.
          destruct (is_syntax_error e); [discriminate|]. intros ->. exact (cert_chk_sane _ E).
        * cbn [mret fst snd]. repeat split; try assumption; lia.
    - rewrite mbind_err. destruct S as (-> & ? & ? & ?). repeat split; try discriminate; lia.
  Qed.

  Lemma top_fin_check {A} (v : A) n0 L cs ca : 0 <= cs -> 0 <= ca ->
    top cs 0 ca 0 (fun r2 => if n0 - zlen r2 =? L then mret v else merr DecodeError).
  Proof.
    intros ? ? r2 Hr2. pose proof (zlen_nonneg r2).
    destruct (fin_check_free (n0 - zlen r2 =? L) v) as (F1 & F2 & F3).
    rewrite F2, F3. repeat split; try assumption; try lia; nia.
  Qed.

  Lemma parse_cert_list12_body_top n0 L :
    top 1 4 2 1
      (fun r0 => '(total, r1) <~ p_get 3 r0 ;;
                 '(cs, r2) <~ run_loop IndexNe (cert12_elem cert_chk) total r1 ;;
                 if n0 - zlen r2 =? L then mret cs else merr DecodeError).
  Proof.
    eapply top_weaken;
      [eapply top_seq;
         [apply (wf_get' 3 1 2); lia
         |intros total; eapply top_seq;
            [apply (wf_loop IndexNe (cert12_elem cert_chk) 3 0 2 1 0 1 2 total cert12_elem_wf); lia
            |intros cs; apply (top_fin_check cs n0 L 1 2); lia
            |lia..]
         |lia..]
      |lia..].
  Qed.

  Lemma parse_cert_list12_top : top 1 5 2 1 (parse_cert_list12 cert_chk).
  Proof.
    unfold parse_cert_list12.
    eapply top_weaken;
      [eapply top_seq;
         [apply (wf_get' 3 1 2); lia
         |intros L r0 Hr0; exact (parse_cert_list12_body_top (zlen r0) L r0 Hr0)
         |lia..]
      |lia..].
  Qed.
End CertProofs.

(* ---- lists of integers ------------------------------------------------------------------ *)
Lemma wf_get_then {B} n d2 cs ks2 ca ka2 (q : Z -> list Z -> PR B) :
  0 <= n -> 0 <= cs -> 1 <= ca -> 0 <= ks2 -> 0 <= ka2 ->
  (forall v, 0 <= v < 256 ^ n -> wf d2 cs ks2 ca ka2 (q v)) ->
  wf (n + d2) cs (1 + ks2) ca ka2 (fun bs => '(v, r) <~ p_get n bs ;; q v r).
Proof.
  intros Hn Hcs Hca Hks Hka Hq bs Hb. pose proof (p_get_spec n bs Hb Hn) as S.
  pose proof (zlen_nonneg bs).
  destruct (p_get n bs) as [[[[v r]|e] s] a].
  - destruct S as (Hr & Hc & Hv & -> & ->). rewrite mbind_ok. specialize (Hq v Hv r Hr).
    pose proof (zlen_nonneg r).
    destruct (q v r) as [[[[w rest]|e] s2] a2]; cbn [fst snd].
    + destruct Hq as (? & ? & ? & ? & ?). repeat split; try assumption; try lia; nia.
    + destruct Hq as (? & ? & ?). repeat split; try assumption; try lia; nia.
  - rewrite mbind_err. destruct S as (-> & -> & -> & ?). repeat split; try discriminate; try lia; nia.
Qed.

Lemma p_fix_list_wf len cnt : 1 <= len -> wf 0 2 3 2 (Z.max 0 cnt + 1) (p_fix_list len cnt).
Proof.
  intros Hl bs Hb. unfold p_fix_list, mtick. rewrite mbind_ok.
  pose proof (wf_loop Count (p_get len) len 0 1 1 0 2 2 cnt (wf_get len ltac:(lia))
                ltac:(lia) ltac:(lia) ltac:(lia) ltac:(lia) ltac:(lia) ltac:(lia) ltac:(lia)
                ltac:(lia) ltac:(lia) bs Hb) as G.
  destruct (run_loop Count (p_get len) cnt bs) as [[[[vs r]|e] s] a]; cbn [fst snd].
  - destruct G as (? & ? & ? & ? & ?). repeat split; try assumption; lia.
  - destruct G as (? & ? & ?). repeat split; try assumption; lia.
Qed.

Lemma div_le_self n len : 0 <= n -> 1 <= len -> 0 <= n / len <= n.
Proof.
  intros. split; [apply Z.div_pos; lia|]. apply Z.div_le_upper_bound; [lia|nia].
Qed.

(* getVarList: the [0]*n pre-allocation is bounded by the range of the length field only *)
Lemma parse_var_list_wf len ll : 1 <= len -> 0 <= ll ->
  wf ll 2 4 2 (256 ^ ll) (parse_var_list len ll).
Proof.
  intros Hlen Hll. unfold parse_var_list.
  assert (Hp : 0 < 256 ^ ll) by (apply Z.pow_pos_nonneg; lia).
  eapply wf_relax;
    [apply (wf_get_then ll 0 2 3 2 (256 ^ ll)); try lia;
     intros n Hn; replace (len =? 0) with false by (symmetry; apply Z.eqb_neq; lia);
     destruct (n mod len =? 0);
       [eapply wf_relax; [apply (p_fix_list_wf len (n / len) Hlen)| |lia|];
        [lia | pose proof (div_le_self n len ltac:(lia) Hlen); lia]
       |apply wf_err'; try lia; discriminate]
    |lia..].
Qed.

Lemma tuple_inner_wf el en : 1 <= el -> 0 < en -> wf el 2 2 2 1 (run_loop Count (p_get el) en).
Proof.
  intros. apply (wf_count_loop_pos (p_get el) el 0 1 1 0 2 2 en); try lia. apply wf_get. lia.
Qed.

Lemma parse_var_tuple_list_wf el en ll : 1 <= el -> 1 <= en -> 0 <= ll ->
  wf ll 5 4 4 2 (parse_var_tuple_list el en ll).
Proof.
  intros Hel Hen Hll. unfold parse_var_tuple_list.
  eapply wf_relax;
    [apply (wf_get_then ll 0 5 3 4 2); try lia;
     intros n Hn; replace (el * en =? 0) with false by (symmetry; apply Z.eqb_neq; nia);
     destruct (n mod (el * en) =? 0);
       [apply (wf_loop Count (run_loop Count (p_get el) en) el 2 2 2 1 5 4 (n / (el * en))
                 (tuple_inner_wf el en Hel ltac:(lia))); lia
       |apply wf_err'; try lia; discriminate]
    |lia..].
Qed.

(* CertificateRequest (TLS 1.2): certificate_authorities, while index != total *)
Lemma parse_ca_list_wf : wf 2 2 4 2 1 parse_ca_list.
Proof.
  unfold parse_ca_list.
  eapply wf_relax;
    [eapply wf_seq;
       [apply (wf_get' 2 2 2); lia
       |intros total; apply (wf_loop IndexNe (p_var 2) 2 0 2 1 0 2 2 total (wf_var 2 ltac:(lia))); lia
       |lia..]
    |lia..].
Qed.

Lemma top_fin_check' {A} (v : A) n0 L cs ca : 0 <= cs -> 0 <= ca ->
  top cs 0 ca 0 (fun r2 => if n0 - zlen r2 =? L then mret v else merr DecodeError).
Proof.
  intros ? ? r2 Hr2. pose proof (zlen_nonneg r2).
  destruct (n0 - zlen r2 =? L); cbn [mret merr m_out m_steps m_alloc fst snd];
    repeat split; try discriminate; try lia; nia.
Qed.

Lemma parse_cert_request12_body_top (tls12 : bool) n0 L :
  top 5 12 4 259
    (fun r0 => '(tys, r1) <~ parse_var_list 1 1 r0 ;;
               '(sigs, r2) <~ (if tls12 then parse_var_tuple_list 1 2 2 r1 else mret ([], r1)) ;;
               '(cas, r3) <~ parse_ca_list r2 ;;
               if n0 - zlen r3 =? L then mret (tys, sigs, cas) else merr DecodeError).
Proof.
  apply (top_seq 1 5 4 8 4 256 3); try lia.
  - eapply wf_weaken; [apply (parse_var_list_wf 1 1); lia | change (256 ^ 1) with 256; lia..].
  - intros tys.
    apply (top_seq 0 5 4 4 4 2 1
             (fun r1 => if tls12 then parse_var_tuple_list 1 2 2 r1 else mret ([], r1))); try lia.
    + destruct tls12.
      * eapply wf_weaken; [apply (parse_var_tuple_list_wf 1 2 2); lia | lia..].
      * eapply wf_weaken; [apply (wf_ret' (@nil (list Z)) 5 4); lia | lia..].
    + intros sigs. apply (top_seq 2 5 4 0 4 1 0); try lia.
      * eapply wf_weaken; [apply parse_ca_list_wf | lia..].
      * intros cas. apply (top_fin_check' (tys, sigs, cas) n0 L 5 4); lia.
Qed.

Lemma parse_cert_request12_top tls12 : top 5 13 4 259 (parse_cert_request12 tls12).
Proof.
  unfold parse_cert_request12.
  eapply top_weaken;
    [eapply top_seq;
       [apply (wf_get' 3 5 4); lia
       |intros L r0 Hr0; exact (parse_cert_request12_body_top tls12 (zlen r0) L r0 Hr0)
       |lia..]
    |lia..].
Qed.

(* ---- CompressedCertificate ---------------------------------------------------------------- *)
Section DecompressProofs.
  Variable dec : list Z -> Z -> res (list Z * bool).
  Variable algo_ok : Z -> bool.
  (* THE ASSUMED CONTRACT of the decompressor: it never produces more than the limit *)
  Hypothesis dec_bounded :
    forall d lim out clean, 0 <= lim -> dec d lim = Ok (out, clean) -> zlen out <= lim.

  (* without any assumption: what is returned has exactly the declared length and the
     decompressor stopped cleanly; every other outcome is BadCertificateError; one step *)
  Lemma decompress_cert_result data expected :
    m_steps (decompress_cert dec data expected) = 1 /\
    match m_out (decompress_cert dec data expected) with
    | Ok out => zlen out = expected /\ dec data (expected + 1) = Ok (out, true)
    | Err e => e = BadCertificateErr
    end.
  Proof.
    unfold decompress_cert. destruct (dec data (expected + 1)) as [[out clean]|e]; [|split; reflexivity].
    destruct clean; cbn [andb]; [|split; reflexivity].
    destruct (zlen out =? expected) eqn:E; cbn [m_steps m_out fst snd]; split; try reflexivity.
    split; [lia|reflexivity].
  Qed.

  (* with the contract: what exists in memory, even transiently and on the rejecting path, is
     bounded by the limit handed to the decompressor = declared length + 1 *)
  Lemma decompress_cert_alloc data expected : 0 <= expected ->
    0 <= m_alloc (decompress_cert dec data expected) <= expected + 1.
  Proof.
    intros He. unfold decompress_cert. destruct (dec data (expected + 1)) as [[out clean]|e] eqn:D.
    - pose proof (dec_bounded data (expected + 1) out clean ltac:(lia) D). pose proof (zlen_nonneg out).
      destruct (clean && (zlen out =? expected)); cbn [m_alloc snd]; lia.
    - cbn [m_alloc snd]. lia.
  Qed.

  Lemma parse_compressed_cert_bound bs : bytes_ok bs ->
    m_out (parse_compressed_cert dec algo_ok bs) <> Err OutOfFuel /\
    0 <= m_steps (parse_compressed_cert dec algo_ok bs) <= 6 /\
    0 <= m_alloc (parse_compressed_cert dec algo_ok bs) <= zlen bs + 16777216 /\
    (forall algo expected out,
        m_out (parse_compressed_cert dec algo_ok bs) = Ok (algo, expected, out) ->
        zlen out = expected /\ 0 <= expected <= 16777215).
  Proof.
    intros Hb. unfold parse_compressed_cert. pose proof (zlen_nonneg bs).
    pose proof (p_get_spec 3 bs Hb ltac:(lia)) as S0.
    destruct (p_get 3 bs) as [[[[L r0]|e] s0] a0];
      [|rewrite mbind_err; destruct S0 as (-> & -> & -> & ?); cbn [m_out m_steps m_alloc fst snd];
        repeat split; try discriminate; try lia].
    destruct S0 as (Hr0 & Hc0 & _ & -> & ->). rewrite mbind_ok.
    pose proof (p_get_spec 2 r0 Hr0 ltac:(lia)) as S1.
    destruct (p_get 2 r0) as [[[[algo r1]|e] s1] a1];
      [|rewrite mbind_err; destruct S1 as (-> & -> & -> & ?); cbn [m_out m_steps m_alloc fst snd];
        repeat split; try discriminate; try lia].
    destruct S1 as (Hr1 & Hc1 & _ & -> & ->). rewrite mbind_ok.
    pose proof (p_get_spec 3 r1 Hr1 ltac:(lia)) as S2.
    destruct (p_get 3 r1) as [[[[expected r2]|e] s2] a2];
      [|rewrite mbind_err; destruct S2 as (-> & -> & -> & ?); cbn [m_out m_steps m_alloc fst snd];
        repeat split; try discriminate; try lia].
    destruct S2 as (Hr2 & Hc2 & Hexp & -> & ->). rewrite mbind_ok. change (256 ^ 3) with 16777216 in Hexp.
    pose proof (p_var_spec 3 r2 Hr2 ltac:(lia)) as S3.
    destruct (p_var 3 r2) as [[[[comp r3]|e] s3] a3];
      [|rewrite mbind_err; destruct S3 as (-> & ? & ? & ?); pose proof (zlen_nonneg r2);
        cbn [m_out m_steps m_alloc fst snd]; repeat split; try discriminate; try lia].
    destruct S3 as (Hcomp & Hr3 & Hc3 & _ & -> & ->). rewrite mbind_ok.
    pose proof (zlen_nonneg comp). pose proof (zlen_nonneg r3).
    destruct comp as [|x comp'];
      [cbn [merr m_out m_steps m_alloc fst snd]; repeat split; try discriminate; try lia|].
    destruct (zlen r0 - zlen r3 =? L);
      [|cbn [merr m_out m_steps m_alloc fst snd]; repeat split; try discriminate; try lia].
    destruct (algo_ok algo);
      [|cbn [merr m_out m_steps m_alloc fst snd]; repeat split; try discriminate; try lia].
    destruct (decompress_cert_result (x :: comp') expected) as (D1 & D2).
    pose proof (decompress_cert_alloc (x :: comp') expected ltac:(lia)) as D3.
    unfold m_out, m_steps, m_alloc in *.
    destruct (decompress_cert dec (x :: comp') expected) as [[[out|e] sd] ad]; cbn [fst snd] in *.
    - rewrite mbind_ok. cbn [mret fst snd]. destruct D2 as (D2 & _).
      split; [discriminate|]. split; [lia|]. split; [lia|].
      intros ? ? ? Q. injection Q as <- <- <-. split; [exact D2|lia].
    - rewrite mbind_err. cbn [fst snd]. subst e.
      repeat split; try discriminate; lia.
  Qed.
End DecompressProofs.

(* the contract is satisfiable ... *)
Lemma rle_dec_limited_bounded :
  forall d lim out clean, 0 <= lim -> rle_dec_limited d lim = Ok (out, clean) -> zlen out <= lim.
Proof.
  intros d lim out clean Hl H. unfold rle_dec_limited in H. injection H as <- _.
  unfold zlen. rewrite firstn_length. lia.
Qed.

(* ... and load-bearing: a decompressor that ignores the limit breaks the allocation bound
   (2 bytes of data, declared length 10, 200 bytes produced before the message is rejected) *)
Lemma unlimited_decompressor_breaks_bound :
  m_out (decompress_cert rle_dec_unlimited [200; 0] 10) = Err BadCertificateErr /\
  m_alloc (decompress_cert rle_dec_unlimited [200; 0] 10) = 200 /\
  ~ (forall d lim out clean, 0 <= lim -> rle_dec_unlimited d lim = Ok (out, clean) -> zlen out <= lim).
Proof.
  split; [vm_compute; reflexivity|]. split; [vm_compute; reflexivity|].
  intros H. specialize (H [200; 0] 10 (rle_expand [200; 0]) true ltac:(lia) eq_refl).
  vm_compute in H. apply H. reflexivity.
Qed.

(* the limited toy decompressor rejects the same bomb having produced only limit = 11 bytes,
   and accepts an honest stream *)
Lemma limited_decompressor_example :
  decompress_cert rle_dec_limited [200; 0] 10 = (Err BadCertificateErr, 1, 11) /\
  decompress_cert rle_dec_limited [3; 7; 2; 9] 5 = (Ok [7; 7; 7; 9; 9], 1, 5).
Proof. split; vm_compute; reflexivity. Qed.

(* ---- Defragmenter --------------------------------------------------------------------------- *)
(* a size handler that only reports complete messages of at least m >= 1 bytes *)
Definition handler_min (m : Z) (h : list Z -> option Z) : Prop :=
  forall buf n, bytes_ok buf -> h buf = Some n -> m <= n <= zlen buf.

Lemma firstn_skipn_concat {A} n (l : list A) : firstn n l ++ skipn n l = l.
Proof. apply firstn_skipn. Qed.

Lemma defrag_loop_bound (h : list Z -> option Z) m :
  1 <= m -> handler_min m h ->
  forall fuel buf, bytes_ok buf -> (length buf <= fuel)%nat ->
  exists ms r it al mv,
    defrag_loop h fuel buf = Ok (ms, r, it, al, mv) /\
    bytes_ok r /\ h r = None /\ concat ms ++ r = buf /\
    1 <= it /\ m * (it - 1) <= zlen buf - zlen r /\
    al = zlen buf - zlen r /\
    0 <= mv /\ 2 * m * mv <= zlen buf * zlen buf.
Proof.
  intros Hm Hh. induction fuel as [|f IH]; intros buf Hb Hf.
  - destruct buf; [|cbn [length] in Hf; lia]. cbn [defrag_loop].
    destruct (h []) as [n|] eqn:E.
    + pose proof (Hh [] n Hb E) as R. change (zlen (@nil Z)) with 0 in R. lia.
    + exists [], [], 1, 0, 0. change (zlen (@nil Z)) with 0. repeat split; try assumption; try reflexivity; lia.
  - cbn [defrag_loop]. destruct (h buf) as [n|] eqn:E.
    + pose proof (Hh buf n Hb E) as R.
      assert (Hr : bytes_ok (skipn (Z.to_nat n) buf)) by (apply bytes_ok_skipn; exact Hb).
      assert (Hl : zlen (skipn (Z.to_nat n) buf) = zlen buf - n) by (apply zlen_skipn; lia).
      assert (Hf' : (length (skipn (Z.to_nat n) buf) <= f)%nat) by (unfold zlen in *; lia).
      destruct (IH _ Hr Hf') as (ms & r & it & al & mv & E2 & Hbr & Hn & Hcat & Hit & Hcnt & Hal & Hmv0 & Hmv).
      rewrite E2. cbn [bind].
      exists (firstn (Z.to_nat n) buf :: ms), r, (it + 1), (al + zlen (firstn (Z.to_nat n) buf)),
             (mv + zlen (skipn (Z.to_nat n) buf)).
      assert (Hfl : zlen (firstn (Z.to_nat n) buf) = n) by (apply zlen_firstn; lia).
      pose proof (zlen_nonneg r).
      repeat split; try assumption; try lia;
        try (cbn [concat]; rewrite <- app_assoc, Hcat; apply firstn_skipn);
        rewrite Hl in *; nia.
    + exists [], buf, 1, 0, 0. pose proof (zlen_nonneg buf).
      repeat split; try assumption; try reflexivity; try lia; nia.
Qed.

Lemma static_size_min size : 1 <= size -> handler_min size (static_size size).
Proof.
  intros Hs buf n Hb. unfold static_size. destruct (zlen buf <? size) eqn:E; [discriminate|].
  intros H. injection H as <-. lia.
Qed.

Lemma dyn_payload_range off sz buf : bytes_ok buf -> 0 <= sz ->
  0 <= be_int (firstn (Z.to_nat sz) (skipn (Z.to_nat off) buf)) < 256 ^ sz.
Proof.
  intros Hb Hs.
  assert (B : bytes_ok (firstn (Z.to_nat sz) (skipn (Z.to_nat off) buf)))
    by (apply bytes_ok_firstn, bytes_ok_skipn; exact Hb).
  pose proof (be_int_range _ B) as R.
  assert (L : zlen (firstn (Z.to_nat sz) (skipn (Z.to_nat off) buf)) <= sz)
    by (unfold zlen; rewrite firstn_length; lia).
  pose proof (zlen_nonneg (firstn (Z.to_nat sz) (skipn (Z.to_nat off) buf))).
  assert (256 ^ zlen (firstn (Z.to_nat sz) (skipn (Z.to_nat off) buf)) <= 256 ^ sz)
    by (apply Z.pow_le_mono_r; lia).
  lia.
Qed.

Lemma hs_size_min : handler_min 4 hs_size.
Proof.
  intros buf n Hb. unfold hs_size, dyn_size. change (1 + 3) with 4.
  destruct (zlen buf <? 4) eqn:E; [discriminate|].
  pose proof (dyn_payload_range 1 3 buf Hb ltac:(lia)) as R.
  set (pl := be_int (firstn (Z.to_nat 3) (skipn (Z.to_nat 1) buf))) in *.
  destruct (zlen buf - 4 <? pl) eqn:E2; [discriminate|].
  intros H. assert (Hn : n = 4 + pl) by congruence. lia.
Qed.

(* what can stay buffered after all complete messages were taken out: an incomplete
   message, i.e. at most 4 + (2^24 - 1) - 1 bytes -- the only cap there is *)
Lemma hs_size_residual r : bytes_ok r -> hs_size r = None -> zlen r <= 16777218.
Proof.
  intros Hb. unfold hs_size, dyn_size. change (1 + 3) with 4.
  destruct (zlen r <? 4) eqn:E; [intros _; lia|].
  pose proof (dyn_payload_range 1 3 r Hb ltac:(lia)) as R. change (256 ^ 3) with 16777216 in R.
  set (pl := be_int (firstn (Z.to_nat 3) (skipn (Z.to_nat 1) r))) in *.
  destruct (zlen r - 4 <? pl) eqn:E2; [|discriminate].
  intros _. lia.
Qed.

Lemma defrag_bound_all buf : bytes_ok buf ->
  exists ms r it al mv,
    defrag_get_messages buf = Ok (ms, r, it, al, mv) /\
    concat ms ++ r = buf /\ hs_size r = None /\ zlen r <= 16777218 /\
    1 <= it /\ 4 * (it - 1) <= zlen buf /\
    0 <= al <= zlen buf /\
    0 <= mv /\ 8 * mv <= zlen buf * zlen buf.
Proof.
  intros Hb. unfold defrag_get_messages.
  destruct (defrag_loop_bound hs_size 4 ltac:(lia) hs_size_min (length buf) buf Hb ltac:(lia))
    as (ms & r & it & al & mv & E & Hbr & Hn & Hcat & Hit & Hcnt & Hal & Hmv0 & Hmv).
  exists ms, r, it, al, mv. pose proof (zlen_nonneg r).
  assert (zlen r <= zlen buf).
  { rewrite <- Hcat, zlen_app. pose proof (zlen_nonneg (concat ms)). lia. }
  repeat split; try assumption; try lia.
  apply hs_size_residual; assumption.
Qed.

Lemma defrag_static_bound_all size buf : 1 <= size -> bytes_ok buf ->
  exists ms r it al mv,
    defrag_get_static size buf = Ok (ms, r, it, al, mv) /\
    concat ms ++ r = buf /\ zlen r < size /\
    1 <= it /\ size * (it - 1) <= zlen buf /\
    0 <= al <= zlen buf /\
    0 <= mv /\ 2 * size * mv <= zlen buf * zlen buf.
Proof.
  intros Hs Hb. unfold defrag_get_static.
  destruct (defrag_loop_bound (static_size size) size Hs (static_size_min size Hs) (length buf) buf Hb ltac:(lia))
    as (ms & r & it & al & mv & E & Hbr & Hn & Hcat & Hit & Hcnt & Hal & Hmv0 & Hmv).
  exists ms, r, it, al, mv. pose proof (zlen_nonneg r).
  assert (zlen r <= zlen buf).
  { rewrite <- Hcat, zlen_app. pose proof (zlen_nonneg (concat ms)). lia. }
  repeat split; try assumption; try lia.
  unfold static_size in Hn. destruct (zlen r <? size) eqn:E3; [lia|discriminate].
Qed.

(* the quadratic term is real for the language-level cost of "del buf[:length]":
   k empty handshake messages (4k bytes) move 2k(k-1) bytes -- here k = 100 and k = 200 *)
Fixpoint empty_msgs (k : nat) : list Z :=
  match k with O => [] | S k' => 11 :: 0 :: 0 :: 0 :: empty_msgs k' end.
Lemma defrag_quadratic_witness :
  (match defrag_get_messages (empty_msgs 100) with Ok (_, _, it, al, mv) => (it, al, mv) | Err _ => (0, 0, 0) end)
    = (101, 400, 19800) /\
  (match defrag_get_messages (empty_msgs 200) with Ok (_, _, it, al, mv) => (it, al, mv) | Err _ => (0, 0, 0) end)
    = (201, 800, 79600).
Proof. split; vm_compute; reflexivity. Qed.

(* ---- exported statements ---------------------------------------------------------------------- *)
Lemma wf_linear {A} d cs ks ca ka (p : list Z -> PR A) : 0 <= cs -> 0 <= ca ->
  wf d cs ks ca ka p -> linear_work p cs ks /\ linear_alloc p ca ka.
Proof.
  intros Hcs Hca H. split; intros bs Hb; specialize (H bs Hb); unfold m_out, m_steps, m_alloc;
    destruct (p bs) as [[[[v rest]|e] s] a]; cbn [fst snd]; pose proof (zlen_nonneg bs).
  - destruct H as (? & ? & ? & ? & ?). pose proof (zlen_nonneg rest). split; [discriminate|]. split; [lia|nia].
  - destruct H as (? & ? & ?). split; [congruence|lia].
  - destruct H as (? & ? & ? & ? & ?). pose proof (zlen_nonneg rest). split; [lia|nia].
  - destruct H as (? & ? & ?). lia.
Qed.

Lemma top_linear {A} cs ks ca ka (f : list Z -> M A) :
  top cs ks ca ka f -> linear_work f cs ks /\ linear_alloc f ca ka.
Proof.
  intros H. split; intros bs Hb; destruct (H bs Hb) as (? & ? & ?); [split|]; assumption.
Qed.

Lemma wf_strict {A} d cs ks ca ka (p : list Z -> PR A) : 1 <= d -> wf d cs ks ca ka p -> strictly_consumes p.
Proof.
  intros Hd H bs v rest s a Hb E. specialize (H bs Hb). rewrite E in H.
  destruct H as (_ & _ & H & _). unfold zlen in H. lia.
Qed.

(* every loop body of the modelled code strictly consumes input, zero-length elements
   included (they still carry their length prefix) *)
Lemma loop_bodies_strictly_consume_all :
  strictly_consumes sni_elem /\ strictly_consumes alpn_elem /\ strictly_consumes (p_var 1) /\
  strictly_consumes (p_var 2) /\ strictly_consumes key_share_elem /\
  strictly_consumes psk_identity_elem /\
  (forall B (h : Z -> list Z -> M B), (forall t, top 0 0 0 0 (h t)) -> strictly_consumes (ext_elem h)) /\
  strictly_consumes (ext_elem h_client_hello) /\
  (forall chk, (forall c, chk c <> Some OutOfFuel) ->
     strictly_consumes (cert_entry chk) /\ strictly_consumes (cert12_elem chk)) /\
  (forall len, 1 <= len -> strictly_consumes (p_get len)) /\
  (forall el en, 1 <= el -> 0 < en -> strictly_consumes (run_loop Count (p_get el) en)).
Proof.
  split; [apply (wf_strict 3 0 3 1 0); [lia|exact sni_elem_wf]|].
  split; [apply (wf_strict 1 0 2 1 0); [lia|exact alpn_elem_wf]|].
  split; [apply (wf_strict 1 0 2 1 0); [lia|apply wf_var; lia]|].
  split; [apply (wf_strict 2 0 2 1 0); [lia|apply wf_var; lia]|].
  split; [apply (wf_strict 4 0 3 1 0); [lia|exact key_share_elem_wf]|].
  split; [apply (wf_strict 6 0 3 1 0); [lia|exact psk_identity_elem_wf]|].
  split; [intros B h Hh; apply (wf_strict 4 0 (0 + 3) (0 + 1) 0); [lia|]; apply ext_elem_wf; try lia; exact Hh|].
  split; [apply (wf_strict 4 3 (9 + 3) (2 + 1) 2); [lia|]; apply ext_elem_wf; try lia; exact h_client_hello_top|].
  split; [intros chk H; split;
          [apply (wf_strict 5 1 7 2 1); [lia|exact (cert_entry_wf chk H)]
          |apply (wf_strict 3 0 2 1 0); [lia|exact (cert12_elem_wf chk H)]]|].
  split; [intros len Hl; apply (wf_strict len 0 1 1 0); [lia|apply wf_get; lia]|].
  intros el en Hel Hen. apply (wf_strict el 2 2 2 1); [lia|exact (tuple_inner_wf el en Hel Hen)].
Qed.

Lemma parser_work_linear_all :
  linear_work parse_ext_list 1 4 /\
  linear_work parse_ext_list_nodup 2 4 /\
  linear_work parse_client_hello_exts 8 13 /\
  linear_work parse_sni 2 5 /\
  linear_work parse_alpn 3 4 /\
  linear_work parse_npn 3 3 /\
  linear_work parse_key_shares 1 5 /\
  linear_work parse_psk 3 9 /\
  linear_work parse_status_request 2 7 /\
  (forall len ll, 1 <= len -> 0 <= ll -> linear_work (parse_var_list len ll) 2 4) /\
  (forall el en ll, 1 <= el -> 1 <= en -> 0 <= ll -> linear_work (parse_var_tuple_list el en ll) 5 4) /\
  (forall len cnt, 1 <= len -> linear_work (p_fix_list len cnt) 2 3) /\
  (forall chk, (forall c, chk c <> Some OutOfFuel) ->
     linear_work (parse_cert_list chk) 3 13 /\ linear_work (parse_cert_list12 chk) 1 5) /\
  linear_work parse_ca_list 2 4 /\
  (forall tls12, linear_work (parse_cert_request12 tls12) 5 13) /\
  (forall B (h : Z -> list Z -> M B) ch kh cah kah Cs Ca,
     0 <= ch -> 0 <= kh -> 0 <= cah -> 0 <= kah -> (forall t, top ch kh cah kah (h t)) ->
     ch <= Cs -> cah + 1 <= Ca -> ch * 4 + (kh + 3) + 1 <= Cs * 4 -> (cah + 1) * 4 + kah + 1 <= Ca * 4 ->
     linear_work (parse_ext_list_with h) Cs (kh + 4)).
Proof.
  split; [exact (proj1 (top_linear _ _ _ _ _ parse_ext_list_top))|].
  split; [exact (proj1 (top_linear _ _ _ _ _ parse_ext_list_nodup_top))|].
  split; [exact (proj1 (top_linear _ _ _ _ _ parse_client_hello_exts_top))|].
  split; [exact (proj1 (top_linear _ _ _ _ _ parse_sni_top))|].
  split; [exact (proj1 (top_linear _ _ _ _ _ parse_alpn_top))|].
  split; [exact (proj1 (top_linear _ _ _ _ _ parse_npn_top))|].
  split; [exact (proj1 (top_linear _ _ _ _ _ parse_key_shares_top))|].
  split; [exact (proj1 (top_linear _ _ _ _ _ parse_psk_top))|].
  split; [exact (proj1 (top_linear _ _ _ _ _ parse_status_request_top))|].
  split; [intros len ll H1 H2; exact (proj1 (wf_linear ll 2 4 2 (256 ^ ll) _ ltac:(lia) ltac:(lia) (parse_var_list_wf len ll H1 H2)))|].
  split; [intros el en ll H1 H2 H3; exact (proj1 (wf_linear ll 5 4 4 2 _ ltac:(lia) ltac:(lia) (parse_var_tuple_list_wf el en ll H1 H2 H3)))|].
  split; [intros len cnt H1; exact (proj1 (wf_linear 0 2 3 2 (Z.max 0 cnt + 1) _ ltac:(lia) ltac:(lia) (p_fix_list_wf len cnt H1)))|].
  split; [intros chk H; split;
          [exact (proj1 (top_linear _ _ _ _ _ (parse_cert_list_top chk H)))
          |exact (proj1 (top_linear _ _ _ _ _ (parse_cert_list12_top chk H)))]|].
  split; [exact (proj1 (wf_linear 2 2 4 2 1 _ ltac:(lia) ltac:(lia) parse_ca_list_wf))|].
  split; [intros b; exact (proj1 (top_linear _ _ _ _ _ (parse_cert_request12_top b)))|].
  intros B h ch kh cah kah Cs Ca H1 H2 H3 H4 Hh H5 H6 H7 H8.
  exact (proj1 (top_linear _ _ _ _ _ (parse_ext_list_with_top h ch kh cah kah Cs Ca H1 H2 H3 H4 Hh H5 H6 H7 H8))).
Qed.

Lemma alloc_bounded_all :
  linear_alloc parse_ext_list 2 1 /\
  linear_alloc parse_ext_list_nodup 3 1 /\
  linear_alloc parse_client_hello_exts 5 3 /\
  linear_alloc parse_sni 2 1 /\
  linear_alloc parse_alpn 2 1 /\
  linear_alloc parse_npn 2 1 /\
  linear_alloc parse_key_shares 2 1 /\
  linear_alloc parse_psk 2 2 /\
  linear_alloc parse_status_request 2 1 /\
  (forall len ll, 1 <= len -> 0 <= ll -> linear_alloc (parse_var_list len ll) 2 (256 ^ ll)) /\
  (forall el en ll, 1 <= el -> 1 <= en -> 0 <= ll -> linear_alloc (parse_var_tuple_list el en ll) 4 2) /\
  (forall len cnt, 1 <= len -> linear_alloc (p_fix_list len cnt) 2 (Z.max 0 cnt + 1)) /\
  (forall chk, (forall c, chk c <> Some OutOfFuel) ->
     linear_alloc (parse_cert_list chk) 4 2 /\ linear_alloc (parse_cert_list12 chk) 2 1) /\
  linear_alloc parse_ca_list 2 1 /\
  (forall tls12, linear_alloc (parse_cert_request12 tls12) 4 259) /\
  (* CompressedCertificate, UNDER THE ASSUMED CONTRACT of the decompressor *)
  (forall (dec : list Z -> Z -> res (list Z * bool)) (algo_ok : Z -> bool),
     (forall d lim out clean, 0 <= lim -> dec d lim = Ok (out, clean) -> zlen out <= lim) ->
     (forall data expected, 0 <= expected ->
        0 <= m_alloc (decompress_cert dec data expected) <= expected + 1 /\
        match m_out (decompress_cert dec data expected) with
        | Ok out => zlen out = expected
        | Err e => e = BadCertificateErr
        end) /\
     (forall bs, bytes_ok bs ->
        m_out (parse_compressed_cert dec algo_ok bs) <> Err OutOfFuel /\
        0 <= m_steps (parse_compressed_cert dec algo_ok bs) <= 6 /\
        0 <= m_alloc (parse_compressed_cert dec algo_ok bs) <= zlen bs + 16777216 /\
        (forall algo expected out,
           m_out (parse_compressed_cert dec algo_ok bs) = Ok (algo, expected, out) ->
           zlen out = expected /\ 0 <= expected <= 16777215))).
Proof.
  split; [exact (proj2 (top_linear _ _ _ _ _ parse_ext_list_top))|].
  split; [exact (proj2 (top_linear _ _ _ _ _ parse_ext_list_nodup_top))|].
  split; [exact (proj2 (top_linear _ _ _ _ _ parse_client_hello_exts_top))|].
  split; [exact (proj2 (top_linear _ _ _ _ _ parse_sni_top))|].
  split; [exact (proj2 (top_linear _ _ _ _ _ parse_alpn_top))|].
  split; [exact (proj2 (top_linear _ _ _ _ _ parse_npn_top))|].
  split; [exact (proj2 (top_linear _ _ _ _ _ parse_key_shares_top))|].
  split; [exact (proj2 (top_linear _ _ _ _ _ parse_psk_top))|].
  split; [exact (proj2 (top_linear _ _ _ _ _ parse_status_request_top))|].
  split; [intros len ll H1 H2; exact (proj2 (wf_linear ll 2 4 2 (256 ^ ll) _ ltac:(lia) ltac:(lia) (parse_var_list_wf len ll H1 H2)))|].
  split; [intros el en ll H1 H2 H3; exact (proj2 (wf_linear ll 5 4 4 2 _ ltac:(lia) ltac:(lia) (parse_var_tuple_list_wf el en ll H1 H2 H3)))|].
  split; [intros len cnt H1; exact (proj2 (wf_linear 0 2 3 2 (Z.max 0 cnt + 1) _ ltac:(lia) ltac:(lia) (p_fix_list_wf len cnt H1)))|].
  split; [intros chk H; split;
          [exact (proj2 (top_linear _ _ _ _ _ (parse_cert_list_top chk H)))
          |exact (proj2 (top_linear _ _ _ _ _ (parse_cert_list12_top chk H)))]|].
  split; [exact (proj2 (wf_linear 2 2 4 2 1 _ ltac:(lia) ltac:(lia) parse_ca_list_wf))|].
  split; [intros b; exact (proj2 (top_linear _ _ _ _ _ (parse_cert_request12_top b)))|].
  intros dec algo_ok Hdec. split.
  - intros data expected He. split; [exact (decompress_cert_alloc dec Hdec data expected He)|].
    destruct (decompress_cert_result dec data expected) as (_ & R).
    destruct (m_out (decompress_cert dec data expected)); [exact (proj1 R)|exact R].
  - intros bs Hb. exact (parse_compressed_cert_bound dec algo_ok Hdec bs Hb).
Qed.

(* ---- ASN1Parser: getChildCount is linear, the getChild(i)-for-all-i idiom is quadratic ------ *)
Lemma p_skip_spec n bs : bytes_ok bs ->
  match p_skip n bs with
  | (Ok (_, rest), s, a) =>
      bytes_ok rest /\ zlen bs - zlen rest = Z.max 0 n /\ n <= zlen bs /\ s = 1 /\ a = 0
  | (Err e, s, a) => e = DecodeError /\ s = 1 /\ a = 0
  end.
Proof.
  intros Hb. unfold p_skip. destruct (zlen bs <? n) eqn:E; [repeat split; reflexivity|].
  destruct (Z_le_gt_dec n 0) as [Hneg|Hpos].
  - destruct (zlen_skipn_neg n bs Hneg) as [-> _]. repeat split; try assumption; lia.
  - rewrite zlen_skipn by lia. repeat split; try lia. apply bytes_ok_skipn. exact Hb.
Qed.

Lemma asn1_length_wf : wf 1 0 2 1 0 asn1_length.
Proof.
  unfold asn1_length.
  eapply wf_relax;
    [apply (wf_get_then 1 0 0 1 1 0); try lia;
     intros f Hf; destruct (f <=? 127);
       [eapply wf_relax; [apply (wf_ret' f 0 1); lia | lia..]
       |eapply wf_relax; [apply (wf_get' (Z.land f 127) 0 1); try lia; apply Z.land_nonneg; lia
                         |apply Z.land_nonneg; lia | lia..]]
    |lia..].
Qed.

Lemma asn1_child_wf : wf 2 0 4 1 0 asn1_child.
Proof.
  intros bs Hb. unfold asn1_child. pose proof (zlen_nonneg bs).
  pose proof (p_skip_spec 1 bs Hb) as S1.
  destruct (p_skip 1 bs) as [[[[u1 r1]|e] s1] a1];
    [|rewrite mbind_err; destruct S1 as (-> & -> & ->); repeat split; try discriminate; lia].
  destruct S1 as (Hr1 & Hc1 & _ & -> & ->). rewrite mbind_ok. rewrite Z.max_r in Hc1 by lia.
  pose proof (asn1_length_wf r1 Hr1) as S2. pose proof (zlen_nonneg r1).
  destruct (asn1_length r1) as [[[[n r2]|e] s2] a2]; cbn [fst snd];
    [|rewrite mbind_err; cbn [fst snd]; destruct S2 as (? & ? & ?); repeat split; try assumption; lia].
  destruct S2 as (Hr2 & Hc2 & Hd2 & Hs2 & Ha2). rewrite mbind_ok.
  pose proof (p_skip_spec n r2 Hr2) as S3. pose proof (zlen_nonneg r2).
  destruct (p_skip n r2) as [[[[u3 r3]|e] s3] a3]; cbn [fst snd];
    [|rewrite mbind_err; cbn [fst snd]; destruct S3 as (-> & -> & ->); repeat split; try discriminate; lia].
  destruct S3 as (Hr3 & Hc3 & _ & -> & ->). rewrite mbind_ok. cbn [mret fst snd].
  pose proof (zlen_nonneg r3). repeat split; try assumption; lia.
Qed.


Lemma asn1_child_count_top : top 3 5 2 1 asn1_child_count.
Proof.
  unfold asn1_child_count. apply top_map.
  apply (top_loop_all asn1_child 2 0 4 1 0 3 2 asn1_child_wf); lia.
Qed.

Lemma asn1_child_count_value value k : bytes_ok value ->
  m_out (asn1_child_count value) = Ok k -> 0 <= 2 * k <= zlen value.
Proof.
  intros Hb. unfold asn1_child_count, loop_all, run_loop.
  destruct (gloop UntilEmpty asn1_child (S (length value)) 0 value) as [[[[vs r]|e] s] a] eqn:G.
  - rewrite !mbind_ok. cbn [mret m_out fst snd]. intros H. injection H as <-.
    destruct (gloop_count UntilEmpty asn1_child 2 0 4 1 0 ltac:(lia) asn1_child_wf _ _ _ _ _ _ _ Hb G) as (_ & Hc).
    pose proof (zlen_nonneg r). lia.
  - rewrite !mbind_err. cbn [m_out fst snd]. discriminate.
Qed.

Lemma asn1_child_bytes_bound value which : bytes_ok value ->
  m_out (asn1_child_bytes value which) <> Err OutOfFuel /\
  0 <= m_steps (asn1_child_bytes value which) <= 3 * zlen value + 6 /\
  0 <= m_alloc (asn1_child_bytes value which) <= 3 * zlen value + 1.
Proof.
  intros Hb. unfold asn1_child_bytes. pose proof (zlen_nonneg value).
  pose proof (wf_loop Count asn1_child 2 0 4 1 0 3 2 (which + 1) asn1_child_wf
                ltac:(lia) ltac:(lia) ltac:(lia) ltac:(lia) ltac:(lia) ltac:(lia) ltac:(lia)
                ltac:(lia) ltac:(lia) value Hb) as G.
  destruct (run_loop Count asn1_child (which + 1) value) as [[[[szs r]|e] s] a].
  - destruct G as (Hr & Hc & _ & Hs & Ha). rewrite mbind_ok. pose proof (zlen_nonneg r).
    destruct (rev szs) as [|last tl].
    + cbn [merr m_out m_steps m_alloc fst snd]. repeat split; try discriminate; lia.
    + unfold mtick. rewrite mbind_ok. cbn [mret m_out m_steps m_alloc fst snd].
      pose proof (zlen_firstn_le (Z.to_nat last) (skipn (Z.to_nat (zlen value - zlen r - last)) value)) as F1.
      assert (F2 : zlen (skipn (Z.to_nat (zlen value - zlen r - last)) value) <= zlen value)
        by (unfold zlen; rewrite skipn_length; lia).
      pose proof (zlen_nonneg (firstn (Z.to_nat last) (skipn (Z.to_nat (zlen value - zlen r - last)) value))).
      repeat split; try discriminate; lia.
  - rewrite mbind_err. cbn [m_out m_steps m_alloc fst snd]. destruct G as (? & ? & ?).
    repeat split; try lia. congruence.
Qed.

Lemma asn1_children_from_bound value : bytes_ok value -> forall n i,
  m_out (asn1_children_from value n i) <> Err OutOfFuel /\
  0 <= m_steps (asn1_children_from value n i) <= Z.of_nat n * (3 * zlen value + 6) /\
  0 <= m_alloc (asn1_children_from value n i) <= Z.of_nat n * (3 * zlen value + 1).
Proof.
  intros Hb. pose proof (zlen_nonneg value). induction n as [|n IH]; intros i.
  - cbn [asn1_children_from mret m_out m_steps m_alloc fst snd]. repeat split; try discriminate; lia.
  - cbn [asn1_children_from].
    destruct (asn1_child_bytes_bound value i Hb) as (B1 & B2 & B3).
    destruct (IH (i + 1)) as (I1 & I2 & I3).
    unfold m_out, m_steps, m_alloc in *.
    destruct (asn1_child_bytes value i) as [[[c|e] s] a]; cbn [fst snd] in *.
    + rewrite mbind_ok. destruct (asn1_children_from value n (i + 1)) as [[[cs|e] s2] a2]; cbn [fst snd] in *.
      * rewrite mbind_ok. cbn [mret fst snd]. repeat split; try discriminate; nia.
      * rewrite mbind_err. cbn [fst snd]. repeat split; try nia. congruence.
    + rewrite mbind_err. cbn [fst snd]. repeat split; try nia. congruence.
Qed.

(* for i in range(getChildCount()): getChild(i)  --  honest bound: QUADRATIC in the value length *)
Lemma asn1_all_children_quadratic value : bytes_ok value ->
  m_out (asn1_all_children value) <> Err OutOfFuel /\
  0 <= 2 * m_steps (asn1_all_children value) <= 3 * zlen value * zlen value + 12 * zlen value + 10 /\
  0 <= 2 * m_alloc (asn1_all_children value) <= 3 * zlen value * zlen value + 5 * zlen value + 2.
Proof.
  intros Hb. unfold asn1_all_children. pose proof (zlen_nonneg value).
  destruct (asn1_child_count_top value Hb) as (C1 & C2 & C3).
  pose proof (asn1_child_count_value value) as CV.
  unfold m_out, m_steps, m_alloc in *.
  destruct (asn1_child_count value) as [[[k|e] s] a]; cbn [fst snd] in *.
  - rewrite mbind_ok. specialize (CV k Hb eq_refl).
    destruct (asn1_children_from_bound value Hb (Z.to_nat k) 0) as (I1 & I2 & I3).
    unfold m_out, m_steps, m_alloc in *. rewrite Z2Nat.id in * by lia.
    destruct (asn1_children_from value (Z.to_nat k) 0) as [[r2 s2] a2]; cbn [fst snd] in *.
    repeat split; try assumption; nia.
  - rewrite mbind_err. cbn [fst snd]. repeat split; try nia. congruence.
Qed.

Lemma asn1_child_strict : strictly_consumes asn1_child.
Proof. apply (wf_strict 2 0 4 1 0); [lia|exact asn1_child_wf]. Qed.

(* the quadratic growth is real: k NULL children (2k bytes) *)
Fixpoint asn1_nulls (k : nat) : list Z := match k with O => [] | S k' => 5 :: 0 :: asn1_nulls k' end.
Lemma asn1_quadratic_witness :
  m_steps (asn1_all_children (asn1_nulls 50)) = 5401 /\
  m_steps (asn1_all_children (asn1_nulls 100)) = 20801.
Proof. split; vm_compute; reflexivity. Qed.

Lemma defrag_bound_stmt :
  (forall buf, bytes_ok buf ->
     exists ms r it al mv,
       defrag_get_messages buf = Ok (ms, r, it, al, mv) /\
       concat ms ++ r = buf /\ hs_size r = None /\ zlen r <= 16777218 /\
       1 <= it /\ 4 * (it - 1) <= zlen buf /\
       0 <= al <= zlen buf /\
       0 <= mv /\ 8 * mv <= zlen buf * zlen buf) /\
  (forall size buf, 1 <= size -> bytes_ok buf ->
     exists ms r it al mv,
       defrag_get_static size buf = Ok (ms, r, it, al, mv) /\
       concat ms ++ r = buf /\ zlen r < size /\
       1 <= it /\ size * (it - 1) <= zlen buf /\
       0 <= al <= zlen buf /\
       0 <= mv /\ 2 * size * mv <= zlen buf * zlen buf).
Proof. split; [exact defrag_bound_all|exact defrag_static_bound_all]. Qed.

(* ---- the hypotheses are satisfiable / the statements are not vacuous -------------------------- *)
Lemma bytes_ok_example : bytes_ok [0;0;0;5;0;3;0;0;0; 0;16;0;5;0;3;2;104;50; 171;171;0;2;7;7].
Proof. unfold bytes_ok. repeat constructor; lia. Qed.

(* SNI with one zero-length name, ALPN "h2", an unknown extension: 27 steps, 42 cells
   (24/39 for the loop + 3/3 for the duplicate test); a second SNI is rejected *)
Lemma client_hello_exts_example :
  parse_client_hello_exts [0;0;0;5;0;3;0;0;0; 0;16;0;5;0;3;2;104;50; 171;171;0;2;7;7]
  = (Ok [(0, [(0, [])]); (16, [(0, [104; 50])]); (43947, [(-3, [7; 7])])], 27, 42).
Proof. vm_compute. reflexivity. Qed.

(* two zero-length server names still advance (3 bytes each); one byte short fails, in 8 steps *)
Lemma sni_zero_length_example :
  parse_sni [0;6;0;0;0;0;0;0] = (Ok (Some [(0, []); (0, [])]), 10, 10) /\
  parse_sni [0;6;0;0;0;0;0] = (Err DecodeError, 8, 8).
Proof. split; vm_compute; reflexivity. Qed.

Lemma cert_oracle_example : forall c : list Z, (fun _ : list Z => @None exn) c <> Some OutOfFuel.
Proof. intros c. discriminate. Qed.

(* two (empty) server_name extensions around an unknown one: the whole block is parsed, then the
   duplicate test of ClientHello.parse rejects it (13/15 for the loop + 3/3 for the test) *)
Lemma client_hello_duplicate_example :
  parse_client_hello_exts [0;0;0;0; 171;171;0;0; 0;0;0;0] = (Err DecodeError, 16, 18).
Proof. vm_compute. reflexivity. Qed.

(* EncryptedExtensions-style list: two extensions of the same unknown type are parsed, then rejected *)
Lemma ext_list_nodup_example :
  parse_ext_list_nodup [171;171;0;1;7; 171;172;0;0] = (Ok [(43947, [7]); (43948, [])], 11, 13) /\
  parse_ext_list_nodup [171;171;0;1;7; 171;171;0;0] = (Err DecodeError, 11, 13) /\
  parse_ext_list [171;171;0;1;7; 171;171;0;0] = (Ok [(43947, [7]); (43947, [])], 9, 11).
Proof. repeat split; vm_compute; reflexivity. Qed.
