(* C12: consecutive records get consecutive, pairwise different 8-byte sequence numbers, for
   every starting point below 2^64 - no wrap-around at 2^8, 2^16, 2^32 or anywhere else. *)
From Coq Require Import ZArith List Bool Lia.
From TV Require Import Base.Prelude Model.C12_Seq.
Import ListNotations.
Open Scope Z_scope.

Lemma be_bytes8 x : be_bytes 8 x =
  [(x / 2^56) mod 256; (x / 2^48) mod 256; (x / 2^40) mod 256; (x / 2^32) mod 256;
   (x / 2^24) mod 256; (x / 2^16) mod 256; (x / 2^8) mod 256; (x / 2^0) mod 256].
Proof. reflexivity. Qed.

Lemma be_value_bytes8 x : 0 <= x < 2^64 -> be_value (be_bytes 8 x) = x.
Proof.
  intros H. rewrite be_bytes8. cbn [be_value length].
  change (8 * Z.of_nat 7) with 56. change (8 * Z.of_nat 6) with 48. change (8 * Z.of_nat 5) with 40.
  change (8 * Z.of_nat 4) with 32. change (8 * Z.of_nat 3) with 24. change (8 * Z.of_nat 2) with 16.
  change (8 * Z.of_nat 1) with 8. change (8 * Z.of_nat 0) with 0.
  change (2^64) with 18446744073709551616 in H.
  change (2^56) with 72057594037927936. change (2^48) with 281474976710656.
  change (2^40) with 1099511627776. change (2^32) with 4294967296. change (2^24) with 16777216.
  change (2^16) with 65536. change (2^8) with 256. change (2^0) with 1.
  pose proof (Z.div_mod x 72057594037927936 ltac:(lia)) as E1.
  pose proof (Z.mod_pos_bound x 72057594037927936 ltac:(lia)) as B1.
  (* peel the digits off one by one *)
  assert (D : forall a m, 0 < m -> a = m * (a / m) + a mod m /\ 0 <= a mod m < m).
  { intros a m Hm. split; [apply Z.div_mod; lia|apply Z.mod_pos_bound; lia]. }
  destruct (D x 256 ltac:(lia)) as [e0 b0].
  destruct (D (x / 256) 256 ltac:(lia)) as [e1 b1].
  destruct (D (x / 256 / 256) 256 ltac:(lia)) as [e2 b2].
  destruct (D (x / 256 / 256 / 256) 256 ltac:(lia)) as [e3 b3].
  destruct (D (x / 256 / 256 / 256 / 256) 256 ltac:(lia)) as [e4 b4].
  destruct (D (x / 256 / 256 / 256 / 256 / 256) 256 ltac:(lia)) as [e5 b5].
  destruct (D (x / 256 / 256 / 256 / 256 / 256 / 256) 256 ltac:(lia)) as [e6 b6].
  destruct (D (x / 256 / 256 / 256 / 256 / 256 / 256 / 256) 256 ltac:(lia)) as [e7 b7].
  replace (x / 65536) with (x / 256 / 256) by (rewrite Z.div_div by lia; reflexivity).
  replace (x / 16777216) with (x / 256 / 256 / 256) by (rewrite !Z.div_div by lia; reflexivity).
  replace (x / 4294967296) with (x / 256 / 256 / 256 / 256) by (rewrite !Z.div_div by lia; reflexivity).
  replace (x / 1099511627776) with (x / 256 / 256 / 256 / 256 / 256) by (rewrite !Z.div_div by lia; reflexivity).
  replace (x / 281474976710656) with (x / 256 / 256 / 256 / 256 / 256 / 256) by (rewrite !Z.div_div by lia; reflexivity).
  replace (x / 72057594037927936) with (x / 256 / 256 / 256 / 256 / 256 / 256 / 256) by (rewrite !Z.div_div by lia; reflexivity).
  rewrite Z.div_1_r.
  assert (Htop : x / 256 / 256 / 256 / 256 / 256 / 256 / 256 / 256 = 0).
  { rewrite !Z.div_div by lia. apply Z.div_small. lia. }
  lia.
Qed.

Lemma seq_bytes_ok n : 0 <= n < 2^64 -> seq_bytes n = Ok (be_bytes 8 n).
Proof.
  intros H. unfold seq_bytes.
  destruct (0 <=? n) eqn:E1; [|apply Z.leb_gt in E1; lia].
  destruct (n <? 2^64) eqn:E2; [reflexivity|apply Z.ltb_ge in E2; lia].
Qed.

Lemma seq_bytes_injective_lem a b :
  0 <= a < 2^64 -> 0 <= b < 2^64 -> seq_bytes a = seq_bytes b -> a = b.
Proof.
  intros Ha Hb E. rewrite !seq_bytes_ok in E by assumption.
  apply (f_equal (fun r => match r with Ok l => be_value l | Err _ => 0 end)) in E.
  cbv beta iota in E. rewrite !be_value_bytes8 in E by assumption. exact E.
Qed.

Lemma seq_bytes_shape n b : seq_bytes n = Ok b -> length b = 8%nat /\ all_bytes b = true.
Proof.
  unfold seq_bytes. destruct ((0 <=? n) && (n <? 2^64)); [|discriminate].
  intros E. injection E as <-. split.
  - unfold be_bytes. rewrite map_length, seq_length. reflexivity.
  - unfold all_bytes, be_bytes. apply forallb_forall. intros x Hx.
    apply in_map_iff in Hx. destruct Hx as [k [<- _]].
    unfold is_byte. apply andb_true_iff.
    pose proof (Z.mod_pos_bound (n / 2 ^ (8 * (Z.of_nat 8 - 1 - Z.of_nat k))) 256 ltac:(lia)) as B.
    split; [apply Z.leb_le|apply Z.ltb_lt]; lia.
Qed.

(* k consecutive calls from `start` return the encodings of start, start+1, ... as long as they fit *)
Lemma get_seqs_consecutive_lem k start :
  0 <= start -> start + Z.of_nat k <= 2^64 ->
  get_seqs k {| sq_num := start |} =
    (map (fun i => Ok (be_bytes 8 (start + Z.of_nat i))) (seq 0 k), {| sq_num := start + Z.of_nat k |}).
Proof.
  revert start. induction k as [|k IH]; intros start H0 Hfit.
  - cbn [get_seqs seq map]. rewrite Z.add_0_r. reflexivity.
  - cbn [get_seqs]. unfold get_seq. cbn [sq_num].
    rewrite seq_bytes_ok by lia.
    rewrite IH by lia.
    cbn [seq map]. rewrite Z.add_0_r. f_equal.
    + f_equal. rewrite <- seq_shift, map_map. apply map_ext. intros i. do 2 f_equal. lia.
    + f_equal. lia.
Qed.

(* any two different calls among them return different byte strings *)
Lemma get_seqs_distinct_lem k start i j :
  0 <= start -> start + Z.of_nat k <= 2^64 ->
  (i < k)%nat -> (j < k)%nat -> i <> j ->
  nth i (fst (get_seqs k {| sq_num := start |})) (Err ValueError) <>
  nth j (fst (get_seqs k {| sq_num := start |})) (Err ValueError).
Proof.
  intros H0 Hfit Hi Hj Hne. rewrite get_seqs_consecutive_lem by assumption. cbn [fst].
  set (f := fun i0 : nat => Ok (be_bytes 8 (start + Z.of_nat i0))).
  assert (Hd : forall d, f 0%nat = d -> True) by trivial.
  rewrite (nth_indep _ (Err ValueError) (f 0%nat)) by (rewrite map_length, seq_length; exact Hi).
  rewrite (nth_indep (map f (seq 0 k)) (Err ValueError) (f 0%nat)) by (rewrite map_length, seq_length; exact Hj).
  rewrite !map_nth, !seq_nth by assumption. unfold f. cbn [Nat.add].
  intros E. rewrite <- !seq_bytes_ok in E by lia.
  apply seq_bytes_injective_lem in E; lia.
Qed.

(* at 2^64 the real code refuses (ValueError) instead of wrapping *)
Lemma get_seq_refuses_lem st : 2^64 <= sq_num st -> get_seq st = (Err ValueError, st).
Proof.
  intros H. unfold get_seq, seq_bytes.
  destruct (0 <=? sq_num st); cbn [andb]; [|reflexivity].
  destruct (sq_num st <? 2^64) eqn:E; [apply Z.ltb_lt in E; lia|reflexivity].
Qed.
