(* C16: heartbeat payloads handed to the callback are payloads this endpoint requested (lemmas). *)
From Coq Require Import ZArith List Bool Lia.
From TV Require Import Base.Prelude Model.C16_PostHs Spec.C16_Spec Proofs.C16_PostHs.
Import ListNotations.
Open Scope Z_scope.

Definition BInv (s : st) : Prop :=
  (forall r, In r (ab s) -> hb_rec_ok (hb_req (ms (ea s))) (hb_req (ms (eb s))) r) /\
  (forall r, In r (ba s) -> hb_rec_ok (hb_req (ms (eb s))) (hb_req (ms (ea s))) r) /\
  incl (hb_got (ms (ea s))) (hb_req (ms (ea s))) /\
  incl (hb_got (ms (eb s))) (hb_req (ms (eb s))).

Definition no_hb (em : list rec) : Prop := forall r b, In r em -> body r <> MHB b.

Lemma no_hb_ok em w r' : no_hb em -> forall r, In r em -> hb_rec_ok w r' r.
Proof. intros H r Hr b Hb. exfalso. exact (H r b Hr Hb). Qed.

Lemma no_hb_alert me f d : no_hb [emit me (MAlert f d)].
Proof. intros r b [Hr|[]]. subst r. discriminate. Qed.

Lemma no_hb_nil : no_hb [].
Proof. intros r b []. Qed.

Definition bres (me0 : ep) (whole : list rec) (R : resT) : Prop :=
  let '(me', rest', em, c) := R in
  ms me' = ms me0 /\ (forall r, In r rest' -> In r whole) /\ no_hb em.

Lemma bres_die me0 me whole rest d :
  ms me = ms me0 -> (forall r, In r rest -> In r whole) -> bres me0 whole (die me rest d).
Proof. intros E H. unfold bres, die. cbn. split; [exact E|]. split; [exact H|apply no_hb_alert]. Qed.

Lemma srv_pha_b me0 me whole rest ctx ch :
  ms me = ms me0 -> (forall r, In r rest -> In r whole) ->
  bres me0 whole (srv_pha me0 me whole rest ctx ch).
Proof.
  intros E Hsub. unfold srv_pha. cbv zeta beta.
  assert (Hblock : bres me0 whole (me0, whole, [], 1)).
  { unfold bres. split; [reflexivity|]. split; [auto|apply no_hb_nil]. }
  assert (Hbad : forall tl, (forall r, In r tl -> In r whole) ->
            bres me0 whole (mark_badmac (fatal me 20), tl, [emit me (MAlert true 20)], 120)).
  { intros tl Ht. unfold bres. cbn. split; [exact E|]. split; [exact Ht|apply no_hb_alert]. }
  assert (Hfin : forall l, (forall r, In r l -> In r whole) ->
     bres me0 whole (match l with
      | [] => (me0, whole, [], 1)
      | f :: tl =>
          if negb (tag f =? rgen (ks me)) then (mark_badmac (fatal me 20), tl, [emit me (MAlert true 20)], 120) else
          match body f with
          | MFin ok => if ok then (record_chain me ctx ch, tl, [], 0) else die me tl 51
          | _ => die me l 10
          end
      end)).
  { intros l Hl. destruct l as [|f tl]; [exact Hblock|].
    assert (Htl : forall r, In r tl -> In r whole) by (intros r Hr; apply Hl; right; exact Hr).
    destruct (negb (tag f =? rgen (ks me))); [apply Hbad; exact Htl|].
    destruct (body f); try (apply bres_die; assumption).
    destruct ok; [|apply bres_die; assumption].
    unfold bres. cbn. split; [exact E|]. split; [exact Htl|apply no_hb_nil]. }
  destruct (ch =? 0).
  - destruct (cert_required (cf me)); [apply bres_die; assumption|]. apply Hfin. exact Hsub.
  - destruct rest as [|c0 [|f tl]]; try exact Hblock.
    assert (Htl1 : forall r, In r (f :: tl) -> In r whole) by (intros r Hr; apply Hsub; right; exact Hr).
    destruct (negb (tag c0 =? rgen (ks me))); [apply Hbad; exact Htl1|].
    destruct (body c0); try (apply bres_die; assumption).
    destruct ok; [|apply bres_die; assumption].
    apply (Hfin (f :: tl)). exact Htl1.
Qed.

Definition bpost (preq : list (list Z)) (me : ep) (inc : list rec) (R : resT) : Prop :=
  let '(me', inc', em, c) := R in
  (forall r, In r inc' -> In r inc) /\ hb_req (ms me') = hb_req (ms me) /\
  incl (hb_got (ms me')) (hb_req (ms me)) /\
  (forall r, In r em -> hb_rec_ok (hb_req (ms me)) preq r).

Lemma bpost_of_bres preq me r inc' R :
  incl (hb_got (ms me)) (hb_req (ms me)) -> bres me (r :: inc') R -> bpost preq me (r :: inc') R.
Proof.
  destruct R as [[[me' i'] em] c]. unfold bres, bpost. intros Hg (E & Hs & Hn). rewrite E.
  split; [exact Hs|]. split; [reflexivity|]. split; [exact Hg|]. apply no_hb_ok. exact Hn.
Qed.

Lemma bpost_die preq me me1 r inc' d :
  incl (hb_got (ms me)) (hb_req (ms me)) -> ms me1 = ms me -> bpost preq me (r :: inc') (die me1 inc' d).
Proof.
  intros Hg E. apply bpost_of_bres; [exact Hg|]. apply bres_die; [exact E|]. intros x Hx. right. exact Hx.
Qed.

(* continue the loop after consuming r: endpoint me1 (same requests), records k emitted *)
Lemma bpost_trans preq me me1 r inc' k R :
  hb_req (ms me1) = hb_req (ms me) ->
  (forall x, In x k -> hb_rec_ok (hb_req (ms me)) preq x) ->
  bpost preq me1 inc' R ->
  bpost preq me (r :: inc') (let '(me2, inc2, em, c) := R in (me2, inc2, k ++ em, c)).
Proof.
  destruct R as [[[me2 inc2] em] c]. unfold bpost. intros E Hk (A & B & C & D). rewrite E in *.
  split; [intros x Hx; right; apply A; exact Hx|]. split; [exact B|]. split; [exact C|].
  intros x Hx. apply in_app_or in Hx. destruct Hx; auto.
Qed.

Lemma hb_roundtrip' ty p pad : hb_parse (hb_write ty p pad) = Some (ty, p, pad).
Proof.
  unfold hb_write, hb_parse. cbn [app].
  assert (E : zlen p / 256 * 256 + zlen p mod 256 = zlen p).
  { pose proof (Z.div_mod (zlen p) 256 ltac:(lia)). lia. }
  rewrite E. rewrite zlen_app.
  assert (Hn : 0 <= zlen pad) by (unfold zlen; lia).
  destruct (zlen p <=? zlen p + zlen pad) eqn:El; [|lia].
  unfold zlen. rewrite Nat2Z.id.
  rewrite firstn_app, Nat.sub_diag, firstn_all. cbn [firstn]. rewrite app_nil_r.
  rewrite skipn_app, Nat.sub_diag, skipn_all. reflexivity.
Qed.

Lemma rloop_b v13 preq : forall inc me,
  (forall r, In r inc -> hb_rec_ok preq (hb_req (ms me)) r) ->
  incl (hb_got (ms me)) (hb_req (ms me)) ->
  bpost preq me inc (rloop v13 me inc).
Proof.
  induction inc as [|r inc' IH]; intros me Hin Hg.
  - cbn [rloop]. unfold bpost. split; [auto|]. split; [reflexivity|]. split; [exact Hg|intros x []].
  - assert (Hin' : forall me1, hb_req (ms me1) = hb_req (ms me) ->
                   forall x, In x inc' -> hb_rec_ok preq (hb_req (ms me1)) x).
    { intros me1 E x Hx. rewrite E. apply Hin. right. exact Hx. }
    cbn [rloop].
    destruct (negb (tag r =? rgen (ks me))).
    { apply bpost_of_bres; [exact Hg|]. unfold bres. cbn. split; [reflexivity|].
      split; [intros x Hx; right; exact Hx|apply no_hb_alert]. }
    destruct (body r) eqn:Eb.
    + (* MData *)
      destruct d as [|d0 d'].
      * apply (bpost_trans preq me me r inc' [] (rloop v13 me inc')) in IH; auto.
        -- destruct (rloop v13 me inc') as [[[me2 inc2] em] c]. exact IH.
        -- intros x [].
      * apply bpost_of_bres; [exact Hg|]. unfold bres. cbn. split; [reflexivity|].
        split; [intros x Hx; right; exact Hx|apply no_hb_nil].
    + (* MKU *)
      destruct (negb v13); [apply bpost_die; auto|].
      destruct (v <? 0); [apply bpost_die; auto|].
      destruct (2 <=? v); [apply bpost_die; auto|].
      destruct (v =? 1).
      * specialize (IH (bump_w (bump_r me true) true) (Hin' _ eq_refl) Hg).
        apply (bpost_trans preq me _ r inc' [emit (bump_r me true) (MKU 0)]) in IH; auto.
        intros x [Hx|[]] b Hb. subst x. discriminate.
      * specialize (IH (bump_r me false) (Hin' _ eq_refl) Hg).
        apply (bpost_trans preq me _ r inc' []) in IH; auto.
        -- destruct (rloop v13 (bump_r me false) inc') as [[[me2 inc2] em] c]. exact IH.
        -- intros x [].
    + (* MHB *)
      pose proof (Hin r (or_introl eq_refl) b Eb) as Hrec.
      destruct (on_heartbeat me b) as [[me1 out]|] eqn:Eh; [|apply bpost_die; auto].
      assert (Hme1 : hb_req (ms me1) = hb_req (ms me) /\ incl (hb_got (ms me1)) (hb_req (ms me)) /\
                     (forall x, In x out -> hb_rec_ok (hb_req (ms me)) preq x)).
      { unfold on_heartbeat in Eh. destruct (negb (hb_sup (cf me))); [discriminate|].
        destruct b as [|b0 b']; [discriminate|].
        destruct (hb_parse (b0 :: b')) as [[[ty pl] pd]|] eqn:Ep.
        2:{ inversion Eh; subst. split; [reflexivity|]. split; [exact Hg|intros x []]. }
        destruct (ty =? 1) eqn:Ety.
        - destruct (negb (hb_recv (cf me))); [discriminate|].
          destruct (zlen pd <? 16); [inversion Eh; subst; split; [reflexivity|]; split; [exact Hg|intros x []]|].
          destruct (recsize (cf me) <? zlen (hb_write 2 pl (padding 16)));
            inversion Eh; subst; (split; [reflexivity|]); (split; [exact Hg|]); [intros x []|].
          intros x [Hx|[]] b2 Hb2. subst x. cbn [emit body] in Hb2. inversion Hb2; subst b2. right.
          exists pl. split; [reflexivity|].
          apply Z.eqb_eq in Ety. subst ty.
          destruct Hrec as [(p & pad & Hb & Hp)|(p & Hb & Hp)]; rewrite Hb, hb_roundtrip' in Ep; inversion Ep; subst; auto.
        - destruct ((ty =? 2) && hb_cb (cf me)) eqn:E2; inversion Eh; subst.
          + split; [reflexivity|]. split; [|intros x []].
            cbn [add_hb set_ms ms hb_got]. intros q Hq. apply in_app_or in Hq. destruct Hq as [Hq|[Hq|[]]]; [apply Hg; exact Hq|].
            subst q. apply andb_true_iff in E2. destruct E2 as [E2 _]. apply Z.eqb_eq in E2. subst ty.
            destruct Hrec as [(p & pad & Hb & Hp)|(p & Hb & Hp)]; rewrite Hb, hb_roundtrip' in Ep; inversion Ep; subst; auto.
          + split; [reflexivity|]. split; [exact Hg|intros x []]. }
      destruct Hme1 as (E1 & G1 & O1).
      assert (Hg1 : incl (hb_got (ms me1)) (hb_req (ms me1))) by (rewrite E1; exact G1).
      specialize (IH me1 (Hin' _ E1) Hg1).
      apply (bpost_trans preq me me1 r inc' out) in IH; auto.
    + (* MNST *)
      destruct (v13 && is_cl (cf me)); [|apply bpost_die; auto].
      unfold bpost. cbn. split; [intros x Hx; right; exact Hx|]. split; [reflexivity|]. split; [exact Hg|intros x []].
    + (* MCertReq *)
      destruct (v13 && is_cl (cf me) && pha_key (cf me)); [|apply bpost_die; auto].
      destruct (negb wf); [apply bpost_die; auto|].
      apply bpost_of_bres; [exact Hg|]. unfold bres. split; [reflexivity|]. split; [intros x Hx; right; exact Hx|].
      intros x b Hx. apply in_map_iff in Hx. destruct Hx as [m [Hm Hi]]. subst x. cbn [emit body].
      unfold pha_reply in Hi. destruct (dev (cf (note_ctx me ctx)) =? 6); [|destruct (dev (cf (note_ctx me ctx)) =? 7)]; cbn [In] in Hi;
        repeat (destruct Hi as [Hi|Hi]; [subst m; discriminate|]); destruct Hi.
    + (* MCert *)
      destruct (v13 && negb (is_cl (cf me)) && negb (match pending (au me) with [] => true | _ :: _ => false end));
        [|apply bpost_die; auto].
      destruct (ctx =? 0); [apply bpost_die; auto|].
      destruct (negb (ctx_mem ctx (pending (au me)))); [apply bpost_die; auto|].
      apply bpost_of_bres; [exact Hg|]. apply srv_pha_b; [reflexivity|]. intros x Hx. right. exact Hx.
    + apply bpost_die; auto.
    + apply bpost_die; auto.
    + apply bpost_die; auto.
    + (* MAlert *)
      apply bpost_of_bres; [exact Hg|].
      destruct fatal; [|destruct (desc =? 0)]; unfold bres; cbn; (split; [reflexivity|]);
        (split; [intros x Hx; right; exact Hx|]); try apply no_hb_nil; apply no_hb_alert.
    + apply bpost_die; auto.
    + apply bpost_die; auto.
Qed.

Lemma hb_rec_ok_mono w w' r' r'' x :
  hb_rec_ok w r' x -> incl w w' -> incl r' r'' -> hb_rec_ok w' r'' x.
Proof.
  intros H Hw Hr b Hb. destruct (H b Hb) as [(p & pad & E & Hp)|(p & E & Hp)].
  - left. exists p, pad. auto.
  - right. exists p. auto.
Qed.

Lemma bupd s me' em inc' :
  BInv s -> (forall r, In r inc' -> In r (ba s)) ->
  incl (hb_req (ms (ea s))) (hb_req (ms me')) ->
  incl (hb_got (ms me')) (hb_req (ms me')) ->
  (forall r, In r em -> hb_rec_ok (hb_req (ms me')) (hb_req (ms (eb s))) r) ->
  BInv (mkst me' (eb s) (ab s ++ em) inc' (g13 s)).
Proof.
  intros (A & B & C & D) Hs Hi Hg He. unfold BInv. cbn.
  split.
  { intros r Hr. apply in_app_or in Hr. destruct Hr as [Hr|Hr]; [|apply He; exact Hr].
    eapply hb_rec_ok_mono; [apply A; exact Hr|exact Hi|apply incl_refl]. }
  split.
  { intros r Hr. eapply hb_rec_ok_mono; [apply B; apply Hs; exact Hr|apply incl_refl|exact Hi]. }
  split; assumption.
Qed.

(* the common case: requests and callback log of the actor unchanged, nothing heartbeat-like emitted *)
Lemma bupd0 s me' em inc' :
  BInv s -> (forall r, In r inc' -> In r (ba s)) -> ms me' = ms (ea s) -> no_hb em ->
  BInv (mkst me' (eb s) (ab s ++ em) inc' (g13 s)).
Proof.
  intros H Hs E Hn. pose proof H as (A & B & C & D).
  apply bupd; auto; rewrite E; [apply incl_refl|exact C|].
  apply no_hb_ok. exact Hn.
Qed.

Lemma no_hb_all em : (forall r, In r em -> forall b, body r <> MHB b) -> no_hb em.
Proof. intros H r b Hr. apply H. exact Hr. Qed.

Lemma act_b s o : BInv s -> no_hb_inject o = true -> BInv (fst (act s o)).
Proof.
  intros H Ho. pose proof H as (A & B & C & D).
  assert (Hdel : forall me mx, ms (fst (deliver me mx)) = ms me) by (intros; reflexivity).
  unfold act. destruct o.
  - (* OWrite *)
    destruct (closed (io (ea s))); cbn [fst]; [exact H|].
    apply bupd0; auto. intros r b Hr. apply in_map_iff in Hr. destruct Hr as [f [Hf _]]. subst r. discriminate.
  - (* ORead *)
    destruct (closed (io (ea s))).
    { unfold deliver. cbn [fst]. rewrite <- (app_nil_r (ab s)). apply bupd0; auto. apply no_hb_nil. }
    destruct (g13 s && negb (is_cl (cf (ea s))) && negb (first_wf (pending (au (ea s))))).
    { cbn [fst]. apply bupd0; auto. apply no_hb_alert. }
    destruct (rbuf (io (ea s))) as [|b0 bs] eqn:Erb.
    2:{ unfold deliver. cbn [fst]. rewrite <- (app_nil_r (ab s)). apply bupd0; auto. apply no_hb_nil. }
    pose proof (rloop_b (g13 s) (hb_req (ms (eb s))) (ba s) (ea s) B C) as Hb.
    destruct (rloop (g13 s) (ea s) (ba s)) as [[[me1 inc1] em] c].
    destruct Hb as (P1 & P2 & P3 & P4).
    assert (Hnew : BInv (mkst me1 (eb s) (ab s ++ em) inc1 (g13 s))).
    { apply bupd; auto; rewrite P2; [apply incl_refl|exact P3|exact P4]. }
    destruct (c =? 0); [|exact Hnew].
    unfold deliver. cbn [fst].
    pose proof Hnew as (A' & B' & C' & D'). unfold BInv. cbn in *. auto.
  - (* OKeyUpdate *)
    destruct (closed (io (ea s))); cbn [fst]; [exact H|].
    destruct (negb (g13 s)); cbn [fst]; [exact H|].
    apply bupd0; auto. intros r b [Hr|[]]. subst r. discriminate.
  - (* ORequestAuth *)
    destruct (closed (io (ea s)) || negb (g13 s) || is_cl (cf (ea s)) || negb (pha_sup (cf (ea s)))); cbn [fst]; [exact H|].
    apply bupd0; auto. intros r b [Hr|[]]. subst r. discriminate.
  - (* OHeartbeat *)
    destruct (closed (io (ea s))); cbn [fst]; [exact H|].
    destruct (negb (hb_sup (cf (ea s))) || negb (hb_send (cf (ea s)))); cbn [fst]; [exact H|].
    destruct (recsize (cf (ea s)) <? zlen (hb_write 1 payload (padding padlen))); cbn [fst]; [exact H|].
    apply bupd; auto.
    + cbn. apply incl_appl. apply incl_refl.
    + cbn. apply incl_appl. exact C.
    + intros r [Hr|[]] b Hb. subst r. cbn [emit body] in Hb. inversion Hb; subst b. left.
      exists payload, (padding padlen). split; [reflexivity|]. cbn. apply in_or_app. right. left. reflexivity.
  - (* OTickets *)
    destruct (closed (io (ea s)) || negb (g13 s) || is_cl (cf (ea s))); cbn [fst]; [exact H|].
    apply bupd0; auto. intros r b Hr. apply repeat_spec in Hr. subst r. discriminate.
  - (* OClose *)
    destruct (closed (io (ea s))); cbn [fst]; [exact H|].
    apply bupd0; auto. apply no_hb_alert.
  - (* OSetRecSize *)
    destruct (n <? 1); cbn [fst]; [exact H|].
    rewrite <- (app_nil_r (ab s)). apply bupd0; auto. apply no_hb_nil.
  - (* OSetDev *)
    cbn [fst]. rewrite <- (app_nil_r (ab s)). apply bupd0; auto. apply no_hb_nil.
  - (* OInject *)
    destruct (closed (io (ea s))); cbn [orb fst]; [exact H|].
    destruct (negb (injectable m)); cbn [fst]; [exact H|].
    apply bupd0; auto. intros r b [Hr|[]]. subst r. cbn [emit body]. destruct m; try discriminate.
  - (* OReplayPha *)
    destruct (closed (io (ea s))); cbn [orb fst]; [exact H|].
    destruct (first_ctx (au (ea s)) =? 0); cbn [fst]; [exact H|].
    apply bupd0; auto. intros r b Hr. cbn [map In] in Hr. destruct Hr as [Hr|[Hr|[Hr|[]]]]; subst r; discriminate.
Qed.

Lemma swap_b s : BInv s -> BInv (swap s).
Proof. unfold BInv, swap. cbn. tauto. Qed.

Lemma step_b s a o : BInv s -> no_hb_inject o = true -> BInv (fst (step s a o)).
Proof.
  intros H Ho. unfold step. destruct a; [apply act_b; assumption|].
  pose proof (act_b (swap s) o (swap_b s H) Ho) as H1.
  destruct (act (swap s) o) as [s' r]. cbn [fst] in *. apply swap_b. exact H1.
Qed.

Lemma exec_b : forall ops s, BInv s -> forallb (fun p => no_hb_inject (snd p)) ops = true -> BInv (exec s ops).
Proof.
  unfold exec. induction ops as [|[a o] tl IH]; intros s H Ho; cbn [run fst]; [exact H|].
  cbn [forallb snd] in Ho. apply andb_true_iff in Ho. destruct Ho as [Ho Htl].
  pose proof (step_b s a o H Ho) as H1. destruct (step s a o) as [s1 r]. cbn [fst] in H1.
  specialize (IH s1 H1 Htl). destruct (run s1 tl) as [s2 rs]. exact IH.
Qed.

Lemma init_b v13 cc sc nst : BInv (init v13 cc sc nst).
Proof.
  unfold BInv, init. cbn. split; [intros r []|]. split.
  - intros r Hr b Hb. apply repeat_spec in Hr. subst r. discriminate.
  - split; intros x [].
Qed.

Lemma hb_never_foreign_all : forall v13 cc sc nst ops,
  forallb (fun p => no_hb_inject (snd p)) ops = true ->
  let s := exec (init v13 cc sc nst) ops in
  incl (hb_got (ms (ea s))) (hb_req (ms (ea s))) /\ incl (hb_got (ms (eb s))) (hb_req (ms (eb s))).
Proof.
  intros v13 cc sc nst ops Ho. destruct (exec_b ops _ (init_b v13 cc sc nst) Ho) as (_ & _ & C & D). auto.
Qed.

(* hb_req grows only by the payload of a write_heartbeat call of that endpoint *)
Lemma act_req s o : BInv s ->
  eb (fst (act s o)) = eb s /\
  (hb_req (ms (ea (fst (act s o)))) = hb_req (ms (ea s)) \/
   exists p pl, o = OHeartbeat p pl /\ hb_req (ms (ea (fst (act s o)))) = hb_req (ms (ea s)) ++ [p]).
Proof.
  intros (A & B & C & D). unfold act.
  destruct o;
    try (repeat match goal with
                | |- context [if ?c then _ else _] => destruct c
                end; cbn [fst ea eb]; auto; fail).
  - (* ORead *)
    destruct (closed (io (ea s))); [cbn; auto|].
    destruct (g13 s && negb (is_cl (cf (ea s))) && negb (first_wf (pending (au (ea s))))); [cbn; auto|].
    destruct (rbuf (io (ea s))); [|cbn; auto].
    pose proof (rloop_b (g13 s) (hb_req (ms (eb s))) (ba s) (ea s) B C) as Hb.
    destruct (rloop (g13 s) (ea s) (ba s)) as [[[me1 inc1] em] c].
    destruct Hb as (_ & P2 & _). destruct (c =? 0); cbn; auto.
  - (* OHeartbeat *)
    destruct (closed (io (ea s))); [cbn; auto|].
    destruct (negb (hb_sup (cf (ea s))) || negb (hb_send (cf (ea s)))); [cbn; auto|].
    destruct (recsize (cf (ea s)) <? zlen (hb_write 1 payload (padding padlen))); [cbn; auto|].
    cbn [fst ea eb]. split; [reflexivity|]. right. exists payload, padlen. split; reflexivity.
Qed.

Lemma step_req s a o : BInv s ->
  let s1 := fst (step s a o) in
  (forall p, In p (hb_req (ms (ea s1))) -> In p (hb_req (ms (ea s))) \/ In p (hb_calls true [(a, o)])) /\
  (forall p, In p (hb_req (ms (eb s1))) -> In p (hb_req (ms (eb s))) \/ In p (hb_calls false [(a, o)])).
Proof.
  intros H. unfold step. destruct a.
  - destruct (act_req s o H) as [Eb [E|(p0 & pl & Eo & E)]]; cbn zeta; rewrite Eb, E; split; auto.
    intros p Hp. apply in_app_or in Hp. destruct Hp as [Hp|[Hp|[]]]; [auto|]. subst. right. left. reflexivity.
  - pose proof (act_req (swap s) o (swap_b s H)) as Hr.
    destruct (act (swap s) o) as [s' r]. cbn [fst] in *. cbn [swap ea eb] in *.
    destruct Hr as [Eb [E|(p0 & pl & Eo & E)]]; rewrite Eb, E; split; auto.
    intros p Hp. apply in_app_or in Hp. destruct Hp as [Hp|[Hp|[]]]; [auto|]. subst. right. left. reflexivity.
Qed.

Lemma hb_calls_cons a x tl p : In p (hb_calls a [x]) \/ In p (hb_calls a tl) -> In p (hb_calls a (x :: tl)).
Proof.
  destruct x as [a' o]. cbn [hb_calls].
  destruct o; try (intros [[]|H]; exact H).
  destruct (Bool.eqb a a'); cbn [In]; [|intros [[]|H]; exact H].
  intros [[H|[]]|H]; auto.
Qed.

Lemma exec_req : forall ops s, BInv s -> forallb (fun p => no_hb_inject (snd p)) ops = true ->
  (forall p, In p (hb_req (ms (ea (exec s ops)))) -> In p (hb_req (ms (ea s))) \/ In p (hb_calls true ops)) /\
  (forall p, In p (hb_req (ms (eb (exec s ops)))) -> In p (hb_req (ms (eb s))) \/ In p (hb_calls false ops)).
Proof.
  unfold exec. induction ops as [|[a o] tl IH]; intros s H Ho; cbn [run fst]; [split; auto|].
  cbn [forallb snd] in Ho. apply andb_true_iff in Ho. destruct Ho as [Ho Htl].
  pose proof (step_b s a o H Ho) as H1. pose proof (step_req s a o H) as [R1 R2].
  destruct (step s a o) as [s1 r]. cbn [fst] in *.
  specialize (IH s1 H1 Htl). destruct (run s1 tl) as [s2 rs]. cbn [fst] in *. destruct IH as [I1 I2].
  split; intros p Hp.
  - destruct (I1 p Hp) as [Hq|Hq]; [destruct (R1 p Hq) as [Hq'|Hq']; [auto|]|]; right; apply hb_calls_cons; auto.
  - destruct (I2 p Hp) as [Hq|Hq]; [destruct (R2 p Hq) as [Hq'|Hq']; [auto|]|]; right; apply hb_calls_cons; auto.
Qed.

(* every payload handed to a heartbeat callback is the payload of a write_heartbeat call made
   earlier by that same endpoint *)
Lemma hb_callback_payloads_requested : forall v13 cc sc nst ops,
  forallb (fun p => no_hb_inject (snd p)) ops = true ->
  let s := exec (init v13 cc sc nst) ops in
  (forall p, In p (hb_got (ms (ea s))) -> In p (hb_calls true ops)) /\
  (forall p, In p (hb_got (ms (eb s))) -> In p (hb_calls false ops)).
Proof.
  intros v13 cc sc nst ops Ho.
  destruct (hb_never_foreign_all v13 cc sc nst ops Ho) as [G1 G2].
  destruct (exec_req ops _ (init_b v13 cc sc nst) Ho) as [R1 R2].
  split; intros p Hp.
  - destruct (R1 p (G1 p Hp)) as [[]|Hq]. exact Hq.
  - destruct (R2 p (G2 p Hp)) as [[]|Hq]. exact Hq.
Qed.

(* a request that would have to be fragmented is refused locally: nothing changes, nothing is sent *)
Lemma hb_oversize_refused s p pl :
  recsize (cf (ea s)) < zlen (hb_write 1 p (padding pl)) ->
  fst (act s (OHeartbeat p pl)) = s /\ emitted (snd (act s (OHeartbeat p pl))) = [] /\
  2000 <= code (snd (act s (OHeartbeat p pl))).
Proof.
  intros H. unfold act. destruct (closed (io (ea s))); [cbn; repeat split; lia|].
  destruct (negb (hb_sup (cf (ea s))) || negb (hb_send (cf (ea s)))); [cbn; repeat split; lia|].
  destruct (recsize (cf (ea s)) <? zlen (hb_write 1 p (padding pl))) eqn:E; [cbn; repeat split; lia|].
  apply Z.ltb_ge in E. lia.
Qed.
