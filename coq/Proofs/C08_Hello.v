(* C08: crash analysis of the ClientHello well-formedness checks (model regenerated from
   tlslite/tlsconnection.py:_serverGetClientHello by translator/crashlite.py).
   - the generated proof script (Gen/ChChecksProof.v) shows: for EVERY abstract ClientHello,
     settings and hostname oracle the region crashes at most at the sites of ch_known_sites,
     which is EMPTY on the current /repo: full crash-freedom;
   - the former refutation witnesses (see below) now end in alerts. *)
From Coq Require Import ZArith List Bool String.
From TV Require Import Base.Prelude Base.C08_Lib Gen.ChChecks Gen.ChChecksProof Model.C08_Known.
Import ListNotations.
Open Scope Z_scope.

Definition st0 : Settings_r :=
  {| Settings_minVersion := (3, 1); Settings_maxVersion := (3, 4); Settings_max_early_data := 16384;
     Settings_versions := [(3, 4); (3, 3); (3, 2); (3, 1)] |}.

Definition mk_ch (cv : ver) (exts : list ext) : ClientHello_r :=
  {| ClientHello_client_version := cv; ClientHello_cipher_suites := [4865; 49199; 47];
     ClientHello_compression_methods := [0]; ClientHello_session_id := [];
     ClientHello_extensions := Some exts |}.

Definition x_versions (v : option (list ver)) : ext :=
  X_SupportedVersionsExtension {| SupportedVersionsExtension_versions := v |}.
Definition x_groups : ext := X_SupportedGroupsExtension {| SupportedGroupsExtension_groups := Some [29; 23] |}.
Definition x_share : ext :=
  X_ClientKeyShareExtension {| ClientKeyShareExtension_client_shares :=
     Some [ {| KeyShareEntry_group := 29; KeyShareEntry_key_exchange := [1; 2; 3] |} ] |}.
Definition x_modes : ext := X_PskKeyExchangeModesExtension {| PskKeyExchangeModesExtension_modes := Some [1] |}.
Definition x_psk (identity binder : list Z) : ext :=
  X_PreSharedKeyExtension
    {| PreSharedKeyExtension_identities :=
         Some [ {| PskIdentity_identity := identity; PskIdentity_obfuscated_ticket_age := 0 |} ];
       PreSharedKeyExtension_binders := Some [binder] |}.

(* TLS 1.3 ClientHello whose pre_shared_key extension carries an EMPTY identity *)
Definition w_empty_identity : ClientHello_r :=
  mk_ch (3, 3) [x_versions (Some [(3, 4)]); x_groups; x_share; x_modes; x_psk [] [7; 7; 7]].
(* ... an EMPTY binder *)
Definition w_empty_binder : ClientHello_r :=
  mk_ch (3, 3) [x_versions (Some [(3, 4)]); x_groups; x_share; x_modes; x_psk [105; 100] []].
(* supported_versions extension with an empty body (versions = None), TLS 1.2 hello *)
Definition w_empty_versions_12 : ClientHello_r := mk_ch (3, 3) [x_versions None].
(* the same in a TLS 1.0 hello: the first loop is skipped, the TLS 1.3 test crashes *)
Definition w_empty_versions_10 : ClientHello_r := mk_ch (3, 1) [x_versions None].

Definition ivh0 (_ : list Z) : bool := true.

(* The four abstract values below were the refutation witnesses before /repo commits b10bb95
   (AlertDescription.decoder_error -> decode_error) and 5fb1773 (empty supported_versions =>
   decode_error): the model regenerated from the code then returned
     Crash "AttributeError" "AlertDescription.decoder_error#1" / "#2",
     Crash "TypeError" "iter:ext.versions#1", Crash "TypeError" "in:ver_ext.versions#1".
   On the fixed code each of them ends in the decode_error alert (by computation). *)
Lemma ch_former_witness_1 : ChChecks w_empty_identity st0 ivh0 = Alert 50.
Proof. vm_compute. reflexivity. Qed.
Lemma ch_former_witness_2 : ChChecks w_empty_binder st0 ivh0 = Alert 50.
Proof. vm_compute. reflexivity. Qed.
Lemma ch_former_witness_3 : ChChecks w_empty_versions_12 st0 ivh0 = Alert 50.
Proof. vm_compute. reflexivity. Qed.
Lemma ch_former_witness_4 : ChChecks w_empty_versions_10 st0 ivh0 = Alert 50.
Proof. vm_compute. reflexivity. Qed.

(* FULL crash-freedom of the ClientHello checks *)
Lemma ch_crash_free_l : forall ch st ivh, ncrash (ChChecks ch st ivh).
Proof.
  intros. apply crash_in_nil_ncrash. exact (ChChecks_crash_sites ch st ivh).
Qed.

(* a well-formed TLS 1.3 hello passes the region (the hypotheses-free theorem is not vacuous) *)
Definition w_good : ClientHello_r :=
  mk_ch (3, 3) [x_versions (Some [(3, 4); (3, 3)]); x_groups; x_share;
                X_SignatureAlgorithmsExtension {| SignatureAlgorithmsExtension_sigalgs := Some [(8, 4)] |}].
Lemma ch_good_ok : ChChecks w_good st0 ivh0 = OK tt.
Proof. vm_compute. reflexivity. Qed.
(* and the documented alert for an empty PSK identity list is produced *)
Lemma ch_alert_example :
  ChChecks (mk_ch (3, 3) [x_versions (Some [(3, 4)]); x_groups; x_share; x_modes;
                          X_PreSharedKeyExtension {| PreSharedKeyExtension_identities := Some [];
                                                     PreSharedKeyExtension_binders := Some [[1]] |}]) st0 ivh0
  = Alert 50.
Proof. vm_compute. reflexivity. Qed.

