(* Serializability from lock discipline, for every schedule (induction over the schedule:
   no bound on the number of threads, steps or pre-emptions). *)
From Coq Require Import ZArith List Bool Lia.
From TV Require Import Base.Prelude Base.C18_Lib Model.C18_Conc.
Import ListNotations.

(* ---- list update facts ---------------------------------------------------- *)
Lemma upd_nth_id {A} i (l : list A) t : nth_error l i = Some t -> upd_nth i l t = l.
Proof.
  revert i. induction l as [|x xs IH]; intros [|i]; cbn [upd_nth nth_error]; intros H; try discriminate.
  - congruence.
  - f_equal. apply IH. exact H.
Qed.

Lemma upd_nth_twice {A} i (l : list A) a b : upd_nth i (upd_nth i l a) b = upd_nth i l b.
Proof.
  revert i. induction l as [|x xs IH]; intros [|i]; cbn [upd_nth]; try reflexivity.
  f_equal. apply IH.
Qed.

Lemma upd_nth_comm {A} i j (l : list A) a b : i <> j ->
  upd_nth i (upd_nth j l a) b = upd_nth j (upd_nth i l b) a.
Proof.
  revert i j. induction l as [|x xs IH]; intros [|i] [|j] H; cbn [upd_nth]; try reflexivity; try lia.
  f_equal. apply IH. lia.
Qed.

Lemma nth_error_upd_same {A} i (l : list A) t v : nth_error l i = Some t -> nth_error (upd_nth i l v) i = Some v.
Proof.
  intros H. apply upd_nth_same. apply nth_error_Some. congruence.
Qed.

Section ConcProofs.
  Variables Lo V : Type.
  Notation step := (step Lo V).
  Notation thread := (thread Lo V).
  Notation config := (config Lo V).
  Notation sconf := (sconf Lo V).

  Definition holds (c : config) (i : nat) : bool :=
    match g_lock c with Some j => Nat.eqb j i | None => false end.

  (* every thread's remaining program respects the lock discipline from its current
     position (inside for the holder, outside for everyone else) *)
  Definition wl_config (c : config) : Prop :=
    (forall i t, nth_error (g_threads c) i = Some t -> wl (holds c i) (t_prog t) = true) /\
    (forall h, g_lock c = Some h -> (h < length (g_threads c))%nat).

  Lemma nth_set_thread (ths : list thread) i j lo p t :
    nth_error (set_thread ths i lo p) j = Some t ->
    (j = i /\ t = {| t_lo := lo; t_prog := p |} /\ (i < length ths)%nat) \/ (j <> i /\ nth_error ths j = Some t).
  Proof.
    unfold set_thread. intros H. destruct (Nat.eq_dec j i) as [->|Hne].
    - left. assert (i < length ths)%nat as Hl.
      { rewrite <- (upd_nth_length i ths {| t_lo := lo; t_prog := p |}). apply nth_error_Some. congruence. }
      rewrite upd_nth_same in H by exact Hl. split; [reflexivity|]. split; [congruence|exact Hl].
    - right. rewrite upd_nth_other in H by exact Hne. auto.
  Qed.

  Lemma fire_length (c c' : config) i : fire c i = Some c' -> length (g_threads c') = length (g_threads c).
  Proof.
    unfold fire. destruct (nth_error (g_threads c) i) as [t|]; [|discriminate].
    destruct (t_prog t) as [|s p]; [discriminate|].
    destruct s; try destruct (g_lock c) as [j|]; try destruct (Nat.eqb j i);
      intros H; inversion H; subst; cbn [g_threads]; unfold set_thread; apply upd_nth_length.
  Qed.

  Lemma fire_preserves_wl (c c' : config) i : wl_config c -> fire c i = Some c' -> wl_config c'.
  Proof.
    intros [Hw Hh] Hf. pose proof (fire_length _ _ _ Hf) as Hlen.
    unfold fire in Hf. destruct (nth_error (g_threads c) i) as [t|] eqn:Ht; [|discriminate].
    pose proof (Hw i t Ht) as Hwi.
    assert (i < length (g_threads c))%nat as Hil by (apply nth_error_Some; congruence).
    destruct (t_prog t) as [|s p] eqn:Hp; [discriminate|].
    destruct s.
    - (* Acq *)
      destruct (g_lock c) as [j|] eqn:Hl; [discriminate|]. inversion Hf; subst c'; clear Hf.
      unfold holds in Hwi. rewrite Hl in Hwi. cbn [wl negb andb] in Hwi.
      split.
      + intros j t' Hj. cbn [g_threads] in Hj. unfold holds. cbn [g_lock].
        apply nth_set_thread in Hj. destruct Hj as [[-> [-> _]]|[Hne Hj]].
        * rewrite Nat.eqb_refl. cbn [t_prog]. exact Hwi.
        * specialize (Hw j t' Hj). unfold holds in Hw. rewrite Hl in Hw.
          destruct (Nat.eqb i j) eqn:E; [apply Nat.eqb_eq in E; congruence|exact Hw].
      + intros h Hh'. cbn [g_lock] in Hh'. inversion Hh'; subst h. rewrite Hlen. exact Hil.
    - (* Rel *)
      destruct (g_lock c) as [j|] eqn:Hl; [|discriminate].
      destruct (Nat.eqb j i) eqn:Eji; [|discriminate]. apply Nat.eqb_eq in Eji. subst j.
      inversion Hf; subst c'; clear Hf.
      unfold holds in Hwi. rewrite Hl, Nat.eqb_refl in Hwi. cbn [wl andb] in Hwi.
      split.
      + intros j t' Hj. cbn [g_threads] in Hj. unfold holds. cbn [g_lock].
        apply nth_set_thread in Hj. destruct Hj as [[-> [-> _]]|[Hne Hj]].
        * cbn [t_prog]. exact Hwi.
        * specialize (Hw j t' Hj). unfold holds in Hw. rewrite Hl in Hw.
          destruct (Nat.eqb i j) eqn:E; [apply Nat.eqb_eq in E; congruence|exact Hw].
      + intros h Hh'. cbn [g_lock] in Hh'. discriminate.
    - (* Rd *)
      inversion Hf; subst c'; clear Hf.
      cbn [wl] in Hwi. apply andb_true_iff in Hwi. destruct Hwi as [Hin Hwi].
      split.
      + intros j t' Hj. cbn [g_threads] in Hj. unfold holds. cbn [g_lock]. fold (holds c j).
        apply nth_set_thread in Hj. destruct Hj as [[-> [-> _]]|[Hne Hj]].
        * cbn [t_prog]. exact Hwi.
        * exact (Hw j t' Hj).
      + intros h Hh'. cbn [g_lock] in Hh'. rewrite Hlen. apply Hh. exact Hh'.
    - (* Wr *)
      inversion Hf; subst c'; clear Hf.
      cbn [wl] in Hwi. apply andb_true_iff in Hwi. destruct Hwi as [Hin Hwi].
      split.
      + intros j t' Hj. cbn [g_threads] in Hj. unfold holds. cbn [g_lock]. fold (holds c j).
        apply nth_set_thread in Hj. destruct Hj as [[-> [-> _]]|[Hne Hj]].
        * cbn [t_prog]. exact Hwi.
        * exact (Hw j t' Hj).
      + intros h Hh'. cbn [g_lock] in Hh'. rewrite Hlen. apply Hh. exact Hh'.
    - (* Loc *)
      inversion Hf; subst c'; clear Hf.
      cbn [wl] in Hwi.
      split.
      + intros j t' Hj. cbn [g_threads] in Hj. unfold holds. cbn [g_lock]. fold (holds c j).
        apply nth_set_thread in Hj. destruct Hj as [[-> [-> _]]|[Hne Hj]].
        * cbn [t_prog]. exact Hwi.
        * exact (Hw j t' Hj).
      + intros h Hh'. cbn [g_lock] in Hh'. rewrite Hlen. apply Hh. exact Hh'.
  Qed.

  (* ---- running an operation of a finished thread changes nothing ----------- *)
  Lemma run_op_finished (sc : sconf) i :
    (forall t, nth_error (snd sc) i = Some t -> t_prog t = []) -> run_op sc i = sc.
  Proof.
    intros H. unfold run_op. destruct sc as [st ths]. cbn [fst snd] in *.
    destruct (nth_error ths i) as [t|] eqn:Ht; [|reflexivity].
    pose proof (H t eq_refl) as Hp. destruct t as [lo p]. cbn [t_lo t_prog] in *. subst p.
    cbn [run_chunk]. unfold set_thread. rewrite (upd_nth_id _ _ _ Ht). reflexivity.
  Qed.

  Lemma serial_finished order (sc : sconf) :
    (forall t, In t (snd sc) -> t_prog t = []) -> serial order sc = sc.
  Proof.
    intros H. unfold serial. induction order as [|i order IH]; cbn [fold_left]; [reflexivity|].
    rewrite run_op_finished; [exact IH|].
    intros t Ht. apply H. eapply nth_error_In. exact Ht.
  Qed.

  (* ---- a local step of thread i is invisible to every sequential order in which i
          still gets a turn ---------------------------------------------------- *)
  Lemma loc_step_invisible order : forall (st : store V) (ths : list thread) i lo f p,
    In i order ->
    nth_error ths i = Some {| t_lo := lo; t_prog := Loc f :: p |} ->
    serial order (st, ths) = serial order (st, set_thread ths i (f lo) p).
  Proof.
    induction order as [|j order IH]; intros st ths i lo f p Hin Hi; [destruct Hin|].
    unfold serial. cbn [fold_left]. fold (serial order (run_op (st, ths) j)).
    fold (serial order (run_op (st, set_thread ths i (f lo) p) j)).
    destruct (Nat.eq_dec j i) as [->|Hne].
    - f_equal. unfold run_op. cbn [fst snd]. rewrite Hi.
      unfold set_thread at 2. rewrite (nth_error_upd_same _ _ _ _ Hi).
      cbn [t_lo t_prog run_chunk].
      destruct (run_chunk false st (f lo) p) as [[st' lo'] p'].
      f_equal. unfold set_thread. rewrite upd_nth_twice. reflexivity.
    - assert (In i order) as Hin' by (destruct Hin; [congruence|assumption]).
      unfold run_op. cbn [fst snd].
      unfold set_thread at 2. rewrite upd_nth_other by exact Hne.
      destruct (nth_error ths j) as [tj|] eqn:Hj.
      + destruct (run_chunk false st (t_lo tj) (t_prog tj)) as [[st' lo'] p'].
        unfold set_thread. rewrite upd_nth_comm by exact Hne.
        apply (IH st' (upd_nth j ths {| t_lo := lo'; t_prog := p' |}) i lo f p Hin').
        rewrite upd_nth_other by (intro; apply Hne; congruence). exact Hi.
      + apply IH; assumption.
  Qed.

  (* after a release the rest of the operation is local: running it early is invisible *)
  Lemma post_release_invisible order i : In i order ->
    forall p (st : store V) (ths : list thread) lo, wl false p = true -> (i < length ths)%nat ->
    serial order (st, set_thread ths i lo p) =
    serial order (let '(st', lo', p') := run_chunk true st lo p in (st', set_thread ths i lo' p')).
  Proof.
    intros Hin. induction p as [|s p IH]; intros st ths lo Hw Hl.
    - reflexivity.
    - destruct s; cbn [wl negb andb] in Hw; try discriminate.
      + reflexivity.
      + cbn [run_chunk].
        rewrite (loc_step_invisible order st (set_thread ths i lo (Loc f :: p)) i lo f p Hin).
        * unfold set_thread at 1. unfold set_thread at 1. rewrite upd_nth_twice.
          apply (IH st ths (f lo) Hw Hl).
        * unfold set_thread. apply upd_nth_same. exact Hl.
  Qed.

  Definition sc_of (c : config) : sconf := (g_store c, g_threads c).

  Lemma fire_first_step_of_holder (c c1 : config) i t s p :
    nth_error (g_threads c) i = Some t -> t_prog t = s :: p ->
    fire c i = Some c1 ->
    match s with Rel => False | _ => True end ->
    run_op (sc_of c) i = run_op (sc_of c1) i.
  Proof.
    intros Ht Hp Hf Hs. unfold fire in Hf. rewrite Ht, Hp in Hf.
    unfold run_op, sc_of. cbn [fst snd]. rewrite Ht, Hp.
    destruct s; try destruct (g_lock c) as [j|]; try discriminate; try contradiction;
      inversion Hf; subst c1; clear Hf; cbn [g_store g_threads];
      unfold set_thread at 2; rewrite (nth_error_upd_same _ _ _ _ Ht); cbn [t_lo t_prog run_chunk];
      match goal with |- context [run_chunk false ?a ?b ?c] => destruct (run_chunk false a b c) as [[st' lo'] p'] end;
      unfold set_thread; rewrite upd_nth_twice; reflexivity.
  Qed.

  (* ---- main induction over the schedule -------------------------------------- *)
  Lemma serializable_from : forall sched (c cf : config),
    wl_config c -> run_sched c sched = Some cf -> terminal cf ->
    exists order,
      serial order (sc_of c) = sc_of cf /\
      (forall h, g_lock c = Some h -> exists rest, order = h :: rest) /\
      (forall i, (i < length (g_threads c))%nat -> In i order).
  Proof.
    induction sched as [|i sched IH]; intros c cf Hwl Hrun Hterm.
    - cbn [run_sched] in Hrun. inversion Hrun; subst cf; clear Hrun.
      exists ((match g_lock c with Some h => [h] | None => [] end) ++ seq 0 (length (g_threads c))).
      split; [|split].
      + apply serial_finished. exact Hterm.
      + intros h Hh. rewrite Hh. eexists. reflexivity.
      + intros i Hi. apply in_or_app. right. apply in_seq. lia.
    - cbn [run_sched] in Hrun. destruct (fire c i) as [c1|] eqn:Hf; [|discriminate].
      pose proof (fire_preserves_wl _ _ _ Hwl Hf) as Hwl1.
      pose proof (fire_length _ _ _ Hf) as Hlen.
      destruct (IH c1 cf Hwl1 Hrun Hterm) as [order1 [Hser [Hhead Hall]]].
      pose proof Hf as Hf'. unfold fire in Hf'.
      destruct (nth_error (g_threads c) i) as [t|] eqn:Ht; [|discriminate].
      assert (i < length (g_threads c))%nat as Hil by (apply nth_error_Some; congruence).
      destruct (t_prog t) as [|s p] eqn:Hp; [discriminate|].
      destruct Hwl as [Hw Hh]. pose proof (Hw i t Ht) as Hwi. rewrite Hp in Hwi.
      destruct s.
      + (* Acq: the acquiring thread is first in the order found for c1 *)
        destruct (g_lock c) as [j|] eqn:Hl; [discriminate|].
        assert (g_lock c1 = Some i) as Hl1 by (injection Hf' as <-; reflexivity).
        destruct (Hhead i Hl1) as [rest ->].
        exists (i :: rest). split; [|split].
        * unfold serial. cbn [fold_left].
          rewrite (fire_first_step_of_holder c c1 i t Acq p Ht Hp Hf I). exact Hser.
        * intros h Hh'. discriminate.
        * intros k Hk. apply Hall. rewrite Hlen. exact Hk.
      + (* Rel: the releasing thread's operation goes first *)
        destruct (g_lock c) as [j|] eqn:Hl; [|discriminate].
        destruct (Nat.eqb j i) eqn:Eji; [|discriminate]. apply Nat.eqb_eq in Eji. subst j.
        inversion Hf'; subst c1; clear Hf'.
        unfold holds in Hwi. rewrite Hl, Nat.eqb_refl in Hwi. cbn [wl andb] in Hwi.
        exists (i :: order1). split; [|split].
        * unfold serial. cbn [fold_left]. fold (serial order1 (run_op (sc_of c) i)).
          rewrite <- Hser. unfold sc_of at 2. cbn [g_store g_threads].
          rewrite (post_release_invisible order1 i (Hall i ltac:(cbn [g_threads] in *; lia)) p
                     (g_store c) (g_threads c) (t_lo t) Hwi Hil).
          f_equal. unfold run_op, sc_of. cbn [fst snd]. rewrite Ht, Hp. cbn [run_chunk].
          destruct (run_chunk true (g_store c) (t_lo t) p) as [[st' lo'] p']. reflexivity.
        * intros h Hh'. inversion Hh'; subst h. eexists. reflexivity.
        * intros k Hk. right. apply Hall. cbn [g_threads] in *. lia.
      + (* Rd: only the holder can be here *)
        cbn [wl] in Hwi. apply andb_true_iff in Hwi. destruct Hwi as [Hin _].
        unfold holds in Hin. destruct (g_lock c) as [j|] eqn:Hl; [|discriminate].
        apply Nat.eqb_eq in Hin. subst j.
        assert (g_lock c1 = Some i) as Hl1 by (injection Hf' as <-; reflexivity).
        destruct (Hhead i Hl1) as [rest ->].
        exists (i :: rest). split; [|split].
        * unfold serial. cbn [fold_left].
          rewrite (fire_first_step_of_holder c c1 i t (Rd x f) p Ht Hp Hf I). exact Hser.
        * intros h Hh'. inversion Hh'; subst h. eexists. reflexivity.
        * intros k Hk. apply Hall. rewrite Hlen. exact Hk.
      + (* Wr *)
        cbn [wl] in Hwi. apply andb_true_iff in Hwi. destruct Hwi as [Hin _].
        unfold holds in Hin. destruct (g_lock c) as [j|] eqn:Hl; [|discriminate].
        apply Nat.eqb_eq in Hin. subst j.
        assert (g_lock c1 = Some i) as Hl1 by (injection Hf' as <-; reflexivity).
        destruct (Hhead i Hl1) as [rest ->].
        exists (i :: rest). split; [|split].
        * unfold serial. cbn [fold_left].
          rewrite (fire_first_step_of_holder c c1 i t (Wr x g) p Ht Hp Hf I). exact Hser.
        * intros h Hh'. inversion Hh'; subst h. eexists. reflexivity.
        * intros k Hk. apply Hall. rewrite Hlen. exact Hk.
      + (* Loc: invisible *)
        inversion Hf'; subst c1; clear Hf'.
        exists order1. split; [|split].
        * rewrite <- Hser. unfold sc_of. cbn [g_store g_threads].
          apply loc_step_invisible.
          -- apply Hall. cbn [g_threads] in *. lia.
          -- rewrite Ht. f_equal. destruct t as [lo0 p0]. cbn [t_lo t_prog] in *. congruence.
        * intros h Hh'. apply Hhead. cbn [g_lock]. exact Hh'.
        * intros k Hk. apply Hall. cbn [g_threads] in *. lia.
  Qed.

  Lemma initial_wl (c : config) :
    g_lock c = None -> (forall t, In t (g_threads c) -> well_locked (t_prog t) = true) -> wl_config c.
  Proof.
    intros Hl Hw. split.
    - intros i t Ht. unfold holds. rewrite Hl. apply Hw. eapply nth_error_In. exact Ht.
    - intros h Hh. congruence.
  Qed.

  Lemma serializable_all : forall (c cf : config) sched,
    g_lock c = None ->
    (forall t, In t (g_threads c) -> well_locked (t_prog t) = true) ->
    run_sched c sched = Some cf -> terminal cf ->
    exists order, serial order (g_store c, g_threads c) = (g_store cf, g_threads cf).
  Proof.
    intros c cf sched Hl Hw Hrun Hterm.
    destruct (serializable_from sched c cf (initial_wl c Hl Hw) Hrun Hterm) as [order [H _]].
    exists order. exact H.
  Qed.

  (* ---- no deadlock: an unfinished well-locked configuration can always move ------ *)
  Lemma progress_from (c : config) :
    wl_config c -> (exists t, In t (g_threads c) /\ t_prog t <> []) ->
    exists i c', fire c i = Some c'.
  Proof.
    intros [Hw Hh] [t [Hin Hne]].
    destruct (g_lock c) as [h|] eqn:Hl.
    - specialize (Hh h eq_refl). apply nth_error_Some in Hh.
      destruct (nth_error (g_threads c) h) as [th|] eqn:Hth; [|congruence].
      pose proof (Hw h th Hth) as Hwh. unfold holds in Hwh. rewrite Hl, Nat.eqb_refl in Hwh.
      exists h. unfold fire. rewrite Hth.
      destruct (t_prog th) as [|s p]; [cbn in Hwh; discriminate|].
      destruct s; cbn [wl negb andb] in Hwh; try discriminate; rewrite ?Hl, ?Nat.eqb_refl; eauto.
    - apply In_nth_error in Hin. destruct Hin as [i Hi].
      pose proof (Hw i t Hi) as Hwi. unfold holds in Hwi. rewrite Hl in Hwi.
      exists i. unfold fire. rewrite Hi.
      destruct (t_prog t) as [|s p]; [congruence|].
      destruct s; cbn [wl negb andb] in Hwi; try discriminate; rewrite ?Hl; eauto.
  Qed.

  Lemma reachable_wl : forall sched (c c' : config), wl_config c -> run_sched c sched = Some c' -> wl_config c'.
  Proof.
    induction sched as [|i sched IH]; intros c c' Hw Hr; cbn [run_sched] in Hr.
    - inversion Hr; subst; exact Hw.
    - destruct (fire c i) as [c1|] eqn:Hf; [|discriminate].
      eapply IH; [eapply fire_preserves_wl; eauto|exact Hr].
  Qed.

  Lemma no_deadlock_all : forall (c c' : config) sched,
    g_lock c = None ->
    (forall t, In t (g_threads c) -> well_locked (t_prog t) = true) ->
    run_sched c sched = Some c' ->
    (exists t, In t (g_threads c') /\ t_prog t <> []) ->
    exists i c'', fire c' i = Some c''.
  Proof.
    intros c c' sched Hl Hw Hr Hn. apply progress_from; [|exact Hn].
    eapply reachable_wl; [apply initial_wl; eassumption|exact Hr].
  Qed.

  (* ---- an operation with a single critical section runs to its end in one turn ---- *)
  Lemma run_chunk_single : forall p released inside (st : store V) (lo : Lo),
    wl inside p = true ->
    (count_acq p = 0%nat \/ (released = false /\ inside = false /\ count_acq p = 1%nat)) ->
    run_chunk released st lo p = (fst (run_all st lo p), snd (run_all st lo p), []).
  Proof.
    induction p as [|s p IH]; intros released inside st lo Hw Hc.
    - reflexivity.
    - destruct s; cbn [wl] in Hw; cbn [count_acq] in Hc; cbn [run_chunk run_all].
      + apply andb_true_iff in Hw. destruct Hw as [Hi Hw].
        destruct Hc as [Hc|[-> [-> Hc]]]; [discriminate|].
        apply (IH false true); [exact Hw|left; lia].
      + apply andb_true_iff in Hw. destruct Hw as [Hi Hw].
        destruct Hc as [Hc|[_ [-> _]]]; [|discriminate].
        apply (IH true false); [exact Hw|left; exact Hc].
      + apply andb_true_iff in Hw. destruct Hw as [Hi Hw]. apply (IH released inside); assumption.
      + apply andb_true_iff in Hw. destruct Hw as [Hi Hw]. apply (IH released inside); assumption.
      + apply (IH released inside); assumption.
  Qed.

  (* ---- shapes decide the discipline ---------------------------------------------- *)
  Lemma wl_of_shape : forall (p : list step) inside, wl inside p = wl_shape inside (map (@shape_of Lo V) p).
  Proof.
    induction p as [|s p IH]; intros inside; [reflexivity|].
    destruct s; cbn [wl map shape_of wl_shape]; rewrite ?IH; reflexivity.
  Qed.

  Lemma count_acq_of_shape : forall (p : list step), count_acq p = count_acq_shape (map (@shape_of Lo V) p).
  Proof.
    induction p as [|s p IH]; [reflexivity|]. destruct s; cbn [count_acq map shape_of count_acq_shape]; rewrite ?IH; reflexivity.
  Qed.
End ConcProofs.

Lemma well_locked_by_shape_all : forall (Lo V : Type) (p : list (step Lo V)),
  well_locked p = well_locked_shape (map (@shape_of Lo V) p).
Proof. intros Lo V p. exact (wl_of_shape Lo V p false). Qed.
