(* C14: the extracted table of blocking wrappers (Gen/C14_Wrappers.v, regenerated from /repo on every
   run) satisfies the forwarding obligation: every parameter of a blocking wrapper is used in the call
   that builds the generator it drains, and a parameter passed through as is reaches the parameter
   of the same name.  Decided by computation on the finite table. *)
From Coq Require Import String List Bool.
From TV Require Import Gen.C14_Wrappers.

Lemma wrappers_forward : forallb wrapper_ok wrappers = true.
Proof. vm_compute. reflexivity. Qed.
