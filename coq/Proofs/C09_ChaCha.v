(* ChaCha20: the generated code (Gen/C09_ChaCha.v) equals RFC 8439 2.1-2.4 (Spec/C09_ChaCha.v). *)
From Coq Require Import ZArith List Bool Lia.
From TV Require Import Base.Prelude Base.C09_Lib Gen.C09_ChaCha Spec.C09_Poly1305 Spec.C09_ChaCha
  Proofs.C09_Lists Proofs.C09_Bits32.
Import ListNotations.
Open Scope Z_scope.

Definition st_ok (st : list Z) : Prop := length st = 16%nat /\ Forall u32 st.

Lemma u32_0 : u32 0.
Proof. unfold u32. lia. Qed.

(* ---- quarter round ------------------------------------------------------------ *)
Lemma quarter_code a b c d : u32 a -> u32 b -> u32 c -> u32 d ->
  let xa := Z.land (a + b) 4294967295 in
  let xd := Z.lxor d xa in
  let xd := Z.lor (Z.land (Z.shiftl xd 16) 4294967295) (Z.shiftr xd 16) in
  let xc := Z.land (c + xd) 4294967295 in
  let xb := Z.lxor b xc in
  let xb := Z.lor (Z.land (Z.shiftl xb 12) 4294967295) (Z.shiftr xb 20) in
  let xa := Z.land (xa + xb) 4294967295 in
  let xd := Z.lxor xd xa in
  let xd := Z.lor (Z.land (Z.shiftl xd 8) 4294967295) (Z.shiftr xd 24) in
  let xc := Z.land (xc + xd) 4294967295 in
  let xb := Z.lxor xb xc in
  let xb := Z.lor (Z.land (Z.shiftl xb 7) 4294967295) (Z.shiftr xb 25) in
  (xa, xb, xc, xd) = quarter a b c d /\ u32 xa /\ u32 xb /\ u32 xc /\ u32 xd.
Proof.
  intros Ha Hb Hc Hd. cbv zeta. unfold quarter. cbv zeta.
  rewrite !add32_land.
  rewrite (rot_mask_shift' _ 16 16) by (first [lia | u32tac]).
  rewrite (rot_mask_shift' _ 12 20) by (first [lia | u32tac]).
  rewrite (rot_mask_shift' _ 8 24) by (first [lia | u32tac]).
  rewrite (rot_mask_shift' _ 7 25) by (first [lia | u32tac]).
  repeat split; u32tac.
Qed.

Lemma cha_quarter_round_ok st a b c d : st_ok st ->
  0 <= a < 16 -> 0 <= b < 16 -> 0 <= c < 16 -> 0 <= d < 16 ->
  cha_quarter_round st a b c d = Ok (quarterround st (Z.to_nat a) (Z.to_nat b) (Z.to_nat c) (Z.to_nat d))
  /\ st_ok (quarterround st (Z.to_nat a) (Z.to_nat b) (Z.to_nat c) (Z.to_nat d)).
Proof.
  intros [Hlen Hu] Ha Hb Hc Hd.
  assert (Hz : zlen st = 16) by (unfold zlen; lia).
  unfold cha_quarter_round.
  rewrite !py_index_ok by lia. cbn [bind].
  pose proof (quarter_code (nthZ st a) (nthZ st b) (nthZ st c) (nthZ st d)
               (Forall_nth_Z u32 st a Hu u32_0) (Forall_nth_Z u32 st b Hu u32_0)
               (Forall_nth_Z u32 st c Hu u32_0) (Forall_nth_Z u32 st d Hu u32_0)) as Q.
  cbv zeta in Q. destruct Q as [Q [U1 [U2 [U3 U4]]]].
  cbv zeta. unfold quarterround. fold (nthZ st a) (nthZ st b) (nthZ st c) (nthZ st d).
  rewrite <- Q.
  rewrite py_store_ok by lia. cbn [bind].
  rewrite py_store_ok by (unfold zlen; rewrite set_nth_length; lia). cbn [bind].
  rewrite py_store_ok by (unfold zlen; rewrite !set_nth_length; lia). cbn [bind].
  rewrite py_store_ok by (unfold zlen; rewrite !set_nth_length; lia). cbn [bind].
  split; [reflexivity|].
  split; [rewrite !set_nth_length; exact Hlen|].
  repeat apply set_nth_Forall; assumption.
Qed.

(* ---- double round = inner_block ----------------------------------------------- *)
Lemma cha_double_round_unfold x :
  cha_double_round x =
  (x <- foldM (fun x '(a, b, c, d) => cha_quarter_round x a b c d)
        [(0, 4, 8, 12); (1, 5, 9, 13); (2, 6, 10, 14); (3, 7, 11, 15);
         (0, 5, 10, 15); (1, 6, 11, 12); (2, 7, 8, 13); (3, 4, 9, 14)] x ;; Ok x).
Proof. unfold cha_double_round, cha_quarter_round. reflexivity. Qed.

Definition box : list (Z*Z*Z*Z) := [(0, 4, 8, 12); (1, 5, 9, 13); (2, 6, 10, 14); (3, 7, 11, 15);
     (0, 5, 10, 15); (1, 6, 11, 12); (2, 7, 8, 13); (3, 4, 9, 14)].
Lemma dr_step s t : In t box -> st_ok s ->
  (let '(a, b, c, d) := t in cha_quarter_round s a b c d) =
  Ok (let '(a, b, c, d) := t in quarterround s (Z.to_nat a) (Z.to_nat b) (Z.to_nat c) (Z.to_nat d)) /\
  st_ok (let '(a, b, c, d) := t in quarterround s (Z.to_nat a) (Z.to_nat b) (Z.to_nat c) (Z.to_nat d)).
Proof.
  intros Hin Hs. destruct t as [[[a b] c] d]. unfold box in Hin. cbn [In] in Hin.
  repeat (destruct Hin as [Hin|Hin]; [injection Hin as <- <- <- <-; apply cha_quarter_round_ok; [exact Hs|lia..]|]).
  contradiction.
Qed.


Lemma box_fold st :
  fold_left (fun x '(a, b, c, d) => quarterround x (Z.to_nat a) (Z.to_nat b) (Z.to_nat c) (Z.to_nat d)) box st
  = inner_block st.
Proof.
  unfold box, inner_block.
  cbv beta iota zeta delta [fold_left Z.to_nat Pos.to_nat Pos.iter_op Nat.add].
  reflexivity.
Qed.

Lemma cha_double_round_ok st : st_ok st ->
  cha_double_round st = Ok (inner_block st) /\ st_ok (inner_block st).
Proof.
  intros H. rewrite cha_double_round_unfold.
  destruct (foldM_inv st_ok
    (fun x '(a, b, c, d) => cha_quarter_round x a b c d)
    (fun x '(a, b, c, d) => quarterround x (Z.to_nat a) (Z.to_nat b) (Z.to_nat c) (Z.to_nat d))
    box (fun s t Hin Hs => dr_step s t Hin Hs) st H) as [E P].
  rewrite box_fold in E, P.
  change box with [(0, 4, 8, 12); (1, 5, 9, 13); (2, 6, 10, 14); (3, 7, 11, 15);
     (0, 5, 10, 15); (1, 6, 11, 12); (2, 7, 8, 13); (3, 4, 9, 14)] in E.
  rewrite E. cbn [bind].
  split; [reflexivity|exact P].
Qed.

(* ---- the block function ------------------------------------------------------- *)
Lemma cha_chacha_block_ok key counter nonce :
  length key = 8%nat -> Forall u32 key -> u32 counter -> length nonce = 3%nat -> Forall u32 nonce ->
  cha_chacha_block key counter nonce 20 =
  Ok (chacha20_block_of_state ([1634760805; 857760878; 2036477234; 1797285236] ++ key ++ [counter] ++ nonce)).
Proof.
  intros Hk Uk Uc Hn Un. unfold cha_chacha_block, chacha20_block_of_state.
  rewrite <- !app_assoc. cbn [app].
  set (st := 1634760805 :: 857760878 :: 2036477234 :: 1797285236 :: key ++ counter :: nonce).
  assert (Hst : st_ok st).
  { split.
    - unfold st. cbn [length]. rewrite app_length. cbn [length]. lia.
    - unfold st. repeat (constructor; [unfold u32; lia|]).
      apply Forall_app. split; [exact Uk|]. constructor; assumption. }
  change (20 / 2) with 10.
  destruct (foldM_inv st_ok (fun ws (_ : Z) => ws' <- cha_double_round ws ;; Ok ws')
             (fun ws _ => inner_block ws) (zrange 0 10)
             ltac:(intros s i _ Hs; destruct (cha_double_round_ok s Hs) as [E P]; rewrite E; split; [reflexivity|exact P])
             st Hst) as [E _].
  rewrite E. cbn [bind]. rewrite fold_left_const_iter. rewrite zrange_length.
  change (Z.to_nat (10 - 0)) with 10%nat.
  f_equal. apply map_ext. intros [x y]. apply add32_land.
Qed.

(* ---- words <-> bytes ---------------------------------------------------------- *)
Lemma le_num_bound l : all_bytes l = true -> 0 <= le_num l < 256 ^ zlen l.
Proof.
  induction l as [|x l IH]; intros H.
  - cbn. lia.
  - unfold all_bytes in *. cbn [forallb] in H. apply andb_true_iff in H. destruct H as [Hx Hl].
    specialize (IH Hl). cbn [le_num]. rewrite zlen_cons.
    rewrite Z.pow_add_r by (pose proof (zlen_nonneg l); lia). change (256 ^ 1) with 256.
    unfold is_byte in Hx. apply andb_true_iff in Hx. destruct Hx as [H0 H1].
    apply Z.leb_le in H0. apply Z.ltb_lt in H1. nia.
Qed.

Lemma cha_bytearray_to_words_ok data : (zlen data) mod 4 = 0 ->
  cha_bytearray_to_words data = Ok (words_le data).
Proof.
  intros Hm. unfold cha_bytearray_to_words.
  pose proof (zlen_nonneg data) as Hl.
  pose proof (Z.div_mod (zlen data) 4 ltac:(lia)) as Hdm.
  rewrite (foldM_ok_ext _ (fun ret i => ret ++ [le_num (firstn 4 (skipn (Z.to_nat (i * 4)) data))])).
  - cbn [bind]. rewrite fold_left_snoc_map. cbn [app]. unfold words_le.
    rewrite <- (chunks_index 4 data) by lia. rewrite map_map.
    change (Z.of_nat 4) with 4.
    replace ((zlen data + 4 - 1) / 4) with (zlen data / 4); [reflexivity|].
    apply Z.div_unique with (r := 3); lia.
  - intros a i Hi. apply in_zrange in Hi.
    rewrite py_slice_nonneg by lia.
    replace (Z.to_nat ((i + 1) * 4 - i * 4)) with 4%nat by lia.
    unfold unpack_le32.
    assert (zlen (firstn 4 (skipn (Z.to_nat (i * 4)) data)) = 4) as ->.
    { unfold zlen in *. rewrite firstn_length, skipn_length. lia. }
    reflexivity.
Qed.

Lemma words_le_ok data n : zlen data = 4 * Z.of_nat n -> all_bytes data = true ->
  length (words_le data) = n /\ Forall u32 (words_le data).
Proof.
  intros Hl Hb. unfold words_le. split.
  - rewrite map_length. pose proof (chunks_length 4 data ltac:(lia)) as H.
    unfold zlen in H at 1. change (Z.of_nat 4) with 4 in H.
    replace ((zlen data + 4 - 1) / 4) with (Z.of_nat n) in H; [lia|].
    apply Z.div_unique with (r := 3); lia.
  - apply Forall_forall. intros w Hw. apply in_map_iff in Hw. destruct Hw as [c [<- Hc]].
    apply in_chunks in Hc; [|lia]. destruct Hc as [i [Hi ->]].
    pose proof (le_num_bound (firstn 4 (skipn (Z.to_nat (i * Z.of_nat 4)) data))
                 (all_bytes_firstn _ _ (all_bytes_skipn _ _ Hb))) as B.
    assert (zlen (firstn 4 (skipn (Z.to_nat (i * Z.of_nat 4)) data)) <= 4) as L.
    { unfold zlen. rewrite firstn_length. lia. }
    unfold u32. split; [lia|].
    eapply Z.lt_le_trans; [apply B|]. change 4294967296 with (256 ^ 4).
    apply Z.pow_le_mono_r; [lia|exact L].
Qed.

Lemma cha_init_ok key nonce counter rounds : zlen key = 32 -> zlen nonce = 12 ->
  cha_init key nonce counter rounds = Ok (mkChaCha (words_le key) (words_le nonce) counter rounds).
Proof.
  intros Hk Hn. unfold cha_init. rewrite Hk, Hn. cbn [Z.eqb Pos.eqb negb].
  rewrite !cha_bytearray_to_words_ok by (rewrite ?Hk, ?Hn; reflexivity).
  reflexivity.
Qed.

Lemma le_bytes_4_length v : length (le_bytes 4 v) = 4%nat.
Proof. reflexivity. Qed.

Lemma flat_map_le4_length ws : length (flat_map (le_bytes 4) ws) = (4 * length ws)%nat.
Proof.
  induction ws as [|w ws IH]; [reflexivity|]. cbn [flat_map]. rewrite app_length, IH.
  cbn [length le_bytes]. lia.
Qed.

Lemma is_byte_mod x : is_byte (x mod 256) = true.
Proof.
  unfold is_byte. pose proof (Z.mod_pos_bound x 256 eq_refl).
  apply andb_true_iff. split; [apply Z.leb_le|apply Z.ltb_lt]; lia.
Qed.

Lemma le_bytes_all_bytes n v : all_bytes (le_bytes n v) = true.
Proof.
  revert v. induction n as [|n IH]; intros v; cbn [le_bytes]; [reflexivity|].
  unfold all_bytes in *. cbn [forallb]. rewrite is_byte_mod, IH. reflexivity.
Qed.

Lemma flat_map_le4_bytes ws : all_bytes (flat_map (le_bytes 4) ws) = true.
Proof.
  induction ws as [|w ws IH]; [reflexivity|]. cbn [flat_map]. rewrite all_bytes_app, IH, le_bytes_all_bytes. reflexivity.
Qed.

Lemma forallb_is_u32 ws : Forall u32 ws -> forallb is_u32 ws = true.
Proof.
  intros H. apply forallb_forall. intros x Hx. rewrite Forall_forall in H. specialize (H x Hx).
  unfold is_u32, u32 in *. apply andb_true_iff. split; [apply Z.leb_le|apply Z.ltb_lt]; lia.
Qed.

Lemma cha_word_to_bytearray_ok ws : length ws = 16%nat -> Forall u32 ws ->
  cha_word_to_bytearray ws = Ok (flat_map (le_bytes 4) ws).
Proof.
  intros Hl Hu. unfold cha_word_to_bytearray, pack_le32s.
  replace (zlen ws =? 16) with true by (symmetry; apply Z.eqb_eq; unfold zlen; lia).
  rewrite forallb_is_u32 by exact Hu. reflexivity.
Qed.

Lemma quarterround_length st x y z w : length (quarterround st x y z w) = length st.
Proof.
  unfold quarterround. destruct (quarter (nth x st 0) (nth y st 0) (nth z st 0) (nth w st 0)) as [[[a b] c] d].
  rewrite !set_nth_length. reflexivity.
Qed.

Lemma inner_block_length st : length (inner_block st) = length st.
Proof. unfold inner_block. cbv zeta. rewrite !quarterround_length. reflexivity. Qed.

(* the spec's block has 64 bytes *)
Lemma chacha20_block_words_ok key counter nonce :
  zlen key = 32 -> all_bytes key = true -> zlen nonce = 12 -> all_bytes nonce = true ->
  length (chacha20_block_words key counter nonce) = 16%nat /\ Forall u32 (chacha20_block_words key counter nonce).
Proof.
  intros Hk Bk Hn Bn. unfold chacha20_block_words, chacha20_block_of_state.
  destruct (words_le_ok key 8 ltac:(lia) Bk) as [Lk Uk].
  destruct (words_le_ok nonce 3 ltac:(lia) Bn) as [Ln Un].
  assert (Hi : forall n st, length (Nat.iter n inner_block st) = length st).
  { induction n as [|n IH]; intros st; [reflexivity|].
    change (Nat.iter (S n) inner_block st) with (inner_block (Nat.iter n inner_block st)).
    rewrite inner_block_length. apply IH. }
  assert (Hs : length (chacha_init_state key counter nonce) = 16%nat).
  { unfold chacha_init_state. rewrite !app_length, Lk, Ln. reflexivity. }
  split.
  - rewrite map_length, combine_length, Hi, Hs. reflexivity.
  - apply Forall_forall. intros w Hw. apply in_map_iff in Hw. destruct Hw as [p [<- _]]. apply add32_u32.
Qed.

Lemma chacha20_block_length key counter nonce :
  zlen key = 32 -> all_bytes key = true -> zlen nonce = 12 -> all_bytes nonce = true ->
  length (chacha20_block key counter nonce) = 64%nat.
Proof.
  intros Hk Bk Hn Bn. unfold chacha20_block. rewrite flat_map_le4_length.
  destruct (chacha20_block_words_ok key counter nonce Hk Bk Hn Bn) as [L _]. rewrite L. reflexivity.
Qed.

(* one key-stream block as computed by the code *)
Lemma chacha20_block_words_eq key counter nonce :
  chacha20_block_words key counter nonce =
  chacha20_block_of_state ([1634760805; 857760878; 2036477234; 1797285236] ++ words_le key ++ [counter] ++ words_le nonce).
Proof. reflexivity. Qed.

Lemma cha_block_bytes_ok key counter nonce :
  zlen key = 32 -> all_bytes key = true -> zlen nonce = 12 -> all_bytes nonce = true -> u32 counter ->
  (ws <- cha_chacha_block (words_le key) counter (words_le nonce) 20 ;; cha_word_to_bytearray ws)
  = Ok (chacha20_block key counter nonce).
Proof.
  intros Hk Bk Hn Bn Uc.
  destruct (words_le_ok key 8 ltac:(lia) Bk) as [Lk Uk].
  destruct (words_le_ok nonce 3 ltac:(lia) Bn) as [Ln Un].
  rewrite cha_chacha_block_ok by assumption.
  destruct (chacha20_block_words_ok key counter nonce Hk Bk Hn Bn) as [L U].
  unfold chacha20_block. rewrite chacha20_block_words_eq in *.
  generalize dependent (chacha20_block_of_state ([1634760805; 857760878; 2036477234; 1797285236] ++ words_le key ++ [counter] ++ words_le nonce)).
  intros X L U. rewrite bind_ok.
  apply cha_word_to_bytearray_ok; assumption.
Qed.

(* ---- encrypt = XOR with the key stream ---------------------------------------- *)
Lemma lxor_byte a b : is_byte a = true -> is_byte b = true -> is_byte (Z.lxor a b) = true.
Proof.
  unfold is_byte. intros Ha Hb. apply andb_true_iff in Ha. apply andb_true_iff in Hb.
  destruct Ha as [A0 A1], Hb as [B0 B1].
  apply Z.leb_le in A0. apply Z.leb_le in B0. apply Z.ltb_lt in A1. apply Z.ltb_lt in B1.
  apply andb_true_iff. split; [apply Z.leb_le; apply Z.lxor_nonneg; lia|apply Z.ltb_lt].
  destruct (Z.eq_dec (Z.lxor a b) 0) as [->|Hne]; [lia|].
  assert (Hp : 0 < Z.lxor a b) by (pose proof (proj2 (Z.lxor_nonneg a b)); lia).
  change 256 with (2 ^ 8). apply Z.log2_lt_pow2; [exact Hp|].
  eapply Z.le_lt_trans; [apply Z.log2_lxor; lia|].
  apply Z.max_lub_lt.
  - destruct (Z.eq_dec a 0) as [->|]; [cbn; lia|]. apply Z.log2_lt_pow2; [lia|]. change (2 ^ 8) with 256. lia.
  - destruct (Z.eq_dec b 0) as [->|]; [cbn; lia|]. apply Z.log2_lt_pow2; [lia|]. change (2 ^ 8) with 256. lia.
Qed.

Lemma xor_all_bytes a b : all_bytes a = true -> all_bytes b = true ->
  all_bytes (map (fun '(x, y) => Z.lxor x y) (combine a b)) = true.
Proof.
  unfold all_bytes. rewrite !forallb_forall. intros Ha Hb z Hz.
  apply in_map_iff in Hz. destruct Hz as [[x y] [<- Hin]].
  apply lxor_byte; [apply Ha; eapply in_combine_l; eauto|apply Hb; eapply in_combine_r; eauto].
Qed.

Lemma xor_swap a b : map (fun '(x, y) => Z.lxor x y) (combine a b) = xor_bytes b a.
Proof.
  unfold xor_bytes. revert b. induction a as [|x a IH]; intros [|y b]; cbn [combine map fst snd]; try reflexivity.
  rewrite IH, Z.lxor_comm. reflexivity.
Qed.

Lemma xor_bytes_app a1 a2 b1 b2 : length a1 = length b1 ->
  xor_bytes (a1 ++ a2) (b1 ++ b2) = xor_bytes a1 b1 ++ xor_bytes a2 b2.
Proof. intros H. unfold xor_bytes. rewrite combine_app by exact H. apply map_app. Qed.

Lemma xor_bytes_nil_l b : xor_bytes [] b = [].
Proof. reflexivity. Qed.

Lemma combine_firstn_r {A B} (a : list A) (b c : list B) : (length a <= length b)%nat ->
  combine a (b ++ c) = combine a b.
Proof.
  revert b. induction a as [|x a IH]; intros b H; [reflexivity|].
  destruct b as [|y b]; [cbn [length] in H; lia|]. cbn [app combine]. rewrite IH by (cbn [length] in H; lia). reflexivity.
Qed.

Section Stream.
  Variable ks : Z -> list Z.
  Hypothesis ks_len : forall j, length (ks j) = 64%nat.

  Lemma enc_chunks : forall fuel (pt : list Z) k, (length pt <= fuel)%nat ->
    concat (map (fun '(j, blk) => xor_bytes blk (ks j))
                (combine (zrange k (k + zlen (chunks_fuel fuel 64 pt))) (chunks_fuel fuel 64 pt)))
    = xor_bytes pt (flat_map ks (zrange k (k + zlen (chunks_fuel fuel 64 pt)))).
  Proof.
    induction fuel as [|fuel IH]; intros pt k Hf.
    - destruct pt; [|cbn [length] in Hf; lia]. cbn [chunks_fuel]. change (zlen (@nil (list Z))) with 0.
      rewrite Z.add_0_r, zrange_empty by lia. reflexivity.
    - destruct pt as [|x pt'].
      + cbn [chunks_fuel]. change (zlen (@nil (list Z))) with 0. rewrite Z.add_0_r, zrange_empty by lia. reflexivity.
      + cbn [chunks_fuel]. remember (x :: pt') as pt eqn:Ept.
        rewrite zlen_cons. pose proof (zlen_nonneg (chunks_fuel fuel 64 (skipn 64 pt))) as Hc.
        rewrite zrange_cons by lia. cbn [combine map concat flat_map].
        replace (k + (1 + zlen (chunks_fuel fuel 64 (skipn 64 pt)))) with (k + 1 + zlen (chunks_fuel fuel 64 (skipn 64 pt))) by lia.
        rewrite IH by (rewrite skipn_length; subst pt; cbn [length] in *; lia).
        set (R := flat_map ks (zrange (k + 1) (k + 1 + zlen (chunks_fuel fuel 64 (skipn 64 pt))))).
        destruct (le_lt_dec 64 (length pt)) as [L|L].
        * replace (xor_bytes pt (ks k ++ R)) with (xor_bytes (firstn 64 pt ++ skipn 64 pt) (ks k ++ R))
            by (rewrite firstn_skipn; reflexivity).
          rewrite xor_bytes_app by (rewrite firstn_length, ks_len; lia). reflexivity.
        * unfold R. rewrite (skipn_all2 pt) by lia.
          assert (chunks_fuel fuel 64 [] = []) as -> by (destruct fuel; reflexivity).
          change (zlen (@nil (list Z))) with 0. rewrite Z.add_0_r, zrange_empty by lia.
          cbn [flat_map]. rewrite !app_nil_r. rewrite firstn_all2 by lia. reflexivity.
  Qed.
End Stream.

Lemma py_range_64 n : 0 <= n -> py_range 0 n 64 = map (fun k => k * 64) (zrange 0 ((n + 63) / 64)).
Proof.
  intros Hn. rewrite py_range_step_up by lia. rewrite Z.sub_0_r.
  replace (n + 64 - 1) with (n + 63) by lia. apply map_ext. intros k. lia.
Qed.

Lemma enc_chunks_all (ks : Z -> list Z) (pt : list Z) : (forall j, length (ks j) = 64%nat) ->
  concat (map (fun '(j, blk) => xor_bytes blk (ks j)) (combine (zrange 0 (zlen (chunks 64 pt))) (chunks 64 pt)))
  = xor_bytes pt (flat_map ks (zrange 0 (zlen (chunks 64 pt)))).
Proof. intros H. exact (enc_chunks ks H (length pt) pt 0 (le_n _)). Qed.

Lemma cha_encrypt_ok key nonce counter pt :
  zlen key = 32 -> all_bytes key = true -> zlen nonce = 12 -> all_bytes nonce = true ->
  0 <= counter -> counter + (zlen pt + 63) / 64 <= 4294967296 -> all_bytes pt = true ->
  cha_encrypt (mkChaCha (words_le key) (words_le nonce) counter 20) pt = Ok (chacha20_encrypt key counter nonce pt).
Proof.
  intros Hk Bk Hn Bn Hc Hcq Bp. unfold cha_encrypt, chacha20_encrypt, chacha20_keystream.
  cbn [cha_key cha_nonce cha_counter cha_rounds].
  pose proof (zlen_nonneg pt) as Hl.
  assert (Hq : zlen (chunks 64 pt) = (zlen pt + 63) / 64).
  { rewrite chunks_length by lia. change (Z.of_nat 64) with 64. f_equal. lia. }
  rewrite py_range_64 by lia.
  remember ((zlen pt + 63) / 64) as q eqn:Eq.
  rewrite map_map.
  assert (Hblocks : map (fun x => py_slice pt (Some (x * 64)) (Some (x * 64 + 64))) (zrange 0 q) = chunks 64 pt).
  { rewrite <- (chunks_index 64 pt) by lia. change (Z.of_nat 64) with 64.
    replace ((zlen pt + 64 - 1) / 64) with q by (subst q; f_equal; lia).
    apply map_ext_in. intros i Hi. apply in_zrange in Hi. rewrite py_slice_nonneg by lia.
    f_equal. lia. }
  rewrite Hblocks. unfold py_enumerate. rewrite Hq.
  pose (h := fun x : Z * list Z => let '(i, block) := x in xor_bytes block (chacha20_block key (counter + i) nonce)).
  rewrite (foldM_ok_ext _ (fun acc x => acc ++ h x)).
  - rewrite bind_ok. f_equal. rewrite (fold_left_app_concat h).
    rewrite app_nil_l. rewrite <- Hq.
    apply (enc_chunks_all (fun j => chacha20_block key (counter + j) nonce) pt).
    intros j. apply chacha20_block_length; assumption.
  - intros acc [i block] Hin.
    assert (Hi : 0 <= i < q) by (apply in_combine_l in Hin; apply in_zrange in Hin; lia).
    assert (Hb : all_bytes block = true).
    { apply in_combine_r in Hin. apply in_chunks in Hin; [|lia]. destruct Hin as [j [_ ->]].
      apply all_bytes_firstn, all_bytes_skipn. exact Bp. }
    pose proof (cha_block_bytes_ok key (counter + i) nonce Hk Bk Hn Bn ltac:(unfold u32; lia)) as E.
    destruct (cha_chacha_block (words_le key) (counter + i) (words_le nonce) 20) as [ws|e]; [|discriminate].
    rewrite bind_ok in E |- *. rewrite E. rewrite bind_ok.
    unfold mk_bytes. rewrite xor_all_bytes; [|unfold chacha20_block; apply flat_map_le4_bytes|exact Hb].
    rewrite xor_swap. reflexivity.
Qed.

(* decrypt is encrypt, and XOR with the same key stream twice is the identity *)
Lemma xor_bytes_length a b : (length a <= length b)%nat -> length (xor_bytes a b) = length a.
Proof. intros H. unfold xor_bytes. rewrite map_length, combine_length. lia. Qed.

Lemma xor_bytes_involutive a b : (length a <= length b)%nat -> xor_bytes (xor_bytes a b) b = a.
Proof.
  revert b. induction a as [|x a IH]; intros [|y b] H; try reflexivity; [cbn [length] in H; lia|].
  unfold xor_bytes in *. cbn [combine map fst snd]. rewrite IH by (cbn [length] in H; lia).
  rewrite Z.lxor_assoc, Z.lxor_nilpotent, Z.lxor_0_r. reflexivity.
Qed.

Lemma keystream_length key counter nonce q :
  zlen key = 32 -> all_bytes key = true -> zlen nonce = 12 -> all_bytes nonce = true -> 0 <= q ->
  length (chacha20_keystream key counter nonce q) = (64 * Z.to_nat q)%nat.
Proof.
  intros Hk Bk Hn Bn Hq. unfold chacha20_keystream.
  assert (G : forall l, length (flat_map (fun j => chacha20_block key (counter + j) nonce) l) = (64 * length l)%nat).
  { induction l as [|j l IH]; [reflexivity|]. cbn [flat_map]. rewrite app_length, IH, chacha20_block_length by assumption.
    cbn [length]. lia. }
  rewrite G, zrange_length. f_equal. lia.
Qed.

Lemma chacha20_encrypt_length key counter nonce pt :
  zlen key = 32 -> all_bytes key = true -> zlen nonce = 12 -> all_bytes nonce = true ->
  length (chacha20_encrypt key counter nonce pt) = length pt.
Proof.
  intros Hk Bk Hn Bn. unfold chacha20_encrypt. apply xor_bytes_length.
  pose proof (zlen_nonneg pt) as Hl.
  rewrite keystream_length by (try assumption; apply Z.div_pos; lia).
  assert (zlen pt <= 64 * ((zlen pt + 63) / 64)).
  { pose proof (Z.div_mod (zlen pt + 63) 64 ltac:(lia)). pose proof (Z.mod_pos_bound (zlen pt + 63) 64 ltac:(lia)). lia. }
  unfold zlen in *. lia.
Qed.

Lemma chacha20_decrypt_encrypt key counter nonce pt :
  zlen key = 32 -> all_bytes key = true -> zlen nonce = 12 -> all_bytes nonce = true ->
  chacha20_encrypt key counter nonce (chacha20_encrypt key counter nonce pt) = pt.
Proof.
  intros Hk Bk Hn Bn. unfold chacha20_encrypt at 1.
  unfold zlen at 1. rewrite chacha20_encrypt_length by assumption. fold (zlen pt).
  unfold chacha20_encrypt. apply xor_bytes_involutive.
  pose proof (zlen_nonneg pt) as Hl.
  rewrite keystream_length by (try assumption; apply Z.div_pos; lia).
  assert (zlen pt <= 64 * ((zlen pt + 63) / 64)).
  { pose proof (Z.div_mod (zlen pt + 63) 64 ltac:(lia)). pose proof (Z.mod_pos_bound (zlen pt + 63) 64 ltac:(lia)). lia. }
  unfold zlen in *. lia.
Qed.

Lemma chacha_stream_all key nonce counter pt :
  zlen key = 32 -> all_bytes key = true -> zlen nonce = 12 -> all_bytes nonce = true ->
  0 <= counter -> counter + (zlen pt + 63) / 64 <= 4294967296 -> all_bytes pt = true ->
  (c <- cha_init key nonce counter 20 ;; cha_encrypt c pt) = Ok (chacha20_encrypt key counter nonce pt) /\
  (c <- cha_init key nonce counter 20 ;; cha_decrypt c pt) = Ok (chacha20_encrypt key counter nonce pt).
Proof.
  intros. rewrite cha_init_ok by assumption. rewrite !bind_ok.
  split; [apply cha_encrypt_ok; assumption|].
  unfold cha_decrypt. cbn [cha_key cha_nonce cha_counter cha_rounds].
  rewrite cha_encrypt_ok by assumption. reflexivity.
Qed.

Lemma cha_init_bad key nonce counter rounds :
  (zlen key <> 32 \/ zlen nonce <> 12) -> cha_init key nonce counter rounds = Err ValueError.
Proof.
  intros H. unfold cha_init.
  destruct (zlen key =? 32) eqn:E1; [|reflexivity].
  destruct (zlen nonce =? 12) eqn:E2; [|reflexivity].
  apply Z.eqb_eq in E1. apply Z.eqb_eq in E2. destruct H; contradiction.
Qed.
