(* C20 model: how the generated tables (Gen/Suites.v = tlslite-ng's suite lists and the
   values of its classification functions, regenerated from /repo on every run) are
   read, what the ast-extracted key-exchange dispatch of tlsconnection.py must return, and the
   boolean checks that the theorems of Props/C20.v decide.  Definitions only. *)
From Coq Require Import ZArith List Bool String.
From TV Require Import Gen.Suites Spec.Iana.
Import ListNotations.
Open Scope string_scope.
Open Scope Z_scope.

Definition mem (s : Z) (l : list Z) : bool := existsb (Z.eqb s) l.
Definition row_of (s : Z) : option suite_row := find (fun r => r_id r =? s) rows.

(* per-version entry; the theorems carry [tables_wf], so the default is never used *)
Definition at_version {A} (l : list (list A)) (v : Z) : list A := nth (Z.to_nat v) l [].
Definition lists_of (name : string) : list Z :=
  match sassoc name suite_lists with Some l => l | None => [] end.
Definition has_list (name : string) : bool :=
  match sassoc name suite_lists with Some _ => true | None => false end.

(* ---- negotiability (the handshake's own filters, all-permissive settings) ---------- *)
Definition creds : list string := ["srp"; "srp+cert"; "cert"; "anon"; "psk"].
Definition kinds : list string := ["srp"; "cert"; "anon"].

Definition srv_may_select (cred : string) (s v : Z) : bool :=
  match sassoc cred srv_candidates with Some t => mem s (at_version t v) | None => false end.
Definition negotiable_srv (s v : Z) : bool := existsb (fun c => srv_may_select c s v) creds.

(* a client of some handshake kind and some maxVersion accepts s in a ServerHello of version v *)
Definition cli_may_accept (s v : Z) : bool :=
  existsb (fun k => match sassoc k cli_accepts with
                    | Some per_max => existsb (fun per_v => mem s (at_version per_v v)) per_max
                    | None => false
                    end) kinds.

Definition negotiable (s v : Z) : bool := negotiable_srv s v || cli_may_accept s v.
Definition ever_negotiable (s : Z) : bool := existsb (negotiable s) all_versions.

(* shape of the generated tables: nothing is read through a default *)
Definition len_is {A} (n : nat) (l : list A) : bool := Nat.eqb (List.length l) n.
Definition tables_wf : bool :=
  forallb (fun s => match row_of s with
                    | Some r => len_is 4 (r_calc_key_prf r) && len_is 5 (r_ffv r)
                                && len_is 4 (r_labels r) && forallb (len_is 5) (r_labels r) && len_is 4 (r_exporter r)
                                && len_is 3 (r_filter_prfs r) && len_is 6 (r_filter_cert r)
                    | None => false end) all_suites
  && Nat.eqb (List.length rows) (List.length all_suites)
  && forallb (fun c => match sassoc c srv_candidates with Some t => len_is 5 t | None => false end) creds
  && forallb (fun k => match sassoc k cli_accepts with
                       | Some pm => len_is 5 pm && forallb (len_is 5) pm | None => false end) kinds
  && forallb (fun p => len_is 5 (snd p)) (by_cipher_name ++ by_mac_name ++ by_kx_name)
  && forallb (fun v => (0 <=? v) && (v <=? 4)) all_versions
  && len_is 5 all_versions.

(* ---- 1. classification used by the record layer and the key derivation --------------- *)
Definition cipher_settings_ok (m : meaning) (r : suite_row) : bool :=
  match r_cipher_settings r with
  | Some (kl, ivl, fn) =>
      (kl =? m_keylen m) && String.eqb fn (factory_name m)
      && (m_draft m || (ivl =? m_fixed_iv m))     (* no registered nonce layout for the draft code points *)
  | None => false
  end.

Definition mac_settings_ok (m : meaning) (r : suite_row) : bool :=
  match r_mac_settings r with
  | Some (ml, dg) => (ml =? m_maclen m) && ostring_eqb dg (digest_name m)
  | None => false
  end.

Definition prf_ok (m : meaning) (r : suite_row) (v : Z) : bool :=
  if v <=? 3 then
    match nth_error (r_calc_key_prf r) (Z.to_nat v) with
    | Some (Some p) => String.eqb p (prf_at m v)
    | _ => false
    end
  else
    String.eqb (fst (r_prf_params r)) (prf_at m v) && (snd (r_prf_params r) =? prf_hash_len m)
    && match r_tls13 r with
       | Some (h, kl, nm, tag, nonce) =>
           String.eqb h (prf_at m v) && (kl =? m_keylen m) && ostring_eqb nm (enc_object_name m)
           && (tag =? m_tag m) && (nonce =? 12)
       | None => false
       end.

(* every other place where the suite decides a hash or a size, during and after the handshake:
   calc_key for each label (key expansion, master secret, extended master secret, both Finished),
   keyingMaterialExporter, the deprecated calcMasterSecret/calcExtendedMasterSecret/calcFinished, and
   the TLS 1.3 KeyUpdate (next traffic secret, new key, new IV; all four role/direction wrappers) *)
Definition is_some_str (x : option string) (want : string) : bool := ostring_eqb x (Some want).

Definition labels_ok (m : meaning) (r : suite_row) (v : Z) : bool :=
  if v <=? 3 then
    match nth_error (r_labels r) (Z.to_nat v) with
    | Some row =>
        forallb (fun p => (* index 2 = extended master secret, undefined under SSLv3 *)
                   if (v =? 0) && (fst p =? 2) then true else is_some_str (snd p) (prf_at m v))
                (combine [0; 1; 2; 3; 4] row)
        && len_is 5 row
    | None => false
    end
  else true.

Definition exporter_ok (m : meaning) (r : suite_row) (v : Z) : bool :=
  if 1 <=? v then
    match nth_error (r_exporter r) (Z.to_nat (v - 1)) with
    | Some k => is_some_str k (prf_at m v)
    | None => false
    end
  else true.

Definition deprecated_ok (m : meaning) (r : suite_row) (v : Z) : bool :=
  if v =? 3 then forallb (fun p => is_some_str (snd p) (prf_at m 3)) (r_deprecated r) else true.

Definition keyupdate_ok (m : meaning) (r : suite_row) (v : Z) : bool :=
  if v =? 4 then
    let h := prf_at m 4 in
    match r_keyupdate r with
    | Some (hs, ls, hk, lk, hi, li, nm, tag) =>
        is_some_str hs h && (ls =? prf_hash_len m) && is_some_str hk h && (lk =? m_keylen m)
        && is_some_str hi h && (li =? 12) && ostring_eqb nm (enc_object_name m) && (tag =? m_tag m)
        && len_is 4 (r_ku_roles r) && forallb (fun x => is_some_str x h) (r_ku_roles r)
    | None => false
    end
  else true.

(* TLS 1.3 PSKs (RFC 8446 4.2.11: the selected PSK's hash must be the suite's hash):
   filter_for_prfs keeps the suite exactly for its own hash (None counts as sha256), and the server's
   selection loop (psk_skipped, from the ast; prf_name = _getPRFParams of the suite) skips an offered
   identity -- external PSK or ticket -- exactly when its hash is not the suite's *)
Definition psk_ok (m : meaning) (r : suite_row) (v : Z) : bool :=
  if v =? 4 then
    let h := prf_at m 4 in
    match r_filter_prfs r with
    | [b256; b384; bnone] =>
        Bool.eqb b256 (String.eqb h "sha256") && Bool.eqb b384 (String.eqb h "sha384")
        && Bool.eqb bnone (String.eqb h "sha256")
    | _ => false
    end
    && forallb (fun t => forallb (fun ph =>
                  Bool.eqb (psk_skipped t ph (fst (r_prf_params r))) (negb (String.eqb ph h)))
                ["sha256"; "sha384"]) [true; false]
  else true.

(* filter_for_certificate: with a server certificate of key type rsa / rsa-pss / ecdsa / Ed25519 / dsa, or with no
   certificate, the suite may be selected exactly when that is the authentication its name denotes (RSA key
   transport cannot use an rsa-pss key; TLS 1.3 suites fit every certificate) *)
Definition cert_fit (m : meaning) : list bool :=
  match m_kx m, m_auth m with
  | KxTLS13, _ => [true; true; true; true; true; true]
  | KxRSA, AuRSA => [true; false; false; false; false; false]
  | _, AuRSA => [true; true; false; false; false; false]
  | _, AuECDSA => [false; false; true; true; false; false]
  | _, AuDSS => [false; false; false; false; true; false]
  | _, _ => [false; false; false; false; false; true]
  end.
Definition blist_eqb (a b : list bool) : bool :=
  Nat.eqb (List.length a) (List.length b) && forallb (fun p => Bool.eqb (fst p) (snd p)) (combine a b).
Definition cert_ok (m : meaning) (r : suite_row) : bool := blist_eqb (r_filter_cert r) (cert_fit m).

Definition chk_classification (s v : Z) : bool :=
  match meaning_of s, row_of s with
  | Some m, Some r => cipher_settings_ok m r && mac_settings_ok m r && prf_ok m r v
                      && labels_ok m r v && exporter_ok m r v && deprecated_ok m r v && keyupdate_ok m r v
                      && psk_ok m r v && cert_ok m r
  | _, _ => false
  end.

(* ---- 2. accessors ------------------------------------------------------------------- *)
Definition chk_cipher_accessor (s : Z) : bool :=
  match meaning_of s, row_of s with
  | Some m, Some r => ostring_eqb (r_canon_cipher r) (Some (lib_cipher_name m))
  | _, _ => false
  end.
Definition chk_mac_accessor (s : Z) : bool :=
  match meaning_of s, row_of s with
  | Some m, Some r => mac_name_agrees m (r_canon_mac r)
  | _, _ => false
  end.

(* ---- 3. versions --------------------------------------------------------------------- *)
Definition chk_version (s v : Z) : bool :=
  match meaning_of s with
  | Some m => defined_in m v
  | None => false
  end.

(* filterForVersion alone never lets a suite into a version that does not define it *)
Definition chk_ffv (s v : Z) : bool :=
  match row_of s, meaning_of s with
  | Some r, Some m => implb (nth (Z.to_nat v) (r_ffv r) true) (defined_in m v)
  | Some r, None => negb (nth (Z.to_nat v) (r_ffv r) true)      (* SCSVs, SSLv2 kinds: never *)
  | None, _ => false
  end.

(* ---- 4. what every list means ------------------------------------------------------------ *)
Definition is_cipher (c : cipher) (kl : Z) (m : meaning) : bool :=
  (cipher_code (m_cipher m) =? cipher_code c) && (m_keylen m =? kl).
Definition is_mac (x : mac) (m : meaning) : bool := mac_code (m_mac m) =? mac_code x.
Definition is_kx (k : kx) (a : auth) (m : meaning) : bool :=
  (kx_code (m_kx m) =? kx_code k) && (auth_code (m_auth m) =? auth_code a).
Definition kx_is (k : kx) (m : meaning) : bool := kx_code (m_kx m) =? kx_code k.
Definition kind_is (k : ckind) (m : meaning) : bool := ckind_code (m_kind m) =? ckind_code k.

Definition list_semantics : list (string * (meaning -> bool)) := [
  ("aes128Suites", is_cipher CAesCbc 16); ("aes256Suites", is_cipher CAesCbc 32);
  ("aes128GcmSuites", is_cipher CAesGcm 16); ("aes256GcmSuites", is_cipher CAesGcm 32);
  ("aes128CcmSuites", is_cipher CAesCcm 16); ("aes256CcmSuites", is_cipher CAesCcm 32);
  ("aes128Ccm_8Suites", is_cipher CAesCcm8 16); ("aes256Ccm_8Suites", is_cipher CAesCcm8 32);
  ("chacha20Suites", fun m => is_cipher CChacha 32 m && negb (m_draft m));
  ("chacha20draft00Suites", fun m => is_cipher CChacha 32 m && m_draft m);
  ("tripleDESSuites", is_cipher C3des 24); ("rc4Suites", is_cipher CRc4 16); ("nullSuites", is_cipher CNull 0);
  ("shaSuites", is_mac MSha); ("sha256Suites", is_mac MSha256); ("sha384Suites", is_mac MSha384);
  ("md5Suites", is_mac MMd5); ("aeadSuites", is_mac MAead);
  ("streamSuites", kind_is Stream);
  ("ssl3Suites", fun m => m_minv m =? 0);
  ("tls12Suites", fun m => (m_minv m =? 3));
  ("tls13Suites", kx_is KxTLS13);
  ("sha384PrfSuites", fun m => prf_code (m_prf m) =? 2);
  ("sha256PrfSuites", fun m => (3 <=? m_minv m) && negb (prf_code (m_prf m) =? 2));
  ("certSuites", is_kx KxRSA AuRSA); ("dheCertSuites", is_kx KxDHE AuRSA); ("dheDsaSuites", is_kx KxDHE AuDSS);
  ("ecdheCertSuites", is_kx KxECDHE AuRSA); ("ecdheEcdsaSuites", is_kx KxECDHE AuECDSA);
  ("anonSuites", is_kx KxDHE AuAnon); ("ecdhAnonSuites", is_kx KxECDHE AuAnon);
  ("srpSuites", is_kx KxSRP AuSRP); ("srpCertSuites", is_kx KxSRP AuRSA); ("srpDsaSuites", is_kx KxSRP AuDSS);
  ("srpAllSuites", kx_is KxSRP); ("dhAllSuites", kx_is KxDHE); ("ecdhAllSuites", kx_is KxECDHE);
  ("certAllSuites", fun m => (auth_code (m_auth m) =? auth_code AuRSA))].

(* every list the library defines has a stated meaning, and conversely *)
Definition semantics_cover_base : bool :=
  forallb (fun p => match sassoc (fst p) list_semantics with Some _ => true | None => false end) suite_lists
  && forallb (fun p => has_list (fst p)) list_semantics.

Definition chk_list (name : string) (s : Z) : bool :=
  match meaning_of s, sassoc name list_semantics with
  | Some m, Some sem => Bool.eqb (mem s (lists_of name)) (sem m)
  | _, _ => false
  end.
Definition chk_lists (s : Z) : bool := forallb (fun p => chk_list (fst p) s) list_semantics.

(* ---- 5. the single-word settings filters ----------------------------------------------- *)
Definition chk_word_table (t : list (string * list (list Z))) (word_of : meaning -> option string)
           (s v : Z) : bool :=
  match meaning_of s with
  | Some m =>
      forallb (fun p => Bool.eqb (mem s (at_version (snd p) v)) (ostring_eqb (word_of m) (Some (fst p)))) t
  | None => false
  end.
Definition chk_cipher_words (s v : Z) : bool := chk_word_table by_cipher_name (fun m => Some (lib_cipher_name m)) s v.
Definition chk_mac_words (s v : Z) : bool := chk_word_table by_mac_name (fun m => Some (mac_word m)) s v.
(* TLS 1.3 suites are not tied to a keyExchangeNames word *)
Definition chk_kx_words (s v : Z) : bool :=
  match meaning_of s with
  | Some m => if kx_is KxTLS13 m then true else chk_word_table by_kx_name lib_kx_name s v
  | None => false
  end.

(* ---- 6. partition of the lists (no reference to names) ------------------------------------ *)
Definition cipher_lists : list string :=
  ["aes128Suites"; "aes256Suites"; "aes128GcmSuites"; "aes256GcmSuites"; "aes128CcmSuites"; "aes256CcmSuites";
   "aes128Ccm_8Suites"; "aes256Ccm_8Suites"; "chacha20Suites"; "chacha20draft00Suites"; "tripleDESSuites";
   "rc4Suites"; "nullSuites"].
Definition mac_lists : list string := ["shaSuites"; "sha256Suites"; "sha384Suites"; "md5Suites"; "aeadSuites"].
Definition kx_lists : list string :=
  ["certSuites"; "dheCertSuites"; "dheDsaSuites"; "ecdheCertSuites"; "ecdheEcdsaSuites"; "anonSuites";
   "ecdhAnonSuites"; "srpSuites"; "srpCertSuites"; "tls13Suites"].
Definition version_lists : list string := ["ssl3Suites"; "tls12Suites"; "tls13Suites"].

(* ... and the lists named in the partition statements exist (nothing is read as an empty default) *)
Definition semantics_cover : bool :=
  semantics_cover_base && forallb has_list (cipher_lists ++ mac_lists ++ kx_lists ++ version_lists).

Definition count_in (names : list string) (s : Z) : Z :=
  fold_left (fun acc n => if mem s (lists_of n) then acc + 1 else acc) names 0.
Definition in_exactly_one (names : list string) (s : Z) : bool := count_in names s =? 1.
Definition chk_partition (s : Z) : bool :=
  in_exactly_one cipher_lists s && in_exactly_one mac_lists s && in_exactly_one kx_lists s
  && in_exactly_one version_lists s.

(* ---- 7. key-exchange dispatch ---------------------------------------------------------------
   gen_srv_dispatch / gen_cli_dispatch are extracted from the ast of tlsconnection.py
   (_handshakeServerAsyncHelper, _handshakeClientAsyncHelper): the name of the KeyExchange class
   constructed (or of the helper coroutine run) for a suite; "ASSERT" = assert(False). *)
Definition expected_srv_action (m : meaning) : option string :=
  match m_kx m, m_auth m with
  | KxSRP, (AuSRP | AuRSA) => Some "_serverSRPKeyExchange"
  | KxRSA, AuRSA => Some "RSAKeyExchange"
  | KxDHE, AuAnon => Some "ADHKeyExchange"
  | KxDHE, (AuRSA | AuDSS) => Some "DHE_RSAKeyExchange"      (* the class does signed FFDHE for any key type *)
  | KxECDHE, AuAnon => Some "AECDHKeyExchange"
  | KxECDHE, (AuRSA | AuECDSA) => Some "ECDHE_RSAKeyExchange"
  | _, _ => None
  end.
Definition expected_cli_action (m : meaning) : option string :=
  match m_kx m with
  | KxSRP => Some "SRPKeyExchange" | KxRSA => Some "RSAKeyExchange"
  | KxDHE => Some "DHE_RSAKeyExchange" | KxECDHE => Some "ECDHE_RSAKeyExchange"
  | _ => None
  end.
Definition name_has_certificate (m : meaning) : bool :=
  match m_auth m with AuRSA | AuDSS | AuECDSA => true | _ => false end.
Definition name_has_signed_ske (m : meaning) : bool :=
  name_has_certificate m && match m_kx m with KxDHE | KxECDHE | KxSRP => true | _ => false end.
Definition name_cert_key_types (m : meaning) : list string :=
  match m_kx m, m_auth m with
  | _, AuECDSA => ["ecdsa"; "Ed25519"; "Ed448"]
  | _, AuDSS => ["dsa"]
  | KxRSA, AuRSA => ["rsa"]                       (* RSA key transport cannot use an RSA-PSS key *)
  | _, AuRSA => ["rsa"; "rsa-pss"]
  | _, _ => []
  end.
Definition same_strings (a b : list string) : bool :=
  forallb (fun x => existsb (String.eqb x) b) a && forallb (fun x => existsb (String.eqb x) a) b.
(* versions <= TLS 1.2 only: TLS 1.3 has one key exchange for all suites *)
Definition chk_dispatch (s : Z) : bool :=
  match meaning_of s with
  | Some m =>
      if kx_is KxTLS13 m then true else
      match expected_srv_action m, expected_cli_action m with
      | Some a, Some b => String.eqb (gen_srv_dispatch s) a && String.eqb (gen_cli_dispatch s) b
      | _, _ => false
      end
      (* the client's message plan (_clientKeyExchange interpreted over the suite, from the ast): it waits for a
         Certificate iff the name denotes certificate authentication, for a ServerKeyExchange iff the key exchange
         is not RSA key transport, and verifies the ServerKeyExchange signature iff the name denotes a signed
         (EC)DHE or SRP exchange *)
      && Bool.eqb (gen_cli_gets_certificate s) (name_has_certificate m)
      && Bool.eqb (gen_cli_gets_ske s) (negb (kx_is KxRSA m))
      && Bool.eqb (gen_cli_verifies_ske_signature s) (name_has_signed_ske m)
      (* the client's certificate-key-type rule (from the ast): for a certificate-authenticated suite the key types
         (X509.certAlg) it accepts are exactly those the name denotes *)
      && (negb (name_has_certificate m) || same_strings (gen_cli_fitting_cert_types s) (name_cert_key_types m))
  | None => false
  end.

(* ---- domains ---------------------------------------------------------------------------- *)
Definition pairs : list (Z * Z) := list_prod all_suites all_versions.
Definition forall_negotiable (f : Z -> Z -> bool) : bool :=
  forallb (fun p => implb (negotiable (fst p) (snd p)) (f (fst p) (snd p))) pairs.
Definition failing (f : Z -> Z -> bool) : list (Z * Z) :=
  filter (fun p => negotiable (fst p) (snd p) && negb (f (fst p) (snd p))) pairs.

(* explicit consequences of [defined_in] the property text names *)
Definition chk_version_classes (s v : Z) : bool :=
  match meaning_of s with
  | Some m =>
      Bool.eqb (v =? 4) (kx_is KxTLS13 m)
      && implb (is_mac MAead m || is_mac MSha256 m || is_mac MSha384 m) (3 <=? v)
  | None => false
  end.

(* ---- beyond the property: every known id with a registered meaning, negotiable or not -----------
   The lists the record layer, the key derivation and the version filter consult (not the
   key-exchange lists: static (EC)DH and SRP_DSS suites are deliberately in none). *)
Definition record_layer_lists : list string :=
  cipher_lists ++ mac_lists ++ ["streamSuites"; "sha384PrfSuites"; "sha256PrfSuites"] ++ version_lists.

Definition chk_static (s : Z) : bool :=
  match meaning_of s, row_of s with
  | Some m, Some r =>
      cipher_settings_ok m r && mac_settings_ok m r
      && ostring_eqb (r_canon_cipher r) (Some (lib_cipher_name m)) && mac_name_agrees m (r_canon_mac r)
      && forallb (fun n => chk_list n s) record_layer_lists
      && in_exactly_one cipher_lists s && in_exactly_one mac_lists s && in_exactly_one version_lists s
  | None, _ => true          (* SCSVs and SSLv2 cipher kinds: not cipher suites of the registry *)
  | _, None => false
  end.

(* known ids whose static classification deviates from their name *)
Definition static_defects : list Z := filter (fun s => negb (chk_static s)) all_suites.

(* ---- which suite feeds key derivation (structure read from the ast of tlsconnection.py) ---------
   A resumed connection (TLS <= 1.2) derives its keys and Finished values from the suite of the SESSION
   being resumed, on both sides, and the client aborts when the ServerHello names another suite; a full
   handshake uses the negotiated suite.  Unknown functions or expressions fail the check (fail closed). *)
Definition allowed_suite_sources : list (string * list string) := [
  ("_clientResume", ["session.cipherSuite"]);
  ("_serverGetClientHello", ["session.cipherSuite"]);
  ("_clientFinished", ["cipherSuite"]);
  ("_serverFinished", ["cipherSuite"]);
  ("_clientTLS13Handshake", ["serverHello.cipher_suite"]);
  ("_serverTLS13Handshake", ["cipherSuite"; "serverHello.cipher_suite"])].

Definition chk_suite_sources : bool :=
  forallb (fun e => let '(fn, _, src) := e in
             match sassoc fn allowed_suite_sources with
             | Some ok => existsb (String.eqb src) ok
             | None => false
             end) suite_arg_sources
  && forallb (fun p => existsb (fun e => let '(fn, _, _) := e in String.eqb fn (fst p)) suite_arg_sources)
             allowed_suite_sources
  && existsb (fun g => String.eqb (fst g) "serverHello.cipher_suite != session.cipherSuite" && snd g) resume_suite_guards
  && forallb (fun g => snd g) resume_suite_guards
  (* a server with several key pairs filters the suites by the certificate it is about to send: inside the loop over
     candidate pairs filter_for_certificate takes the loop's certificate *)
  && negb (Nat.eqb (List.length cert_filter_sites) 0)
  && forallb (fun e => let '(_, _, kind) := e in negb (String.eqb kind "not-loop-var")) cert_filter_sites
  && existsb (fun e => let '(_, _, kind) := e in String.eqb kind "loop") cert_filter_sites
  (* ... and the client refuses a certificate of another key type: the `cert_alg not in fitting` branch really sends
     illegal_parameter and aborts *)
  && existsb (String.eqb "AlertDescription.illegal_parameter") cli_cert_type_alerts.
