(* Sequential model of tlslite/sessioncache.py SessionCache: statement by statement,
   including the state left behind when a statement raises (Python does not roll back).
   Hand-written; tied to /repo by the correspondence check (harness/props/C18.py), which
   compares state and outcome after every call of random and adversarial histories.
   Definitions only.

   entriesDict  -> c_dict   (association list, keys unique)
   entriesList  -> c_list   (None is the initial (None,None) pair; Some (id, timestamp))
   firstIndex, lastIndex, maxAge -> c_first, c_last, c_maxAge
   sessions are handles (Z); session.valid() is a query to the session's owner
   (the set of currently invalid handles is part of the world, not of the cache). *)
From Coq Require Import ZArith List Bool.
From TV Require Import Base.Prelude Base.C18_Lib.
Import ListNotations.
Open Scope Z_scope.

Record cache := {
  c_dict : dict;
  c_list : list (option (Z * Z));
  c_first : Z;
  c_last : Z;
  c_maxAge : Z }.

(* SessionCache.__init__(maxEntries, maxAge) : [(None,None)] * maxEntries *)
Definition init (maxEntries maxAge : Z) : cache :=
  {| c_dict := []; c_list := repeat None (Z.to_nat maxEntries);
     c_first := 0; c_last := 0; c_maxAge := maxAge |}.

Definition with_dict (c : cache) (d : dict) : cache :=
  {| c_dict := d; c_list := c_list c; c_first := c_first c; c_last := c_last c; c_maxAge := c_maxAge c |}.
Definition with_list (c : cache) (l : list (option (Z * Z))) : cache :=
  {| c_dict := c_dict c; c_list := l; c_first := c_first c; c_last := c_last c; c_maxAge := c_maxAge c |}.
Definition with_first (c : cache) (i : Z) : cache :=
  {| c_dict := c_dict c; c_list := c_list c; c_first := i; c_last := c_last c; c_maxAge := c_maxAge c |}.
Definition with_last (c : cache) (i : Z) : cache :=
  {| c_dict := c_dict c; c_list := c_list c; c_first := c_first c; c_last := i; c_maxAge := c_maxAge c |}.

(* the while loop of _purge; the dict is returned also when a statement raises.
     while index != self.lastIndex:
         if currentTime - self.entriesList[index][1] > self.maxAge:
             del(self.entriesDict[self.entriesList[index][0]])
             index = (index+1) % len(self.entriesList)
         else: break                                                          *)
Fixpoint purge_loop (fuel : nat) (l : list (option (Z * Z))) (last maxAge now : Z)
         (d : dict) (index : Z) : dict * res Z :=
  match fuel with
  | O => (d, Err OutOfFuel)
  | S fuel' =>
    if index =? last then (d, Ok index) else
    match py_index l index with
    | Err e => (d, Err e)
    | Ok None => (d, Err TypeError)                 (* currentTime - None *)
    | Ok (Some (id, ts)) =>
      if now - ts >? maxAge then
        match dict_del id d with
        | None => (d, Err KeyError)
        | Some d' =>
          match py_mod (index + 1) (zlen l) with
          | Err e => (d', Err e)
          | Ok i' => purge_loop fuel' l last maxAge now d' i'
          end
        end
      else (d, Ok index)
    end
  end.

(* _purge() with currentTime = now.  At most len(entriesList) iterations are possible
   before index meets lastIndex, hence the fuel. *)
Definition purge (c : cache) (now : Z) : cache * outcome :=
  let '(d, r) := purge_loop (S (length (c_list c))) (c_list c) (c_last c) (c_maxAge c) now
                            (c_dict c) (c_first c) in
  match r with
  | Ok i => (with_first (with_dict c d) i, ORet None)
  | Err e => (with_dict c d, OExc e)        (* self.firstIndex = index is not reached *)
  end.

(* __getitem__(sessionID) at clock value now; valid s = session.valid() at that moment *)
Definition getitem (c : cache) (valid : Z -> bool) (id now : Z) : cache * outcome :=
  let '(c1, o) := purge c now in
  match o with
  | OExc e => (c1, OExc e)
  | ORet _ =>
    match dict_get id (c_dict c1) with
    | None => (c1, OExc KeyError)
    | Some s => if valid s then (c1, ORet (Some s)) else (c1, OExc KeyError)
    end
  end.

(* __setitem__(sessionID, session) at clock value now *)
Definition setitem (c : cache) (id s now : Z) : cache * outcome :=
  let d1 := dict_set id s (c_dict c) in
  let c1 := with_dict c d1 in
  match py_setitem (c_list c) (c_last c) (Some (id, now)) with
  | Err e => (c1, OExc e)
  | Ok l2 =>
    let c2 := with_list c1 l2 in
    match py_mod (c_last c + 1) (zlen l2) with
    | Err e => (c2, OExc e)
    | Ok last' =>
      let c3 := with_last c2 last' in
      if last' =? c_first c then
        match py_index l2 (c_first c) with
        | Err e => (c3, OExc e)
        | Ok None => (c3, OExc KeyError)            (* del entriesDict[None] *)
        | Ok (Some (k, _)) =>
          match dict_del k d1 with
          | None => (c3, OExc KeyError)
          | Some d4 =>
            let c4 := with_dict c3 d4 in
            match py_mod (c_first c + 1) (zlen l2) with
            | Err e => (c4, OExc e)
            | Ok f' => (with_first c4 f', ORet None)
            end
          end
        end
      else (c3, ORet None)
    end
  end.

(* ---- histories -------------------------------------------------------------- *)
Record world := { w_cache : cache; w_invalid : list Z }.

Definition init_world (maxEntries maxAge : Z) : world :=
  {| w_cache := init maxEntries maxAge; w_invalid := [] |}.

Definition apply (w : world) (now : Z) (o : op) : world * outcome :=
  match o with
  | Get id =>
    let '(c, r) := getitem (w_cache w) (valid_in (w_invalid w)) id now in
    ({| w_cache := c; w_invalid := w_invalid w |}, r)
  | Put id s =>
    let '(c, r) := setitem (w_cache w) id s now in
    ({| w_cache := c; w_invalid := w_invalid w |}, r)
  | Purge =>
    let '(c, r) := purge (w_cache w) now in
    ({| w_cache := c; w_invalid := w_invalid w |}, r)
  | SetValid s b =>
    ({| w_cache := w_cache w; w_invalid := set_valid (w_invalid w) s b |}, ORet None)
  end.

Fixpoint exec (w : world) (h : history) : world * list outcome :=
  match h with
  | [] => (w, [])
  | (now, o) :: h' =>
    let '(w1, r) := apply w now o in
    let '(w2, rs) := exec w1 h' in
    (w2, r :: rs)
  end.

(* state after every call, for the correspondence check *)
Fixpoint trace (w : world) (h : history) : list (cache * outcome) :=
  match h with
  | [] => []
  | (now, o) :: h' =>
    let '(w1, r) := apply w now o in
    (w_cache w1, r) :: trace w1 h'
  end.

Definition outcomes (maxEntries maxAge : Z) (h : history) : list outcome :=
  snd (exec (init_world maxEntries maxAge) h).
Definition final_cache (maxEntries maxAge : Z) (h : history) : cache :=
  w_cache (fst (exec (init_world maxEntries maxAge) h)).

(* ---- comparison with the implementation's observable state ------------------ *)
Definition slot_eqb (a b : option (Z * Z)) : bool :=
  match a, b with
  | None, None => true
  | Some x, Some y => pairZ_eqb x y
  | _, _ => false
  end.

Fixpoint slots_eqb (a b : list (option (Z * Z))) : bool :=
  match a, b with
  | [], [] => true
  | x :: a', y :: b' => slot_eqb x y && slots_eqb a' b'
  | _, _ => false
  end.

(* observed: (sorted dict items, entriesList, firstIndex, lastIndex, outcome) *)
Definition obs := (dict * list (option (Z * Z)) * Z * Z * outcome)%type.

Definition obs_matches (m : cache * outcome) (o : obs) : bool :=
  let '(d, l, f, la, r) := o in
  dict_same (c_dict (fst m)) d && slots_eqb (c_list (fst m)) l &&
  (c_first (fst m) =? f) && (c_last (fst m) =? la) && outcome_eqb (snd m) r.

Fixpoint all_match (ms : list (cache * outcome)) (os : list obs) : bool :=
  match ms, os with
  | [], [] => true
  | m :: ms', o :: os' => obs_matches m o && all_match ms' os'
  | _, _ => false
  end.
