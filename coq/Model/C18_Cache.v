(* Sequential model of tlslite/sessioncache.py SessionCache: statement by statement,
   including the state left behind when a statement raises (Python does not roll back).
   Hand-written; tied to /repo by the correspondence check (harness/props/C18.py), which
   compares state and outcome after every call of random and adversarial histories.
   Definitions only.

   entriesDict  -> c_dict   (association list, keys unique)
   entriesSlot  -> c_slot   (id -> index of the newest slot holding that id; added by the fix
                             "SessionCache must not drop a live entry when a session ID is stored twice")
   entriesList  -> c_list   (None is the initial (None,None) pair; Some (id, timestamp))
   firstIndex, lastIndex, maxAge -> c_first, c_last, c_maxAge
   sessions are handles (Z); session.valid() is a query to the session's owner
   (the set of currently invalid handles is part of the world, not of the cache). *)
From Coq Require Import ZArith List Bool.
From TV Require Import Base.Prelude Base.C18_Lib.
Import ListNotations.
Open Scope Z_scope.

Record cache := {
  c_dict : dict;
  c_slot : dict;
  c_list : list (option (Z * Z));
  c_first : Z;
  c_last : Z;
  c_maxAge : Z }.

(* SessionCache.__init__(maxEntries, maxAge) : [(None,None)] * maxEntries *)
Definition init (maxEntries maxAge : Z) : cache :=
  {| c_dict := []; c_slot := []; c_list := repeat None (Z.to_nat maxEntries);
     c_first := 0; c_last := 0; c_maxAge := maxAge |}.

Definition with_dicts (c : cache) (d sl : dict) : cache :=
  {| c_dict := d; c_slot := sl; c_list := c_list c; c_first := c_first c; c_last := c_last c; c_maxAge := c_maxAge c |}.
Definition with_list (c : cache) (l : list (option (Z * Z))) : cache :=
  {| c_dict := c_dict c; c_slot := c_slot c; c_list := l; c_first := c_first c; c_last := c_last c; c_maxAge := c_maxAge c |}.
Definition with_first (c : cache) (i : Z) : cache :=
  {| c_dict := c_dict c; c_slot := c_slot c; c_list := c_list c; c_first := i; c_last := c_last c; c_maxAge := c_maxAge c |}.
Definition with_last (c : cache) (i : Z) : cache :=
  {| c_dict := c_dict c; c_slot := c_slot c; c_list := c_list c; c_first := c_first c; c_last := i; c_maxAge := c_maxAge c |}.

(* _drop(index): forget the entry of a slot that is about to be recycled, unless the slot is stale
     sessionID = self.entriesList[index][0]
     if self.entriesSlot.get(sessionID) == index:
         del(self.entriesDict[sessionID]); del(self.entriesSlot[sessionID])
   Both dicts are returned also when a statement raises. *)
Definition drop (l : list (option (Z * Z))) (d sl : dict) (index : Z) : dict * dict * option exn :=
  match py_index l index with
  | Err e => (d, sl, Some e)
  | Ok None => (d, sl, None)              (* entriesSlot.get(None) is None, which is not an index *)
  | Ok (Some (id, _)) =>
    match dict_get id sl with
    | None => (d, sl, None)
    | Some j =>
      if j =? index then
        match dict_del id d with
        | None => (d, sl, Some KeyError)
        | Some d' =>
          match dict_del id sl with
          | None => (d', sl, Some KeyError)
          | Some sl' => (d', sl', None)
          end
        end
      else (d, sl, None)
    end
  end.

(* the while loop of _purge; the dicts are returned also when a statement raises.
     while index != self.lastIndex:
         if currentTime - self.entriesList[index][1] > self.maxAge:
             self._drop(index)
             index = (index+1) % len(self.entriesList)
         else: break                                                          *)
Fixpoint purge_loop (fuel : nat) (l : list (option (Z * Z))) (last maxAge now : Z)
         (d sl : dict) (index : Z) : dict * dict * res Z :=
  match fuel with
  | O => (d, sl, Err OutOfFuel)
  | S fuel' =>
    if index =? last then (d, sl, Ok index) else
    match py_index l index with
    | Err e => (d, sl, Err e)
    | Ok None => (d, sl, Err TypeError)             (* currentTime - None *)
    | Ok (Some (id, ts)) =>
      if now - ts >? maxAge then
        match drop l d sl index with
        | (d', sl', Some e) => (d', sl', Err e)
        | (d', sl', None) =>
          match py_mod (index + 1) (zlen l) with
          | Err e => (d', sl', Err e)
          | Ok i' => purge_loop fuel' l last maxAge now d' sl' i'
          end
        end
      else (d, sl, Ok index)
    end
  end.

(* _purge() with currentTime = now.  At most len(entriesList) iterations are possible
   before index meets lastIndex, hence the fuel. *)
Definition purge (c : cache) (now : Z) : cache * outcome :=
  let '(d, sl, r) := purge_loop (S (length (c_list c))) (c_list c) (c_last c) (c_maxAge c) now
                                (c_dict c) (c_slot c) (c_first c) in
  match r with
  | Ok i => (with_first (with_dicts c d sl) i, ORet None)
  | Err e => (with_dicts c d sl, OExc e)    (* self.firstIndex = index is not reached *)
  end.

(* __getitem__(sessionID) at clock value now; valid s = session.valid() at that moment *)
Definition getitem (c : cache) (valid : Z -> bool) (id now : Z) : cache * outcome :=
  let '(c1, o) := purge c now in
  match o with
  | OExc e => (c1, OExc e)
  | ORet _ =>
    match dict_get id (c_dict c1) with
    | None => (c1, OExc KeyError)
    | Some s => if valid s then (c1, ORet (Some s)) else (c1, OExc KeyError)
    end
  end.

(* __setitem__(sessionID, session) at clock value now *)
Definition setitem (c : cache) (id s now : Z) : cache * outcome :=
  let d1 := dict_set id s (c_dict c) in
  let sl1 := dict_set id (c_last c) (c_slot c) in
  let c1 := with_dicts c d1 sl1 in
  match py_setitem (c_list c) (c_last c) (Some (id, now)) with
  | Err e => (c1, OExc e)
  | Ok l2 =>
    let c2 := with_list c1 l2 in
    match py_mod (c_last c + 1) (zlen l2) with
    | Err e => (c2, OExc e)
    | Ok last' =>
      let c3 := with_last c2 last' in
      if last' =? c_first c then
        match drop l2 d1 sl1 (c_first c) with
        | (d4, sl4, Some e) => (with_dicts c3 d4 sl4, OExc e)
        | (d4, sl4, None) =>
          let c4 := with_dicts c3 d4 sl4 in
          match py_mod (c_first c + 1) (zlen l2) with
          | Err e => (c4, OExc e)
          | Ok f' => (with_first c4 f', ORet None)
          end
        end
      else (c3, ORet None)
    end
  end.

(* ---- histories -------------------------------------------------------------- *)
Record world := { w_cache : cache; w_invalid : list Z }.

Definition init_world (maxEntries maxAge : Z) : world :=
  {| w_cache := init maxEntries maxAge; w_invalid := [] |}.

Definition apply (w : world) (now : Z) (o : op) : world * outcome :=
  match o with
  | Get id =>
    let '(c, r) := getitem (w_cache w) (valid_in (w_invalid w)) id now in
    ({| w_cache := c; w_invalid := w_invalid w |}, r)
  | Put id s =>
    let '(c, r) := setitem (w_cache w) id s now in
    ({| w_cache := c; w_invalid := w_invalid w |}, r)
  | Purge =>
    let '(c, r) := purge (w_cache w) now in
    ({| w_cache := c; w_invalid := w_invalid w |}, r)
  | SetValid s b =>
    ({| w_cache := w_cache w; w_invalid := set_valid (w_invalid w) s b |}, ORet None)
  end.

Fixpoint exec (w : world) (h : history) : world * list outcome :=
  match h with
  | [] => (w, [])
  | (now, o) :: h' =>
    let '(w1, r) := apply w now o in
    let '(w2, rs) := exec w1 h' in
    (w2, r :: rs)
  end.

(* state after every call, for the correspondence check *)
Fixpoint trace (w : world) (h : history) : list (cache * outcome) :=
  match h with
  | [] => []
  | (now, o) :: h' =>
    let '(w1, r) := apply w now o in
    (w_cache w1, r) :: trace w1 h'
  end.

Definition outcomes (maxEntries maxAge : Z) (h : history) : list outcome :=
  snd (exec (init_world maxEntries maxAge) h).
Definition final_cache (maxEntries maxAge : Z) (h : history) : cache :=
  w_cache (fst (exec (init_world maxEntries maxAge) h)).

(* ---- comparison with the implementation's observable state ------------------ *)
Definition slot_eqb (a b : option (Z * Z)) : bool :=
  match a, b with
  | None, None => true
  | Some x, Some y => pairZ_eqb x y
  | _, _ => false
  end.

Fixpoint slots_eqb (a b : list (option (Z * Z))) : bool :=
  match a, b with
  | [], [] => true
  | x :: a', y :: b' => slot_eqb x y && slots_eqb a' b'
  | _, _ => false
  end.

(* observed: (sorted dict items, sorted entriesSlot items, entriesList, firstIndex, lastIndex, outcome) *)
Definition obs := (dict * dict * list (option (Z * Z)) * Z * Z * outcome)%type.

Definition obs_matches (m : cache * outcome) (o : obs) : bool :=
  let '(d, sl, l, f, la, r) := o in
  dict_same (c_dict (fst m)) d && dict_same (c_slot (fst m)) sl && slots_eqb (c_list (fst m)) l &&
  (c_first (fst m) =? f) && (c_last (fst m) =? la) && outcome_eqb (snd m) r.

Fixpoint all_match (ms : list (cache * outcome)) (os : list obs) : bool :=
  match ms, os with
  | [], [] => true
  | m :: ms', o :: os' => obs_matches m o && all_match ms' os'
  | _, _ => false
  end.
