(* C12: the record sequence number as the caller of the CBC check produces it
   (ConnectionState.getSeqNumBytes: 8 bytes big endian, then increment).  Definitions only. *)
From Coq Require Import ZArith List Bool.
From TV Require Import Base.Prelude.
Import ListNotations.
Open Scope Z_scope.

(* Writer.add(x, 8): big-endian, ValueError when x does not fit *)
Definition be_bytes (len : nat) (x : Z) : list Z :=
  map (fun k => (x / 2 ^ (8 * (Z.of_nat len - 1 - Z.of_nat k))) mod 256) (seq 0 len).

Definition seq_bytes (n : Z) : res (list Z) :=
  if (0 <=? n) && (n <? 2 ^ 64) then Ok (be_bytes 8 n) else Err ValueError.

Record seqstate := { sq_num : Z }.

(* getSeqNumBytes: returns the encoding of the current number and the state with number + 1;
   when the number does not fit, ValueError leaves the state unchanged *)
Definition get_seq (st : seqstate) : res (list Z) * seqstate :=
  match seq_bytes (sq_num st) with
  | Ok b => (Ok b, {| sq_num := sq_num st + 1 |})
  | Err e => (Err e, st)
  end.

Fixpoint be_value (l : list Z) : Z :=
  match l with
  | [] => 0
  | b :: r => b * 2 ^ (8 * Z.of_nat (length r)) + be_value r
  end.

(* k consecutive calls *)
Fixpoint get_seqs (k : nat) (st : seqstate) : list (res (list Z)) * seqstate :=
  match k with
  | O => ([], st)
  | S k' => let '(r, st1) := get_seq st in
            let '(rs, st2) := get_seqs k' st1 in (r :: rs, st2)
  end.
