(* C13 -- hand model of session resumption in tlslite-ng (definitions only, no proofs).

   Anchors in /repo/tlslite/tlsconnection.py:
     server  _serverGetClientHello (session-ID / ticket acceptance), _ticket_to_session,
             _tryDecrypt, _serverSendTickets, _serverTLS13Handshake (PSK selection, binder),
             _handshakeServerAsyncHelper (cache insertion, NewSessionTicket decision)
     client  _clientSendClientHello (offer, pruning), _clientResume, _clientTLS13Handshake
     session.py valid / Ticket.valid, sessioncache.py (__getitem__/__setitem__/_purge),
     tlsrecordlayer.py _shutdown (resumable := False)

   Conventions.  Everything is a Z handle: cipher suites are their code points, server
   names / SRP users / client certificates / master secrets / ticket keys are opaque
   non-zero handles, 0 = absent.  Time is in quarter seconds (the harness clock only
   takes multiples of 0.25 s, so float arithmetic is exact); lifetimes are in the same
   unit.  Versions are the minor number: 1 = TLS1.0 ... 4 = TLS1.3.
   The AEAD that protects tickets is a Section variable (seal/open/tamper/junk);
   SymAEAD at the end of the file is the symbolic instance used to run the model. *)
From Coq Require Import ZArith List Bool.
From TV Require Import Base.Prelude.
Import ListNotations.
Open Scope Z_scope.

(* ---- small list helpers with Z indices ------------------------------------ *)
Definition zget {A} (l : list A) (i : Z) : option A :=
  if i <? 0 then None else nth_error l (Z.to_nat i).

Fixpoint set_nth {A} (l : list A) (n : nat) (x : A) : list A :=
  match l, n with
  | [], _ => []
  | _ :: t, O => x :: t
  | h :: t, S n' => h :: set_nth t n' x
  end.
Definition zset {A} (l : list A) (i : Z) (x : A) : list A :=
  if i <? 0 then l else set_nth l (Z.to_nat i) x.

Definition zmem (x : Z) (l : list Z) : bool := existsb (Z.eqb x) l.
Definition nonempty {A} (l : list A) : bool := match l with [] => false | _ => true end.
Definition nz (x : Z) : bool := negb (x =? 0).

(* ---- alerts ----------------------------------------------------------------- *)
Definition unexpected_message := 10.
Definition bad_record_mac := 20.
Definition handshake_failure := 40.
Definition illegal_parameter := 47.
Definition week := 7 * 24 * 3600 * 4.

(* ---- what a ticket protects (messages.SessionTicketPayload) ----------------- *)
Record payload := {
  p_ms : Z;        (* master secret (<=1.2) / resumption master secret (1.3) *)
  p_ver : Z;
  p_suite : Z;
  p_hash : Z;      (* PRF hash of p_suite: 256 / 384 (table sha384PrfSuites) *)
  p_created : Z;   (* int(time.time()) at issuance, in quarter seconds *)
  p_ccert : Z;
  p_etm : bool;
  p_ems : bool;
  p_sni : Z;
  p_srp : Z;       (* SRP user name (payload version 3, /repo 19b1cb2; absent before: finding C13-5) *)
  p_origin : Z     (* ghost: index of the connection whose full handshake authenticated this state *)
}.

(* a session as either end stores it (session.Session) *)
Record sess := {
  s_sid : Z; s_ms : Z; s_ver : Z; s_suite : Z; s_hash : Z;
  s_ems : bool; s_etm : bool; s_sni : Z; s_srp : Z; s_ccert : Z;
  s_origin : Z     (* ghost *)
}.

Definition sess_with_sid (s : sess) (sid : Z) : sess :=
  {| s_sid := sid; s_ms := s_ms s; s_ver := s_ver s; s_suite := s_suite s; s_hash := s_hash s;
     s_ems := s_ems s; s_etm := s_etm s; s_sni := s_sni s; s_srp := s_srp s; s_ccert := s_ccert s;
     s_origin := s_origin s |}.

(* _ticket_to_session: the session rebuilt from a decrypted ticket *)
Definition sess_of_payload (p : payload) (sid : Z) : sess :=
  {| s_sid := sid; s_ms := p_ms p; s_ver := p_ver p; s_suite := p_suite p; s_hash := p_hash p;
     s_ems := p_ems p; s_etm := p_etm p; s_sni := p_sni p; s_srp := p_srp p; s_ccert := p_ccert p;
     s_origin := p_origin p |}.

(* server configuration (HandshakeSettings + handshakeServer arguments) *)
Record scfg := {
  sv_maxv : Z;
  sv_keys : list Z;      (* settings.ticketKeys, first = encryption key *)
  sv_life : Z;           (* settings.ticketLifetime *)
  sv_count : Z;          (* settings.ticket_count *)
  sv_usecache : bool;    (* a SessionCache is passed *)
  sv_maxage : Z;         (* SessionCache.maxAge *)
  sv_cap : Z;            (* SessionCache maxEntries (ring of this size holds cap-1 entries) *)
  sv_ems : bool;         (* useExtendedMasterSecret *)
  sv_etm : bool;         (* useEncryptThenMAC *)
  sv_reqcert : bool
}.

(* SessionCache entry: the shared Session object (its resumable flag) + insertion time *)
Record centry := { ce_sess : sess; ce_res : bool; ce_time : Z }.

Record server := { sv_cfg : scfg; sv_store : list centry (* oldest first *) }.

(* how the server found the session: in the cache by ID; under ticket key k (fresh Session object);
   under ticket key k AND as the same session in the cache (the cached object is used, /repo 4da1727);
   TLS 1.3 PSK ticket under key k *)
Inductive src := ByCache | ByTicket (k : Z) | ByBoth (k : Z) | ByPsk (k : Z).
Inductive sdec := SResume (s : sess) (o : src) | SFull | SAbort (alert : Z).

Inductive outcome :=
| ODone (srv_resumed cli_resumed : bool)
| OAbortS (alert : Z)      (* server sends the alert *)
| OAbortC (alert : Z)      (* client sends the alert *)
| OClientErr               (* the client API raises ValueError before sending anything *)
| OSuspended.              (* full handshake held up before the client's ChangeCipherSpec/Finished reaches
                              the server (transport keeps it back); never completed *)

Section AEAD.
Variable blob : Type.
Variable seal : Z -> Z -> payload -> blob.      (* key, nonce, payload *)
Variable open : Z -> blob -> option payload.
Variable tamper : blob -> Z -> blob.            (* flip bit i *)
Variable junk : Z -> blob.                      (* bytes made without any key *)

(* client-side ticket (session.Ticket / NewSessionTicket with .time) *)
Record tkt := { tk_blob : blob; tk_life : Z; tk_recv : Z }.

(* the client application's Session object *)
Record cobj := {
  c_sess : sess;
  c_res : bool;
  c_t10 : list tkt;      (* tls_1_0_tickets *)
  c_t13 : list tkt;      (* tickets *)
  c_rms : Z              (* resumptionMasterSecret handle *)
}.

Record hello := {
  h_maxv : Z; h_sid : Z; h_suites : list Z; h_ems : bool; h_etm : bool;
  h_sni : Z; h_srp : Z;
  h_ticket : option blob;          (* None = empty session_ticket extension *)
  h_psk : option (blob * Z)        (* first PSK identity and the secret its binder was made with *)
}.

(* one connection attempt: client parameters + oracles for what is not C13's business *)
Record cparams := {
  cp_srv : Z; cp_maxv : Z; cp_suites : list Z; cp_ems : bool; cp_etm : bool;
  cp_sni : Z; cp_srp : Z; cp_ccert : Z;
  cp_offer : option Z;     (* index of the client Session object passed as session= *)
  cp_half : Z;             (* <> 0: the transport holds back the client's second flight (1: all of it,
                              2: from the ChangeCipherSpec on) of a full TLS <= 1.2 handshake *)
  o_acc : list Z;          (* suites the server would accept for the negotiated version *)
  o_fsuite : Z;            (* suite a full negotiation selects (0 = none in common) *)
  o_fcbc : bool;           (* that suite is a CBC suite *)
  o_fhash : Z;             (* its PRF hash *)
  o_falert : Z             (* the alert the server sends when nothing is in common *)
}.

(* ---- client: what is offered (_handshakeClientAsyncHelper + _clientSendClientHello) *)
Definition tk10_valid (now : Z) (t : tkt) : bool := now <? tk_recv t + tk_life t.
Definition tk13_valid (now : Z) (t : tkt) : bool :=
  (now <? tk_recv t + tk_life t) && (now <? tk_recv t + week).

Definition c_valid (c : cobj) : bool :=
  c_res c && (nz (s_sid (c_sess c)) || nonempty (c_t13 c) || nonempty (c_t10 c)).

Definition set_t10 (c : cobj) (l : list tkt) : cobj :=
  {| c_sess := c_sess c; c_res := c_res c; c_t10 := l; c_t13 := c_t13 c; c_rms := c_rms c |}.
Definition set_t13 (c : cobj) (l : list tkt) : cobj :=
  {| c_sess := c_sess c; c_res := c_res c; c_t10 := c_t10 c; c_t13 := l; c_rms := c_rms c |}.
Definition set_res (c : cobj) (b : bool) : cobj :=
  {| c_sess := c_sess c; c_res := b; c_t10 := c_t10 c; c_t13 := c_t13 c; c_rms := c_rms c |}.
Definition set_rms (c : cobj) (x : Z) : cobj :=
  {| c_sess := c_sess c; c_res := c_res c; c_t10 := c_t10 c; c_t13 := c_t13 c; c_rms := x |}.
Definition set_csess (c : cobj) (s : sess) : cobj :=
  {| c_sess := s; c_res := c_res c; c_t10 := c_t10 c; c_t13 := c_t13 c; c_rms := c_rms c |}.

Definition sess_with_sni (s : sess) (x : Z) : sess :=
  {| s_sid := s_sid s; s_ms := s_ms s; s_ver := s_ver s; s_suite := s_suite s; s_hash := s_hash s;
     s_ems := s_ems s; s_etm := s_etm s; s_sni := x; s_srp := s_srp s; s_ccert := s_ccert s;
     s_origin := s_origin s |}.

Inductive offer_res :=
| OfferErr (c' : option cobj)                       (* ValueError; object possibly pruned *)
| Offer (h : hello) (used : option cobj).           (* hello sent; the (pruned) session in use *)

(* Repaired client (/repo 51120a0, RFC 5077 3.4): a non-empty session_id always accompanies a
   ticket so that the server's echo can be recognised.  Before that commit the session_id stayed
   empty here unless TLS 1.3 was offered (finding F1). *)
Definition client_offer (cp : cparams) (c0 : option cobj) (now fresh : Z)
  : offer_res :=
  let c1 := match c0 with Some c => if c_valid c then Some c else None | None => None end in
  (* session_ticket extension: prune, then first ticket or empty *)
  let c2 := match c1 with
            | Some c => if nonempty (c_t10 c) then Some (set_t10 c (filter (tk10_valid now) (c_t10 c)))
                        else Some c
            | None => None end in
  let ticket := match c2 with
                | Some c => match c_t10 c with t :: _ => Some (tk_blob t) | [] => None end
                | None => None end in
  let fake_sid := if 4 <=? cp_maxv cp then fresh
                  else if (match ticket with Some _ => true | None => false end) then fresh
                  else 0 in
  match c2 with
  | Some c =>
      if nz (s_sid (c_sess c)) && negb (zmem (s_suite (c_sess c)) (cp_suites cp))
      then OfferErr (Some c)
      else
        let sid := if nz (s_sid (c_sess c)) then s_sid (c_sess c) else fake_sid in
        let sni := if nz (s_sid (c_sess c)) then s_sni (c_sess c) else cp_sni cp in
        let srp := if nz (s_sid (c_sess c)) then s_srp (c_sess c) else cp_srp cp in
        (* pre_shared_key: prune, first ticket *)
        let c3 := if nonempty (c_t13 c) && (4 <=? cp_maxv cp)
                  then set_t13 c (filter (tk13_valid now) (c_t13 c)) else c in
        let psk := if 4 <=? cp_maxv cp
                   then match c_t13 c3 with t :: _ => Some (tk_blob t, c_rms c3) | [] => None end
                   else None in
        Offer {| h_maxv := cp_maxv cp; h_sid := sid; h_suites := cp_suites cp;
                 h_ems := cp_ems cp; h_etm := cp_etm cp; h_sni := sni; h_srp := srp;
                 h_ticket := ticket; h_psk := psk |} (Some c3)
  | None =>
      Offer {| h_maxv := cp_maxv cp; h_sid := fake_sid; h_suites := cp_suites cp;
               h_ems := cp_ems cp; h_etm := cp_etm cp; h_sni := cp_sni cp; h_srp := cp_srp cp;
               h_ticket := None; h_psk := None |} None
  end.

(* ---- server: tickets (_tryDecrypt, _ticket_to_session) ---------------------- *)
Fixpoint try_decrypt (keys : list Z) (b : blob) : option (Z * payload) :=
  match keys with
  | [] => None
  | k :: ks => match open k b with Some p => Some (k, p) | None => try_decrypt ks b end
  end.

Definition ticket_to_session (cfg : scfg) (now sid : Z) (b : blob) : option (Z * sess) :=
  match try_decrypt (sv_keys cfg) b with
  | None => None
  | Some (k, p) => if p_created p + sv_life cfg <? now then None
                   else Some (k, sess_of_payload p sid)
  end.

(* ---- server: SessionCache ---------------------------------------------------- *)
Fixpoint purge (maxage now : Z) (st : list centry) : list centry :=
  match st with
  | [] => []
  | e :: r => if maxage <? now - ce_time e then purge maxage now r else st
  end.

Fixpoint cache_find (sid : Z) (st : list centry) : option centry :=
  match st with
  | [] => None
  | e :: r => if s_sid (ce_sess e) =? sid then Some e else cache_find sid r
  end.

(* __getitem__: purge, look up, require valid() *)
Definition cache_get (cfg : scfg) (now sid : Z) (st : list centry) : list centry * option sess :=
  let st' := purge (sv_maxage cfg) now st in
  (st', match cache_find sid st' with
        | Some e => if ce_res e && nz (s_sid (ce_sess e)) then Some (ce_sess e) else None
        | None => None end).

(* __setitem__: append; when the ring is full the oldest entry is dropped *)
Definition cache_put (cfg : scfg) (now : Z) (s : sess) (st : list centry) : list centry :=
  let st' := st ++ [{| ce_sess := s; ce_res := true; ce_time := now |}] in
  if sv_cap cfg <=? zlen st' then tl st' else st'.

Fixpoint cache_invalidate (sid : Z) (st : list centry) : list centry :=
  match st with
  | [] => []
  | e :: r => (if s_sid (ce_sess e) =? sid
               then {| ce_sess := ce_sess e; ce_res := false; ce_time := ce_time e |} else e)
              :: cache_invalidate sid r
  end.

(* ---- server: TLS <= 1.2 resumption decision (_serverGetClientHello) ---------- *)
Definition consistency (s : sess) (o : src) (h : hello) : sdec :=
  if negb (zmem (s_suite s) (h_suites h)) then SAbort illegal_parameter
  (* /repo 19b1cb2: a ticket without an SRP user name offered with an SRP hello is declined; before that
     commit no ticket carried a user name and this case ended in handshake_failure (finding C13-5) *)
  else if nz (h_srp h) && negb (nz (s_srp s)) && (match o with ByTicket _ | ByBoth _ => true | _ => false end)
       then SFull
  else if nz (h_srp h) && (negb (nz (s_srp s)) || negb (h_srp h =? s_srp s)) then SAbort handshake_failure
  else if nz (h_sni h) && (negb (nz (s_sni s)) || negb (h_sni h =? s_sni s)) then SAbort handshake_failure
  else if s_etm s && negb (h_etm h) then SAbort illegal_parameter
  else if s_ems s && negb (h_ems h) then SAbort handshake_failure
  else if negb (s_ems s) && h_ems h then SFull
  else SResume s o.

Definition server_try_resume (cfg : scfg) (st : list centry) (acc : list Z) (h : hello) (now : Z)
  : list centry * sdec :=
  let has_ticket := match h_ticket h with Some _ => true | None => false end in
  if (nz (h_sid h) && sv_usecache cfg) || has_ticket then
    let from_ticket := match h_ticket h with
                       | Some b => ticket_to_session cfg now (h_sid h) b
                       | None => None end in
    let '(st', found) :=
      match from_ticket with
      | Some (k, s) =>
          (* /repo 4da1727: when the hello's session_id names a valid cache entry holding the very same
             session (master secret, suite), the connection is bound to the cached object, so that its
             failure invalidates the session for ID resumption too.  Before that commit the fresh
             object was always used (finding ticket-connection-failure-not-propagated-to-cache). *)
          if sv_usecache cfg && nz (h_sid h)
          then let '(st1, r) := cache_get cfg now (h_sid h) st in
               (st1, match r with
                     | Some c => if (s_ms c =? s_ms s) && (s_suite c =? s_suite s)
                                 then Some (c, ByBoth k) else Some (s, ByTicket k)
                     | None => Some (s, ByTicket k) end)
          else (st, Some (s, ByTicket k))
      | None =>
          if negb has_ticket && sv_usecache cfg && nz (h_sid h)
          then let '(st1, r) := cache_get cfg now (h_sid h) st in
               (st1, match r with Some s => Some (s, ByCache) | None => None end)
          else (st, None)
      end in
    match found with
    | None => (st', SFull)
    | Some (s, o) =>
        if negb (zmem (s_suite s) acc) then (st', SFull)
        else (st', consistency s o h)
    end
  else (st, SFull).

(* ---- server: TLS 1.3 PSK selection (_serverTLS13Handshake) ------------------- *)
Inductive sdec13 := S13Psk (k : Z) (p : payload) | S13Full | S13Abort (alert : Z).

Definition server_psk (cfg : scfg) (cp : cparams) (h : hello) (now : Z) : sdec13 :=
  match h_psk h with
  | None => S13Full
  | Some (b, binder_key) =>
      if negb (nonempty (sv_keys cfg)) then S13Full
      else match try_decrypt (sv_keys cfg) b with
           | None => S13Full
           | Some (k, p) =>
               if negb (p_ver p =? 4) then S13Full
               else if p_created p + sv_life cfg <? now then S13Full   (* /repo e172bf7; absent before *)
               else if negb (p_hash p =? o_fhash cp) then S13Full
               else if negb (binder_key =? p_ms p) then S13Abort illegal_parameter
               else S13Psk k p
           end
  end.

(* ---- client: did the server resume?  (_clientResume) ------------------------- *)
(* Repaired client (/repo 51120a0): resumption iff the server echoed the non-empty session_id of
   the ClientHello.  Before: (nz sid_c && sh_sid = sid_c) || nonempty tls_1_0_tickets, i.e. ANY
   ServerHello counted as a resumption while the session held a ticket (finding F1). *)
Definition client_resume_branch (used : option cobj) (h : hello) (sh_sid : Z) : bool :=
  match used with
  | None => false
  | Some c => nz sh_sid && (sh_sid =? h_sid h) && (nz (s_sid (c_sess c)) || nonempty (c_t10 c))
  end.

(* ---- the world ---------------------------------------------------------------- *)
Record connrec := {
  cr_srv : Z;
  cr_sobj : option Z;     (* session ID of the SessionCache object bound to the server end *)
  cr_cobj : option Z;     (* index of the client Session object bound to the client end *)
  cr_open : bool;
  cr_ks : bool;           (* ghost: the server end invalidated its session (fatal alert / abrupt close seen) *)
  cr_kc : bool            (* ghost: the client end did *)
}.

(* log entry: everything the theorems and the correspondence look at *)
Record cres := {
  r_srv : Z; r_ver : Z; r_now : Z; r_cfg : scfg; r_hello : option hello; r_acc : list Z;
  r_src : option src;          (* how the server found the session, when it resumed *)
  r_out : outcome;
  r_sview : option sess;       (* the server connection's session when the handshake completed *)
  r_cview : option sess;
  r_offer : option Z;
  r_offer_valid : bool;        (* the offered client object passed valid() *)
  r_newc : Z * Z               (* tickets (1.0, 1.3) held by the client object bound to the connection *)
}.

Record world := {
  w_now : Z;
  w_fresh : Z;                               (* next unused handle *)
  w_servers : list server;
  w_clients : list cobj;
  w_conns : list connrec;
  w_log : list cres;
  w_issued : list (Z * Z * payload)          (* ghost: (server, key, payload) of every ticket issued *)
}.

Definition set_store (sv : server) (st : list centry) : server := {| sv_cfg := sv_cfg sv; sv_store := st |}.

Definition upd_server (w : world) (i : Z) (sv : server) : list server := zset (w_servers w) i sv.

Definition created (now : Z) : Z := (now / 4) * 4.

Definition ntk (c : option cobj) : Z * Z :=
  match c with Some c => (zlen (c_t10 c), zlen (c_t13 c)) | None => (0, 0) end.

Definition mk_world now fresh svs cls conns log issued : world :=
  {| w_now := now; w_fresh := fresh; w_servers := svs; w_clients := cls; w_conns := conns;
     w_log := log; w_issued := issued |}.

(* store the (possibly pruned) offered object back *)
Definition put_client (cls : list cobj) (i : option Z) (c : option cobj) : list cobj :=
  match i, c with Some i, Some c => zset cls i c | _, _ => cls end.

Fixpoint mk_tickets (n : nat) (key nonce : Z) (p : payload) (life now : Z) : list tkt :=
  match n with
  | O => []
  | S n' => {| tk_blob := seal key nonce p; tk_life := life; tk_recv := now |}
            :: mk_tickets n' key (nonce + 1) p life now
  end.

(* One connection attempt: both ends run to completion or to the first alert.
   conn_delta computes what the attempt changes, apply_delta installs it. *)
Record delta := {
  d_store : option (list centry);     (* new content of the server's SessionCache *)
  d_used : option cobj;               (* the offered client object after pruning *)
  d_newc : option cobj;               (* a new client Session object *)
  d_conn : connrec;
  d_log : cres;
  d_issue : option (Z * payload);     (* ghost: ticket key and payload issued *)
  d_bump : Z                          (* handles consumed *)
}.

Definition apply_delta (w : world) (cp : cparams) (d : delta) : world :=
  let svs := match d_store d, zget (w_servers w) (cp_srv cp) with
             | Some st, Some sv => zset (w_servers w) (cp_srv cp) (set_store sv st)
             | _, _ => w_servers w end in
  let cls1 := put_client (w_clients w) (cp_offer cp) (d_used d) in
  let cls := match d_newc d with Some c => cls1 ++ [c] | None => cls1 end in
  mk_world (w_now w) (w_fresh w + d_bump d) svs cls (w_conns w ++ [d_conn d]) (w_log w ++ [d_log d])
           (match d_issue d with Some (k, p) => w_issued w ++ [(cp_srv cp, k, p)] | None => w_issued w end).

Definition conn_delta (w : world) (cp : cparams) (sv : server) : delta :=
  let now := w_now w in
  let ci := Z.of_nat (length (w_log w)) in           (* index of this connection *)
  let fresh := w_fresh w in                          (* fresh, fresh+1, ... are unused handles *)
  let cfg := sv_cfg sv in
  let c0 := match cp_offer cp with Some i => zget (w_clients w) i | None => None end in
  let offer_valid := match c0 with Some c => c_valid c | None => false end in
  let log0 v h src out sview cview used :=
      {| r_srv := cp_srv cp; r_ver := v; r_now := now; r_cfg := cfg; r_hello := h; r_acc := o_acc cp;
         r_src := src; r_out := out; r_sview := sview; r_cview := cview; r_offer := cp_offer cp;
         r_offer_valid := offer_valid; r_newc := ntk used |} in
  let closed_conn := {| cr_srv := cp_srv cp; cr_sobj := None; cr_cobj := None; cr_open := false;
                        cr_ks := false; cr_kc := false |} in
  let cidx := Z.of_nat (length (w_clients w)) in     (* index a new client object will get *)
  match client_offer cp c0 now fresh with
  | OfferErr c' =>
      {| d_store := None; d_used := c'; d_newc := None; d_conn := closed_conn;
         d_log := log0 0 None None OClientErr None None None; d_issue := None; d_bump := 4 |}
  | Offer h used =>
    let v := Z.min (cp_maxv cp) (sv_maxv cfg) in
    let abort st' out :=
      {| d_store := st'; d_used := used; d_newc := None; d_conn := closed_conn;
         d_log := log0 v (Some h) None out None None None; d_issue := None; d_bump := 4 |} in
    if 4 <=? v then
      (* ---------------- TLS 1.3 ---------------- *)
      if o_fsuite cp =? 0 then abort None (OAbortS (o_falert cp)) else
      match server_psk cfg cp h now with
      | S13Abort a => abort None (OAbortS a)
      | d =>
        let resumed := match d with S13Psk _ _ => true | _ => false end in
        let ccert := match d with S13Psk _ p => p_ccert p
                     | _ => if sv_reqcert cfg then cp_ccert cp else 0 end in
        let origin := match d with S13Psk _ p => p_origin p | _ => ci end in
        let rms := fresh + 1 in
        let view := {| s_sid := 0; s_ms := rms; s_ver := 4; s_suite := o_fsuite cp; s_hash := o_fhash cp;
                       s_ems := true; s_etm := false; s_sni := h_sni h; s_srp := 0; s_ccert := ccert;
                       s_origin := origin |} in
        let pl := {| p_ms := rms; p_ver := 4; p_suite := o_fsuite cp; p_hash := o_fhash cp;
                     p_created := created now; p_ccert := ccert; p_etm := false; p_ems := true;
                     p_sni := h_sni h; p_srp := 0; p_origin := origin |} in
        let issue := nonempty (sv_keys cfg) && (0 <? sv_count cfg) in
        let key := hd 0 (sv_keys cfg) in
        let tks := if issue then mk_tickets (Z.to_nat (sv_count cfg)) key (fresh + 2) pl (sv_life cfg) now
                   else [] in
        let cview := {| s_sid := 0; s_ms := rms; s_ver := 4; s_suite := o_fsuite cp; s_hash := o_fhash cp;
                        s_ems := true; s_etm := false; s_sni := h_sni h; s_srp := 0;
                        s_ccert := cp_ccert cp; s_origin := origin |} in
        let newc := {| c_sess := cview; c_res := true; c_t10 := []; c_t13 := tks; c_rms := rms |} in
        {| d_store := None; d_used := used; d_newc := Some newc;
           d_conn := {| cr_srv := cp_srv cp; cr_sobj := None; cr_cobj := Some cidx; cr_open := true;
                        cr_ks := false; cr_kc := false |};
           d_log := log0 v (Some h) (match d with S13Psk k _ => Some (ByPsk k) | _ => None end)
                         (ODone resumed resumed) (Some view) (Some cview) (Some newc);
           d_issue := if issue then Some (key, pl) else None;
           d_bump := 2 + Z.max 0 (sv_count cfg) + 1 |}
      end
    else
      (* ---------------- TLS <= 1.2 ---------------- *)
      let '(st1, d) := server_try_resume cfg (sv_store sv) (o_acc cp) h now in
      match d with
      | SAbort a => abort (Some st1) (OAbortS a)
      | SResume s o =>
          (* ServerHello: session_id = s_sid s, suite = s_suite s *)
          if client_resume_branch used h (s_sid s) then
            match used with
            | Some c =>
                if negb (s_suite s =? s_suite (c_sess c)) then abort (Some st1) (OAbortC illegal_parameter)
                else if negb (s_ms s =? s_ms (c_sess c)) then abort (Some st1) (OAbortC bad_record_mac)
                else
                  {| d_store := Some st1; d_used := used; d_newc := None;
                     d_conn := {| cr_srv := cp_srv cp;
                                  cr_sobj := match o with ByCache | ByBoth _ => Some (s_sid s) | _ => None end;
                                  cr_cobj := cp_offer cp; cr_open := true; cr_ks := false; cr_kc := false |};
                     d_log := log0 v (Some h) (Some o) (ODone true true) (Some s) (Some (c_sess c)) used;
                     d_issue := None; d_bump := 4 |}
            | None => abort (Some st1) (OAbortC unexpected_message)
            end
          else abort (Some st1) (OAbortC unexpected_message)
      | SFull =>
          if o_fsuite cp =? 0 then abort (Some st1) (OAbortS (o_falert cp)) else
          let sid := if sv_usecache cfg then fresh + 1 else 0 in
          if client_resume_branch used h sid then
            (* the client takes the ServerHello for a resumption *)
            match used with
            | Some c => if negb (o_fsuite cp =? s_suite (c_sess c)) then abort (Some st1) (OAbortC illegal_parameter)
                        else abort (Some st1) (OAbortC unexpected_message)
            | None => abort (Some st1) (OAbortC unexpected_message)
            end
          else
            let ems := sv_ems cfg && h_ems h in
            let etm := sv_etm cfg && h_etm h && o_fcbc cp in
            let ccert := if sv_reqcert cfg then cp_ccert cp else 0 in
            let ms := fresh + 2 in
            let view := {| s_sid := sid; s_ms := ms; s_ver := v; s_suite := o_fsuite cp; s_hash := o_fhash cp;
                           s_ems := ems; s_etm := etm; s_sni := h_sni h; s_srp := h_srp h; s_ccert := ccert;
                           s_origin := ci |} in
            let issue := (match h_ticket h with None => true | Some _ => false end)
                         && (0 <? sv_count cfg) && nonempty (sv_keys cfg) in
            let key := hd 0 (sv_keys cfg) in
            let pl := {| p_ms := ms; p_ver := v; p_suite := o_fsuite cp; p_hash := o_fhash cp;
                         p_created := created now; p_ccert := ccert; p_etm := etm; p_ems := ems;
                         p_sni := h_sni h; p_srp := h_srp h; p_origin := ci |} in
            let tks := if issue then mk_tickets 1 key (fresh + 3) pl (sv_life cfg) now else [] in
            let cview := {| s_sid := sid; s_ms := ms; s_ver := v; s_suite := o_fsuite cp; s_hash := o_fhash cp;
                            s_ems := ems; s_etm := etm; s_sni := cp_sni cp; s_srp := cp_srp cp;
                            s_ccert := cp_ccert cp; s_origin := ci |} in
            let newc := {| c_sess := cview; c_res := true; c_t10 := tks; c_t13 := []; c_rms := 0 |} in
            let st2 := if sv_usecache cfg then cache_put cfg now view st1 else st1 in
            if nz (cp_half cp) then
              (* suspended before the server has seen the client's Finished: NOTHING of this handshake is
                 resumable -- no cache entry, no ticket.  The (deviating) client already knows the session ID
                 and the master secret; that knowledge is the new client object. *)
              {| d_store := Some st1; d_used := used;
                 d_newc := Some {| c_sess := cview; c_res := true; c_t10 := []; c_t13 := []; c_rms := 0 |};
                 d_conn := {| cr_srv := cp_srv cp; cr_sobj := None; cr_cobj := None; cr_open := true;
                              cr_ks := false; cr_kc := false |};
                 d_log := log0 v (Some h) None OSuspended None None None; d_issue := None; d_bump := 4 |}
            else
            {| d_store := Some st2; d_used := used; d_newc := Some newc;
               d_conn := {| cr_srv := cp_srv cp;
                            cr_sobj := if sv_usecache cfg then Some sid else None;
                            cr_cobj := Some cidx; cr_open := true; cr_ks := false; cr_kc := false |};
               d_log := log0 v (Some h) None (ODone false false) (Some view) (Some cview) (Some newc);
               d_issue := if issue then Some (key, pl) else None; d_bump := 4 |}
      end
  end.

Definition conn_step (w : world) (cp : cparams) : world :=
  match zget (w_servers w) (cp_srv cp) with
  | None => w
  | Some sv => apply_delta w cp (conn_delta w cp sv)
  end.

(* ---- the other events ----------------------------------------------------------- *)
Inductive event :=
| EConn (cp : cparams)
| EClose (c : Z) (kind : Z)    (* 0 clean; 1 fatal alert (both ends); 2 abrupt, noticed by the server
                                  only; 3 abrupt, noticed by the client only *)
| ETick (dt : Z)
| ECfg (srv : Z) (cfg : scfg)  (* new settings / ticket keys / cache parameters; the cache object stays *)
| ETamper (ci : Z) (which : Z) (bit : Z)  (* flip a bit of the first ticket (0: <=1.2, 1: 1.3) of client object ci *)
| EForge (ci : Z) (which : Z) (n : Z)     (* replace it by bytes made without a key *)
| EDevKeep (ci : Z)            (* deviating client: treats its tickets as just received *)
| EDevRevive (ci : Z)          (* deviating client: ignores the invalidation *)
| EDevSni (ci : Z) (sni : Z)   (* deviating client: offers the session under another server name *)
| EDevRms (ci : Z).            (* deviating client: makes the PSK binder with another secret (garbage binder) *)

Definition map_first {A} (f : A -> A) (l : list A) : list A :=
  match l with [] => [] | x :: r => f x :: r end.
Definition tk_map (f : blob -> blob) (t : tkt) : tkt :=
  {| tk_blob := f (tk_blob t); tk_life := tk_life t; tk_recv := tk_recv t |}.
Definition tk_keep (now : Z) (t : tkt) : tkt :=
  {| tk_blob := tk_blob t; tk_life := tk_life t; tk_recv := now |}.

Definition with_clients (w : world) (cls : list cobj) : world :=
  mk_world (w_now w) (w_fresh w) (w_servers w) cls (w_conns w) (w_log w) (w_issued w).

Definition on_client (w : world) (ci : Z) (f : cobj -> cobj) : world :=
  match zget (w_clients w) ci with
  | Some c => with_clients w (zset (w_clients w) ci (f c))
  | None => w
  end.

Definition close_step (w : world) (c kind : Z) : world :=
  match zget (w_conns w) c with
  | None => w
  | Some cr =>
      if negb (cr_open cr) then w else
      let inval_s := (kind =? 1) || (kind =? 2) in
      let inval_c := (kind =? 1) || (kind =? 3) in
      let svs := match cr_sobj cr, zget (w_servers w) (cr_srv cr) with
                 | Some sid, Some sv =>
                     if inval_s then zset (w_servers w) (cr_srv cr)
                                          (set_store sv (cache_invalidate sid (sv_store sv)))
                     else w_servers w
                 | _, _ => w_servers w end in
      let cls := match cr_cobj cr, inval_c with
                 | Some i, true => match zget (w_clients w) i with
                                   | Some co => zset (w_clients w) i (set_res co false)
                                   | None => w_clients w end
                 | _, _ => w_clients w end in
      mk_world (w_now w) (w_fresh w) svs cls
               (zset (w_conns w) c {| cr_srv := cr_srv cr; cr_sobj := cr_sobj cr; cr_cobj := cr_cobj cr;
                                      cr_open := false; cr_ks := inval_s; cr_kc := inval_c |})
               (w_log w) (w_issued w)
  end.

Definition step (w : world) (e : event) : world :=
  match e with
  | EConn cp => conn_step w cp
  | EClose c k => close_step w c k
  | ETick dt => mk_world (w_now w + Z.max 0 dt) (w_fresh w) (w_servers w) (w_clients w) (w_conns w)
                         (w_log w) (w_issued w)
  | ECfg i cfg => match zget (w_servers w) i with
                  | Some sv => mk_world (w_now w) (w_fresh w)
                                        (zset (w_servers w) i {| sv_cfg := cfg; sv_store := sv_store sv |})
                                        (w_clients w) (w_conns w) (w_log w) (w_issued w)
                  | None => w end
  | ETamper ci which bit =>
      on_client w ci (fun c => if which =? 0 then set_t10 c (map_first (tk_map (fun b => tamper b bit)) (c_t10 c))
                               else set_t13 c (map_first (tk_map (fun b => tamper b bit)) (c_t13 c)))
  | EForge ci which n =>
      on_client w ci (fun c => if which =? 0 then set_t10 c (map_first (tk_map (fun _ => junk n)) (c_t10 c))
                               else set_t13 c (map_first (tk_map (fun _ => junk n)) (c_t13 c)))
  | EDevKeep ci =>
      on_client w ci (fun c => set_t13 (set_t10 c (map (tk_keep (w_now w)) (c_t10 c)))
                                       (map (tk_keep (w_now w)) (c_t13 c)))
  | EDevRevive ci => on_client w ci (fun c => set_res c true)
  | EDevSni ci x => on_client w ci (fun c => set_csess c (sess_with_sni (c_sess c) x))
  | EDevRms ci => on_client w ci (fun c => set_rms c (c_rms c + 1000000007))
  end.

Definition run (h : list event) (w : world) : world := fold_left step h w.

Definition init_world (cfgs : list scfg) : world :=
  mk_world 0 1 (map (fun c => {| sv_cfg := c; sv_store := [] |}) cfgs) [] [] [] [].

End AEAD.

(* ---- symbolic AEAD instance (Dolev-Yao): the only openable blobs are seals ------- *)
Inductive sblob :=
| Sealed (k nonce : Z) (p : payload)
| Tampered (b : sblob) (bit : Z)
| Junk (n : Z).

Definition sopen (k : Z) (b : sblob) : option payload :=
  match b with
  | Sealed k' _ p => if k =? k' then Some p else None
  | _ => None
  end.

Definition srun (cfgs : list scfg) (h : list event) : world sblob :=
  run sblob Sealed sopen Tampered Junk h (init_world sblob cfgs).

(* ---- what the correspondence compares, per connection --------------------------- *)
Arguments tk_blob {blob}.
Arguments tk_life {blob}.
Arguments tk_recv {blob}.
Arguments c_sess {blob}.
Arguments c_res {blob}.
Arguments c_t10 {blob}.
Arguments c_t13 {blob}.
Arguments c_rms {blob}.
Arguments h_maxv {blob}.
Arguments h_sid {blob}.
Arguments h_suites {blob}.
Arguments h_ems {blob}.
Arguments h_etm {blob}.
Arguments h_sni {blob}.
Arguments h_srp {blob}.
Arguments h_ticket {blob}.
Arguments h_psk {blob}.
Arguments r_srv {blob}.
Arguments r_ver {blob}.
Arguments r_now {blob}.
Arguments r_cfg {blob}.
Arguments r_hello {blob}.
Arguments r_acc {blob}.
Arguments r_src {blob}.
Arguments r_out {blob}.
Arguments r_sview {blob}.
Arguments r_cview {blob}.
Arguments r_offer {blob}.
Arguments r_offer_valid {blob}.
Arguments r_newc {blob}.
Arguments w_now {blob}.
Arguments w_fresh {blob}.
Arguments w_servers {blob}.
Arguments w_clients {blob}.
Arguments w_conns {blob}.
Arguments w_log {blob}.
Arguments w_issued {blob}.
Definition b2z (b : bool) : Z := if b then 1 else 0.

Definition view_obs (s : option sess) : list Z :=
  match s with
  | Some s => [s_suite s; b2z (s_ems s); b2z (s_etm s); s_sni s; s_ccert s; b2z (nz (s_sid s)); s_srp s]
  | None => [0; 0; 0; 0; 0; 0; 0]
  end.

Definition observe {blob} (r : cres blob) : list Z :=
  match r_out r with
  | ODone sr cr =>
      [0; 0; r_ver r; b2z sr; b2z cr] ++ view_obs (r_sview r)
      ++ match r_cview r with
         | Some s => [s_suite s; b2z (s_ems s); b2z (s_etm s); b2z (nz (s_sid s))]
         | None => [0; 0; 0; 0] end
      ++ [fst (r_newc r); snd (r_newc r)]
  | OAbortS a => [1; a]
  | OAbortC a => [2; a]
  | OClientErr => [3; 0]
  | OSuspended => [4; 0]
  end.

Fixpoint obs_eqb (a b : list (list Z)) : bool :=
  match a, b with
  | [], [] => true
  | x :: a', y :: b' => list_eqb x y && obs_eqb a' b'
  | _, _ => false
  end.

Definition sobserve (cfgs : list scfg) (h : list event) : list (list Z) :=
  map observe (w_log (srun cfgs h)).

Definition chk_hist (c : list scfg * list event * list (list Z)) : bool :=
  let '(cfgs, h, expected) := c in obs_eqb (sobserve cfgs h) expected.
