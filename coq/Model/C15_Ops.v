(* C15 -- executable helpers for the correspondence runs (definitions only):
   an interpreter for scripts of Writer / Parser calls, and the boolean checks that
   the case files evaluate with vm_compute. *)
From Coq Require Import ZArith List Bool.
From TV Require Import Base.Prelude Model.C15_Codec Model.C15_Fmt Model.C15_Messages.
Import ListNotations.
Open Scope Z_scope.

(* ---- Writer scripts ---------------------------------------------------------- *)
Inductive wop :=
| WAdd (x n : Z) | WOne (x : Z) | WTwo (x : Z) | WThree (x : Z) | WFour (x : Z)
| WFixSeq (s : list Z) (n : Z) | WVarSeq (s : list Z) (n ll : Z)
| WVarTupleSeq (s : list (list Z)) (n ll : Z) | WVarBytes (d : list Z) (ll : Z).

Definition run_wop (w : Writer) (o : wop) : res Writer :=
  match o with
  | WAdd x n => w_add w x n
  | WOne x => w_addOne w x | WTwo x => w_addTwo w x | WThree x => w_addThree w x | WFour x => w_addFour w x
  | WFixSeq s n => w_addFixSeq w s n
  | WVarSeq s n ll => w_addVarSeq w s n ll
  | WVarTupleSeq s n ll => w_addVarTupleSeq w s n ll
  | WVarBytes d ll => w_add_var_bytes w d ll
  end.

(* expected: Some bytes | None + exception code *)
Definition chk_wops (c : list wop * option (list Z) * Z) : bool :=
  let '(ops, impl, code) := c in
  res_matches list_eqb (foldM run_wop ops []) impl code.

(* ---- Parser scripts ---------------------------------------------------------- *)
Inductive pop :=
| OGet (n : Z) | OFix (n : Z) | OVar (ll : Z) | OFixList (n c : Z) | OVarList (n ll : Z)
| OVarTup (n k ll : Z) | OStart (ll : Z) | OSet (n : Z) | OStop | OAt | ORemain | OSkip (n : Z).

(* each call's observable result as a list of integers *)
Definition run_pop (p : Parser) (o : pop) : res (list Z * Parser) :=
  match o with
  | OGet n => '(x, p1) <- p_get p n ;; Ok ([x], p1)
  | OFix n => p_getFixBytes p n
  | OVar ll => p_getVarBytes p ll
  | OFixList n c => p_getFixList p n c
  | OVarList n ll => p_getVarList p n ll
  | OVarTup n k ll => '(l, p1) <- p_getVarTupleList p n k ll ;; Ok (zlen l :: concat l, p1)
  | OStart ll => p1 <- p_startLengthCheck p ll ;; Ok ([], p1)
  | OSet n => Ok ([], p_setLengthCheck p n)
  | OStop => _ <- p_stopLengthCheck p ;; Ok ([], p)
  | OAt => b <- p_atLengthCheck p ;; Ok ([if b then 1 else 0], p)
  | ORemain => Ok ([p_getRemainingLength p], p)
  | OSkip n => p1 <- p_skip_bytes p n ;; Ok ([], p1)
  end.

(* trace of results up to the first exception; its code (0 = none); final index *)
Fixpoint run_pops (p : Parser) (ops : list pop) : list (list Z) * Z * Z :=
  match ops with
  | [] => ([], 0, pindex p)
  | o :: tl =>
    match run_pop p o with
    | Ok (r, p1) => let '(t, c, i) := run_pops p1 tl in (r :: t, c, i)
    | Err e => ([], exn_code e, pindex p)
    end
  end.

Fixpoint lists_eqb (a b : list (list Z)) : bool :=
  match a, b with
  | [], [] => true
  | x :: xs, y :: ys => list_eqb x y && lists_eqb xs ys
  | _, _ => false
  end.

Definition chk_pops (c : list Z * list pop * list (list Z) * Z * Z) : bool :=
  let '(bs, ops, trace, code, idx) := c in
  let '(t, c', i) := run_pops (p_init bs) ops in
  (* the index after an exception is not observable (callers let it propagate) *)
  lists_eqb t trace && (c' =? code) && ((negb (code =? 0)) || (i =? idx)).

(* ---- format cases --------------------------------------------------------------- *)
(* encode f v = the bytes the class wrote *)
Definition chk_enc (c : fmt * val * list Z) : bool :=
  let '(f, v, bs) := c in
  match encode f v with Ok b => list_eqb b bs | Err _ => false end.

(* a value with a field that does not fit is refused *)
Definition chk_noenc (c : fmt * val) : bool :=
  let '(f, v) := c in negb (is_ok (encode f v)).

(* decode f bs against an expected verdict: None = reject (DecodeError),
   Some (v, n) = accept value v leaving n bytes.  [whole]: the class additionally
   requires the buffer to be consumed entirely. *)
Definition chk_dec (c : fmt * bool * list Z * option (val * Z)) : bool :=
  let '(f, whole, bs, exp) := c in
  match decode f bs with
  | Ok (v, r) =>
    if whole && negb (is_nil r) then match exp with None => true | Some _ => false end
    else match exp with Some (v', n) => val_eqb v v' && (zlen r =? n) | None => false end
  | Err DecodeError => match exp with None => true | Some _ => false end
  | Err _ => false
  end.

(* RecordHeader2 through its API view: create(len,pad,esc).write() = Some bytes / None (refused) *)
Definition chk_rh2 (c : Z * Z * bool * option (list Z)) : bool :=
  let '(len, pad, esc, impl) := c in
  match rh2_val len pad esc, impl with
  | Some v, Some bs =>
      match encode fmt_RecordHeader2 v with Ok b => list_eqb b bs | Err _ => false end
      && match rh2_fields v with
         | Some (l, p, e) => (l =? len) && (p =? pad) && Bool.eqb e esc
         | None => false end
  | None, None => true
  | _, _ => false
  end.
