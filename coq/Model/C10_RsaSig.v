(* C10: byte-level model of tlslite/utils/rsakey.py signature code:
     _addPKCS1Padding (type 1), addPKCS1Prefix, addPKCS1SHA1Prefix, _raw_pkcs1_sign,
     _raw_pkcs1_verify, sign, verify, MGF1, EMSA_PSS_encode, EMSA_PSS_verify,
     RSASSA_PSS_sign, RSASSA_PSS_verify, _raw_private_key_op_bytes, _raw_public_key_op_bytes
   and of cryptomath numBits/numBytes/bytesToNumber/numberToByteArray/divceil.
   Hand-written (methods of a class, string-keyed tables, generator expressions are outside
   the PyLite subset); the DigestInfo prefixes come from Gen/C10_Tables.v, regenerated from
   /repo on every run, and the model is evaluated against the implementation on every run.
   The hash is an oracle `hash : list Z -> list Z` (H-hash), the random salt an input.
   Definitions only. *)
From Coq Require Import ZArith List Bool String.
From TV Require Import Base.Prelude Gen.C10_Tables Model.C10_RsaMath.
Import ListNotations.
Open Scope Z_scope.

(* ---- exceptions of tlslite.errors used here -------------------------------- *)
Definition InvalidSignature : exn := OtherExn 20.
Definition EncodingError : exn := OtherExn 21.
Definition MessageTooLongError : exn := OtherExn 22.
Definition MaskTooLongError : exn := OtherExn 23.
Definition UnknownRSAType : exn := OtherExn 24.

(* ---- cryptomath ------------------------------------------------------------- *)
Definition numBits (n : Z) : Z := if n <=? 0 then 0 else Z.log2 n + 1.   (* int.bit_length, n >= 0 *)
Definition numBytes (n : Z) : Z := (numBits n + 7) / 8.
Definition divceil (a b : Z) : Z := a / b + (if a mod b =? 0 then 0 else 1).

Definition bytesToNumber (l : list Z) : Z := fold_left (fun a b => a * 256 + b) l 0.

(* k big-endian bytes of x mod 256^k (numberToByteArray truncates to the low bytes) *)
Fixpoint int_to_bytes (k : nat) (x : Z) : list Z :=
  match k with
  | O => []
  | S k' => int_to_bytes k' (x / 256) ++ [x mod 256]
  end.
Definition numberToByteArray (x k : Z) : list Z := int_to_bytes (Z.to_nat k) x.
(* numberToByteArray(x) without a length: minimal encoding, one byte for 0 *)
Definition numberToByteArray_min (x : Z) : list Z :=
  int_to_bytes (Z.to_nat (if x =? 0 then 1 else numBytes x)) x.

Definition zeros (k : Z) : list Z := repeat 0 (Z.to_nat k).
Definition xor_bytes (a b : list Z) : list Z :=
  map (fun p => Z.lxor (fst p) (snd p)) (combine a b).       (* zip truncates *)
Definition and_first (l : list Z) (mask : Z) : res (list Z) :=
  match l with [] => Err IndexError | x :: t => Ok (Z.land x mask :: t) end.

(* ---- raw operations on byte strings (rsakey.py:573-591) ---------------------- *)
Definition raw_public_key_op_bytes (n e : Z) (c : list Z) : res (list Z) :=
  if negb (zlen c =? numBytes n) then Err ValueError else
  let ci := bytesToNumber c in
  if ci >=? n then Err ValueError else
  Ok (numberToByteArray (raw_public_op n e ci) (numBytes n)).

(* the private operation is a parameter: the theorems instantiate it with the blinded CRT
   computation, the fault-injection argument with an arbitrary function *)
Definition raw_private_key_op_bytes (n : Z) (priv : Z -> Z) (m : list Z) : res (list Z) :=
  if negb (zlen m =? numBytes n) then Err ValueError else
  let mi := bytesToNumber m in
  if mi >=? n then Err ValueError else
  Ok (numberToByteArray (priv mi) (numBytes n)).

(* ---- PKCS#1 v1.5 (rsakey.py:291-296, 334-341, 623-687) ---------------------- *)
(* [0xFF] * padLength is [] for a negative padLength, exactly like Z.to_nat *)
Definition addPKCS1Padding_sig (n : Z) (data : list Z) : list Z :=
  let padLength := numBytes n - (zlen data + 3) in
  [0; 1] ++ repeat 255 (Z.to_nat padLength) ++ [0] ++ data.

Fixpoint lookup_prefix (t : list (string * list Z)) (name : string) : option (list Z) :=
  match t with
  | [] => None
  | (k, v) :: t' => if String.eqb k name then Some v else lookup_prefix t' name
  end.

Definition addPKCS1Prefix (data : list Z) (hashName : string) : res (list Z) :=
  match lookup_prefix pkcs1_prefixes hashName with
  | Some p => Ok (p ++ data)
  | None => Err AssertionError
  end.

Definition addPKCS1SHA1Prefix (data : list Z) (withNULL : bool) : res (list Z) :=
  if withNULL then
    match lookup_prefix pkcs1_prefixes "sha1" with
    | Some p => Ok (p ++ data) | None => Err KeyError end
  else Ok (sha1_prefix_no_null ++ data).

(* since /repo 693c302 both refuse when the padding string would have fewer than 8 bytes
   (RFC 8017 9.2 step 3) *)
Definition raw_pkcs1_sign (n : Z) (priv : Z -> Z) (data : list Z) : res (list Z) :=
  if numBytes n <? zlen data + 11 then Err ValueError else
  raw_private_key_op_bytes n priv (addPKCS1Padding_sig n data).

Definition raw_pkcs1_verify (n e : Z) (sig data : list Z) : bool :=
  match raw_public_key_op_bytes n e sig with
  | Err _ => false                              (* except ValueError: return False *)
  | Ok check => if numBytes n <? zlen data + 11 then false
                else list_eqb check (addPKCS1Padding_sig n data)
  end.

Inductive padding := PadPkcs1 | PadPss | PadOther.

Section WithHash.
  Variable hash : list Z -> list Z.     (* secureHash(., hAlg) for the hAlg in use *)
  Variable hLen : Z.                    (* getattr(hashlib, hAlg)().digest_size *)

  (* rsakey.py:132-154 *)
  Definition MGF1 (seed : list Z) (maskLen : Z) : res (list Z) :=
    if maskLen >? 2 ^ 32 * hLen then Err MaskTooLongError else
    let T := fold_left (fun T x => T ++ hash (seed ++ numberToByteArray x 4))
                       (zrange 0 (divceil maskLen hLen)) [] in
    Ok (py_slice T None (Some maskLen)).

  (* rsakey.py:156-188, with the random salt as an argument (sLen = zlen salt) *)
  Definition EMSA_PSS_encode (mHash : list Z) (emBits : Z) (salt : list Z) : res (list Z) :=
    let sLen := zlen salt in
    let emLen := divceil emBits 8 in
    if emLen <? hLen + sLen + 2 then Err EncodingError else
    let H := hash (zeros 8 ++ mHash ++ salt) in
    let PS := zeros (emLen - sLen - hLen - 2) in
    let DB := PS ++ [1] ++ salt in
    dbMask <- MGF1 H (emLen - hLen - 1) ;;
    let maskedDB := xor_bytes DB dbMask in
    let mLen := emLen * 8 - emBits in
    let mask := Z.shiftl 1 (8 - mLen) - 1 in
    maskedDB' <- and_first maskedDB mask ;;
    Ok (maskedDB' ++ H ++ [188]).

  (* rsakey.py:190-208 *)
  Definition RSASSA_PSS_sign (n : Z) (priv : Z -> Z) (mHash salt : list Z) : res (list Z) :=
    EM <- EMSA_PSS_encode mHash (numBits n - 1) salt ;;
    (* since /repo cc7bf57: left-pad to the modulus length (emLen = k-1 when modBits = 1 mod 8) *)
    let EM := zeros (Z.max (numBytes n - zlen EM) 0) ++ EM in
    match raw_private_key_op_bytes n priv EM with
    | Err ValueError => Err MessageTooLongError
    | r => r
    end.

  (* rsakey.py:210-261; InvalidSignature is Err InvalidSignature *)
  Definition EMSA_PSS_verify (mHash EM : list Z) (emBits sLen : Z) : res bool :=
    let emLen := divceil emBits 8 in
    if emLen <? hLen + sLen + 2 then Err InvalidSignature else
    last <- py_index EM (-1) ;;
    if negb (last =? 188) then Err InvalidSignature else
    let maskedDB := py_slice EM (Some 0) (Some (emLen - hLen - 1)) in
    let H := py_slice EM (Some (emLen - hLen - 1)) (Some (emLen - hLen - 1 + hLen)) in
    let DBHelpMask := Z.land (Z.lnot (Z.shiftl 1 (8 - (8 * emLen - emBits)) - 1)) 255 in
    m0 <- py_index maskedDB 0 ;;
    if negb (Z.land m0 DBHelpMask =? 0) then Err InvalidSignature else
    dbMask <- MGF1 H (emLen - hLen - 1) ;;
    let DB := xor_bytes maskedDB dbMask in
    let mLen := emLen * 8 - emBits in
    let mask := Z.shiftl 1 (8 - mLen) - 1 in
    DB <- and_first DB mask ;;
    if existsb (fun x => negb (x =? 0)) (py_slice DB (Some 0) (Some (emLen - hLen - sLen - 2)))
    then Err InvalidSignature else
    sep <- py_index DB (emLen - hLen - sLen - 2) ;;
    if negb (sep =? 1) then Err InvalidSignature else
    let salt := if negb (sLen =? 0) then py_slice DB (Some (- sLen)) None else [] in
    let newH := hash (zeros 8 ++ mHash ++ salt) in
    if list_eqb H newH then Ok true else Err InvalidSignature.

  (* rsakey.py:263-289 *)
  Definition RSASSA_PSS_verify (n e : Z) (mHash S : list Z) (sLen : Z) : res bool :=
    match raw_public_key_op_bytes n e S with
    | Err ValueError => Err InvalidSignature
    | Err x => Err x
    | Ok EM =>
        (* since /repo cc7bf57: the bytes in front of the last emLen ones must be zero *)
        let emLen := divceil (numBits n - 1) 8 in
        if existsb (fun x => negb (x =? 0)) (py_slice EM None (Some (zlen EM - emLen)))
        then Err InvalidSignature else
        let EM := py_slice EM (Some (zlen EM - emLen)) None in
        r <- EMSA_PSS_verify mHash EM (numBits n - 1) sLen ;;
        if r then Ok true else Err InvalidSignature
    end.

  (* rsakey.py:298-332.  hashAlg = None is the TLS <= 1.1 raw MD5+SHA1 case. *)
  Definition rsa_sign (n : Z) (priv : Z -> Z) (data : list Z) (pad : padding)
             (hashAlg : option string) (salt : list Z) : res (list Z) :=
    match pad with
    | PadPkcs1 =>
        data' <- match hashAlg with
                 | Some h => addPKCS1Prefix data h
                 | None => Ok data end ;;
        raw_pkcs1_sign n priv data'
    | PadPss => RSASSA_PSS_sign n priv data salt
    | PadOther => Err UnknownRSAType
    end.

  (* rsakey.py:343-379.  key_is_pss: self.key_type == "rsa-pss" *)
  Definition rsa_verify (key_is_pss : bool) (n e : Z) (sig data : list Z) (pad : padding)
             (hashAlg : option string) (sLen : Z) : res bool :=
    match pad with
    | PadPkcs1 =>
        if key_is_pss then Ok false else
        match hashAlg with
        | Some h =>
            if String.eqb h "sha1" then
              p1 <- addPKCS1SHA1Prefix data false ;;
              p2 <- addPKCS1SHA1Prefix data true ;;
              Ok (raw_pkcs1_verify n e sig p1 || raw_pkcs1_verify n e sig p2)
            else
              d <- addPKCS1Prefix data h ;;
              Ok (raw_pkcs1_verify n e sig d)
        | None => Ok (raw_pkcs1_verify n e sig data)
        end
    | PadPss =>
        match RSASSA_PSS_verify n e data sig sLen with
        | Ok r => Ok r
        | Err (OtherExn 20) => Ok false              (* except InvalidSignature *)
        | Err x => Err x
        end
    | PadOther => Err UnknownRSAType
    end.
End WithHash.

(* ---- direct specification of EMSA-PKCS1-v1_5 (RFC 8017 9.2), independent of the code -- *)
(* EM = 0x00 || 0x01 || PS || 0x00 || T with PS = 0xFF * (k - |T| - 3); the RFC additionally
   requires |PS| >= 8 ("intended encoded message length too short" otherwise). *)
Definition canonical_em (k : Z) (T : list Z) : list Z :=
  [0; 1] ++ repeat 255 (Z.to_nat (k - zlen T - 3)) ++ [0] ++ T.
Definition rfc8017_em (k : Z) (T : list Z) : option (list Z) :=
  if k <? zlen T + 11 then None else Some (canonical_em k T).

(* ---- dispatch on the scheme NAME (strings), as the public entry points do --------------------
   rsakey.py: verify() compares `padding` with "pkcs1"/"pss" exactly, WITHOUT normalising it;
   the rsa-pss guard is its first statement.  hashAndVerify()/hashAndSign() lower-case rsaScheme
   and hAlg first and then call verify()/sign(); sign() lower-cases `padding` itself.  So the
   normalisation always happens BEFORE the key_type guard.  (ASCII lower-casing.) *)
From Coq Require Import Ascii.
Definition lower_ascii (c : ascii) : ascii :=
  let n := nat_of_ascii c in
  if (Nat.leb 65 n && Nat.leb n 90)%bool then ascii_of_nat (n + 32) else c.
Fixpoint lower (s : string) : string :=
  match s with EmptyString => EmptyString | String c t => String (lower_ascii c) (lower t) end.

Definition pad_of_name (name : string) : padding :=
  if String.eqb name "pkcs1" then PadPkcs1 else if String.eqb name "pss" then PadPss else PadOther.

Section NamedEntryPoints.
  Variable hash : list Z -> list Z.     (* secureHash(., hAlg): message hash and PSS hash *)
  Variable hLen : Z.

  (* RSAKey.verify(sigBytes, bytes, padding, hashAlg, saltLen) *)
  Definition rsa_verify_named (key_is_pss : bool) (n e : Z) (sig data : list Z) (padname : string)
             (hashAlg : option string) (sLen : Z) : res bool :=
    rsa_verify hash hLen key_is_pss n e sig data (pad_of_name padname) hashAlg sLen.

  (* RSAKey.hashAndVerify(sigBytes, bytes, rsaScheme='PKCS1', hAlg='sha1', sLen=0) *)
  Definition rsa_hashAndVerify (key_is_pss : bool) (n e : Z) (sig msg : list Z) (rsaScheme hAlg : string)
             (sLen : Z) : res bool :=
    rsa_verify_named key_is_pss n e sig (hash msg) (lower rsaScheme) (Some (lower hAlg)) sLen.

  (* signed.py SignedObject.verify_signature: hashAndVerify(sig[offset:], tbs, hAlg=alg) with the
     DEFAULT rsaScheme 'PKCS1'; one leading zero byte of an over-long signature is dropped
     (documented interoperability workaround); not verified -> ValueError, modelled as Ok false *)
  Definition signed_object_verify (key_is_pss : bool) (n e : Z) (sig tbs : list Z) (alg : string) : res bool :=
    let sig' := match sig with
                | 0 :: rest => if numBytes n + 1 =? zlen sig then rest else sig
                | _ => sig
                end in
    rsa_hashAndVerify key_is_pss n e sig' tbs "PKCS1" alg 0.

  (* RSAKey.sign / hashAndSign *)
  Definition rsa_sign_named (n : Z) (priv : Z -> Z) (data : list Z) (padname : string)
             (hashAlg : option string) (salt : list Z) : res (list Z) :=
    rsa_sign hash hLen n priv data (pad_of_name (lower padname)) hashAlg salt.
  Definition rsa_hashAndSign (n : Z) (priv : Z -> Z) (msg : list Z) (rsaScheme hAlg : string)
             (salt : list Z) : res (list Z) :=
    rsa_sign_named n priv (hash msg) (lower rsaScheme) (Some (lower hAlg)) salt.
End NamedEntryPoints.
