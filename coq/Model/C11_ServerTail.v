(* C11 -- hand-written model (definitions only) of what a tlslite-ng server does from the
   moment it has read ClientKeyExchange in an RSA key exchange (tlsconnection.py
   _serverCertKeyExchange tail, _serverFinished, _getFinished), with the cryptography
   abstracted as functions.  The only place where the encrypted premaster secret is
   *decrypted* is the generated processClientKeyExchange; everything after it sees the
   premaster secret that function settled on, and the public transcript.
   Tie: correspondence by live handshakes (harness/c11_live.py). *)
From Coq Require Import ZArith List Bool.
From TV Require Import Base.Prelude Base.C11_Lib Gen.C11_RsaKex.
Import ListNotations.
Open Scope Z_scope.

(* what the server puts on the wire / how it ends *)
Inductive event :=
| SendAlert (level desc : Z)          (* one alert record, then the connection is closed *)
| SendCCS
| SendFinished (verify_data : list Z)
| Established
| Crash (e : exn)                      (* an uncaught Python exception: never a legal outcome *)
| WaitForMore.                         (* ran out of client input *)

Definition bad_record_mac : Z := 20.
Definition decrypt_error : Z := 51.
Definition unexpected_message : Z := 10.

(* a record as the server reads it after ClientKeyExchange *)
Inductive crecord :=
| RecCCS                               (* ChangeCipherSpec, in the clear *)
| RecProtected (body : list Z)         (* anything protected under the client's pending keys *)
| RecOther (content_type : Z).         (* any other cleartext record *)

Section Tail.
(* the key's decryption function and the server's random source *)
Variable decrypt_fn : list Z -> option (list Z).
Variable rnd : Z -> list Z.
(* abstract cryptography: master secret from premaster + transcript; record unprotection
   under the keys derived from the master secret; Finished verify_data *)
Variable master_of : list Z -> list Z -> list Z.
Variable unprotect : list Z -> list Z -> option (list Z).
Variable verify_data : list Z -> list Z -> list Z -> list Z.   (* master, transcript, label *)
Variable finished_body : list Z -> list Z.                      (* Finished message -> its verify_data *)

Definition label_client : list Z := [99].
Definition label_server : list Z := [115].

(* after the premaster secret is fixed: _serverFinished *)
Definition tail (pm transcript : list Z) (later : list crecord) : list event :=
  let ms := master_of pm transcript in
  match later with
  | [] => [WaitForMore]
  | RecCCS :: later' =>
      match later' with
      | [] => [WaitForMore]
      | RecProtected body :: _ =>
          match unprotect ms body with
          | None => [SendAlert 2 bad_record_mac]
          | Some plain =>
              if list_eqb (finished_body plain) (verify_data ms transcript label_client)
              then [SendCCS; SendFinished (verify_data ms (transcript ++ plain) label_server); Established]
              else [SendAlert 2 decrypt_error]
          end
      | _ :: _ => [SendAlert 2 unexpected_message]
      end
  | _ :: _ => [SendAlert 2 unexpected_message]
  end.

(* from ClientKeyExchange on: transcript_before is everything hashed before CKE, cke_bytes
   the serialised ClientKeyExchange (public), epms the encrypted premaster it carries *)
Definition server_after_cke (cv sv : Z * Z) (transcript_before cke_bytes epms : list Z)
           (later : list crecord) : list event :=
  match processClientKeyExchange decrypt_fn rnd cv sv epms with
  | Ok (Some pm) => tail pm (transcript_before ++ cke_bytes) later
  | Ok None => [Crash TypeError]
  | Err e => [Crash e]
  end.
End Tail.

(* ---- the direct reading of "what premaster secret does the server use" ------------- *)
Definition version_of (pm : list Z) : Z * Z := (nthZ pm 0, nthZ pm 1).

(* a decryption result is well-formed for the handshake iff it is 48 bytes long and starts
   with the client's offered version (or, tolerated, the negotiated version) *)
Definition wellformed_premaster (cv sv : Z * Z) (r : option (list Z)) : bool :=
  match r with
  | Some pm => (zlen pm =? 48) && (pairZ_eqb (version_of pm) cv || pairZ_eqb (version_of pm) sv)
  | None => false
  end.

Definition kex_spec (cv sv : Z * Z) (r : option (list Z)) (random48 : list Z) : list Z :=
  match r with
  | Some pm => if wellformed_premaster cv sv r then pm else random48
  | None => random48
  end.
