(* C17 -- decidable comparisons used by the correspondence evaluation (definitions only). *)
From Coq Require Import ZArith List Bool.
From TV Require Import Model.C17_Lifecycle Model.C17_Sessions.
Import ListNotations.
Open Scope Z_scope.

Fixpoint zlist_eqb (a b : list Z) : bool :=
  match a, b with
  | [], [] => true
  | x :: a', y :: b' => (x =? y) && zlist_eqb a' b'
  | _, _ => false
  end.

Definition exn_eqb (a b : exn) : bool :=
  match a, b with
  | XClosed, XClosed | XAbrupt, XAbrupt | XValue, XValue => true
  | XSock x, XSock y | XRemote x, XRemote y | XLocal x, XLocal y => x =? y
  | _, _ => false
  end.

Definition outcome_eqb (a b : outcome) : bool :=
  match a, b with
  | ORet x, ORet y => zlist_eqb x y
  | ODone, ODone | OBlocked, OBlocked | OHsDone, OHsDone | OStep, OStep | ONone, ONone => true
  | OExc x, OExc y => exn_eqb x y
  | _, _ => false
  end.

Fixpoint list_eqb {A} (eqb : A -> A -> bool) (a b : list A) : bool :=
  match a, b with
  | [], [] => true
  | x :: a', y :: b' => eqb x y && list_eqb eqb a' b'
  | _, _ => false
  end.

Definition witem_eqb (a b : witem) : bool :=
  match a, b with
  | WData x, WData y => zlist_eqb x y
  | WAlert l d, WAlert l' d' => (l =? l') && (d =? d')
  | WHs c, WHs c' => c =? c'
  | _, _ => false
  end.

Definition optbool_eqb (a b : option bool) : bool :=
  match a, b with
  | None, None => true
  | Some x, Some y => Bool.eqb x y
  | _, _ => false
  end.

(* outcomes of calls (steps that merely went through and no-ops are dropped) *)
Definition significant (o : outcome) : bool :=
  match o with OStep | ONone => false | _ => true end.

(* handshake-fault case: (initial state, events, expected significant outcomes,
   closed and session after the handshake call [= before the last two events], closed and
   session at the end) *)
Definition HsCase := (st * list event * list outcome * bool * option bool * bool * option bool * bool)%type.

Definition chk_hs (c : HsCase) : bool :=
  let '(s0, evs, want, closed_hs, sess_hs, closed_end, sess_end, sock_closed_end) := c in
  let n := (length evs - 2)%nat in
  let '(s1, o1) := run s0 (firstn n evs) in
  let '(s2, o2) := run s1 (skipn n evs) in
  list_eqb outcome_eqb (filter significant (o1 ++ o2)) want
  && Bool.eqb (closed s1) closed_hs && optbool_eqb (sess s1) sess_hs
  && Bool.eqb (closed s2) closed_end && optbool_eqb (sess s2) sess_end
  && Bool.eqb (negb (sock_open s2)) sock_closed_end.

(* data-phase script: (initial state, events, expected significant outcomes, closed, session,
   optional wire as decrypted by the peer, quiet-at-start flag) *)
Definition DataCase := (st * list event * list outcome * bool * option bool * option (list witem))%type.

Definition wire_tail (n : nat) (s : st) : list witem := skipn n (wire s).

Definition chk_data (c : DataCase) : bool :=
  let '(s0, evs, want, closed_end, sess_end, w) := c in
  let '(s1, os) := run s0 evs in
  list_eqb outcome_eqb (filter significant os) want
  && Bool.eqb (closed s1) closed_end && optbool_eqb (sess s1) sess_end
  && match w with
     | None => true
     | Some ws => list_eqb witem_eqb (filter (fun x => match x with WHs _ => false | _ => true end) (wire s1)) ws
     end.

(* the state a completed handshake leaves: open, refcount 1, session present *)
Definition established (ign_ csock_ tls13_ split_ : bool) (recsz_ : Z) (res : bool) : st :=
  mkst false false 1 (Some res) ign_ csock_ tls13_ split_ recsz_ true false [] [] [] RxOpen None [].

(* well-formedness of a script as the real handshake code produces it, checked on every case:
   nothing sits in the write queue when the handshake waits for input, and at the end the
   queue is empty and buffering is off *)
Fixpoint recv_unqueued (s : st) (evs : list event) : bool :=
  match evs with
  | [] => is_nil (wq s) && negb (bufw s)
  | ev :: t => (match ev with UHs HRecv => is_nil (wq s) | _ => true end)
               && recv_unqueued (fst (step s ev)) t
  end.

Definition chk_hs_wf (c : HsCase) : bool :=
  let '(s0, evs, _, _, _, _, _, _) := c in recv_unqueued s0 evs.

(* several connections sharing a session object: (initial world, events, significant outcomes of
   the connection events, closed flag of connection 1, its view of the session, connection 0's
   view of the session, whether object 0 can still be resumed -- None: not observable) *)
Definition WorldCase := (world * list wevent * list outcome * bool * option bool * option bool * option bool)%type.

Definition wsig (o : wout) : list outcome :=
  match o with WO x => if significant x then [x] else [] | _ => [] end.

Definition chk_world (c : WorldCase) : bool :=
  let '(w0, evs, want, cl1, v1, v0, lk) := c in
  let '(w1, os) := wrun w0 evs in
  list_eqb outcome_eqb (flat_map wsig os) want
  && Bool.eqb (conn_closed w1 1) cl1 && optbool_eqb (conn_view w1 1) v1 && optbool_eqb (conn_view w1 0) v0
  && match lk with None => true | Some b => Bool.eqb (flag w1 0) b end.
