(* C14 -- boolean comparison functions used by the correspondence evaluation
   (harness/props/C14.py evaluates them by vm_compute).  Definitions only. *)
From Coq Require Import ZArith List Bool.
From TV Require Import Base.Prelude Model.C14_Transport Model.C14_Buffered Model.C14_Defrag.
Import ListNotations.
Open Scope Z_scope.

Definition exc_eqb (a c : exc) : bool :=
  match a, c with
  | AbruptClose, AbruptClose => true
  | SockError x, SockError y => x =? y
  | RecordOverflow, RecordOverflow => true
  | IllegalParameter, IllegalParameter => true
  | ValueErr, ValueErr => true
  | _, _ => false
  end.

Definition outcome_eqb {A} (eqb : A -> A -> bool) (a c : outcome A) : bool :=
  match a, c with
  | Done x, Done y => eqb x y
  | Raised x, Raised y => exc_eqb x y
  | Pending, Pending => true
  | _, _ => false
  end.

Fixpoint lists_eqb {A} (eqb : A -> A -> bool) (a c : list A) : bool :=
  match a, c with
  | [], [] => true
  | x :: a', y :: c' => eqb x y && lists_eqb eqb a' c'
  | _, _ => false
  end.

Definition header_eqb (a c : header) : bool :=
  Bool.eqb (h_ssl2 a) (h_ssl2 c) && (h_type a =? h_type c) && (h_vmaj a =? h_vmaj c) &&
  (h_vmin a =? h_vmin c) && (h_len a =? h_len c) && (h_pad a =? h_pad c) &&
  Bool.eqb (h_esc a) (h_esc c).

Definition record_eqb (a c : header * list Z) : bool :=
  header_eqb (fst a) (fst c) && list_eqb (snd a) (snd c).

Definition rev_eqb (a c : rev) : bool :=
  match a, c with
  | Data x, Data y => list_eqb x y
  | Eof, Eof => true
  | Fail x, Fail y => x =? y
  | _, _ => false
  end.

Definition sev_eqb (a c : sev) : bool :=
  match a, c with
  | Accept x, Accept y => x =? y
  | SFail x, SFail y => x =? y
  | _, _ => false
  end.

(* ---- receive cases ------------------------------------------------------------------------ *)
(* buffered, limit, tls13, number of records, script,
   expected: yields, outcome, BufferedSocket._read_buffer afterwards, remaining script *)
Definition RecvCase :=
  (bool * Z * bool * nat * list rev *
   (Z * outcome (list (header * list Z)) * list Z * list rev))%type.

Definition chk_recv (c : RecvCase) : bool :=
  let '(buffered, limit, tls13, k, script, (ey, eo, erbuf, erest)) := c in
  let r := run_sock (if buffered then ra_buffered else ra_raw) (recv_many limit tls13 k) ([], script) in
  (yields_of r =? ey) && outcome_eqb (lists_eqb record_eqb) (out_of r) eo &&
  list_eqb (fst (state_of r)) erbuf && lists_eqb rev_eqb (snd (state_of r)) erest.

(* the same outcome must come out of the stream reading of the script (instance of the theorem,
   evaluated) *)
Definition chk_recv_spec (c : RecvCase) : bool :=
  let '(buffered, limit, tls13, k, script, (ey, eo, erbuf, erest)) := c in
  outcome_eqb (lists_eqb record_eqb) (out_of (run_spec (recv_many limit tls13 k) (flatten script))) eo.

(* ---- send cases ---------------------------------------------------------------------------- *)
(* version, content type, payload, padding, script; expected yields, outcome, wire, remaining *)
Definition SendCase :=
  (Z * Z * Z * list Z * Z * list sev * (Z * outcome unit * list Z * list sev))%type.

Definition unit_eqb (a c : unit) : bool := true.

Definition chk_send (c : SendCase) : bool :=
  let '(vmaj, vmin, ctype, payload, padding, script, (ey, eo, ewire, erest)) := c in
  let '(y, o, wire, rest) := record_send vmaj vmin ctype payload padding script in
  (y =? ey) && outcome_eqb unit_eqb o eo && list_eqb wire ewire && lists_eqb sev_eqb rest erest.

(* ---- BufferedSocket write-side cases ----------------------------------------------------- *)
Definition BufCase :=
  (list wop * list sev * (Z * outcome unit * bool * list (list Z) * list Z * list sev))%type.

Definition chk_buf (c : BufCase) : bool :=
  let '(ops, script, (ey, eo, ebw, equeue, ewire, erest)) := c in
  let '(y, o, bsk, wire, rest) := bs_run ops 0 bs_init [] script in
  (y =? ey) && outcome_eqb unit_eqb o eo && Bool.eqb (bw bsk) ebw &&
  lists_eqb list_eqb (queue bsk) equeue && list_eqb wire ewire && lists_eqb sev_eqb rest erest.

(* ---- Defragmenter cases ------------------------------------------------------------------- *)
Inductive dop :=
| DStatic (ty size : Z) | DDynamic (ty off sz : Z) | DData (ty : Z) (data : list Z)
| DGet | DClear | DEmpty.

Inductive dres :=
| ROk | RValueError | RMsg (ty : Z) (data : list Z) | RNoMsg | RBool (v : bool).

Definition dres_eqb (a c : dres) : bool :=
  match a, c with
  | ROk, ROk => true
  | RValueError, RValueError => true
  | RMsg t1 d1, RMsg t2 d2 => (t1 =? t2) && list_eqb d1 d2
  | RNoMsg, RNoMsg => true
  | RBool x, RBool y => Bool.eqb x y
  | _, _ => false
  end.

Definition lift (r : res defrag) (d : defrag) : dres * defrag :=
  match r with Ok d' => (ROk, d') | Err _ => (RValueError, d) end.

Definition dstep (o : dop) (d : defrag) : dres * defrag :=
  match o with
  | DStatic ty size => lift (add_static_size ty size d) d
  | DDynamic ty off sz => lift (add_dynamic_size ty off sz d) d
  | DData ty data => lift (add_data ty data d) d
  | DGet => match get_message d with
            | Some ((ty, m), d') => (RMsg ty m, d')
            | None => (RNoMsg, d)
            end
  | DClear => (ROk, clear_buffers d)
  | DEmpty => (RBool (is_empty d), d)
  end.

Fixpoint dsteps (ops : list dop) (d : defrag) : list dres * defrag :=
  match ops with
  | [] => ([], d)
  | o :: ops' => let '(r, d') := dstep o d in
                 let '(rs, d'') := dsteps ops' d' in (r :: rs, d'')
  end.

(* ops, expected results, expected final buffers in priority order *)
Definition DefragCase := (list dop * list dres * list (Z * list Z))%type.

Definition chk_defrag (c : DefragCase) : bool :=
  let '(ops, eres, ebufs) := c in
  let '(rs, d) := dsteps ops [] in
  lists_eqb dres_eqb rs eres &&
  lists_eqb (fun a c => (fst a =? fst c) && list_eqb (snd a) (snd c))
            (map (fun e => (e_type e, e_buf e)) d) ebufs.

(* records fed through the drain/add loop of _getNextRecord on the TLS defragmenter:
   expected messages in order, expected final buffers *)
Definition FeedCase := (list (Z * list Z) * list (Z * list Z) * list (Z * list Z))%type.

Definition chk_feed (c : FeedCase) : bool :=
  let '(records, emsgs, ebufs) := c in
  match feed records tls_defrag with
  | Ok (ms, d) =>
      lists_eqb (fun a c => (fst a =? fst c) && list_eqb (snd a) (snd c)) ms emsgs &&
      lists_eqb (fun a c => (fst a =? fst c) && list_eqb (snd a) (snd c))
                (map (fun e => (e_type e, e_buf e)) d) ebufs
  | Err _ => false
  end.
