(* C16 -- post-handshake control traffic (hand model; definitions only, no proofs).

   Two endpoints joined by one FIFO channel of protected records per direction.
   Every record carries the key GENERATION it was written under (tag); a reader can
   only open a record whose tag equals its current read generation (otherwise the
   real code fails with bad_record_mac).  The functions below mirror
     tlslite/tlsrecordlayer.py  readAsync (dispatch loop, min=0), _getMsg (heartbeat,
        alerts, unexpected types), _handle_keyupdate_request, send_keyupdate_request,
        write_heartbeat, _handle_pha, _handle_srv_pha, writeAsync/_sendMsg (fragmenting),
        closeAsync, _sendError/_shutdown
     tlslite/recordlayer.py     calcTLS1_3KeyUpdate_sender (read state) / _reciever (write state)
     tlslite/tlsconnection.py   request_post_handshake_auth, _serverSendTickets
     tlslite/messages.py        Heartbeat.write/parse/create_response, KeyUpdate.
   The state is held from the point of view of the ACTING endpoint ([ea], writing to
   [ab], reading from [ba]); the other endpoint acts through [swap]. *)
From Coq Require Import ZArith List Bool Lia.
From TV Require Import Base.Prelude.
Import ListNotations.
Open Scope Z_scope.

(* ---- records on the wire -------------------------------------------------- *)
Inductive msg :=
| MData (d : list Z)                 (* application_data fragment *)
| MKU (v : Z)                        (* KeyUpdate; v = request_update byte; v < 0: wrong body length *)
| MHB (b : list Z)                   (* one heartbeat RECORD (plaintext bytes) *)
| MNST                               (* NewSessionTicket (TLS 1.3) *)
| MCertReq (ctx : Z) (wf : bool)     (* post-handshake CertificateRequest; wf=false: empty compress_certificate list
                                        (only a deviating server sends that) *)
| MCert (ctx : Z) (ch : Z)           (* Certificate; ctx 0 = empty context; ch 0 = empty chain, else identity *)
| MCV (ok : bool)                    (* CertificateVerify; ok = signature verifies over the transcript *)
| MFin (ok : bool)                   (* Finished; ok = verify_data matches *)
| MUnexp                             (* any other handshake message (never allowed after the handshake) *)
| MAlert (fatal : bool) (desc : Z)
(* record-ALIGNMENT violations (RFC 8446 5.1: a message that changes keys must end its record):
   a record in which a KeyUpdate / a post-handshake Finished is followed by further handshake bytes
   (a whole message or the first fragment of one, which would then span the key change) *)
| MKUx (v : Z)
| MFinx (ok : bool).

Record rec := mkrec { tag : Z; body : msg }.

Definition valid_ku (m : msg) : bool :=
  match m with MKU v => (0 <=? v) && (v <=? 1) | _ => false end.

Definition mdata (m : msg) : list Z := match m with MData d => d | _ => [] end.
Definition chdata (ch : list rec) : list Z := flat_map (fun r => mdata (body r)) ch.

(* ---- endpoint state ---------------------------------------------------------- *)
Record cfgT := mkcfg {
  is_cl : bool;        (* role *)
  hb_sup : bool;       (* heartbeat_supported *)
  hb_recv : bool;      (* heartbeat_can_receive *)
  hb_send : bool;      (* heartbeat_can_send *)
  hb_cb : bool;        (* heartbeat_response_callback set *)
  pha_key : bool;      (* client: _client_keypair set (post_handshake_auth offered) *)
  pha_sup : bool;      (* server: _pha_supported *)
  cert_required : bool;(* server: client_cert_required *)
  my_chain : Z;        (* client: identity of its certificate chain (> 0) *)
  recsize : Z;         (* recordSize, >= 1 *)
  dev : Z              (* deviating PHA client (harness wrapper): 0 honest, 1 bad signature, 2 bad Finished,
                          3 unknown context, 4 replays the first context it saw, 5 empty context, 6 empty chain,
                          7 Finished not aligned with the end of its record *)
}.

Record ksT := mkks {   (* key schedule position + ghost counters *)
  wgen : Z; rgen : Z;
  n_ku_sent : Z;       (* KeyUpdate messages sent (voluntary + responses) *)
  n_ku_rcvd : Z;       (* valid KeyUpdate messages processed *)
  n_ku_req : Z;        (* ... of which update_requested *)
  n_ku_resp : Z        (* responses (update_not_requested) sent because of a request *)
}.

Record ioT := mkio {
  closed : bool;
  rbuf : list Z;       (* _readBuffer *)
  sent : list Z;       (* ghost: all application bytes accepted by write() *)
  delivered : list Z;  (* ghost: all bytes returned by read() *)
  badmac : bool;       (* ghost: a record could not be opened under the current read generation *)
  alerts : list Z      (* ghost: fatal alerts sent *)
}.

Record auT := mkau {
  pending : list (Z * bool);   (* server: _cert_requests in insertion order: (context, wf) *)
  next_ctx : Z;                (* fresh-context supply (getRandomBytes(32) abstracted as a counter) *)
  chain : Z;                   (* server: session.clientCertChain (0 = none/empty) *)
  accepted : list Z;           (* ghost: contexts for which a chain was recorded *)
  first_ctx : Z                (* client: first context seen (for the replaying deviant) *)
}.

Record msT := mkms {
  tickets : Z;
  hb_got : list (list Z);    (* payloads handed to heartbeat_response_callback *)
  hb_req : list (list Z)     (* ghost: payloads of the heartbeat requests write_heartbeat accepted *)
}.

Record ep := mkep { cf : cfgT; ks : ksT; io : ioT; au : auT; ms : msT }.

Definition set_cf (e : ep) (x : cfgT) := mkep x (ks e) (io e) (au e) (ms e).
Definition set_ks (e : ep) (x : ksT) := mkep (cf e) x (io e) (au e) (ms e).
Definition set_io (e : ep) (x : ioT) := mkep (cf e) (ks e) x (au e) (ms e).
Definition set_au (e : ep) (x : auT) := mkep (cf e) (ks e) (io e) x (ms e).
Definition set_ms (e : ep) (x : msT) := mkep (cf e) (ks e) (io e) (au e) x.

Record st := mkst { ea : ep; eb : ep; ab : list rec; ba : list rec; g13 : bool }.
Definition swap (s : st) : st := mkst (eb s) (ea s) (ba s) (ab s) (g13 s).

(* ---- small pure codecs -------------------------------------------------------- *)
(* messages.Heartbeat.write / parse *)
Definition hb_write (ty : Z) (payload padding : list Z) : list Z :=
  [ty; zlen payload / 256; zlen payload mod 256] ++ payload ++ padding.

Definition hb_parse (b : list Z) : option (Z * list Z * list Z) :=
  match b with
  | ty :: hi :: lo :: rest =>
      let n := hi * 256 + lo in
      if n <=? zlen rest then Some (ty, firstn (Z.to_nat n) rest, skipn (Z.to_nat n) rest) else None
  | _ => None
  end.

Definition pad_byte : Z := 165.   (* H-rng: padding bytes are an input; the harness fixes them to this value *)
Definition padding (n : Z) : list Z := repeat pad_byte (Z.to_nat n).

(* _sendMsg: "while len(buf) > recordSize: send buf[:recordSize]"; then the rest *)
Fixpoint chunks (fuel : nat) (n : nat) (d : list Z) : list (list Z) :=
  match fuel with
  | O => [d]
  | S f => if Nat.leb (length d) n then [d] else firstn n d :: chunks f n (skipn n d)
  end.
Definition fragments (rs : Z) (d : list Z) : list (list Z) := chunks (length d) (Z.to_nat rs) d.

(* ---- elementary state changes --------------------------------------------------- *)
Definition emit (me : ep) (m : msg) : rec := mkrec (wgen (ks me)) m.

(* calcTLS1_3KeyUpdate_sender: new READ state (a KeyUpdate was received) *)
Definition bump_r (me : ep) (req : bool) : ep :=
  let k := ks me in
  set_ks me (mkks (wgen k) (rgen k + 1) (n_ku_sent k) (n_ku_rcvd k + 1)
                  (if req then n_ku_req k + 1 else n_ku_req k) (n_ku_resp k)).

(* send_keyupdate_request after the message went out: calcTLS1_3KeyUpdate_reciever: new WRITE state *)
Definition bump_w (me : ep) (resp : bool) : ep :=
  let k := ks me in
  set_ks me (mkks (wgen k + 1) (rgen k) (n_ku_sent k + 1) (n_ku_rcvd k) (n_ku_req k)
                  (if resp then n_ku_resp k + 1 else n_ku_resp k)).

Definition set_closed (me : ep) : ep :=
  let i := io me in set_io me (mkio true (rbuf i) (sent i) (delivered i) (badmac i) (alerts i)).

(* _sendError: alert goes out under the current write keys, then _shutdown *)
Definition fatal (me : ep) (d : Z) : ep :=
  let i := io me in set_io me (mkio true (rbuf i) (sent i) (delivered i) (badmac i) (alerts i ++ [d])).

Definition mark_badmac (me : ep) : ep :=
  let i := io me in set_io me (mkio (closed i) (rbuf i) (sent i) (delivered i) true (alerts i)).

Definition set_rbuf (me : ep) (d : list Z) : ep :=
  let i := io me in set_io me (mkio (closed i) d (sent i) (delivered i) (badmac i) (alerts i)).

Definition add_sent (me : ep) (d : list Z) : ep :=
  let i := io me in set_io me (mkio (closed i) (rbuf i) (sent i ++ d) (delivered i) (badmac i) (alerts i)).

Definition deliver (me : ep) (mx : Z) : ep * list Z :=
  let i := io me in
  let k := if mx <=? 0 then length (rbuf i) else Z.to_nat mx in
  let d := firstn k (rbuf i) in
  (set_io me (mkio (closed i) (skipn k (rbuf i)) (sent i) (delivered i ++ d) (badmac i) (alerts i)), d).

Definition ctx_mem (c : Z) (l : list (Z * bool)) : bool := existsb (fun p => fst p =? c) l.
Definition ctx_del (c : Z) (l : list (Z * bool)) : list (Z * bool) := filter (fun p => negb (fst p =? c)) l.

Definition pop_ctx (me : ep) (c : Z) : ep :=
  let a := au me in set_au me (mkau (ctx_del c (pending a)) (next_ctx a) (chain a) (accepted a) (first_ctx a)).

Definition record_chain (me : ep) (c ch : Z) : ep :=
  let a := au me in set_au me (mkau (pending a) (next_ctx a) ch (accepted a ++ [c]) (first_ctx a)).

Definition add_ticket (me : ep) : ep := set_ms me (mkms (tickets (ms me) + 1) (hb_got (ms me)) (hb_req (ms me))).
Definition add_hb (me : ep) (p : list Z) : ep :=
  set_ms me (mkms (tickets (ms me)) (hb_got (ms me) ++ [p]) (hb_req (ms me))).
Definition note_hb_req (me : ep) (p : list Z) : ep :=
  set_ms me (mkms (tickets (ms me)) (hb_got (ms me)) (hb_req (ms me) ++ [p])).

Definition note_ctx (me : ep) (c : Z) : ep :=
  let a := au me in
  set_au me (mkau (pending a) (next_ctx a) (chain a) (accepted a) (if first_ctx a =? 0 then c else first_ctx a)).

(* result of processing incoming records: (endpoint, rest of the incoming channel, records emitted, code)
   code: 0 delivered/ok, 1 would block, 100+d local fatal alert d, 1000+d remote alert d,
         2000 local API error (ValueError/TLSInternalError/...), 3000 TLSClosedConnectionError *)
Definition resT := (ep * list rec * list rec * Z)%type.

Definition die (me : ep) (rest : list rec) (d : Z) : resT :=
  (fatal me d, rest, [emit me (MAlert true d)], 100 + d).

(* the client's answer to a CertificateRequest (_handle_pha), possibly a deviating peer *)
Definition pha_reply (me : ep) (ctx : Z) : list msg :=
  let d := dev (cf me) in
  let c := if d =? 3 then ctx + 1000 else if d =? 4 then first_ctx (au me) else if d =? 5 then 0 else ctx in
  (* signature and Finished cover the request actually answered: a foreign context invalidates both *)
  let same := c =? ctx in
  if d =? 6 then [MCert c 0; MFin same]
  else if d =? 7 then [MCert c (my_chain (cf me)); MCV same; MFinx same]   (* valid Finished, but its record goes on *)
  else [MCert c (my_chain (cf me)); MCV (same && negb (d =? 1)); MFin (same && negb (d =? 2))].

(* heartbeat record received (_getMsg); None = fatal unexpected_message *)
Definition on_heartbeat (me : ep) (b : list Z) : option (ep * list rec) :=
  if negb (hb_sup (cf me)) then None
  else match b with
  | [] => None                                   (* empty non-application record *)
  | _ =>
    match hb_parse b with
    | None => Some (me, [])                      (* SyntaxError: silently dropped *)
    | Some (ty, payload, pad) =>
        if ty =? 1 then
          if negb (hb_recv (cf me)) then None
          else if zlen pad <? 16 then Some (me, [])
          else
            (* a HeartbeatMessage is never fragmented (9b89f7b): a response that does not fit into
               one record of this endpoint is not sent (the request is treated as too large) *)
            let resp := hb_write 2 payload (padding 16) in
            if recsize (cf me) <? zlen resp then Some (me, []) else Some (me, [emit me (MHB resp)])
        else if (ty =? 2) && hb_cb (cf me) then Some (add_hb me payload, [])
        else Some (me, [])
    end
  end.

(* _handle_srv_pha after the Certificate: CertificateVerify (if a chain was sent) and Finished *)
Definition srv_pha (me0 me : ep) (whole rest : list rec) (ctx ch : Z) : resT :=
  let badtag (tl : list rec) : resT := (mark_badmac (fatal me 20), tl, [emit me (MAlert true 20)], 120) in
  let fin (l : list rec) : resT :=
      match l with
      | [] => (me0, whole, [], 1)                    (* would block: the real generator waits here *)
      | f :: tl =>
          if negb (tag f =? rgen (ks me)) then badtag tl else
          match body f with
          | MFin ok => if ok then (record_chain me ctx ch, tl, [], 0) else die me tl 51
          | _ => die me l 10                         (* the offending record stays unread (connection is dead) *)
          end
      end in
  if ch =? 0 then
    if cert_required (cf me) then die me rest 116 else fin rest
  else match rest with
       | c :: (_ :: _) as tl1 =>
           if negb (tag c =? rgen (ks me)) then badtag tl1 else
           match body c with
           | MCV ok => if ok then fin tl1 else die me tl1 51
           | _ => die me rest 10
           end
       | _ => (me0, whole, [], 1)
       end.

(* readAsync(min=0) with an empty read buffer: process incoming records until one ends the call *)
Fixpoint rloop (v13 : bool) (me : ep) (inc : list rec) : resT :=
  match inc with
  | [] => (me, [], [], 1)
  | r :: inc' =>
    if negb (tag r =? rgen (ks me)) then
      (mark_badmac (fatal me 20), inc', [emit me (MAlert true 20)], 120)
    else
    match body r with
    | MData d =>
        match d with
        | [] => rloop v13 me inc'                    (* empty fragment: try again *)
        | _ => (set_rbuf me d, inc', [], 0)
        end
    | MKU v =>
        if negb v13 then die me inc' 10
        else if v <? 0 then die me inc' 50
        else if 2 <=? v then die me inc' 47
        else
          let me1 := bump_r me (v =? 1) in
          if v =? 1 then
            let k := emit me1 (MKU 0) in
            let '(me2, inc2, em, c) := rloop v13 (bump_w me1 true) inc' in (me2, inc2, k :: em, c)
          else rloop v13 me1 inc'
    | MHB b =>
        match on_heartbeat me b with
        | None => die me inc' 10
        | Some (me1, out) =>
            let '(me2, inc2, em, c) := rloop v13 me1 inc' in (me2, inc2, out ++ em, c)
        end
    | MNST =>
        (* only a TLS 1.3 CLIENT expects tickets (df198c5: a server answers unexpected_message) *)
        if v13 && is_cl (cf me) then (add_ticket me, inc', [], 0) else die me inc' 10
    | MCertReq ctx wf =>
        if v13 && is_cl (cf me) && pha_key (cf me) then
          if negb wf then die me inc' 50
          else let me1 := note_ctx me ctx in
               (me1, inc', map (emit me1) (pha_reply me1 ctx), 0)
        else die me inc' 10
    | MCert ctx ch =>
        if v13 && negb (is_cl (cf me)) && negb (match pending (au me) with [] => true | _ => false end) then
          if ctx =? 0 then die me inc' 47
          else if negb (ctx_mem ctx (pending (au me))) then die me inc' 47
          else srv_pha me (pop_ctx me ctx) inc inc' ctx ch
        else die me inc' 10
    | MCV _ => die me inc' 10
    | MFin _ => die me inc' 10
    | MUnexp => die me inc' 10
    | MKUx _ => die me inc' 10        (* _getMsg: "... or KU not aligned with record boundary", before parsing *)
    | MFinx _ => die me inc' 10
    | MAlert f d =>
        if f then (set_closed me, inc', [], 1000 + d)
        else if d =? 0 then (set_closed me, inc', [emit me (MAlert false 0)], 0)
        else (set_closed me, inc', [emit me (MAlert false 0)], 1000 + d)
    end
  end.

(* ---- operations ------------------------------------------------------------------ *)
Inductive op :=
| OWrite (d : list Z)
| ORead (mx : Z)                     (* readAsync(max = mx or None when mx <= 0, min = 0) *)
| OKeyUpdate (req : bool)            (* send_keyupdate_request *)
| ORequestAuth (ce : bool)           (* request_post_handshake_auth; ce=false: certificate_compression_receive=[] --
                                        then the compress_certificate extension is simply not sent (a078a25) *)
| OHeartbeat (payload : list Z) (padlen : Z)   (* write_heartbeat *)
| OTickets (k : Z)                   (* _serverSendTickets with ticket_count = k *)
| OClose
| OSetRecSize (n : Z)                (* conn.recordSize = n *)
| OSetDev (d : Z)                    (* configure the deviating PHA client *)
| OInject (m : msg)                  (* deviating peer: send one control record under the current keys *)
| OReplayPha.                        (* deviating client: resend, verbatim, its (valid) answer to the first
                                        CertificateRequest it saw *)

(* records a deviating peer may inject: everything except data, valid KeyUpdates (a peer that
   announces a key change and does not perform it has desynchronised itself) and alerts *)
Definition injectable (m : msg) : bool :=
  match m with
  | MData _ => false
  | MKU _ => negb (valid_ku m)
  | MAlert _ _ => false
  | _ => true
  end.

Record outT := mkout { code : Z; data : list Z; emitted : list rec }.

Definition first_wf (l : list (Z * bool)) : bool := match l with [] => true | p :: _ => snd p end.

Definition act (s : st) (o : op) : st * outT :=
  let me := ea s in
  let v13 := g13 s in
  let cl := closed (io me) in
  let same c := (s, mkout c [] []) in
  let sends me' recs c := (mkst me' (eb s) (ab s ++ recs) (ba s) v13, mkout c [] recs) in
  match o with
  | OWrite d =>
      if cl then same 3000
      else sends (add_sent me d) (map (fun f => emit me (MData f)) (fragments (recsize (cf me)) d)) 0
  | ORead mx =>
      if cl then let '(me', d) := deliver me mx in (mkst me' (eb s) (ab s) (ba s) v13, mkout 0 d [])
      else if v13 && negb (is_cl (cf me)) && negb (first_wf (pending (au me))) then
        (* readAsync: "if not cert_req_comp_cert_ext.algorithms: decode_error" *)
        (mkst (fatal me 50) (eb s) (ab s ++ [emit me (MAlert true 50)]) (ba s) v13,
         mkout 150 [] [emit me (MAlert true 50)])
      else match rbuf (io me) with
      | _ :: _ => let '(me', d) := deliver me mx in (mkst me' (eb s) (ab s) (ba s) v13, mkout 0 d [])
      | [] =>
          let '(me1, inc1, em, c) := rloop v13 me (ba s) in
          if c =? 0 then
            let '(me2, d) := deliver me1 mx in (mkst me2 (eb s) (ab s ++ em) inc1 v13, mkout 0 d em)
          else (mkst me1 (eb s) (ab s ++ em) inc1 v13, mkout c [] em)
      end
  | OKeyUpdate req =>
      if cl then same 3000
      else if negb v13 then same 2000
      else sends (bump_w me false) [emit me (MKU (if req then 1 else 0))] 0
  | ORequestAuth _ =>
      (* the request on the wire is well formed whatever the compression setting *)
      if cl || negb v13 || is_cl (cf me) || negb (pha_sup (cf me)) then same 2000
      else
        let a := au me in
        let c := next_ctx a in
        sends (set_au me (mkau (pending a ++ [(c, true)]) (c + 1) (chain a) (accepted a) (first_ctx a)))
              [emit me (MCertReq c true)] 0
  | OHeartbeat payload padlen =>
      if cl then same 3000
      else if negb (hb_sup (cf me)) || negb (hb_send (cf me)) then same 2000
      else
        (* 9b89f7b: a request longer than recordSize is refused (ValueError), never fragmented *)
        let m := hb_write 1 payload (padding padlen) in
        if recsize (cf me) <? zlen m then same 2000
        else sends (note_hb_req me payload) [emit me (MHB m)] 0
  | OTickets k =>
      if cl || negb v13 || is_cl (cf me) then same 2000
      else sends me (repeat (emit me MNST) (Z.to_nat k)) 0
  | OClose =>
      if cl then same 0
      else sends (set_closed me) [emit me (MAlert false 0)] 0
  | OSetRecSize n =>
      if n <? 1 then same 2000
      else let c := cf me in
        (mkst (set_cf me (mkcfg (is_cl c) (hb_sup c) (hb_recv c) (hb_send c) (hb_cb c) (pha_key c) (pha_sup c)
                                (cert_required c) (my_chain c) n (dev c))) (eb s) (ab s) (ba s) v13, mkout 0 [] [])
  | OSetDev d =>
      let c := cf me in
        (mkst (set_cf me (mkcfg (is_cl c) (hb_sup c) (hb_recv c) (hb_send c) (hb_cb c) (pha_key c) (pha_sup c)
                                (cert_required c) (my_chain c) (recsize c) d)) (eb s) (ab s) (ba s) v13, mkout 0 [] [])
  | OInject m =>
      if cl || negb (injectable m) then same 2000
      else sends me [emit me m] 0
  | OReplayPha =>
      if cl || (first_ctx (au me) =? 0) then same 2000
      else sends me (map (emit me) [MCert (first_ctx (au me)) (my_chain (cf me)); MCV true; MFin true]) 0
  end.

(* actor: true = the endpoint in position [ea] (the client in [init]), false = the other one *)
Definition step (s : st) (a : bool) (o : op) : st * outT :=
  if a then act s o else let '(s', r) := act (swap s) o in (swap s', r).

(* observation after each operation: result code, bytes returned, records emitted and the four
   key generations (client write, client read, server write, server read) *)
Definition gens (s : st) : list Z :=
  [wgen (ks (ea s)); rgen (ks (ea s)); wgen (ks (eb s)); rgen (ks (eb s))].

Fixpoint run (s : st) (ops : list (bool * op)) : st * list (outT * list Z) :=
  match ops with
  | [] => (s, [])
  | (a, o) :: tl =>
      let '(s1, r) := step s a o in
      let '(s2, rs) := run s1 tl in (s2, (r, gens s1) :: rs)
  end.

Definition exec (s : st) (ops : list (bool * op)) : st := fst (run s ops).

(* ---- initial states ------------------------------------------------------------------ *)
Definition ks0 := mkks 0 0 0 0 0 0.
Definition io0 := mkio false [] [] [] false [].
Definition au0 := mkau [] 1 0 [] 0.
Definition ms0 := mkms 0 [] [].
Definition ep0 (c : cfgT) : ep := mkep c ks0 io0 au0 ms0.

(* [nst] NewSessionTicket records are already in flight towards the client when the handshake ends *)
Definition init (v13 : bool) (cc sc : cfgT) (nst : Z) : st :=
  mkst (ep0 cc) (ep0 sc) [] (repeat (mkrec 0 MNST) (Z.to_nat nst)) v13.

(* ---- helpers for the correspondence evaluation ------------------------------------------ *)
Definition msg_code (m : msg) : Z * list Z :=
  match m with
  | MData d => (23, d)
  | MKU v => (24, [v])
  | MHB b => (21, b)
  | MNST => (4, [])
  | MCertReq c wf => (13, [c; if wf then 1 else 0])
  | MCert c ch => (11, [c; ch])
  | MCV ok => (15, [if ok then 1 else 0])
  | MFin ok => (20, [if ok then 1 else 0])
  | MUnexp => (99, [])
  | MAlert f d => (2, [if f then 2 else 1; d])
  | MKUx v => (25, [v])
  | MFinx ok => (26, [if ok then 1 else 0])
  end.

Definition zl_eqb := list_eqb.
Definition rec_eqb (a : rec) (b : Z * list Z) : bool :=
  (fst (msg_code (body a)) =? fst b) && list_eqb (snd (msg_code (body a))) (snd b).
Fixpoint all2 {A B} (f : A -> B -> bool) (l : list A) (m : list B) : bool :=
  match l, m with
  | [], [] => true
  | x :: l', y :: m' => f x y && all2 f l' m'
  | _, _ => false
  end.

(* expected observation per operation, as seen on the implementation:
   (code, bytes returned, plaintext records sent by the actor, generations) *)
Definition obsT := (Z * list Z * list (Z * list Z) * list Z)%type.
Definition obs_eqb (m : outT * list Z) (e : obsT) : bool :=
  let '(c, d, recs, g) := e in
  (code (fst m) =? c) && list_eqb (data (fst m)) d && all2 rec_eqb (emitted (fst m)) recs && list_eqb (snd m) g.

(* final summary: tickets (client), chain, pending count (server), heartbeat payloads delivered to
   the callbacks (client, server), closed flags *)
Definition finT := (Z * Z * Z * list (list Z) * list (list Z) * bool * bool)%type.
Definition fin_eqb (s : st) (f : finT) : bool :=
  let '(tk, ch, np, hc, hs, cc, sc) := f in
  (tickets (ms (ea s)) =? tk) && (chain (au (eb s)) =? ch) && (zlen (pending (au (eb s))) =? np)
  && all2 list_eqb (hb_got (ms (ea s))) hc && all2 list_eqb (hb_got (ms (eb s))) hs
  && Bool.eqb (closed (io (ea s))) cc && Bool.eqb (closed (io (eb s))) sc.

Definition caseT := (bool * cfgT * cfgT * Z * list (bool * op) * list obsT * finT)%type.
Definition chk_case (c : caseT) : bool :=
  let '(v13, cc, sc, nst, ops, obs, fin) := c in
  let '(s, out) := run (init v13 cc sc nst) ops in
  all2 obs_eqb out obs && fin_eqb s fin.
(* index of the first operation whose observation differs (diagnostics) *)
Fixpoint first_diff (out : list (outT * list Z)) (obs : list obsT) (n : Z) : Z :=
  match out, obs with
  | x :: o', y :: b' => if obs_eqb x y then first_diff o' b' (n + 1) else n
  | [], [] => -1
  | _, _ => n
  end.
