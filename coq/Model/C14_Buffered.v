(* C14 -- BufferedSocket (tlslite/bufferedsocket.py), write side.  Definitions only.
   (The read side, BufferedSocket.recv, is the read-ahead function [ra_buffered] of
   Model/C14_Transport.v: RecordSocket over BufferedSocket over a script is
   [run_sock ra_buffered], over the plain socket [run_sock ra_raw].)

   State: buffer_writes flag and _write_queue (list of the byte strings passed to send). *)
From Coq Require Import ZArith List Bool.
From TV Require Import Base.Prelude Model.C14_Transport.
Import ListNotations.
Open Scope Z_scope.

Record bsock := { bw : bool; queue : list (list Z) }.

Definition bs_init : bsock := {| bw := false; queue := [] |}.
Definition bs_set_buffering (v : bool) (bsk : bsock) : bsock := {| bw := v; queue := queue bsk |}.

(* operations of the layer above, in the order it performs them *)
Inductive wop :=
| WSend (data : list Z)        (* RecordSocket._sockSendAll(data) over the BufferedSocket *)
| WFlush                       (* BufferedSocket.flush(): blocking-socket API (socket.sendall) *)
| WFlushA                      (* for r in BufferedSocket.flush_async(): yield r  (generator API) *)
| WBuffer (on : bool).         (* sock.buffer_writes = on *)

(* BufferedSocket.flush(): join the queue, clear it, socket.sendall(buf) if non-empty *)
Definition bs_flush (bsk : bsock) (wire : list Z) (s : list sev)
  : outcome unit * bsock * list Z * list sev :=
  let buf := concat (queue bsk) in
  let bsk' := {| bw := bw bsk; queue := [] |} in
  if zlen buf =? 0 then (Done tt, bsk', wire, s)
  else let '(o, wire', s') := sock_sendall buf wire s in (o, bsk', wire', s').

(* BufferedSocket.flush_async(): join the queue, clear it, then
     while buf: try: sent = socket.send(buf)
                except would-block: yield 1; continue   (other errors propagate)
                buf = buf[sent:]; if buf: yield 1
   [flush_loop] is the loop entered with a non-empty buf. *)
Fixpoint flush_loop (buf : list Z) (y : Z) (wire : list Z) (s : list sev) : sres :=
  match s with
  | [] => (y, Pending, wire, [])
  | SFail e :: s' =>
      if is_wb e then flush_loop buf (y + 1) wire s'
      else (y, Raised (SockError e), wire, s')
  | Accept k :: s' =>
      let n := accepted k buf in
      let rest := skipn (Z.to_nat n) buf in
      if zlen rest =? 0 then (y, Done tt, wire ++ firstn (Z.to_nat n) buf, s')
      else flush_loop rest (y + 1) (wire ++ firstn (Z.to_nat n) buf) s'
  end.

Definition bs_flush_async (bsk : bsock) (wire : list Z) (s : list sev)
  : Z * outcome unit * bsock * list Z * list sev :=
  let buf := concat (queue bsk) in
  let bsk' := {| bw := bw bsk; queue := [] |} in
  if zlen buf =? 0 then (0, Done tt, bsk', wire, s)
  else let '(y, o, wire', s') := flush_loop buf 0 wire s in (y, o, bsk', wire', s').

(* _sockSendAll(data) with self.sock a BufferedSocket:
   buffering  -> send() appends and reports len(data): returns at once, no yield;
   otherwise  -> send() is the socket's send: the plain loop *)
Definition bs_send_all (data : list Z) (bsk : bsock) (wire : list Z) (s : list sev)
  : Z * outcome unit * bsock * list Z * list sev :=
  if bw bsk then (0, Done tt, {| bw := true; queue := queue bsk ++ [data] |}, wire, s)
  else let '(y, o, wire', s') := send_all data 0 wire s in (y, o, bsk, wire', s').

(* a whole sequence of operations; stops at the first that does not complete *)
Fixpoint bs_run (ops : list wop) (y : Z) (bsk : bsock) (wire : list Z) (s : list sev)
  : Z * outcome unit * bsock * list Z * list sev :=
  match ops with
  | [] => (y, Done tt, bsk, wire, s)
  | WBuffer v :: ops' => bs_run ops' y (bs_set_buffering v bsk) wire s
  | WFlush :: ops' =>
      match bs_flush bsk wire s with
      | (Done _, bsk', wire', s') => bs_run ops' y bsk' wire' s'
      | (o, bsk', wire', s') => (y, o, bsk', wire', s')
      end
  | WFlushA :: ops' =>
      match bs_flush_async bsk wire s with
      | (y1, Done _, bsk', wire', s') => bs_run ops' (y + y1) bsk' wire' s'
      | (y1, o, bsk', wire', s') => (y + y1, o, bsk', wire', s')
      end
  | WSend d :: ops' =>
      match bs_send_all d bsk wire s with
      | (y1, Done _, bsk', wire', s') => bs_run ops' (y + y1) bsk' wire' s'
      | (y1, o, bsk', wire', s') => (y + y1, o, bsk', wire', s')
      end
  end.

(* what the layer above meant to put on the wire *)
Definition sent_data (ops : list wop) : list Z :=
  concat (map (fun o => match o with WSend d => d | _ => [] end) ops).

(* the pattern used by tlslite's generators:
     buffer_writes = True; sends...; for r in flush_async(): yield r; buffer_writes = False *)
Definition flight_a (msgs : list (list Z)) : list wop :=
  WBuffer true :: map WSend msgs ++ [WFlushA; WBuffer false].
(* the same with the blocking-socket flush() (no longer used by any generator) *)
Definition flight (msgs : list (list Z)) : list wop :=
  WBuffer true :: map WSend msgs ++ [WFlush; WBuffer false].
Definition no_sync_flush (ops : list wop) : bool :=
  forallb (fun o => match o with WFlush => false | _ => true end) ops.
