(* Hand-written models (tied by correspondence, harness/props/C09.py) of the irregular glue around
   the regenerated KDF code: HKDF_expand_label / derive_secret (utils/cryptomath.py, uses
   codec.Writer), PRF_SSL (early return from nested loops), calc_key (function values, None-able
   arguments, HandshakeHashes object), HandshakeHashes.digest/digestSSL, key-block slicing in
   RecordLayer.calcPendingStates, traffic keys in calcTLS1_3PendingState.  Definitions only.
   A HandshakeHashes object is modelled by the concatenation of everything fed to update()
   (hashlib contract: digest = hash of the concatenation). *)
From Coq Require Import ZArith List Bool String.
From TV Require Import Base.Prelude Base.C09_Lib Base.C09_Oracle Gen.C09_KDF.
Import ListNotations.
Open Scope list_scope.
Open Scope Z_scope.

Definition bytes_of_string (s : string) : list Z :=
  map (fun a => Z.of_nat (Ascii.nat_of_ascii a)) (list_ascii_of_string s).

(* ---- utils/cryptomath.py HKDF_expand_label: Writer.addTwo(length); addVarSeq(b"tls13 " + label, 1, 1);
   addVarSeq(hashValue, 1, 1) -- every add raises ValueError when the value does not fit *)
Definition hkdf_label_bytes (label hashValue : list Z) (length : Z) : res (list Z) :=
  if (0 <=? length) && (length <=? 65535) then
    let l := bytes_of_string "tls13 " ++ label in
    if zlen l <=? 255 then
      if zlen hashValue <=? 255 then
        Ok ([length / 256; length mod 256] ++ [zlen l] ++ l ++ [zlen hashValue] ++ hashValue)
      else Err ValueError
    else Err ValueError
  else Err ValueError.

Definition HKDF_expand_label (Orc : Oracles) (secret label hashValue : list Z) (length : Z) (alg : string) : res (list Z) :=
  info <- hkdf_label_bytes label hashValue length ;;
  HKDF_expand Orc secret info length alg.

(* derive_secret(secret, label, handshake_hashes, algorithm); None = no transcript *)
Definition derive_secret (Orc : Oracles) (secret label : list Z) (hh : option (list Z)) (alg : string) : res (list Z) :=
  let hs_hash := o_hash Orc alg (match hh with None => [] | Some t => t end) in
  ds <- py_digest_size alg ;;
  HKDF_expand_label Orc secret label hs_hash ds alg.

(* ---- mathtls.py PRF_SSL: 26 rounds 'A', 'BB', 'CCC', ...; output bytes beyond the 26 MD5 blocks stay zero *)
Definition prf_ssl_round (Orc : Oracles) (secret seed : list Z) (x : Z) : list Z :=
  o_hash Orc "md5" (secret ++ o_hash Orc "sha1" (repeat (65 + x) (Z.to_nat (x + 1)) ++ secret ++ seed)).

Definition PRF_SSL (Orc : Oracles) (secret seed : list Z) (length : Z) : res (list Z) :=
  if length <? 0 then Err ValueError else
  let stream := flat_map (prf_ssl_round Orc secret seed) (zrange 0 26) in
  let out := firstn (Z.to_nat length) stream in
  Ok (out ++ repeat 0 (Z.to_nat length - List.length out)).

(* ---- handshakehashes.py *)
Definition hh_digest_default (Orc : Oracles) (t : list Z) : list Z := o_hash Orc "md5" t ++ o_hash Orc "sha1" t.

Definition hh_digestSSL (Orc : Oracles) (t masterSecret label : list Z) : list Z :=
  let imd5 := o_hash Orc "md5" (t ++ label ++ masterSecret ++ repeat 54 48) in
  let isha := o_hash Orc "sha1" (t ++ label ++ masterSecret ++ repeat 54 40) in
  o_hash Orc "md5" (masterSecret ++ repeat 92 48 ++ imd5) ++
  o_hash Orc "sha1" (masterSecret ++ repeat 92 40 ++ isha).

(* ---- mathtls.py calc_key.  sha384 = (cipher_suite in CipherSuite.sha384PrfSuites).
   Absent (None) arguments: using one raises AttributeError (handshake_hashes) / TypeError (randoms, length). *)
Definition L_cf := bytes_of_string "client finished".
Definition L_sf := bytes_of_string "server finished".
Definition L_ke := bytes_of_string "key expansion".
Definition L_ms := bytes_of_string "master secret".
Definition L_ems := bytes_of_string "extended master secret".

Definition need {A} (o : option A) (e : exn) : res A := match o with Some x => Ok x | None => Err e end.

Inductive prf_fn := F_SSL | F_TLS10 | F_SHA256 | F_SHA384.

Definition calc_key (Orc : Oracles) (version : Z * Z) (secret : list Z) (sha384 : bool) (label : list Z)
           (hh cr sr : option (list Z)) (olen : option Z) : res (list Z) :=
  let is l := list_eqb label l in
  let finish (func : prf_fn) (seed0 : option (list Z)) : res (list Z) :=
    (* "Seed needed for calculating key expansion or master secret" *)
    seed1 <- (if is L_ke then s <- need sr TypeError ;; c <- need cr TypeError ;; Ok (Some (s ++ c)) else Ok seed0) ;;
    seed2 <- (if is L_ms then c <- need cr TypeError ;; s <- need sr TypeError ;; Ok (Some (c ++ s)) else Ok seed1) ;;
    seed <- need seed2 (OtherExn 4) ;;          (* UnboundLocalError: cannot happen after the asserts *)
    n <- need olen TypeError ;;
    match func with
    | F_SSL => PRF_SSL Orc secret seed n
    | F_TLS10 => PRF Orc secret label seed n
    | F_SHA256 => PRF_1_2 Orc secret label seed n
    | F_SHA384 => PRF_1_2_SHA384 Orc secret label seed n
    end in
  if pairZ_eqb version (3, 0) then
    if is L_cf then t <- need hh AttributeError ;; Ok (hh_digestSSL Orc t secret [67; 76; 78; 84])
    else if is L_sf then t <- need hh AttributeError ;; Ok (hh_digestSSL Orc t secret [83; 82; 86; 82])
    else if is L_ke || is L_ms then finish F_SSL None
    else Err AssertionError
  else if pairZ_eqb version (3, 1) || pairZ_eqb version (3, 2) then
    if is L_ems then t <- need hh AttributeError ;; finish F_TLS10 (Some (o_hash Orc "md5" t ++ o_hash Orc "sha1" t))
    else if is L_sf || is L_cf then t <- need hh AttributeError ;; finish F_TLS10 (Some (hh_digest_default Orc t))
    else if is L_ke || is L_ms then finish F_TLS10 None
    else Err AssertionError
  else if pairZ_eqb version (3, 3) then
    let alg := if sha384 then "sha384"%string else "sha256"%string in
    let func := if sha384 then F_SHA384 else F_SHA256 in
    if is L_ems || is L_sf || is L_cf then t <- need hh AttributeError ;; finish func (Some (o_hash Orc alg t))
    else if is L_ke || is L_ms then finish func None
    else Err AssertionError
  else Err AssertionError.

(* ---- recordlayer.py calcPendingStates: Parser(keyBlock).getFixBytes x 6 *)
Definition take (n : Z) (st : list Z) : res (list Z * list Z) :=
  if (n <? 0) || (zlen st <? n) then Err DecodeError
  else Ok (firstn (Z.to_nat n) st, skipn (Z.to_nat n) st).

Record KeySlices := mkKeySlices {
  ks_client_mac : list Z; ks_server_mac : list Z;
  ks_client_key : list Z; ks_server_key : list Z;
  ks_client_iv : list Z; ks_server_iv : list Z }.

Definition slice_key_block (keyBlock : list Z) (macLen keyLen ivLen : Z) : res KeySlices :=
  '(cm, r) <- take macLen keyBlock ;; '(sm, r) <- take macLen r ;;
  '(ck, r) <- take keyLen r ;; '(sk, r) <- take keyLen r ;;
  '(ci, r) <- take ivLen r ;; '(si, r) <- take ivLen r ;;
  Ok (mkKeySlices cm sm ck sk ci si).

(* (write, read) = (mac, key, iv) of this endpoint and of the peer *)
Definition pending_states (client : bool) (s : KeySlices) : (list Z * list Z * list Z) * (list Z * list Z * list Z) :=
  let c := (ks_client_mac s, ks_client_key s, ks_client_iv s) in
  let v := (ks_server_mac s, ks_server_key s, ks_server_iv s) in
  if client then (c, v) else (v, c).

Definition calc_pending_states (Orc : Oracles) (version : Z * Z) (sha384 client : bool) (masterSecret cr sr : list Z)
           (macLen keyLen ivLen : Z) :=
  kb <- calc_key Orc version masterSecret sha384 L_ke None (Some cr) (Some sr) (Some (macLen * 2 + keyLen * 2 + ivLen * 2)) ;;
  s <- slice_key_block kb macLen keyLen ivLen ;;
  Ok (pending_states client s).

(* ---- recordlayer.py calcTLS1_3PendingState: (key, iv) for one traffic secret; iv_length = 12 *)
Definition tls13_traffic_keys (Orc : Oracles) (secret : list Z) (keyLen : Z) (sha384 : bool) : res (list Z * list Z) :=
  let alg := if sha384 then "sha384"%string else "sha256"%string in
  k <- HKDF_expand_label Orc secret (bytes_of_string "key") [] keyLen alg ;;
  iv <- HKDF_expand_label Orc secret (bytes_of_string "iv") [] 12 alg ;;
  Ok (k, iv).

Definition tls13_pending_state (Orc : Oracles) (client sha384 : bool) (cl_secret sr_secret : list Z) (keyLen : Z) :=
  c <- tls13_traffic_keys Orc cl_secret keyLen sha384 ;;
  s <- tls13_traffic_keys Orc sr_secret keyLen sha384 ;;
  Ok (if client then (c, s) else (s, c)).
