(* Python_RSAKey._rawPrivateKeyOp as a step program over the shared pair
   (blinder, unblinder) protected by self._lock.  Definitions only.

     n = self.n
     with self._lock:
         if not self.blinder:
             self.unblinder = getRandomNumber(2, n)
             self.blinder = powMod(invMod(self.unblinder, n), self.e, n)
         unblinder = self.unblinder
         blinder = self.blinder
         self.blinder = (blinder * blinder) % n
         self.unblinder = (unblinder * unblinder) % n
     message = (message * blinder) % n
     cipher = self._rawPrivateKeyOpHelper(message)
     cipher = (cipher * unblinder) % n

   The sequence of lock events and of accesses to the two racy attributes of this program
   is compared with the sequence extracted from /repo (Proofs/C18_Rsa.v, rsa_trace_tie). *)
From Coq Require Import ZArith List Bool String.
From TV Require Import Base.Prelude Base.C18_Lib Model.C18_Conc Model.C18_LockSteps.
Import ListNotations.
Open Scope Z_scope.

Definition v_blinder : Z := 0.
Definition v_unblinder : Z := 1.

(* locals of one call: the argument, the random number this call would draw on the first
   pass, the test result, the copied pair, and the result *)
Record rlo := { l_m : Z; l_rnd : Z; l_first : bool; l_b : Z; l_u : Z; l_c : Z }.

Definition rlo_init (m rnd : Z) : rlo :=
  {| l_m := m; l_rnd := rnd; l_first := false; l_b := 0; l_u := 0; l_c := 0 |}.

Definition set_first (lo : rlo) (x : bool) : rlo :=
  {| l_m := l_m lo; l_rnd := l_rnd lo; l_first := x; l_b := l_b lo; l_u := l_u lo; l_c := l_c lo |}.
Definition set_b (lo : rlo) (x : Z) : rlo :=
  {| l_m := l_m lo; l_rnd := l_rnd lo; l_first := l_first lo; l_b := x; l_u := l_u lo; l_c := l_c lo |}.
Definition set_u (lo : rlo) (x : Z) : rlo :=
  {| l_m := l_m lo; l_rnd := l_rnd lo; l_first := l_first lo; l_b := l_b lo; l_u := x; l_c := l_c lo |}.
Definition set_m (lo : rlo) (x : Z) : rlo :=
  {| l_m := x; l_rnd := l_rnd lo; l_first := l_first lo; l_b := l_b lo; l_u := l_u lo; l_c := l_c lo |}.
Definition set_c (lo : rlo) (x : Z) : rlo :=
  {| l_m := l_m lo; l_rnd := l_rnd lo; l_first := l_first lo; l_b := l_b lo; l_u := l_u lo; l_c := x |}.

Section Rsa.
  Variables n e : Z.
  Variable invmod : Z -> Z.            (* invMod(_, n) *)
  Variable helper : Z -> Z.            (* _rawPrivateKeyOpHelper: the CRT exponentiation *)

  Definition powmod (x y : Z) : Z := (x ^ y) mod n.

  Definition rsa_prog : list (step rlo Z) :=
    [ Loc (fun lo => lo)                                                   (* n = self.n *)
    ; Acq
    ; Rd v_blinder (fun lo v => set_first lo (v =? 0))                     (* if not self.blinder: *)
    ; Wr v_unblinder (fun lo v => if l_first lo then l_rnd lo else v)      (*   self.unblinder = getRandomNumber(2, n) *)
    ; Rd v_unblinder (fun lo v => set_u lo v)                              (*   ... invMod(self.unblinder, n) ... *)
    ; Wr v_blinder (fun lo v => if l_first lo then powmod (invmod (l_u lo)) e else v)
    ; Rd v_unblinder (fun lo v => set_u lo v)                              (* unblinder = self.unblinder *)
    ; Rd v_blinder (fun lo v => set_b lo v)                                (* blinder = self.blinder *)
    ; Wr v_blinder (fun lo _ => (l_b lo * l_b lo) mod n)
    ; Wr v_unblinder (fun lo _ => (l_u lo * l_u lo) mod n)
    ; Rel
    ; Loc (fun lo => set_m lo ((l_m lo * l_b lo) mod n))                   (* blind *)
    ; Loc (fun lo => set_c lo (helper (l_m lo)))                           (* private operation, outside the lock *)
    ; Loc (fun lo => set_c lo ((l_c lo * l_u lo) mod n)) ].                (* unblind *)

  Definition rsa_thread (mr : Z * Z) : thread rlo Z :=
    {| t_lo := rlo_init (fst mr) (snd mr); t_prog := rsa_prog |}.

  Definition rsa_config (b0 u0 : Z) (calls : list (Z * Z)) : config rlo Z :=
    {| g_store := fun x => if x =? v_blinder then b0 else u0;
       g_lock := None;
       g_threads := map rsa_thread calls |}.

  (* blinder * unblinder^e = 1 (mod n) *)
  Definition binv (b u : Z) : Prop := (b * u ^ e) mod n = 1.
  (* state of the pair between calls: not yet created, or a valid pair *)
  Definition pair_ok (st : store Z) : Prop := st v_blinder = 0 \/ binv (st v_blinder) (st v_unblinder).
End Rsa.

(* lock events and racy accesses of a step program, in the extractor's vocabulary *)
Definition rsa_attr (x : Z) : string := if x =? v_blinder then "blinder"%string else "unblinder"%string.

Fixpoint rsa_trace (p : list (step rlo Z)) : list xstep :=
  match p with
  | [] => []
  | Acq :: p' => XAcq "_lock" :: rsa_trace p'
  | Rel :: p' => XRel "_lock" :: rsa_trace p'
  | Rd x _ :: p' => XRead (rsa_attr x) Ref :: rsa_trace p'
  | Wr x _ :: p' => XWrite (rsa_attr x) Ref :: rsa_trace p'
  | Loc _ :: p' => rsa_trace p'
  end.

(* a textbook-size key for the satisfiability example: p = 11, q = 23, lcm(p-1,q-1) = 110 *)
Definition toy_n : Z := 253.
Definition toy_e : Z := 3.
Definition toy_d : Z := 37.
Definition toy_helper (m : Z) : Z :=
  let s1 := (m ^ 7) mod 11 in           (* dP = d mod 10 *)
  let s2 := (m ^ 15) mod 23 in          (* dQ = d mod 22 *)
  let h := ((s1 - s2) * 1) mod 11 in    (* qInv = 23^-1 mod 11 = 1 *)
  s2 + 23 * h.
Definition toy_invmod (a : Z) : Z := (a ^ 109) mod 253.    (* a^(lcm(10,22)-1) *)
