(* C06: executable inclusion check (automaton vs regular expression) on the finite product,
   the search for deviating traces, and the list of known deviations.
   Definitions only.  Soundness of [check] is Proofs.C06_Incl.check_sound. *)
From Coq Require Import ZArith List Bool String.
From TV Require Import Model.C06_GateTypes Model.C06_HsOrder Spec.C06_HsGrammar.
Import ListNotations.

Definition big_fuel : nat := Z.to_nat 100000.

(* ------------------------------------------------------------------ equality tests *)
Definition bufk_eqb (a b : bufk) : bool :=
  match a, b with BEmpty, BEmpty | BUnknown, BUnknown | BPartial, BPartial => true | _, _ => false end.

Definition st_eqb (a b : st) : bool :=
  pos_eqb (pc a) (pc b) && bufk_eqb (buf a) (buf b) && Bool.eqb (gotc a) (gotc b) &&
  epoch_eqb (bep a) (bep b) && Bool.eqb (ed a) (ed b).

Definition implb' (a b : bool) : bool := negb a || b.
Infix "==>" := implb' (at level 55, right associativity).

Definition pair := (st * re)%type.
Definition pair_eqb (a b : pair) : bool := st_eqb (fst a) (fst b) && re_eqb (snd a) (snd b).
Definition mem (p : pair) (l : list pair) : bool := existsb (pair_eqb p) l.

(* states from which P_Done can no longer be reached *)
Definition dead (s : st) : bool :=
  match pc s with P_Abort _ | P_Post => true | _ => false end.

(* ------------------------------------------------------------------ the check *)
(* [stp] is the automaton's transition function.  R is a candidate simulation between
   automaton states and residuals of r0: it contains the initial pair, is closed under every
   symbol of A (unless the automaton state dies), and a completed automaton state is only ever
   paired with a nullable residual. *)
Definition ok_succ (stp : st -> sym -> st) (R : list pair) (q : st) (r : re) (a : sym) : bool :=
  let q' := stp q a in
  dead q' || mem (q', deriv a r) R.

Definition check (stp : st -> sym -> st) (q0 : st) (r0 : re) (A : list sym) (R : list pair) : bool :=
  mem (q0, r0) R &&
  forallb (fun p => (negb (is_done (fst p)) || nullable (snd p)) &&
                    forallb (ok_succ stp R (fst p) (snd p)) A) R.

(* candidate R: forward exploration (nothing is proved about it) *)
Fixpoint reach (fuel : nat) (stp : st -> sym -> st) (A : list sym)
               (todo seen : list pair) : list pair :=
  match fuel with
  | O => seen
  | S f =>
      match todo with
      | [] => seen
      | p :: todo' =>
          if mem p seen then reach f stp A todo' seen
          else
            let succ := flat_map (fun a =>
                           let q' := stp (fst p) a in
                           if dead q' then [] else [(q', deriv a (snd p))]) A in
            reach f stp A (succ ++ todo') (p :: seen)
      end
  end.

Definition included_by (stp : st -> sym -> st) (q0 : st) (r0 : re) (A : list sym) : bool :=
  check stp q0 r0 A (reach big_fuel stp A [(q0, r0)] []).

Definition stp_of (G : list gate_row) (c : cfg) : st -> sym -> st :=
  let t := gate_tab G c in fun s e => fst (step_t t c s e).

(* the faithful automaton against the grammar *)
Definition included (G : list gate_row) (c : cfg) : bool :=
  included_by (stp_of G c) (init c) (grammar c) Sigma.

(* ------------------------------------------------------------------ the ordering property *)
Definition included_order (G : list gate_row) (c : cfg) : bool :=
  included_by (stp_of G c) (init c) (ccs_fin_order c) Sigma.

(* ------------------------------------------------------------------ deviation search *)
Fixpoint reachp (fuel : nat) (stp : st -> sym -> st) (A : list sym)
                (todo : list (pair * list sym)) (seen : list (pair * list sym))
  : list (pair * list sym) :=
  match fuel with
  | O => seen
  | S f =>
      match todo with
      | [] => seen
      | (p, path) :: todo' =>
          if mem p (map fst seen) then reachp f stp A todo' seen
          else
            let succ := flat_map (fun a =>
                           let q' := stp (fst p) a in
                           if dead q' then [] else [((q', deriv a (snd p)), a :: path)]) A in
            reachp f stp A (todo' ++ succ) ((p, path) :: seen)
      end
  end.

(* a completing suffix from state q, if any (breadth first over automaton states) *)
Fixpoint to_done (fuel : nat) (stp : st -> sym -> st) (A : list sym)
                 (todo : list (st * list sym)) (seen : list st) : option (list sym) :=
  match fuel with
  | O => None
  | S f =>
      match todo with
      | [] => None
      | (q, path) :: todo' =>
          if is_done q then Some (rev path)
          else if existsb (st_eqb q) seen || dead q then to_done f stp A todo' seen
          else to_done f stp A (todo' ++ map (fun a => (stp q a, a :: path)) A) (q :: seen)
      end
  end.

Definition is_emp (r : re) : bool := match r with Emp => true | _ => false end.

(* every (position, symbol) at which the automaton leaves the expression although it can still
   complete, with one full witness trace each *)
Definition bad_edges_by (stp : st -> sym -> st) (q0 : st) (r0 : re) (A : list sym)
  : list (pos * sym * list sym) :=
  flat_map (fun pp =>
    let '((q, r), path) := pp in
    if is_emp r then [] else
    flat_map (fun a =>
      let q' := stp q a in
      let r' := deriv a r in
      if is_done q' then (if nullable r' then [] else [(pc q, a, rev (a :: path))])
      else if dead q' || negb (is_emp r') then []
      else match to_done big_fuel stp A [(q', [])] [] with
           | Some suffix => [(pc q, a, (rev (a :: path) ++ suffix)%list)]
           | None => []
           end) A)
  (reachp big_fuel stp A [((q0, r0), [])] []).

Definition bad_edges (G : list gate_row) (c : cfg) : list (pos * sym * list sym) :=
  bad_edges_by (stp_of G c) (init c) (grammar c) Sigma.

(* ------------------------------------------------------------------ witnesses and finite checks *)
Definition hs (e : epoch) (t : hst) : sym := (e, PH t true).
Definition ccs0 : sym := (E0, PCcs true).

Inductive devclass := DNstUnannounced | DNstSkipped | DSpanCcs12 | DCcsProtected13
                    | DCcsInterleaved13 | DUnalignedFirst13.

(* one trace per deviation class that tlslite-ng accepted before /repo commit 8fbaa01 (each
   completed the handshake of the then faithful automaton, was outside the grammar and was
   replayed live); kept as regression witnesses: all of them must abort now *)
Definition deviation_witnesses : list (devclass * cfg * list sym) := [
  (* server accepts a NewSessionTicket from the client *)
  (DNstUnannounced, sv12 KRsa false false false false false,
   [hs E0 CH; hs E0 CKE; hs E0 NST; ccs0; hs E1 Fin]);
  (* client accepts a NewSessionTicket that was not announced in ServerHello *)
  (DNstUnannounced, cl12 KRsa false false false,
   [hs E0 SH; hs E0 CertN; hs E0 SHD; hs E0 NST; ccs0; hs E1 Fin]);
  (* client accepts the omission of an announced NewSessionTicket *)
  (DNstSkipped, cl12 KEcdhe true false false,
   [hs E0 SH; hs E0 CertN; hs E0 SKE; hs E0 SHD; ccs0; hs E1 Fin]);
  (* <=1.2: Finished begins in an unprotected record before ChangeCipherSpec *)
  (DSpanCcs12, cl12 KRsa false false false,
   [hs E0 SH; hs E0 CertN; hs E0 SHD; (E0, PFrag); ccs0; hs E1 Fin]);
  (DSpanCcs12, sv12 KRsa false false false false false,
   [hs E0 CH; (E0, PH CKE false); (E0, PBufFrag); ccs0; hs E1 Fin]);
  (* 1.3: a protected ChangeCipherSpec is ignored *)
  (DCcsProtected13, cl13 KCert13 false false,
   [hs E0 SH; ccs0; hs E1 EE; (E1, PCcs true); hs E1 CertN; hs E1 CV; hs E1 Fin]);
  (DCcsProtected13, sv13 KCert13 false false false,
   [hs E0 CH; ccs0; (E1, PCcs true); hs E1 Fin]);
  (* 1.3: ChangeCipherSpec between the fragments of a handshake message is ignored *)
  (DCcsInterleaved13, cl13 KCert13 false false,
   [hs E0 SH; ccs0; hs E1 EE; (E1, PFrag); ccs0; hs E1 CertN; hs E1 CV; hs E1 Fin]);
  (DCcsInterleaved13, sv13 KCert13 false false false,
   [hs E0 CH; ccs0; (E1, PFrag); ccs0; hs E1 Fin]);
  (* 1.3 client: ServerHello need not end its record; the rest of the record is kept and
     completed by protected bytes *)
  (DUnalignedFirst13, cl13 KCert13 false false,
   [(E0, PH SH false); (E0, PBufFrag); ccs0; hs E1 EE; hs E1 CertN; hs E1 CV; hs E1 Fin])
].

(* 1.3 client: ServerHello, EncryptedExtensions, Certificate, CertificateVerify and Finished in
   one unprotected record are all accepted *)
Definition ord13_cfg : cfg := cl13 KCert13 false false.
Definition ord13_witness : list sym :=
  [(E0, PH SH false); (E0, PBufH EE false); (E0, PBufH CertN false); (E0, PBufH CV false);
   (E0, PBufH Fin true)].

Definition witness_rejected (G : list gate_row) (x : devclass * cfg * list sym) : bool :=
  let '(d, c, w) := x in negb (completes G c w) && negb (allowed c w).
Definition ord13_rejected (G : list gate_row) : bool :=
  negb (completes G ord13_cfg ord13_witness).

(* non-empty or empty application data offered at any handshake position *)
Definition app_syms : list sym := flat_map (fun e => [(e, PApp true); (e, PApp false)]) all_epoch.
Definition chk_noapp (G : list gate_row) (c : cfg) : bool :=
  let t := gate_tab G c in
  forallb (fun s => negb (handshaking s) ||
                    forallb (fun e => let s' := fst (step_t t c s e) in
                                      is_abort s' || (ed s && st_eqb s' s)) app_syms) all_st.

(* after completion no event leads back into a handshake position or to P_Done *)
Definition is_post (s : st) : bool := match pc s with P_Done | P_Post => true | _ => false end.
Definition post_or_abort (s : st) : bool := match pc s with P_Post | P_Abort _ => true | _ => false end.
Definition chk_post_closed (G : list gate_row) (c : cfg) : bool :=
  let t := gate_tab G c in
  forallb (fun s => negb (is_post s) ||
                    forallb (fun e => post_or_abort (fst (step_t t c s e))) Sigma) all_st.

(* the renegotiation trigger of the role, sent correctly protected after completion *)
Definition reneg_msg (c : cfg) : hst := match c_role c with Client => HReq | Server => CH end.
Definition chk_reneg (G : list gate_row) (c : cfg) : bool :=
  let t := gate_tab G c in
  forallb (fun s =>
    negb (is_post s) || negb (bufk_eqb (buf s) BEmpty) ||
    forallb (fun a =>
      let '(s', w) := step_t t c s (rd_at c (pc s), PH (reneg_msg c) a) in
      if c_v13 c
      then pos_eqb (pc s') (P_Abort R_unexpected) && match w with None => true | _ => false end
      else pos_eqb (pc s') P_Post && Bool.eqb (gotc s') (gotc s) &&
           match w with Some z => Z.eqb z 100 | None => false end) bools) all_st.

(* the early-data window: (a) every record that is processed -- anything but a dropped
   undecryptable record, a TLS 1.3 ChangeCipherSpec or bytes already buffered -- closes it, in
   particular the second ClientHello; (b) it is only ever open on a TLS 1.3 server whose first
   ClientHello offered early data, between that ClientHello and the next processed record;
   (c) outside the window a record that does not open aborts *)
Definition undec_sym (c : cfg) (s : st) (e : sym) : bool :=
  (negb (is_buf (snd e)) && negb (epoch_eqb (fst e) (rd_at c (pc s))) &&
   negb (v13_at c (pc s) && epoch_eqb (fst e) E0 && match snd e with PCcs _ => true | _ => false end))
  || (epoch_eqb (rd_at c (pc s)) E0 && match snd e with PApp _ => true | _ => false end).
Definition chk_window (G : list gate_row) (c : cfg) : bool :=
  let t := gate_tab G c in
  forallb (fun s => negb (handshaking s) ||
    forallb (fun e =>
      let s' := fst (step_t t c s e) in
      (* (c) *)
      (negb (undec_sym c s e) || ed s || is_abort s') &&
      (* (a) *)
      (negb (ed s') ||
       (ed s && (undec_sym c s e || is_buf (snd e) ||
                 match snd e with PCcs _ => true | _ => false end)) ||
       (c_early c && c_v13 c && match pc s, snd e with
                                | S_CH, PH CH _ => true | S_CH, PBufH CH _ => true | _, _ => false end) ||
       is_abort s') &&
      (* the second ClientHello closes it *)
      (match pc s, snd e with
       | S13_CH2, PH CH _ => epoch_eqb (fst e) E0 | _, _ => false end
       ==> (negb (ed s') || is_abort s'))) Sigma) all_st.

(* TLS 1.3: while a handshake message is partially received, any record of another type *)
Definition non_hs_payloads : list payload :=
  [PCcs true; PCcs false; PAlert AWarnNoCert; PAlert AWarn; PAlert AClose; PAlert AFatal;
   PApp true; PApp false; PHb].
Definition is_ccs_ok (p : payload) : bool := match p with PCcs true => true | _ => false end.
Definition chk_interleave (G : list gate_row) (c : cfg) : bool :=
  let t := gate_tab G c in
  forallb (fun s =>
    negb (handshaking s && v13_at c (pc s) && bufk_eqb (buf s) BPartial) ||
    forallb (fun e => forallb (fun p =>
       let s' := fst (step_t t c s (e, p)) in is_abort s' || (ed s && st_eqb s' s)) non_hs_payloads) all_epoch)
  all_st.
