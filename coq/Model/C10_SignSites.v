(* C10: the sign-then-verify pattern at the signing sites of keyexchange.py, tlsconnection.py and
   tlsrecordlayer.py.  The table `sign_sites` is regenerated from /repo on every run
   (Gen/C10_Tables.v, translator/units_c10.py); this file gives each row its meaning.
   The signing function is ARBITRARY (it may be faulty); so is the verification function.
   Definitions only. *)
From Coq Require Import ZArith List Bool String.
From TV Require Import Base.Prelude Gen.C10_Tables.
Import ListNotations.
Open Scope Z_scope.

Section Site.
  Variables Sig Data : Type.
  Variable sig_empty : Sig -> bool.            (* Python truthiness: `not signature` *)

  Inductive outcome :=
  | Emitted (s : Sig)            (* control reaches the statements that build/queue/send the message *)
  | InternalErrorAlert           (* self._sendError(AlertDescription.internal_error) : always raises *)
  | InternalErrorRaised.         (* raise TLSInternalError : handled (or not) by the caller, see raise_callers *)

  Definition fail_outcome (s : sign_site) (sg : Sig) : outcome :=
    match ss_fail s with
    | FailRaise => InternalErrorRaised
    | FailAlert => InternalErrorAlert
    | FailNone => Emitted sg
    end.

  (* What a site does, read off its extracted row.  ver_own is the verification under the SIGNER's
     own key, ver_other any other function; d the signed data, d_other any other data. *)
  Definition run_site (s : sign_site) (sign : Data -> Sig)
             (ver_own ver_other : Sig -> Data -> bool) (d d_other : Data) : outcome :=
    let sg := sign d in
    if ss_empty_check s && sig_empty sg then InternalErrorRaised else
    if negb (ss_assigned s && ss_verified s) then Emitted sg else
    let v := (if ss_same_key s then ver_own else ver_other) sg (if ss_same_data s then d else d_other) in
    if v then Emitted sg else fail_outcome s sg.
End Site.
Arguments Emitted {Sig} s.
Arguments InternalErrorAlert {Sig}.
Arguments InternalErrorRaised {Sig}.

(* a site whose row says: assigned, immediately verified with the matching method of the same key
   object on the same data, failing branch always diverges with an internal error *)
Definition site_checked (s : sign_site) : bool :=
  ss_assigned s && ss_verified s && ss_same_key s && ss_same_data s &&
  match ss_fail s with FailNone => false | _ => true end.

Definition site_id (s : sign_site) : string * string * string :=
  (ss_file s, ss_func s, ss_sign_fn s).

(* callers of raising helpers that pass a signature-hash argument / sign, and do not convert
   TLSInternalError into an alert *)
Definition unhandled_callers : list (string * string) :=
  map (fun r => match r with (h, f, _, _) => (h, f) end)
      (filter (fun r => match r with (_, _, handled, _) => negb handled end) raise_callers).
