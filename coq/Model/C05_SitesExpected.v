(* C05 -- the authentication program points the flows in Model/C05_Auth.v were written
   against: every verification call, offered-scheme check, Finished comparison, binder
   check, assignment to an identity variable and session.create(...) of tlsconnection.py,
   tlsrecordlayer.py, keyexchange.py, x509.py and handshakehelpers.py, in source order, with
   guard path and failure action.  Maintained by hand next to the model (initially written
   from the pinned tree); Props/C05.v demands that the table regenerated from /repo on every
   run (Gen/C05_Sites.v) is equal to it.  A row that moves, disappears, appears, changes its
   guard or stops aborting on failure breaks obligation auth_sites_as_modelled, and the
   model has to be re-read against the code before this table is updated.
   History: re-synchronised with /repo after fixes 61d7222 (new row: TLS 1.3 client compares the
   CertificateVerify scheme with the offered signature_algorithms when no delegated credential is
   used -> client13) and 11c0ed7 (guard of the srpUsername assignment now requires an SRP suite
   -> server12).  Re-synchronised with /repo 40ad8d2: the handshake wrapper's failure action now maps
   TLSIllegalParameterException / TLSDecodeError / TLSDecryptionFailed to alerts (6da5459 -> map_exn in
   the model); guard text of the TLS <= 1.2 client resumption branch changed (C13's subject).
   Re-synchronised with /repo 8fbaa01 (C06 rewrite of _getFinished): only the argument text of the two
   client-side _getFinished calls changed (new keyword expect_new_session_ticket); the Finished
   comparison row (verify_data, alert decrypt_error) and every assignment / session.create row are
   unchanged and in the same order.
   Re-synchronised with /repo 79180d8 (0bc7834): the wrapper's three protocol-exception handlers were
   merged into one (same mapping illegal_parameter / decode_error / decrypt_error, plus _shutdown when
   the alert cannot be sent): only the failure-action text of the `checker` row changed; map_exn in the
   model is unchanged.
   Extended (round-2 seeded change): every `check` row now carries the PROVENANCE of the local names
   used in the call, `{name<-binding | binding ...}` = all assignments / loop targets that bind the name
   before the call in source order, so that rebinding the object a verification receives (e.g. the
   certificate entry given to DelegatedCredential.verify) changes the table.
   Re-synchronised with /repo 19b1cb2: _ticket_to_session's session.create now takes the SRP user name
   from the ticket payload (identity flowing through TLS <= 1.2 tickets -> flow server12_resume and
   theorem srp_user_from_ticket_only_if_ticket_and_finished).
   Normalised (round 3, to survive behaviour-preserving rewrites): local names bound exactly once to a
   pure alias expression are replaced by that expression in all texts (and vanish from the provenance);
   else-guards are in negation normal form; in keyexchange.py / x509.py / handshakehelpers.py a branch
   ending in return / raise guards the statements after the `if`; provenance bindings are a sorted set.
   Re-synchronised with /repo 7ffe769: new compare row (TLS 1.3 client: CertificateVerify scheme must be in
   _sigHashesToList(settings, certList=serverCertChain) -> r_valid check in client13); assignments of
   self.session are rows now (d08ab2e binds self.session = session BEFORE the Finished exchange of a resumed
   handshake so that a failure invalidates it); guard text of the server chain assignment (edfc2c2). *)
From Coq Require Import List String.
Import ListNotations.
Open Scope string_scope.

(* (file, function, kind, text, guard path, on-failure) *)
Definition expected_sites : list (string * string * string * string * string * string) := [
  ("tlsconnection.py", "TLSConnection._handshakeClientAsyncHelper", "assign",
   "srpUsername = None",
   "", "-");
  ("tlsconnection.py", "TLSConnection._handshakeClientAsyncHelper", "assign",
   "clientCertChain = None",
   "", "-");
  ("tlsconnection.py", "TLSConnection._handshakeClientAsyncHelper", "assign",
   "srpUsername = srpParams",
   "srpParams", "-");
  ("tlsconnection.py", "TLSConnection._handshakeClientAsyncHelper", "assign",
   "clientCertChain = certParams",
   "certParams", "-");
  ("tlsconnection.py", "TLSConnection._handshakeClientAsyncHelper", "assign",
   "srpUsername = bytearray(b'GARBAGE')",
   "srpUsername and self.fault == Fault.badUsername", "-");
  ("tlsconnection.py", "TLSConnection._handshakeClientAsyncHelper", "assign",
   "serverCertChain = result",
   "", "-");
  ("tlsconnection.py", "TLSConnection._handshakeClientAsyncHelper", "assign",
   "clientCertChain = result",
   "", "-");
  ("tlsconnection.py", "TLSConnection._handshakeClientAsyncHelper", "assign",
   "self.session = Session()",
   "", "-");
  ("tlsconnection.py", "TLSConnection._handshakeClientAsyncHelper", "create",
   "self.session.create(srp=srpUsername, client=clientCertChain, server=serverCertChain)",
   "", "-");
  ("tlsconnection.py", "TLSConnection._clientTLS13Handshake", "assign",
   "delegated_credential = None",
   "", "-");
  ("tlsconnection.py", "TLSConnection._clientTLS13Handshake", "check",
   "KeyExchange.calcVerifyBytes((3, 4), srv_cert_verify_hh, signature_scheme, None, None, None, prfName, b'server') {srv_cert_verify_hh<-self._handshake_hash.copy(); signature_scheme<-certificate_verify.signatureAlgorithm; prfName<-self._getPRFParams(serverHello.cipher_suite)}",
   "not sr_psk", "-");
  ("tlsconnection.py", "TLSConnection._clientTLS13Handshake", "assign",
   "serverCertChain = result",
   "not sr_psk", "-");
  ("tlsconnection.py", "TLSConnection._clientTLS13Handshake", "check",
   "cert_ext.delegated_credential.verify(certificate.certificate_list[0], clientHello, certificate_verify) {certificate_verify<-result; cert_ext<-None | ext; certificate<-None | result}",
   "not sr_psk && cert_ext", "raise:TLSDecryptionFailed");
  ("tlsconnection.py", "TLSConnection._clientTLS13Handshake", "assign",
   "delegated_credential = cert_ext.delegated_credential",
   "not sr_psk && cert_ext", "-");
  ("tlsconnection.py", "TLSConnection._clientTLS13Handshake", "compare",
   "signature_scheme not in offered_ext.sigalgs",
   "not sr_psk && not cert_ext", "alert:illegal_parameter");
  ("tlsconnection.py", "TLSConnection._clientTLS13Handshake", "compare",
   "signature_scheme not in self._sigHashesToList(settings, certList=serverCertChain, version=(3, 4))",
   "not sr_psk && not cert_ext", "alert:illegal_parameter");
  ("tlsconnection.py", "TLSConnection._clientTLS13Handshake", "check",
   "method(certificate_verify.signature, signature_context, pad_type, hash_name, salt_len) {method<-publicKey.hashAndVerify | publicKey.verify; signature_context<-KeyExchange.calcVerifyBytes((3, 4), srv_cert_verify_hh, s...; pad_type<-None | SignatureScheme.getPadding(scheme); hash_name<-'intrinsic' | HashAlgorithm.toRepr(signature_scheme[0]) | SignatureScheme.getHash(scheme); salt_len<-None | getattr(hashlib, hash_name)().digest_size; certificate_verify<-result; publicKey<-delegated_credential.cred.pub_key | result}",
   "not sr_psk", "raise:TLSDecryptionFailed");
  ("tlsconnection.py", "TLSConnection._clientTLS13Handshake", "compare",
   "finished.verify_data != verify_data",
   "", "raise:TLSDecryptionFailed");
  ("tlsconnection.py", "TLSConnection._clientTLS13Handshake", "check",
   "KeyExchange.calcVerifyBytes((3, 4), self._handshake_hash, signature_scheme, None, None, None, prfName, b'client') {signature_scheme<-certificate_verify.signatureAlgorithm | delegated_credential.cred.dc_cert_verify_algorithm | getFirstMatching(availSigAlgs, certificate_request.suppor... | getattr(SignatureScheme, scheme); prfName<-self._getPRFParams(serverHello.cipher_suite)}",
   "certificate_request && clientCertChain and privateKey", "-");
  ("tlsconnection.py", "TLSConnection._clientTLS13Handshake", "check",
   "ver_func(signature, signature_context, pad_type, hash_name, salt_len) {ver_func<-privateKey.hashAndVerify | privateKey.verify; signature<-sig_func(signature_context, pad_type, hash_name, salt_len); signature_context<-KeyExchange.calcVerifyBytes((3, 4), self._handshake_hash,... | KeyExchange.calcVerifyBytes((3, 4), srv_cert_verify_hh, s...; pad_type<-None | SignatureScheme.getPadding(scheme); hash_name<-'intrinsic' | HashAlgorithm.toRepr(signature_scheme[0]) | SignatureScheme.getHash(scheme); salt_len<-None | getattr(hashlib, hash_name)().digest_size}",
   "certificate_request && clientCertChain and privateKey", "alert:internal_error");
  ("tlsconnection.py", "TLSConnection._clientTLS13Handshake", "assign",
   "self.session = Session()",
   "", "-");
  ("tlsconnection.py", "TLSConnection._clientTLS13Handshake", "create",
   "self.session.create(srp=None, client=clientCertChain, server=certificate.cert_chain if certificate else None, delegated_credential=delegated_credential)",
   "", "-");
  ("tlsconnection.py", "TLSConnection._clientResume", "assign",
   "self.session = session",
   "session and (session.sessionID or session.tls_1_0_tickets) and serverHello.session_id a...", "-");
  ("tlsconnection.py", "TLSConnection._clientResume", "check",
   "self._getFinished(session.masterSecret, session.cipherSuite, expect_new_session_ticket=ticket_announced) {ticket_announced<-serverHello.getExtension(ExtensionType.session_ticket) is...}",
   "session and (session.sessionID or session.tls_1_0_tickets) and serverHello.session_id a...", "-");
  ("tlsconnection.py", "TLSConnection._clientResume", "assign",
   "self.session = session",
   "session and (session.sessionID or session.tls_1_0_tickets) and serverHello.session_id a...", "-");
  ("tlsconnection.py", "TLSConnection._clientKeyExchange", "assign",
   "serverCertChain = None",
   "", "-");
  ("tlsconnection.py", "TLSConnection._clientKeyExchange", "assign",
   "serverCertChain = result",
   "cipherSuite in CipherSuite.certAllSuites or cipherSuite in CipherSuite.ecdheEcdsaSuites...", "-");
  ("tlsconnection.py", "TLSConnection._clientKeyExchange", "check",
   "KeyExchange.verifyServerKeyExchange(serverKeyExchange, publicKey, clientRandom, serverRandom, valid_sig_algs) {serverKeyExchange<-None | result; publicKey<-None | result; valid_sig_algs<-self._sigHashesToList(settings, certList=serverCertChain)}",
   "cipherSuite in CipherSuite.certAllSuites or cipherSuite in CipherSuite.ecdheEcdsaSuites... && serverKeyExchange", "-|except TLSIllegalParameterException->alert:illegal_parameter;TLSDecryptionFailed->alert:decrypt_error");
  ("tlsconnection.py", "TLSConnection._clientKeyExchange", "assign",
   "clientCertChain = None",
   "not certificateRequest", "-");
  ("tlsconnection.py", "TLSConnection._clientFinished", "check",
   "self._getFinished(masterSecret, cipherSuite, nextProto=nextProto, expect_new_session_ticket=expect_new_session_ticket) {masterSecret<-self._calculate_master_secret(premasterSecret, cipherSuit...}",
   "", "-");
  ("tlsconnection.py", "TLSConnection._handshakeServerAsyncHelper", "assign",
   "clientCertChain = None",
   "", "-");
  ("tlsconnection.py", "TLSConnection._handshakeServerAsyncHelper", "assign",
   "clientCertChain = result",
   "cipherSuite not in CipherSuite.srpAllSuites && cipherSuite in CipherSuite.certSuites or cipherSuite in CipherSuite.dheCertSuites or ci...", "-");
  ("tlsconnection.py", "TLSConnection._handshakeServerAsyncHelper", "assign",
   "self.session = Session()",
   "", "-");
  ("tlsconnection.py", "TLSConnection._handshakeServerAsyncHelper", "assign",
   "serverCertChain = cert_chain",
   "cipherSuite in CipherSuite.certAllSuites or cipherSuite in CipherSuite.ecdheEcdsaSuites...", "-");
  ("tlsconnection.py", "TLSConnection._handshakeServerAsyncHelper", "assign",
   "serverCertChain = None",
   "not (cipherSuite in CipherSuite.certAllSuites or cipherSuite in CipherSuite.ecdheEcdsaSuites ...", "-");
  ("tlsconnection.py", "TLSConnection._handshakeServerAsyncHelper", "assign",
   "srpUsername = None",
   "", "-");
  ("tlsconnection.py", "TLSConnection._handshakeServerAsyncHelper", "assign",
   "srpUsername = clientHello.srp_username.decode('utf-8')",
   "clientHello.srp_username and cipherSuite in CipherSuite.srpAllSuites", "-");
  ("tlsconnection.py", "TLSConnection._handshakeServerAsyncHelper", "create",
   "self.session.create(srp=srpUsername, client=clientCertChain, server=serverCertChain)",
   "", "-");
  ("tlsconnection.py", "TLSConnection._serverTLS13Handshake", "assign",
   "resumed_client_cert_chain = None",
   "", "-");
  ("tlsconnection.py", "TLSConnection._serverTLS13Handshake", "assign",
   "resumed_client_cert_chain = ticket.client_cert_chain",
   "psks and (PskKeyExchangeMode.psk_dhe_ke in psk_types.modes or PskKeyExchangeMode.psk_ke... && loop (i, ident) && ticket", "-");
  ("tlsconnection.py", "TLSConnection._serverTLS13Handshake", "check",
   "HandshakeHelpers.verify_binder(clientHello, self._pre_client_hello_handshake_hash, selected_psk, psk, psk_hash, external) {selected_psk<-None | i; psk<-None | match[0][1]; psk_hash<-match[0][2] if len(match[0]) > 2 else 'sha256'; external<-False | True}",
   "psks and (PskKeyExchangeMode.psk_dhe_ke in psk_types.modes or PskKeyExchangeMode.psk_ke... && loop (i, ident)", "-|except TLSIllegalParameterException->alert:illegal_parameter");
  ("tlsconnection.py", "TLSConnection._serverTLS13Handshake", "assign",
   "delegated_credential = None",
   "", "-");
  ("tlsconnection.py", "TLSConnection._serverTLS13Handshake", "assign",
   "delegated_credential = None",
   "", "-");
  ("tlsconnection.py", "TLSConnection._serverTLS13Handshake", "assign",
   "delegated_credential = del_cred",
   "selected_psk is None", "-");
  ("tlsconnection.py", "TLSConnection._serverTLS13Handshake", "check",
   "KeyExchange.calcVerifyBytes((3, 4), self._handshake_hash, signature_scheme, None, None, None, prf_name, b'server') {signature_scheme<-dc_sig_scheme | getattr(SignatureScheme, scheme); prf_name<-self._getPRFParams(cipherSuite)}",
   "selected_psk is None", "-");
  ("tlsconnection.py", "TLSConnection._serverTLS13Handshake", "check",
   "ver_func(signature, signature_context, padType, hashName, saltLen) {ver_func<-privateKey.hashAndVerify | privateKey.verify; signature<-sig_func(signature_context, padType, hashName, saltLen); signature_context<-KeyExchange.calcVerifyBytes((3, 4), self._handshake_hash,...; padType<-None | SignatureScheme.getPadding(scheme); hashName<-'intrinsic' | HashAlgorithm.toRepr(signature_scheme[0]) | SignatureScheme.getHash(scheme); saltLen<-None | getattr(hashlib, hashName)().digest_size; privateKey<-dc_key}",
   "selected_psk is None", "alert:internal_error");
  ("tlsconnection.py", "TLSConnection._serverTLS13Handshake", "assign",
   "client_cert_chain = None",
   "", "-");
  ("tlsconnection.py", "TLSConnection._serverTLS13Handshake", "assign",
   "client_cert_chain = client_certificate.cert_chain",
   "reqCert and selected_psk is None", "-");
  ("tlsconnection.py", "TLSConnection._serverTLS13Handshake", "compare",
   "signature_scheme not in valid_sig_algs",
   "client_cert_chain and client_cert_chain.getNumCerts()", "alert:illegal_parameter");
  ("tlsconnection.py", "TLSConnection._serverTLS13Handshake", "check",
   "KeyExchange.calcVerifyBytes((3, 4), cli_cert_verify_hh, signature_scheme, None, None, None, prf_name, b'client') {cli_cert_verify_hh<-self._handshake_hash.copy(); signature_scheme<-certificate_verify.signatureAlgorithm | dc_sig_scheme | getattr(SignatureScheme, scheme); prf_name<-self._getPRFParams(cipherSuite)}",
   "client_cert_chain and client_cert_chain.getNumCerts()", "-");
  ("tlsconnection.py", "TLSConnection._serverTLS13Handshake", "check",
   "ver_func(certificate_verify.signature, signature_context, pad_type, hash_name, salt_len) {ver_func<-privateKey.hashAndVerify | privateKey.verify | public_key.hashAndVerify | public_key.verify; signature_context<-KeyExchange.calcVerifyBytes((3, 4), cli_cert_verify_hh, s... | KeyExchange.calcVerifyBytes((3, 4), self._handshake_hash,...; pad_type<-None | SignatureScheme.getPadding(scheme); hash_name<-'intrinsic' | HashAlgorithm.toRepr(signature_scheme[0]) | SignatureScheme.getHash(scheme); salt_len<-None | getattr(hashlib, hash_name)().digest_size; certificate_verify<-CertificateVerify(self.version) | result; privateKey<-dc_key; public_key<-result}",
   "client_cert_chain and client_cert_chain.getNumCerts()", "alert:decrypt_error");
  ("tlsconnection.py", "TLSConnection._serverTLS13Handshake", "compare",
   "cl_finished.verify_data != cl_verify_data",
   "", "alert:decrypt_error");
  ("tlsconnection.py", "TLSConnection._serverTLS13Handshake", "assign",
   "self.session = Session()",
   "", "-");
  ("tlsconnection.py", "TLSConnection._serverTLS13Handshake", "assign",
   "client_cert_chain = resumed_client_cert_chain",
   "not client_cert_chain and resumed_client_cert_chain", "-");
  ("tlsconnection.py", "TLSConnection._serverTLS13Handshake", "create",
   "self.session.create(srp=bytearray(b''), client=client_cert_chain, server=serverCertChain, delegated_credential=delegated_credential)",
   "", "-");
  ("tlsconnection.py", "TLSConnection._ticket_to_session", "create",
   "session.create(srp=ticket.srp_username.decode('utf-8') if ticket.srp_username else '', client=ticket.client_cert_chain, server=None)",
   "", "-");
  ("tlsconnection.py", "TLSConnection._serverGetClientHello", "assign",
   "self.session = session",
   "clientHello.session_id and sessionCache or (ticket_ext and ticket_ext.ticket) && session", "-");
  ("tlsconnection.py", "TLSConnection._serverGetClientHello", "check",
   "self._getFinished(session.masterSecret, session.cipherSuite) {session<-None | cached | self._ticket_to_session(settings, ticket_ext) | sessionCache[clientHello.session_id]}",
   "clientHello.session_id and sessionCache or (ticket_ext and ticket_ext.ticket) && session", "-");
  ("tlsconnection.py", "TLSConnection._serverGetClientHello", "assign",
   "self.session = session",
   "clientHello.session_id and sessionCache or (ticket_ext and ticket_ext.ticket) && session", "-");
  ("tlsconnection.py", "TLSConnection._server_select_certificate", "compare",
   "client_sigalgs is not None",
   "", "continue");
  ("tlsconnection.py", "TLSConnection._server_select_certificate", "compare",
   "client_sigalgs is not None",
   "client_sigalgs is None", "continue");
  ("tlsconnection.py", "TLSConnection._server_select_certificate", "compare",
   "cert.x509List[i].sigalg not in client_sigalgs",
   "loop (cert, key) && cert && loop i && cert.x509List[i].issuer != cert.x509List[i].subject", "continue");
  ("tlsconnection.py", "TLSConnection._serverCertKeyExchange", "assign",
   "clientCertChain = None",
   "", "-");
  ("tlsconnection.py", "TLSConnection._serverCertKeyExchange", "assign",
   "clientCertChain = clientCertificate.cert_chain",
   "reqCert && self.version == (3, 0) && not isinstance(msg, Alert) && isinstance(msg, Certificate) && clientCertificate.cert_chain and clientCertificate.cert_chain.getNumCerts() != 0", "-");
  ("tlsconnection.py", "TLSConnection._serverCertKeyExchange", "assign",
   "clientCertChain = clientCertificate.cert_chain",
   "reqCert && self.version != (3, 0) && self.version in ((3, 1), (3, 2), (3, 3)) && clientCertificate.cert_chain and clientCertificate.cert_chain.getNumCerts() != 0", "-");
  ("tlsconnection.py", "TLSConnection._serverCertKeyExchange", "compare",
   "certificateVerify.signatureAlgorithm not in valid_sig_algs",
   "clientCertChain && self.version == (3, 3)", "alert:illegal_parameter");
  ("tlsconnection.py", "TLSConnection._serverCertKeyExchange", "check",
   "KeyExchange.calcVerifyBytes(self.version, cvhh, signatureAlgorithm, premasterSecret, clientHello.random, serverHello.random, key_type=clientCertCha... {cvhh<-self._certificate_verify_handshake_hash; signatureAlgorithm<-(HashAlgorithm.sha1, SignatureAlgorithm.ecdsa) | None | certificateVerify.signatureAlgorithm; premasterSecret<-keyExchange.processClientKeyExchange(clientKeyExchange); clientCertChain<-None | clientCertificate.cert_chain}",
   "clientCertChain", "-");
  ("tlsconnection.py", "TLSConnection._serverCertKeyExchange", "check",
   "ver_func(certificateVerify.signature, verify_bytes, padding, hash_name, salt_len) {ver_func<-public_key.hashAndVerify | public_key.verify; verify_bytes<-KeyExchange.calcVerifyBytes(self.version, cvhh, signature... | verify_bytes[:public_key.public_key.curve.baselen]; padding<-'pkcs1' | None | SignatureScheme.getPadding(scheme); hash_name<-'intrinsic' | HashAlgorithm.toRepr(signatureAlgorithm[0]) | HashAlgorithm.toStr(signatureAlgorithm[0]) | None | SignatureScheme.getHash(scheme); salt_len<-0 | None | getattr(hashlib, hash_name)().digest_size; certificateVerify<-result; public_key<-result}",
   "clientCertChain", "alert:decrypt_error");
  ("tlsconnection.py", "TLSConnection._serverFinished", "check",
   "self._getFinished(masterSecret, cipherSuite, expect_next_protocol=nextProtos is not None) {masterSecret<-self._calculate_master_secret(premasterSecret, cipherSuit...}",
   "", "-");
  ("tlsconnection.py", "TLSConnection._getFinished", "compare",
   "finished.verify_data != verifyData",
   "", "alert:decrypt_error");
  ("tlsconnection.py", "TLSConnection._handshakeWrapperAsync", "check",
   "checker(self)",
   "checker", "-|except TLSAuthenticationError->reraise|except GeneratorExit->reraise;TLSAlert->reraise;(TLSIllegalParameterException, TLSDecodeError, ...->alert:descr;any->reraise");
  ("tlsconnection.py", "TLSConnection._pickServerKeyExchangeSig", "compare",
   "hashAndAlgsExt.sigalgs is None",
   "", "continue");
  ("tlsconnection.py", "TLSConnection._pickServerKeyExchangeSig", "compare",
   "schemeID in hashAndAlgsExt.sigalgs",
   "loop (certs, key) && loop schemeID", "continue");
  ("tlsrecordlayer.py", "TLSRecordLayer.__init__", "assign",
   "self.session = None",
   "", "-");
  ("tlsrecordlayer.py", "TLSRecordLayer._handle_pha", "check",
   "KeyExchange.calcVerifyBytes((3, 4), handshake_context, sig_scheme, None, None, None, prf_name, b'client') {handshake_context<-self._first_handshake_hashes.copy(); sig_scheme<-getFirstMatching(avail_sig_algs, cert_request.supported_s... | getattr(SignatureScheme, scheme); prf_name<-'sha256' | 'sha384'}",
   "cert.x509List and p_key", "-");
  ("tlsrecordlayer.py", "TLSRecordLayer._handle_pha", "check",
   "ver_func(signature, signature_context, pad_type, hash_name, salt_len) {ver_func<-p_key.hashAndVerify | p_key.verify; signature<-sig_func(signature_context, pad_type, hash_name, salt_len); signature_context<-KeyExchange.calcVerifyBytes((3, 4), handshake_context, si...; pad_type<-None | SignatureScheme.getPadding(scheme); hash_name<-'intrinsic' | HashAlgorithm.toRepr(sig_scheme[0]) | SignatureScheme.getHash(scheme); salt_len<-None | getattr(hashlib, hash_name)().digest_size; p_key<-self._client_keypair}",
   "cert.x509List and p_key", "alert:internal_error");
  ("tlsrecordlayer.py", "TLSRecordLayer._handle_srv_pha", "compare",
   "cert_verify.signatureAlgorithm not in cr.supported_signature_algs",
   "cert.cert_chain", "alert:illegal_parameter");
  ("tlsrecordlayer.py", "TLSRecordLayer._handle_srv_pha", "compare",
   "cert_verify.signatureAlgorithm not in avail_sig_algs",
   "cert.cert_chain", "alert:illegal_parameter");
  ("tlsrecordlayer.py", "TLSRecordLayer._handle_srv_pha", "check",
   "KeyExchange.calcVerifyBytes((3, 4), handshake_context, sig_scheme, None, None, None, prf_name, b'client') {handshake_context<-self._first_handshake_hashes.copy(); sig_scheme<-getattr(SignatureScheme, scheme); prf_name<-'sha256' | 'sha384'}",
   "cert.cert_chain", "-");
  ("tlsrecordlayer.py", "TLSRecordLayer._handle_srv_pha", "check",
   "ver_func(cert_verify.signature, signature_context, pad_type, hash_name, salt_len) {ver_func<-cert.cert_chain.getEndEntityPublicKey().hashAndVerify | cert.cert_chain.getEndEntityPublicKey().verify; signature_context<-KeyExchange.calcVerifyBytes((3, 4), handshake_context, si...; pad_type<-None | SignatureScheme.getPadding(scheme); hash_name<-'intrinsic' | HashAlgorithm.toRepr(sig_scheme[0]) | SignatureScheme.getHash(scheme); salt_len<-None | getattr(hashlib, hash_name)().digest_size; cert_verify<-result}",
   "cert.cert_chain", "alert:decrypt_error");
  ("tlsrecordlayer.py", "TLSRecordLayer._handle_srv_pha", "compare",
   "finished.verify_data != verify_data",
   "", "alert:decrypt_error");
  ("tlsrecordlayer.py", "TLSRecordLayer._handle_srv_pha", "assign",
   "self.session.clientCertChain = cert.cert_chain",
   "", "-");
  ("keyexchange.py", "KeyExchange._tls12_verify_ecdsa_SKE", "check",
   "publicKey.verify(serverKeyExchange.signature, hashBytes, padding=None, hashAlg=hashName, saltLen=None) {hashBytes<-hashBytes[:publicKey.public_key.curve.baselen] | serverKeyExchange.hash(clientRandom, serverRandom); hashName<-HashAlgorithm.toRepr(serverKeyExchange.hashAlg)}",
   "hashName", "raise:TLSDecryptionFailed");
  ("keyexchange.py", "KeyExchange._tls12_verify_eddsa_ske", "check",
   "public_key.hashAndVerify(server_key_exchange.signature, hash_bytes) {hash_bytes<-server_key_exchange.hash(client_random, server_random)}",
   "server_key_exchange.signature", "raise:TLSDecryptionFailed");
  ("keyexchange.py", "KeyExchange._tls12_verify_dsa_SKE", "check",
   "publicKey.verify(serverKeyExchange.signature, hashBytes) {hashBytes<-serverKeyExchange.hash(clientRandom, serverRandom)}",
   "", "raise:TLSDecryptionFailed");
  ("keyexchange.py", "KeyExchange._tls12_verify_SKE", "check",
   "KeyExchange._tls12_verify_eddsa_ske(serverKeyExchange, publicKey, clientRandom, serverRandom, validSigAlgs)",
   "(serverKeyExchange.hashAlg, serverKeyExchange.signAlg) in validSigAlgs && (serverKeyExchange.hashAlg, serverKeyExchange.signAlg) in (SignatureScheme.ed25519, Sig...", "-");
  ("keyexchange.py", "KeyExchange._tls12_verify_SKE", "check",
   "KeyExchange._tls12_verify_ecdsa_SKE(serverKeyExchange, publicKey, clientRandom, serverRandom, validSigAlgs)",
   "(serverKeyExchange.hashAlg, serverKeyExchange.signAlg) in validSigAlgs && (serverKeyExchange.hashAlg, serverKeyExchange.signAlg) not in (SignatureScheme.ed25519, Signa... && serverKeyExchange.signAlg == SignatureAlgorithm.ecdsa", "-");
  ("keyexchange.py", "KeyExchange._tls12_verify_SKE", "check",
   "KeyExchange._tls12_verify_dsa_SKE(serverKeyExchange, publicKey, clientRandom, serverRandom, validSigAlgs)",
   "(serverKeyExchange.hashAlg, serverKeyExchange.signAlg) in validSigAlgs && (serverKeyExchange.hashAlg, serverKeyExchange.signAlg) not in (SignatureScheme.ed25519, Signa... && serverKeyExchange.signAlg != SignatureAlgorithm.ecdsa && serverKeyExchange.signAlg == SignatureAlgorithm.dsa", "-");
  ("keyexchange.py", "KeyExchange._tls12_verify_SKE", "check",
   "publicKey.verify(serverKeyExchange.signature, hashBytes, padding=padType, hashAlg=hashName, saltLen=saltLen) {hashBytes<-serverKeyExchange.hash(clientRandom, serverRandom); padType<-'pkcs1' | SignatureScheme.getPadding(scheme); hashName<-HashAlgorithm.toRepr(serverKeyExchange.hashAlg) | SignatureScheme.getHash(scheme); saltLen<-0 | getattr(hashlib, hashName)().digest_size}",
   "(serverKeyExchange.hashAlg, serverKeyExchange.signAlg) in validSigAlgs && (serverKeyExchange.hashAlg, serverKeyExchange.signAlg) not in (SignatureScheme.ed25519, Signa... && serverKeyExchange.signAlg != SignatureAlgorithm.ecdsa && serverKeyExchange.signAlg != SignatureAlgorithm.dsa && serverKeyExchange.signature", "raise:TLSDecryptionFailed");
  ("keyexchange.py", "KeyExchange.verifyServerKeyExchange", "check",
   "publicKey.verify(serverKeyExchange.signature, hashBytes) {hashBytes<-serverKeyExchange.hash(clientRandom, serverRandom)}",
   "serverKeyExchange.version < (3, 3) && serverKeyExchange.signature", "raise:TLSDecryptionFailed");
  ("keyexchange.py", "KeyExchange.verifyServerKeyExchange", "check",
   "KeyExchange._tls12_verify_SKE(serverKeyExchange, publicKey, clientRandom, serverRandom, validSigAlgs)",
   "serverKeyExchange.version >= (3, 3)", "-");
  ("x509.py", "DelegatedCredential.verify", "compare",
   "self.cred.dc_cert_verify_algorithm not in dc_sig_list.sigalgs",
   "", "raise:TLSIllegalParameterException");
  ("x509.py", "DelegatedCredential.verify", "compare",
   "self.algorithm not in sig_list.sigalgs",
   "self.cred.dc_cert_verify_algorithm in dc_sig_list.sigalgs", "raise:TLSIllegalParameterException");
  ("x509.py", "DelegatedCredential.verify", "compare",
   "dc_cert_verify_algorithm != cert_verify.signatureAlgorithm",
   "self.cred.dc_cert_verify_algorithm in dc_sig_list.sigalgs && self.algorithm in sig_list.sigalgs", "raise:TLSIllegalParameterException");
  ("x509.py", "DelegatedCredential.verify", "check",
   "DelegatedCredential.compute_certificate_dc_sig_context(certificate_entry.certificate.bytes, self.cred.bytes, self.algorithm)",
   "self.cred.dc_cert_verify_algorithm in dc_sig_list.sigalgs && self.algorithm in sig_list.sigalgs && dc_cert_verify_algorithm == cert_verify.signatureAlgorithm", "-");
  ("x509.py", "DelegatedCredential.verify", "check",
   "method(self.signature, sig_context, pad_type, hash_name, salt_len) {method<-certificate_entry.certificate.publicKey.hashAndVerify; sig_context<-DelegatedCredential.compute_certificate_dc_sig_context(ce...; pad_type<-None | SignatureScheme.getPadding(scheme); hash_name<-'intrinsic' | HashAlgorithm.toRepr(sig_scheme[0]) | SignatureScheme.getHash(scheme); salt_len<-None | getattr(hashlib, hash_name)().digest_size}",
   "self.cred.dc_cert_verify_algorithm in dc_sig_list.sigalgs && self.algorithm in sig_list.sigalgs && dc_cert_verify_algorithm == cert_verify.signatureAlgorithm", "raise:TLSDecryptionFailed");
  ("handshakehelpers.py", "HandshakeHelpers.update_binders", "check",
   "HandshakeHelpers._calc_binder(binder_hash, psk, hh, external) {binder_hash<-'sha256' if len(res_master_secret) == 32 else 'sha384' | config[2] if len(config) > 2 else 'sha256'; psk<-HandshakeHelpers.calc_res_binder_psk(iden, res_master_sec... | config[1]; hh<-handshake_hashes.copy(); external<-False | True}",
   "isinstance(ext, PreSharedKeyExtension) && not (tickets and (not res_master_secret)) && loop (i, iden)", "-");
  ("handshakehelpers.py", "HandshakeHelpers.verify_binder", "check",
   "HandshakeHelpers._calc_binder(prf, secret, hh, external) {hh<-handshake_hashes.copy()}",
   "isinstance(ext, PreSharedKeyExtension)", "-");
  ("handshakehelpers.py", "HandshakeHelpers.verify_binder", "check",
   "ct_compare_digest(binder, ext.binders[position]) {binder<-HandshakeHelpers._calc_binder(prf, secret, hh, external); ext<-client_hello.extensions[-1]}",
   "isinstance(ext, PreSharedKeyExtension)", "raise:TLSIllegalParameterException")
].


Definition row_eqb (a b : string * string * string * string * string * string) : bool :=
  let '(a1, a2, a3, a4, a5, a6) := a in
  let '(b1, b2, b3, b4, b5, b6) := b in
  (String.eqb a1 b1 && String.eqb a2 b2 && String.eqb a3 b3 && String.eqb a4 b4 && String.eqb a5 b5 && String.eqb a6 b6)%bool.

(* the delegated-credential verification must receive entry 0 of the certificate list (the local
   cert_entry, bound exactly once, is shown as the expression it names; a second binding of it would
   bring the name and both bindings back into the row) *)
Definition dc_verify_row : string * string * string * string * string * string :=
  ("tlsconnection.py", "TLSConnection._clientTLS13Handshake", "check",
   "cert_ext.delegated_credential.verify(certificate.certificate_list[0], clientHello, certificate_verify) {certificate_verify<-result; cert_ext<-None | ext; certificate<-None | result}",
   "not sr_psk && cert_ext", "raise:TLSDecryptionFailed").
