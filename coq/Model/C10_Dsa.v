(* C10: integer-level model of tlslite/utils/python_dsakey.py Python_DSAKey.sign / verify
   (the DER wrapping of (r, s) is python-ecdsa's encode_sequence/remove_sequence: external).
   k = getRandomNumber(1, q-1) and the modular inverses computed by cryptomath.invMod are
   inputs (invMod returns 0 when there is no inverse).  Definitions only. *)
From Coq Require Import ZArith List Bool.
From TV Require Import Base.Prelude Model.C10_RsaMath Model.C10_RsaSig.
Import ListNotations.
Open Scope Z_scope.

Record dsa_key := { dk_p : Z; dk_q : Z; dk_g : Z; dk_x : Z; dk_y : Z }.

(* python_dsakey.py:106-110 and 140-145: leftmost N bits of the hash *)
Definition dsa_digest (q : Z) (data : list Z) : Z :=
  let N := numBits q in
  let digest_len := zlen data * 8 in
  let digest := bytesToNumber data in
  if N <? digest_len then Z.shiftr digest (digest_len - N) else digest.

(* python_dsakey.py:112-119; kinv = invMod(k, q) *)
Definition dsa_sign (key : dsa_key) (data : list Z) (k kinv : Z) : Z * Z :=
  let digest := dsa_digest (dk_q key) data in
  let r := (powmod (dk_g key) k (dk_p key)) mod (dk_q key) in
  let s := (kinv * (digest + dk_x key * r)) mod (dk_q key) in
  (r, s).

(* python_dsakey.py:162-170; w = invMod(s, q) *)
Definition dsa_verify (key : dsa_key) (r s : Z) (data : list Z) (w : Z) : bool :=
  let digest := dsa_digest (dk_q key) data in
  if (0 <? r) && (r <? dk_q key) && (0 <? s) && (s <? dk_q key) then
    let u1 := (digest * w) mod (dk_q key) in
    let u2 := (r * w) mod (dk_q key) in
    let v := ((powmod (dk_g key) u1 (dk_p key) * powmod (dk_y key) u2 (dk_p key)) mod (dk_p key)) mod (dk_q key) in
    r =? v
  else false.

(* python_dsakey.py:150-166 (since /repo ab7872a): the signature bytes are decoded with python-ecdsa's
   remove_sequence / remove_integer (external: the oracle `decode`, None = UnexpectedDER / IndexError /
   ValueError or trailing bytes); an empty or malformed signature is rejected, never an exception *)
Definition dsa_verify_bytes (decode : list Z -> option (Z * Z)) (key : dsa_key) (sig data : list Z)
           (winv : Z -> Z) : bool :=
  match sig with
  | [] => false
  | _ => match decode sig with
         | None => false
         | Some (r, s) => dsa_verify key r s data (winv s)
         end
  end.

(* python_dsakey.py generate_qp / generate (since /repo b7d3c31): q = getRandomPrime(N);
   p = 2*k*q + 1 for random k until p has L bits and isPrime(p); g = index^((p-1)//q) mod p
   (retried while g = 1); x random; y = g^x mod p.  The random draws are inputs. *)
Definition dsa_gen_p (q k : Z) : Z := 2 * k * q + 1.
Definition dsa_gen_g (p q index : Z) : Z := powmod index ((p - 1) / q) p.
Definition dsa_gen_key (q k index x : Z) : dsa_key :=
  let p := dsa_gen_p q k in
  let g := dsa_gen_g p q index in
  {| dk_p := p; dk_q := q; dk_g := g; dk_x := x; dk_y := powmod g x p |}.
