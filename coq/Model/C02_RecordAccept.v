(* C02 -- what a receiver accepts, on top of Model/C01_RecordPipe.v (definitions only).

   * protect_with: the sender's protection with the free choices a conforming peer has
     (CBC padding, the plaintext of the explicit-IV block, the explicit AEAD nonce, the
     amount of TLS 1.3 zero padding); `protect` is the instance with tlslite-ng's choices.
   * mac_input: the bytes the record MAC authenticates.
   * recv_step: TLSRecordLayer._getNextRecordFromSocket -> _sendError -> _shutdown(False)
     and the delivery of application data to _readBuffer. *)
From Coq Require Import ZArith List Bool.
From TV Require Import Base.Prelude Spec.CbcCheck Model.C01_RecordPipe.
Import ListNotations.
Open Scope Z_scope.

Section Accept.
Context {CS : Type}.

(* ---- the sender's free choices ------------------------------------------------------------ *)
Record Choice := {
  ch_pad : list Z;       (* CBC padding bytes before the final length byte *)
  ch_ivb : list Z;       (* TLS 1.1+: plaintext of the block that becomes the explicit IV *)
  ch_nonce : list Z;     (* TLS 1.2 AES-GCM/CCM: the 8 explicit nonce bytes *)
  ch_zeros : Z           (* TLS 1.3: number of zero padding bytes *)
}.

Definition cbc_padded (ch : Choice) (d : list Z) : list Z :=
  ch_ivb ch ++ d ++ ch_pad ch ++ [zlen (ch_pad ch)].

(* is this a padding the receiver of version ver / block size bs has to accept? *)
Definition pad_legal (c : Cfg) (ch : Choice) : Prop :=
  zlen (ch_pad ch) <= 255 /\
  (if is_ssl3 (c_ver c) then zlen (ch_pad ch) <= c_bs c
   else Forall (fun b => b = zlen (ch_pad ch)) (ch_pad ch)) /\
  zlen (ch_ivb ch) = (if ver_le (3, 2) (c_ver c) then c_bs c else 0).

Definition mte_body_with (c : Cfg) (P : Prim CS) (s : St CS) (ty : Z) (data : list Z) (ch : Choice)
  : rres (St CS * list Z) :=
  '(s1, d1) <~ append_mac c P s ty data ;;
  if c_has_enc c then
    let d2 := if c_block c then cbc_padded ch d1 else d1 in
    if c_block c && negb (zlen d2 mod c_bs c =? 0) then RErr EAssert else
    let r := pr_enc P (st_cs s1) d2 in ROk (set_cs s1 (fst r), snd r)
  else ROk (s1, d1).

Definition etm_body_with (c : Cfg) (P : Prim CS) (s : St CS) (ty : Z) (data : list Z) (ch : Choice)
  : rres (St CS * list Z) :=
  '(s1, d1) <~ (if c_has_enc c then
                  let d2 := cbc_padded ch data in
                  if negb (zlen d2 mod c_bs c =? 0) then RErr EAssert else
                  let r := pr_enc P (st_cs s) d2 in ROk (set_cs s (fst r), snd r)
                else ROk (s, data)) ;;
  append_mac c P s1 ty d1.

Definition aead_body_with (c : Cfg) (P : Prim CS) (s : St CS) (ty : Z) (data : list Z) (ch : Choice)
  : rres (St CS * list Z) :=
  '(seqb, s1) <~ next_seq s ;;
  let n := if is_tls13_plus c then zlen data + c_tag c else zlen data in
  if negb (is_byte ty && is_byte (n / 256)) then RErr EValue else
  let aad := if is_tls13_plus c then aad13 ty (3, 3) n else aad12 c seqb ty n in
  nonce <~ (if explicit_nonce c then ROk (c_fixed_nonce c ++ ch_nonce ch) else get_nonce c seqb) ;;
  let ct := pr_seal P nonce data aad in
  ROk (s1, if explicit_nonce c then ch_nonce ch ++ ct else ct).

Definition protect_with (c : Cfg) (P : Prim CS) (s : St CS) (rec : Z * list Z) (ch : Choice) (hver : Z * Z)
  : rres (St CS * Wire) :=
  let (ty, data) := rec in
  let hide := is_tls13_plus c && c_has_enc c && negb (ty =? 20) in
  let ty1 := if hide then 23 else ty in
  let d1 := if hide then data ++ [ty] ++ zeros (ch_zeros ch) else data in
  '(s1, body) <~ (if ver_lt (3, 3) (c_ver c) && (ty1 =? 20) then ROk (s, d1)
                  else if c_has_enc c && c_aead c then aead_body_with c P s ty1 d1 ch
                  else if c_etm c then etm_body_with c P s ty1 d1 ch
                  else mte_body_with c P s ty1 d1 ch) ;;
  ROk (s1, (ty1, hver, body)).

(* ---- what is authenticated ------------------------------------------------------------------ *)
(* bytes fed to the record MAC (after the key) for sequence number n, type ty and data *)
Definition mac_input (c : Cfg) (n : Z) (ty : Z) (data : list Z) : list Z :=
  mac_header (be_bytes 8 n) ty (c_ver c) (zlen data) ++ data.

(* ---- the error path: _getNextRecordFromSocket / _sendError / _shutdown(False) ----------------- *)
(* AlertDescription sent for each exception class caught by _getNextRecordFromSocket;
   None: the exception is not caught there (it still reaches readAsync's `except:` which
   shuts the connection down without an alert) *)
Definition alert_of (e : rerr) : option Z :=
  match e with
  | EUnexpected => Some 10        (* unexpected_message *)
  | EBadMac => Some 20            (* bad_record_mac *)
  | EDecryptFailed => Some 21     (* decryption_failed *)
  | EOverflow => Some 22          (* record_overflow *)
  | EIllegalParam => Some 47      (* illegal_parameter *)
  | EValue | EAssert => None
  end.

Record Endpoint := {
  e_rd : St CS;               (* _recordLayer._readState *)
  e_wr : St CS;               (* _recordLayer._writeState *)
  e_rbuf : list Z;            (* _readBuffer *)
  e_closed : bool;            (* closed *)
  e_resumable : bool;         (* session.resumable *)
  e_sent : list Wire          (* records this endpoint has written to its socket *)
}.

Inductive outcome :=
| ODelivered (n : Z)            (* application data appended to _readBuffer *)
| OOther (ty : Z)               (* a non-application record handed to the upper layers *)
| OLocalAlert (desc : Z)        (* TLSLocalAlert raised after sending a fatal alert *)
| OCrash.                       (* an exception that is not mapped to an alert *)

(* _sendError(desc): fatal alert through the current write state, then _shutdown(False) *)
Definition send_error (cw : Cfg) (Pw : Prim CS) (e : Endpoint) (desc : Z) : Endpoint * outcome :=
  let sent := match protect cw Pw (e_wr e) (21, [2; desc]) with
              | ROk (_, w) => e_sent e ++ [w]
              | RErr _ => e_sent e
              end in
  ({| e_rd := e_rd e; e_wr := e_wr e; e_rbuf := e_rbuf e; e_closed := true; e_resumable := false;
      e_sent := sent |}, OLocalAlert desc).

Definition shutdown_only (e : Endpoint) : Endpoint * outcome :=
  ({| e_rd := e_rd e; e_wr := e_wr e; e_rbuf := e_rbuf e; e_closed := true; e_resumable := false;
      e_sent := e_sent e |}, OCrash).

(* one record arriving at an endpoint whose application is blocked in read() *)
Definition recv_step (cr cw : Cfg) (Pr Pw : Prim CS) (e : Endpoint) (w : Wire) : Endpoint * outcome :=
  match unprotect cr Pr (e_rd e) w with
  | RErr err =>
      match alert_of err with
      | Some d => send_error cw Pw e d
      | None => shutdown_only e
      end
  | ROk (r1, (ty, data)) =>
      let e1 := {| e_rd := r1; e_wr := e_wr e; e_rbuf := e_rbuf e; e_closed := e_closed e;
                   e_resumable := e_resumable e; e_sent := e_sent e |} in
      if negb (ty =? 23) && (zlen data =? 0) then send_error cw Pw e1 10   (* empty non-application record *)
      else if negb (existsb (Z.eqb ty) [20; 21; 22; 23; 24]) then send_error cw Pw e1 10
      else if ty =? 23 then
        ({| e_rd := r1; e_wr := e_wr e; e_rbuf := e_rbuf e ++ data; e_closed := e_closed e;
            e_resumable := e_resumable e; e_sent := e_sent e |}, ODelivered (zlen data))
      else (e1, OOther ty)
  end.
End Accept.
Arguments Endpoint : clear implicits.

(* ======================= round 3 additions ============================================================ *)
(* ---- the early-data tolerance window of RecordLayer.recvRecord ----------------------------------------
   early_data_ok (opened by the server when a ClientHello carries early_data, whatever version is then
   negotiated): a record failing with TLSBadRecordMAC is skipped -- read state restored, its length added
   to _early_data_processed -- while the sum stays below max_early_data; ANY record that is processed
   closes the window (and resets the counter).  While no key is installed, application_data records are
   treated as undecryptable. *)
Section Early.
Context {CS : Type}.
Record ESt := { es_st : St CS; es_ok : bool; es_used : Z }.

Definition unprotect_e (c : Cfg) (P : Prim CS) (max_early : Z) (r : ESt) (w : Wire)
  : rres (ESt * option (Z * list Z)) :=
  let '(hty, hver, body) := w in
  let keyless := negb (c_has_enc c) && negb (c_has_mac c) && es_ok r && (hty =? 23) in
  let skip (_ : unit) :=
      if es_ok r && (es_used r + zlen body <? max_early)
      then ROk ({| es_st := es_st r; es_ok := true; es_used := es_used r + zlen body |}, None)
      else RErr EBadMac in
  if keyless then
    (if (zlen body >? c_recv_limit c + 2048) || (c_tls13 c && (zlen body >? c_recv_limit c + 256))
     then RErr EOverflow else skip tt)
  else
    match unprotect c P (es_st r) w with
    | ROk (s1, x) => ROk ({| es_st := s1; es_ok := false; es_used := 0 |}, Some x)
    | RErr EBadMac => skip tt
    | RErr e => RErr e
    end.

(* a stream of records through recvRecord: what is handed up, and how it ends *)
Fixpoint recv_stream_e (c : Cfg) (P : Prim CS) (max_early : Z) (r : ESt) (ws : list Wire)
  : list (Z * list Z) * option rerr * ESt :=
  match ws with
  | [] => ([], None, r)
  | w :: rest =>
      match unprotect_e c P max_early r w with
      | RErr e => ([], Some e, r)
      | ROk (r1, None) => recv_stream_e c P max_early r1 rest
      | ROk (r1, Some x) => let '(xs, e, r2) := recv_stream_e c P max_early r1 rest in (x :: xs, e, r2)
      end
  end.
End Early.
Arguments ESt : clear implicits.

(* ---- unprotected records after the handshake (TLS 1.3) --------------------------------------------------
   _getMsg drops an unprotected change_cipher_spec only while _middlebox_compat_mode is set; both that flag and
   allow_plaintext_alert are cleared when the handshake completes (every flavour: full, HelloRetryRequest,
   PSK, resumption, both roles). *)
Definition recv_step13 {CS} (compat : bool) (cr cw : Cfg) (Pr Pw : Prim CS) (e : Endpoint CS) (w : Wire)
  : Endpoint CS * outcome :=
  match recv_step cr cw Pr Pw e w with
  | (e1, OOther 20) => if compat then (e1, OOther 20)          (* ignored, reading continues *)
                       else send_error cw Pw e1 10
  | r => r
  end.

(* ---- the KeyUpdate ratchet (TLSRecordLayer.send_keyupdate_request / _handle_keyupdate_request) ----------
   Per endpoint: generation of the stored own-direction secret, of the stored peer-direction secret, of the
   installed write key and of the installed read key.  KeyUpdate messages in flight per direction carry the
   request flag. *)
Record KUEnd := { ku_own : nat; ku_peer : nat; ku_wr : nat; ku_rd : nat }.
Record KUSys := { ku_a : KUEnd; ku_b : KUEnd; ku_ab : list bool; ku_ba : list bool }.
Inductive ku_op := KUSend (from_a : bool) (requested : bool) | KURecv (at_b : bool).

Definition ku_sent (e : KUEnd) : KUEnd :=
  {| ku_own := S (ku_own e); ku_peer := ku_peer e; ku_wr := S (ku_wr e); ku_rd := ku_rd e |}.
Definition ku_received (e : KUEnd) : KUEnd :=
  {| ku_own := ku_own e; ku_peer := S (ku_peer e); ku_wr := ku_wr e; ku_rd := S (ku_rd e) |}.

Definition ku_step (s : KUSys) (o : ku_op) : KUSys :=
  match o with
  | KUSend true req => {| ku_a := ku_sent (ku_a s); ku_b := ku_b s; ku_ab := ku_ab s ++ [req]; ku_ba := ku_ba s |}
  | KUSend false req => {| ku_a := ku_a s; ku_b := ku_sent (ku_b s); ku_ab := ku_ab s; ku_ba := ku_ba s ++ [req] |}
  | KURecv true =>                    (* B processes the next KeyUpdate from A; answers if asked to *)
      match ku_ab s with
      | [] => s
      | req :: rest =>
          let b1 := ku_received (ku_b s) in
          if req then {| ku_a := ku_a s; ku_b := ku_sent b1; ku_ab := rest; ku_ba := ku_ba s ++ [false] |}
          else {| ku_a := ku_a s; ku_b := b1; ku_ab := rest; ku_ba := ku_ba s |}
      end
  | KURecv false =>
      match ku_ba s with
      | [] => s
      | req :: rest =>
          let a1 := ku_received (ku_a s) in
          if req then {| ku_a := ku_sent a1; ku_b := ku_b s; ku_ab := ku_ab s ++ [false]; ku_ba := rest |}
          else {| ku_a := a1; ku_b := ku_b s; ku_ab := ku_ab s; ku_ba := rest |}
      end
  end.
Definition ku_init : KUSys :=
  {| ku_a := {| ku_own := 0; ku_peer := 0; ku_wr := 0; ku_rd := 0 |};
     ku_b := {| ku_own := 0; ku_peer := 0; ku_wr := 0; ku_rd := 0 |}; ku_ab := []; ku_ba := [] |}.

(* ---- round 4: the fatal alert cannot be written (socket timeout, reset, any exception from send) ------------
   _sendError -> _sendMsg raises, the exception leaves _getMsg and reaches readAsync's catch-all, which still
   runs _shutdown(False): closed, session invalidated, nothing delivered; only the alert is missing. *)
Definition recv_step_f {CS} (alert_sendable : bool) (cr cw : Cfg) (Pr Pw : Prim CS) (e : Endpoint CS) (w : Wire)
  : Endpoint CS * outcome :=
  let '(e1, o) := recv_step cr cw Pr Pw e w in
  match o with
  | OLocalAlert d =>
      if alert_sendable then (e1, o)
      else ({| e_rd := e_rd e1; e_wr := e_wr e1; e_rbuf := e_rbuf e1; e_closed := true; e_resumable := false;
               e_sent := e_sent e |}, OCrash)
  | _ => (e1, o)
  end.
