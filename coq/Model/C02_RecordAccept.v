(* C02 -- what a receiver accepts, on top of Model/C01_RecordPipe.v (definitions only).

   * protect_with: the sender's protection with the free choices a conforming peer has
     (CBC padding, the plaintext of the explicit-IV block, the explicit AEAD nonce, the
     amount of TLS 1.3 zero padding); `protect` is the instance with tlslite-ng's choices.
   * mac_input: the bytes the record MAC authenticates.
   * recv_step: TLSRecordLayer._getNextRecordFromSocket -> _sendError -> _shutdown(False)
     and the delivery of application data to _readBuffer. *)
From Coq Require Import ZArith List Bool.
From TV Require Import Base.Prelude Spec.CbcCheck Model.C01_RecordPipe.
Import ListNotations.
Open Scope Z_scope.

Section Accept.
Context {CS : Type}.

(* ---- the sender's free choices ------------------------------------------------------------ *)
Record Choice := {
  ch_pad : list Z;       (* CBC padding bytes before the final length byte *)
  ch_ivb : list Z;       (* TLS 1.1+: plaintext of the block that becomes the explicit IV *)
  ch_nonce : list Z;     (* TLS 1.2 AES-GCM/CCM: the 8 explicit nonce bytes *)
  ch_zeros : Z           (* TLS 1.3: number of zero padding bytes *)
}.

Definition cbc_padded (ch : Choice) (d : list Z) : list Z :=
  ch_ivb ch ++ d ++ ch_pad ch ++ [zlen (ch_pad ch)].

(* is this a padding the receiver of version ver / block size bs has to accept? *)
Definition pad_legal (c : Cfg) (ch : Choice) : Prop :=
  zlen (ch_pad ch) <= 255 /\
  (if is_ssl3 (c_ver c) then zlen (ch_pad ch) <= c_bs c
   else Forall (fun b => b = zlen (ch_pad ch)) (ch_pad ch)) /\
  zlen (ch_ivb ch) = (if ver_le (3, 2) (c_ver c) then c_bs c else 0).

Definition mte_body_with (c : Cfg) (P : Prim CS) (s : St CS) (ty : Z) (data : list Z) (ch : Choice)
  : rres (St CS * list Z) :=
  '(s1, d1) <~ append_mac c P s ty data ;;
  if c_has_enc c then
    let d2 := if c_block c then cbc_padded ch d1 else d1 in
    if c_block c && negb (zlen d2 mod c_bs c =? 0) then RErr EAssert else
    let r := pr_enc P (st_cs s1) d2 in ROk (set_cs s1 (fst r), snd r)
  else ROk (s1, d1).

Definition etm_body_with (c : Cfg) (P : Prim CS) (s : St CS) (ty : Z) (data : list Z) (ch : Choice)
  : rres (St CS * list Z) :=
  '(s1, d1) <~ (if c_has_enc c then
                  let d2 := cbc_padded ch data in
                  if negb (zlen d2 mod c_bs c =? 0) then RErr EAssert else
                  let r := pr_enc P (st_cs s) d2 in ROk (set_cs s (fst r), snd r)
                else ROk (s, data)) ;;
  append_mac c P s1 ty d1.

Definition aead_body_with (c : Cfg) (P : Prim CS) (s : St CS) (ty : Z) (data : list Z) (ch : Choice)
  : rres (St CS * list Z) :=
  '(seqb, s1) <~ next_seq s ;;
  let n := if is_tls13_plus c then zlen data + c_tag c else zlen data in
  if negb (is_byte ty && is_byte (n / 256)) then RErr EValue else
  let aad := if is_tls13_plus c then aad13 ty (3, 3) n else aad12 c seqb ty n in
  nonce <~ (if explicit_nonce c then ROk (c_fixed_nonce c ++ ch_nonce ch) else get_nonce c seqb) ;;
  let ct := pr_seal P nonce data aad in
  ROk (s1, if explicit_nonce c then ch_nonce ch ++ ct else ct).

Definition protect_with (c : Cfg) (P : Prim CS) (s : St CS) (rec : Z * list Z) (ch : Choice) (hver : Z * Z)
  : rres (St CS * Wire) :=
  let (ty, data) := rec in
  let hide := is_tls13_plus c && c_has_enc c && negb (ty =? 20) in
  let ty1 := if hide then 23 else ty in
  let d1 := if hide then data ++ [ty] ++ zeros (ch_zeros ch) else data in
  '(s1, body) <~ (if ver_lt (3, 3) (c_ver c) && (ty1 =? 20) then ROk (s, d1)
                  else if c_has_enc c && c_aead c then aead_body_with c P s ty1 d1 ch
                  else if c_etm c then etm_body_with c P s ty1 d1 ch
                  else mte_body_with c P s ty1 d1 ch) ;;
  ROk (s1, (ty1, hver, body)).

(* ---- what is authenticated ------------------------------------------------------------------ *)
(* bytes fed to the record MAC (after the key) for sequence number n, type ty and data *)
Definition mac_input (c : Cfg) (n : Z) (ty : Z) (data : list Z) : list Z :=
  mac_header (be_bytes 8 n) ty (c_ver c) (zlen data) ++ data.

(* ---- the error path: _getNextRecordFromSocket / _sendError / _shutdown(False) ----------------- *)
(* AlertDescription sent for each exception class caught by _getNextRecordFromSocket;
   None: the exception is not caught there (it still reaches readAsync's `except:` which
   shuts the connection down without an alert) *)
Definition alert_of (e : rerr) : option Z :=
  match e with
  | EUnexpected => Some 10        (* unexpected_message *)
  | EBadMac => Some 20            (* bad_record_mac *)
  | EDecryptFailed => Some 21     (* decryption_failed *)
  | EOverflow => Some 22          (* record_overflow *)
  | EIllegalParam => Some 47      (* illegal_parameter *)
  | EValue | EAssert => None
  end.

Record Endpoint := {
  e_rd : St CS;               (* _recordLayer._readState *)
  e_wr : St CS;               (* _recordLayer._writeState *)
  e_rbuf : list Z;            (* _readBuffer *)
  e_closed : bool;            (* closed *)
  e_resumable : bool;         (* session.resumable *)
  e_sent : list Wire          (* records this endpoint has written to its socket *)
}.

Inductive outcome :=
| ODelivered (n : Z)            (* application data appended to _readBuffer *)
| OOther (ty : Z)               (* a non-application record handed to the upper layers *)
| OLocalAlert (desc : Z)        (* TLSLocalAlert raised after sending a fatal alert *)
| OCrash.                       (* an exception that is not mapped to an alert *)

(* _sendError(desc): fatal alert through the current write state, then _shutdown(False) *)
Definition send_error (cw : Cfg) (Pw : Prim CS) (e : Endpoint) (desc : Z) : Endpoint * outcome :=
  let sent := match protect cw Pw (e_wr e) (21, [2; desc]) with
              | ROk (_, w) => e_sent e ++ [w]
              | RErr _ => e_sent e
              end in
  ({| e_rd := e_rd e; e_wr := e_wr e; e_rbuf := e_rbuf e; e_closed := true; e_resumable := false;
      e_sent := sent |}, OLocalAlert desc).

Definition shutdown_only (e : Endpoint) : Endpoint * outcome :=
  ({| e_rd := e_rd e; e_wr := e_wr e; e_rbuf := e_rbuf e; e_closed := true; e_resumable := false;
      e_sent := e_sent e |}, OCrash).

(* one record arriving at an endpoint whose application is blocked in read() *)
Definition recv_step (cr cw : Cfg) (Pr Pw : Prim CS) (e : Endpoint) (w : Wire) : Endpoint * outcome :=
  match unprotect cr Pr (e_rd e) w with
  | RErr err =>
      match alert_of err with
      | Some d => send_error cw Pw e d
      | None => shutdown_only e
      end
  | ROk (r1, (ty, data)) =>
      let e1 := {| e_rd := r1; e_wr := e_wr e; e_rbuf := e_rbuf e; e_closed := e_closed e;
                   e_resumable := e_resumable e; e_sent := e_sent e |} in
      if negb (ty =? 23) && (zlen data =? 0) then send_error cw Pw e1 10   (* empty non-application record *)
      else if negb (existsb (Z.eqb ty) [20; 21; 22; 23; 24]) then send_error cw Pw e1 10
      else if ty =? 23 then
        ({| e_rd := r1; e_wr := e_wr e; e_rbuf := e_rbuf e ++ data; e_closed := e_closed e;
            e_resumable := e_resumable e; e_sent := e_sent e |}, ODelivered (zlen data))
      else (e1, OOther ty)
  end.
End Accept.
Arguments Endpoint : clear implicits.
