(* C05 -- hand model of the authentication flows of tlslite-ng (definitions only).

   What is modelled: for each handshake function that attributes an identity to the
   peer, the ORDER of checks between the arrival of the peer's credential messages and
   session.create(...), over abstract verification predicates (oracles):

     sig_ok key scheme bytes sig      a signature primitive accepted (C10's subject)
     fin_ok which transcript vd       the Finished MAC of THIS handshake's secret over
                                      the transcript equals vd
     binder_ok psk transcript binder  the PSK binder of that PSK over the truncated
                                      ClientHello transcript equals binder
     r_rec_ok                         the record layer could open the peer's protected
                                      flight (i.e. both ends hold the same traffic keys)

   The bytes handed to sig_ok for CertificateVerify come from Gen.C05_VerifyBytes
   (regenerated from KeyExchange.calcVerifyBytes on every run).  Source anchors are given
   per definition; the table expected_sites at the end is the list of program points the
   flows below were written against (compared with the regenerated table in Props/C05.v).

   Outcomes: Ok session | Err (OtherExn d): d < 1000 a fatal alert with description d was
   sent; d >= 1000 an exception was raised without an alert (X_* below); other Err = a
   Python crash class propagated from calcVerifyBytes. *)
From Coq Require Import ZArith List Bool String.
From TV Require Import Base.Prelude Base.C05_Lib Gen.C05_VerifyBytes.
Import ListNotations.
Open Scope Z_scope.

Definition alert {A} (d : Z) : res A := Err (OtherExn d).
Definition unexpected_message := 10.
Definition bad_record_mac := 20.
Definition illegal_parameter := 47.
Definition decrypt_error := 51.
Definition unknown_psk_identity := 115.
Definition certificate_required := 116.
Definition X_DecryptionFailed := 1051.      (* raise TLSDecryptionFailed, no alert *)
Definition X_IllegalParameter := 1047.      (* raise TLSIllegalParameterException, no alert *)
Definition X_InternalError := 1080.
Definition X_AuthenticationError := 2000.   (* TLSAuthenticationError family (Checker) *)

(* ---- peer messages (abstract) ------------------------------------------------------ *)
Record DC := {                 (* x509.DelegatedCredential *)
  dc_cred : list Z;            (* cred.bytes *)
  dc_key : Z;                  (* cred.pub_key (key id) *)
  dc_curve_hash : option string;
  dc_cv_alg : scheme;          (* cred.dc_cert_verify_algorithm *)
  dc_alg : scheme;             (* algorithm of the delegation signature *)
  dc_sig : list Z }.

(* one CertificateEntry of the peer's Certificate message *)
Record Entry := {
  e_id : Z;                    (* certificate id *)
  e_cert : list Z;             (* certificate bytes *)
  e_key : Z;                   (* the public key INSIDE this certificate (key id) *)
  e_dc : list DC }.            (* DelegatedCredentialCertExtension entries attached to this entry *)

Record CertMsg := {            (* Certificate message as parsed *)
  cm_entries : list Entry;     (* certificate_list, end-entity first; [] = empty certificate_list *)
  cm_keytype : string;         (* x509List[0].certAlg *)
  cm_curve_hash : option string;   (* curve_name_to_hash_name(publicKey.curve_name) for ECDSA keys *)
  cm_policy : option Z }.      (* _check_certchain_with_settings: alert it sends, None = acceptable (C03/C19) *)

(* what the code reads: the chain object recorded in the session is the whole list; the public
   key (cert_chain.getEndEntityPublicKey(), x509List[0]), the certificate handed to
   DelegatedCredential.verify (certificate.certificate_list[0]) and the credential extension are
   those of ENTRY 0.  Entries 1.. are never consulted by the flows below. *)
Definition cm_chain (cm : CertMsg) : list Z := map e_id (cm_entries cm).
Definition cm_ee (cm : CertMsg) : option Entry := hd_error (cm_entries cm).
Definition cm_cert (cm : CertMsg) : list Z := match cm_ee cm with Some e => e_cert e | None => [] end.
Definition cm_key (cm : CertMsg) : Z := match cm_ee cm with Some e => e_key e | None => 0 end.
Definition cm_dc (cm : CertMsg) : list DC := match cm_ee cm with Some e => e_dc e | None => [] end.

Record Run := {
  r_ver : Z * Z;
  r_kx : Z;                    (* <=1.2: 0 RSA key transport, 1 signed (EC)DHE, 2 SRP, 3 SRP+certificate, 4 anonymous *)
  r_req_cert : bool;           (* server: reqCert; client: a CertificateRequest arrived *)
  r_psk : option Z;            (* 1.3: PSK in use (server: matching configured/ticket PSK id; client: server selected it) *)
  r_cert : option CertMsg;     (* the peer's Certificate message; None = absent *)
  r_cv : option (option scheme * list Z);  (* the peer's CertificateVerify (scheme: None below TLS 1.2); None = next message is something else *)
  r_ske : option (option scheme * list Z * list Z);  (* ServerKeyExchange: scheme, params, signature *)
  r_cr : list Z;  r_sr : list Z;  r_premaster : list Z;
  r_tr_cv : list Z;            (* transcript up to (excluding) CertificateVerify *)
  r_tr_fin : list Z;           (* transcript up to (excluding) the peer's Finished *)
  r_tr_binder : list Z;        (* transcript up to the truncated ClientHello *)
  r_prf : option string;
  r_offered : list scheme;     (* signature schemes THIS endpoint put on the wire (ClientHello / CertificateRequest) *)
  r_valid : list scheme;       (* list the code recomputes from settings and the peer certificate (C19) *)
  r_dc_offered : list scheme;  (* settings.dc_sig_algs = ClientHello delegated_credential extension *)
  r_kx_alert : option Z;       (* key-exchange processing failed with this alert (C10) *)
  r_rec_ok : bool;
  r_fin : list Z;              (* verify_data of the peer's Finished *)
  r_binder : list Z;
  r_ticket_chain : option (list Z);   (* client chain stored inside the resumption ticket *)
  r_ticket_srp : option (list Z);     (* SRP user name stored inside the (TLS <= 1.2) ticket / cached session *)
  r_srp_user : option (list Z);       (* server: ClientHello.srp_username; client: own user name *)
  r_srp_known : bool;                 (* verifierDB has that user *)
  r_own_chain : option (list Z);      (* this endpoint's own certificate chain *)
  r_srv_scheme : option string;       (* 1.3 server: the `scheme` variable (its own signature scheme name) *)
  r_ctx_ok : bool;             (* PHA: certificate_request_context non-empty and outstanding *)
  r_cert_required : bool }.

Record Session := {
  s_server_chain : option (list Z);
  s_client_chain : option (list Z);
  s_srp_user : option (list Z);
  s_dc : bool;
  s_psk : option Z }.

Record Orc := {
  sig_ok : Z -> option scheme -> list Z -> list Z -> bool;
  fin_ok : Z -> list Z -> list Z -> bool;
  binder_ok : Z -> list Z -> list Z -> bool;
  o_digest : list Z -> option string -> list Z;
  o_digestSSL : list Z -> list Z -> list Z -> list Z;
  o_calc_key : (Z * Z) -> list Z -> Z -> list Z -> list Z -> list Z -> Z -> list Z;
  o_pkcs1 : list Z -> option string -> list Z;
  o_hash : list Z -> option string -> list Z }.

(* which Finished: *)
Definition FIN_C12 := 0.   (* client's Finished, <= TLS 1.2, checked by the server  (_getFinished) *)
Definition FIN_S12 := 1.   (* server's Finished, <= TLS 1.2, checked by the client *)
Definition FIN_S13 := 2.   (* tlsconnection.py 1537-1557 *)
Definition FIN_C13 := 3.   (* tlsconnection.py 3331-3351 *)
Definition FIN_PHA := 4.   (* tlsrecordlayer.py 905-927 *)

Definition tag_server : list Z := [115;101;114;118;101;114].
Definition tag_client : list Z := [99;108;105;101;110;116].

Definition is_nil {A} (l : list A) : bool := match l with [] => true | _ => false end.

Definition verify_bytes (O : Orc) := calcVerifyBytes (o_digest O) (o_digestSSL O) (o_calc_key O) (o_pkcs1 O) (o_hash O).

(* calcVerifyBytes((3, 4), hh, scheme, None, None, None, prf, tag)  -- key_type defaults to 'rsa' *)
Definition vb13 (O : Orc) (sch : scheme) (prf : option string) (tag tr : list Z) : res (list Z) :=
  verify_bytes O (3, 4) tr (Some sch) [] [] [] prf tag (Some "rsa"%string).

Definition guard (b : bool) (e : res unit) : res unit := if b then Ok tt else e.
Definition opt_alert (a : option Z) : res unit := match a with None => Ok tt | Some d => alert d end.

Definition eddsa_like : list scheme := [(8,7); (8,8); (9,4); (9,5); (9,6)].
Definition brainpool13 : list scheme := [(8,26); (8,27); (8,28)].

(* _clientGetKeyFromChain (2143-2176): empty chain -> illegal_parameter, then policy *)
Definition key_from_chain (cm : CertMsg) : res unit :=
  if is_nil (cm_chain cm) then alert illegal_parameter else opt_alert (cm_policy cm).

(* the if/elif on the signature scheme before a TLS 1.3 verification on the CLIENT
   (1494-1526, x509.py 538-567): may raise before the primitive is called *)
Definition dispatch13 (sch : scheme) (curve_hash : option string) : res unit :=
  if sch_in sch eddsa_like then Ok tt
  else if snd sch =? 3 then
    guard (ostr_eqb (HashAlgorithm_toRepr (fst sch)) curve_hash) (Err (OtherExn X_IllegalParameter))
  else if sch_in sch brainpool13 then
    _ <- SignatureScheme_getHash (SignatureScheme_toRepr (Some sch)) ;; Ok tt
  else
    _ <- SignatureScheme_getPadding (SignatureScheme_toRepr (Some sch)) ;;
    _ <- SignatureScheme_getHash (SignatureScheme_toRepr (Some sch)) ;; Ok tt.

(* same on the SERVER (3290-3312); the brainpool branch reads the server's own `scheme` (F12) *)
Definition dispatch13_srv (sch : scheme) (srv_scheme : option string) : res unit :=
  if sch_in sch eddsa_like then Ok tt
  else if snd sch =? 3 then Ok tt
  else if sch_in sch brainpool13 then
    _ <- SignatureScheme_getHash srv_scheme ;; Ok tt
  else
    _ <- SignatureScheme_getPadding (SignatureScheme_toRepr (Some sch)) ;;
    _ <- SignatureScheme_getHash (SignatureScheme_toRepr (Some sch)) ;; Ok tt.

(* PHA variant (tlsrecordlayer.py 865-888): no brainpool branch *)
Definition dispatch13_pha (sch : scheme) : res unit :=
  if sch_in sch [(8,7); (8,8)] then Ok tt
  else if snd sch =? 3 then Ok tt
  else
    _ <- SignatureScheme_getPadding (SignatureScheme_toRepr (Some sch)) ;;
    _ <- SignatureScheme_getHash (SignatureScheme_toRepr (Some sch)) ;; Ok tt.

Definition spaces64 : list Z := repeat 32 64.
(* b'TLS, server delegated credentials' *)
Definition dc_label : list Z :=
  [84;76;83;44;32;115;101;114;118;101;114;32;100;101;108;101;103;97;116;101;100;32;99;114;101;100;101;110;116;105;97;108;115].
(* x509.py 579-590 compute_certificate_dc_sig_context *)
Definition dc_tbs (cert cred : list Z) (alg : scheme) : list Z :=
  spaces64 ++ dc_label ++ [0] ++ cert ++ cred ++ [fst alg; snd alg].

(* x509.py 499-576 DelegatedCredential.verify; exceptions are not caught by the caller *)
Definition dc_verify (O : Orc) (r : Run) (cm : CertMsg) (d : DC) (cv_sch : scheme) : res unit :=
  _ <- guard (sch_in (dc_cv_alg d) (r_dc_offered r)) (Err (OtherExn X_IllegalParameter)) ;;
  _ <- guard (sch_in (dc_alg d) (r_offered r)) (Err (OtherExn X_IllegalParameter)) ;;
  _ <- guard (pairZ_eqb (dc_cv_alg d) cv_sch) (Err (OtherExn X_IllegalParameter)) ;;
  _ <- dispatch13 (dc_alg d) (cm_curve_hash cm) ;;
  guard (sig_ok O (cm_key cm) (Some (dc_alg d)) (dc_tbs (cm_cert cm) (dc_cred d) (dc_alg d)) (dc_sig d))
        (Err (OtherExn X_DecryptionFailed)).

Definition finished (O : Orc) (which : Z) (r : Run) (onfail : res unit) : res unit :=
  guard (fin_ok O which (r_tr_fin r) (r_fin r)) onfail.

Definition records (r : Run) : res unit := guard (r_rec_ok r) (alert bad_record_mac).

(* ---- flow 3: TLS 1.3 client, _clientTLS13Handshake 1377-1761 --------------------------- *)
Definition client13 (O : Orc) (r : Run) : res Session :=
  _ <- records r ;;
  '(chain, isdc) <-
    (match r_psk r with
     | Some _ => Ok (None, false)
     | None =>
       match r_cert r with
       | None => alert unexpected_message
       | Some cm =>
         match r_cv r with
         | None => alert unexpected_message
         | Some (None, _) => Err TypeError
         | Some (Some sch0, sg) =>
           (* /repo 7b4ef0e: a value that is no SignatureScheme and whose hash byte names no hash
              is refused before the verify bytes are computed *)
           _ <- guard (negb (is_none (SignatureScheme_toRepr (Some sch0))
                             && match HashAlgorithm_toRepr (fst sch0) with
                                | None => true
                                | Some n => String.eqb n "none"
                                end))
                      (alert illegal_parameter) ;;
           ctx <- vb13 O sch0 (r_prf r) tag_server (r_tr_cv r) ;;
           _ <- key_from_chain cm ;;
           '(key, sch, curve, isdc) <-
             (match cm_dc cm with
              | [] =>
                (* 1493-1504 (fix 61d7222): the scheme must be one the ClientHello offered.
                   Before the fix this branch was `Ok (...)` unconditionally and
                   scheme_must_be_offered was refuted by run_w1. *)
                if negb (sch_in sch0 (r_offered r)) then alert illegal_parameter
                (* /repo 7ffe769: ... and it must fit the key type of the server certificate
                   (scheme in _sigHashesToList(settings, certList=serverCertChain, (3, 4)) = r_valid) *)
                else if negb (sch_in sch0 (r_valid r)) then alert illegal_parameter
                else Ok (cm_key cm, sch0, cm_curve_hash cm, false)
              | [d] =>
                if is_nil (r_dc_offered r) then alert unexpected_message
                else _ <- dc_verify O r cm d sch0 ;; Ok (dc_key d, dc_cv_alg d, dc_curve_hash d, true)
              | _ => alert illegal_parameter
              end) ;;
           _ <- dispatch13 sch curve ;;
           _ <- guard (sig_ok O key (Some sch) ctx sg) (Err (OtherExn X_DecryptionFailed)) ;;
           Ok (Some (cm_chain cm), isdc)
         end
       end
     end) ;;
  _ <- finished O FIN_S13 r (Err (OtherExn X_DecryptionFailed)) ;;
  Ok {| s_server_chain := chain; s_client_chain := r_own_chain r; s_srp_user := None;
        s_dc := isdc; s_psk := r_psk r |}.

(* ---- flow 4: TLS 1.3 server, _serverTLS13Handshake 2900-2948, 3237-3395 ---------------- *)
Definition server13 (O : Orc) (r : Run) : res Session :=
  psk <- (match r_psk r with
          | None => Ok None
          | Some id => if binder_ok O id (r_tr_binder r) (r_binder r) then Ok (Some id)
                       else alert illegal_parameter
          end) ;;
  _ <- records r ;;
  chain <- (if r_req_cert r && is_none psk then
              match r_cert r with
              | None => alert unexpected_message
              | Some cm => Ok (if is_nil (cm_chain cm) then None else Some cm)
              end
            else Ok None) ;;
  _ <- (match chain with
        | None => Ok tt
        | Some cm =>
          match r_cv r with
          | None => alert unexpected_message
          | Some (None, _) => Err TypeError
          | Some (Some sch, sg) =>
            _ <- guard (sch_in sch (r_valid r)) (alert illegal_parameter) ;;
            ctx <- vb13 O sch (r_prf r) tag_client (r_tr_cv r) ;;
            _ <- opt_alert (cm_policy cm) ;;      (* _check_certchain_with_settings on the client chain (/repo 756abb1) *)
            _ <- dispatch13_srv sch (r_srv_scheme r) ;;
            guard (sig_ok O (cm_key cm) (Some sch) ctx sg) (alert decrypt_error)
          end
        end) ;;
  _ <- finished O FIN_C13 r (alert decrypt_error) ;;
  Ok {| s_server_chain := r_own_chain r;
        s_client_chain := match chain with
                          | Some cm => Some (cm_chain cm)
                          | None => match psk with Some _ => r_ticket_chain r | None => None end
                          end;
        s_srp_user := None; s_dc := false; s_psk := psk |}.

(* ---- flow 5: post-handshake client authentication, _handle_srv_pha 807-929 ------------- *)
(* result: the new value of session.clientCertChain *)
Definition server_pha (O : Orc) (r : Run) : res (option (list Z)) :=
  match r_cert r with
  | None => alert unexpected_message
  | Some cm =>
    _ <- guard (r_ctx_ok r) (alert illegal_parameter) ;;
    _ <- (if negb (is_nil (cm_chain cm)) then
            match r_cv r with
            | None => alert unexpected_message
            | Some (None, _) => Err TypeError
            | Some (Some sch, sg) =>
              _ <- guard (sch_in sch (r_offered r)) (alert illegal_parameter) ;;
              _ <- guard (sch_in sch (r_valid r)) (alert illegal_parameter) ;;
              ctx <- vb13 O sch (r_prf r) tag_client (r_tr_cv r) ;;
              _ <- dispatch13_pha sch ;;
              guard (sig_ok O (cm_key cm) (Some sch) ctx sg) (alert decrypt_error)
            end
          else guard (negb (r_cert_required r)) (alert certificate_required)) ;;
    _ <- finished O FIN_PHA r (alert decrypt_error) ;;
    Ok (if is_nil (cm_chain cm) then None else Some (cm_chain cm))
  end.

(* ---- flow 1: client <= TLS 1.2, _clientKeyExchange 1819-2023 + _clientFinished + 693-705 - *)
Definition ver_lt (a b : Z * Z) : bool := (fst a <? fst b) || ((fst a =? fst b) && (snd a <? snd b)).

(* client_random || server_random || params : what the ServerKeyExchange signature covers
   (messages.py 1597); the per-scheme hashing is inside sig_ok *)
Definition ske_tbs (r : Run) (params : list Z) : list Z := r_cr r ++ r_sr r ++ params.

(* keyexchange.py 227-354 verifyServerKeyExchange, exceptions mapped as in 1912-1925 *)
Definition verify_ske (O : Orc) (r : Run) (cm : CertMsg) (osch : option scheme) (params sg : list Z) : res unit :=
  let check := guard (sig_ok O (cm_key cm) osch (ske_tbs r params) sg) (alert decrypt_error) in
  if ver_lt (r_ver r) (3, 3) then
    if is_nil sg then alert illegal_parameter else
    guard (sig_ok O (cm_key cm) None (ske_tbs r params) sg) (alert decrypt_error)
  else
    match osch with
    | None => Err TypeError
    | Some s =>
      if negb (sch_in s (r_valid r)) then alert illegal_parameter
      else if sch_in s [(8,7); (8,8)] then
        (if is_nil sg then alert illegal_parameter else check)
      else if snd s =? 3 then
        (if is_none (HashAlgorithm_toRepr (fst s)) then alert illegal_parameter else check)
      else if snd s =? 2 then check
      else
        _ <- (match SignatureScheme_toRepr (Some s) with
              | Some n => _ <- SignatureScheme_getPadding (Some n) ;; Ok tt
              | None => if negb (snd s =? 1) then Err (OtherExn X_InternalError)
                        else guard (negb (is_none (HashAlgorithm_toRepr (fst s)))) (alert illegal_parameter)
              end) ;;
        if is_nil sg then alert illegal_parameter else check
    end.

Definition kx_has_cert (k : Z) : bool := (k =? 0) || (k =? 1) || (k =? 3).
Definition kx_is_srp (k : Z) : bool := (k =? 2) || (k =? 3).

Definition client12 (O : Orc) (r : Run) : res Session :=
  chain <-
    (if kx_has_cert (r_kx r) then
       match r_cert r with
       | None => alert unexpected_message
       | Some cm =>
         _ <- key_from_chain cm ;;
         _ <- (if r_kx r =? 0 then Ok tt else
               match r_ske r with
               | None => alert unexpected_message
               | Some (osch, params, sg) => verify_ske O r cm osch params sg
               end) ;;
         Ok (Some (cm_chain cm))
       end
     else Ok None) ;;
  _ <- opt_alert (r_kx_alert r) ;;
  _ <- records r ;;
  _ <- finished O FIN_S12 r (alert decrypt_error) ;;
  Ok {| s_server_chain := chain;
        s_client_chain := if r_req_cert r then r_own_chain r else None;
        s_srp_user := r_srp_user r; s_dc := false; s_psk := None |}.

(* ---- flow 2: server <= TLS 1.2, 2525-2661, _serverSRPKeyExchange, _serverCertKeyExchange
        4645-4793, _serverFinished ------------------------------------------------------ *)
Definition server12 (O : Orc) (r : Run) : res Session :=
  chain <-
    (if kx_is_srp (r_kx r) then
       _ <- guard (r_srp_known r) (alert unknown_psk_identity) ;;
       _ <- opt_alert (r_kx_alert r) ;; Ok None
     else if (r_kx r =? 0) || (r_kx r =? 1) then
       let c0 := if r_req_cert r then
                   match r_cert r with
                   | Some cm => if is_nil (cm_chain cm) then None else Some cm
                   | None => None
                   end
                 else None in
       _ <- opt_alert (r_kx_alert r) ;;
       match c0 with
       | None => Ok None
       | Some cm =>
         match r_cv r with
         | None => alert unexpected_message
         | Some (osch, sg) =>
           sigalg <- (if pairZ_eqb (r_ver r) (3, 3) then
                        match osch with
                        | None => Err TypeError
                        | Some s => if sch_in s (r_valid r) then Ok (Some s) else alert illegal_parameter
                        end
                      else Ok (if String.eqb (cm_keytype cm) "ecdsa" then Some (2, 3) else None)) ;;
           vb <- verify_bytes O (r_ver r) (r_tr_cv r) sigalg (r_premaster r) (r_cr r) (r_sr r)
                              None tag_client (Some (cm_keytype cm)) ;;
           _ <- opt_alert (cm_policy cm) ;;
           _ <- guard (sig_ok O (cm_key cm) sigalg vb sg) (alert decrypt_error) ;;
           Ok (Some (cm_chain cm))
         end
       end
     else Ok None) ;;
  (* 2631-2637 (fix 11c0ed7): recorded only when an SRP suite was negotiated.  Before the fix
     this was `let srp := r_srp_user r` and srp_user_only_if_password_proof was refuted by run_w2. *)
  let srp := if kx_is_srp (r_kx r) then r_srp_user r else None in
  _ <- records r ;;
  _ <- finished O FIN_C12 r (alert decrypt_error) ;;
  Ok {| s_server_chain := if kx_has_cert (r_kx r) then r_own_chain r else None;
        s_client_chain := chain; s_srp_user := srp; s_dc := false; s_psk := None |}.

(* ---- flow 6: server <= TLS 1.2, resumption from a session ticket / the session cache:
        _serverGetClientHello 4064-4270, _ticket_to_session.  r_psk = Some id: the ticket decrypts
        under a current ticket key and is not expired (or the session id is in the cache) and the
        stored session is resumable with an acceptable suite; None: a full handshake follows.
        The identities stored in the ticket (client chain, and since /repo 19b1cb2 the SRP user
        name) become the connection's identities only after the peer's Finished verified under the
        ticket's master secret.  Result None = resumption declined. ------------------------------- *)
Definition handshake_failure := 40.

Definition server12_resume (O : Orc) (r : Run) : res (option Session) :=
  match r_psk r with
  | None => Ok None
  | Some _ =>
    (* since /repo d08ab2e `self.session = session` is bound BEFORE the Finished exchange so that a failure
       invalidates the resumed session (resumable := False, connection closed); the identities count as
       attributed to the peer when the call returns, which is what this flow's result describes *)
    let go :=
      _ <- opt_alert (r_kx_alert r) ;;      (* other consistency checks with the ClientHello (SNI, EtM, EMS, renegotiation): input *)
      _ <- records r ;;
      _ <- finished O FIN_C12 r (alert decrypt_error) ;;
      Ok (Some {| s_server_chain := None; s_client_chain := r_ticket_chain r; s_srp_user := r_ticket_srp r;
                  s_dc := false; s_psk := None |}) in
    match r_srp_user r, r_ticket_srp r with
    | Some _, None => Ok None                        (* 4114-4120: user-less ticket with an SRP hello is declined *)
    | Some u, Some u' => if list_eqb u u' then go else alert handshake_failure
    | None, _ => go
    end
  end.

(* ---- _handshakeWrapperAsync 4998-5022 with checker.Checker.__call__ (non-resumed) ----- *)
(* since /repo 6da5459 the wrapper turns protocol exceptions raised directly by the handshake
   code into alerts: TLSIllegalParameterException -> illegal_parameter, TLSDecryptionFailed ->
   decrypt_error (TLSDecodeError -> decode_error does not occur in the modelled flows).
   Before that commit they propagated as bare exceptions (the X_ codes). *)
Definition map_exn {A} (m : res A) : res A :=
  match m with
  | Err (OtherExn d) =>
    if d =? X_DecryptionFailed then alert decrypt_error
    else if d =? X_IllegalParameter then alert illegal_parameter
    else m
  | _ => m
  end.

Definition wrapper (hs : res Session) (is_client : bool) (want : option (list Z))
                   (fp : list Z -> list Z) : res Session :=
  s <- map_exn hs ;;
  match want with
  | None => Ok s
  | Some w =>
    match (if is_client then s_server_chain s else s_client_chain s) with
    | Some c => if list_eqb (fp c) w then Ok s else Err (OtherExn X_AuthenticationError)
    | None => Err (OtherExn X_AuthenticationError)
    end
  end.

(* the same with checker.Checker's treatment of RESUMED connections (checker.py 60-67): a CLIENT-side Checker
   built without checkResumedSession=True returns at once when connection.resumed is set (the client checked that
   very session object when it was created, and a failed check makes it non-resumable).  A SERVER always checks
   again (/repo 3463378): the identity it restores comes from a session ticket that was sent BEFORE the Checker ran
   on the full handshake and cannot be revoked.  Before 3463378 the server skipped the check too and
   checker_mismatch_fails_call_resumed was refuted by session_w3 (finding F-C05-4). *)
Definition wrapper_r (hs : res Session) (is_client : bool) (want : option (list Z))
                     (fp : list Z -> list Z) (resumed check_resumed : bool) : res Session :=
  if resumed && negb check_resumed && is_client then map_exn hs else wrapper hs is_client want fp.

(* former witness (accepted before /repo 3463378): the ticket of a client whose chain [9] the server's Checker
   (expects [21]) rejected *)
Definition session_w3 : Session :=
  {| s_server_chain := Some [1]; s_client_chain := Some [9]; s_srp_user := None; s_dc := false; s_psk := Some 5 |}.

(* ---- evaluation against recorded oracle answers (correspondence) ---------------------- *)
Fixpoint lookup_kb (t : list (Z * list Z * bool)) (k : Z) (b : list Z) : bool :=
  match t with
  | [] => false
  | (k', b', v) :: t' => if (k =? k') && list_eqb b b' then v else lookup_kb t' k b
  end.
Fixpoint lookup_digest (t : list (list Z * option string * list Z)) (tr : list Z) (n : option string) : list Z :=
  match t with
  | [] => [-1]
  | (tr', n', v) :: t' => if list_eqb tr tr' && ostr_eqb n n' then v else lookup_digest t' tr n
  end.

(* answers: signature table keyed by (key id, bytes-to-be-signed); Finished / binder
   answers keyed by (which | psk id, transcript); digest tables *)
Record Answers := {
  a_sig : list (Z * list Z * bool);
  a_fin : list (Z * list Z * bool);
  a_binder : list (Z * list Z * bool);
  a_digest : list (list Z * option string * list Z);
  a_hash : list (list Z * option string * list Z);
  a_ssl : list Z }.

Definition orc_of (a : Answers) : Orc :=
  {| sig_ok := fun k _ b _ => lookup_kb (a_sig a) k b;
     fin_ok := fun w tr _ => lookup_kb (a_fin a) w tr;
     binder_ok := fun p tr _ => lookup_kb (a_binder a) p tr;
     o_digest := lookup_digest (a_digest a);
     o_digestSSL := fun _ _ _ => a_ssl a;
     o_calc_key := fun _ _ _ _ _ _ _ => [];
     o_pkcs1 := fun d n => lookup_digest (a_hash a) d (match n with Some s => Some (String.append "pkcs1:" s) | None => None end);
     o_hash := lookup_digest (a_hash a) |}.

Definition run_flow (flow : Z) (O : Orc) (r : Run) : res Session :=
  if flow =? 1 then client12 O r
  else if flow =? 2 then server12 O r
  else if flow =? 3 then client13 O r
  else if flow =? 4 then server13 O r
  else if flow =? 6 then
    o <- server12_resume O r ;;
    match o with
    | Some s => Ok s
    | None => Err (OtherExn 6000)      (* declined: the harness evaluates the full handshake as flow 2 instead *)
    end
  else
    c <- server_pha O r ;;
    Ok {| s_server_chain := r_own_chain r; s_client_chain := c; s_srp_user := None; s_dc := false; s_psk := None |}.

(* verdict code: 0 accepted, otherwise alert description / exception code, 9999 crash *)
Definition verdict_code {A} (m : res A) : Z :=
  match m with Ok _ => 0 | Err (OtherExn d) => d | Err _ => 9999 end.

Definition olist_eqb (a b : option (list Z)) : bool :=
  match a, b with Some x, Some y => list_eqb x y | None, None => true | _, _ => false end.

(* observed: (verdict code, identity fields when accepted) *)
Definition matches_observed (flow : Z) (a : Answers) (r : Run) (is_client : bool) (want : option (list Z))
           (code : Z) (peer_chain : option (list Z)) (srp : option (list Z)) (dc : bool) : bool :=
  let m := wrapper (run_flow flow (orc_of a) r) is_client want (fun c => c) in
  match m with
  | Ok s => (code =? 0)
            && olist_eqb (if is_client then s_server_chain s else s_client_chain s) peer_chain
            && olist_eqb (s_srp_user s) srp && Bool.eqb (s_dc s) dc
  | Err _ =>
    (* impl codes >= 7000: the peer aborted first (remote alert / abrupt close) or a primitive
       raised an exception outside the alert taxonomy (C08's subject): only "rejected" is compared *)
    if code <? 7000 then verdict_code m =? code else negb (code =? 0)
  end.

(* ---- concrete runs used by Examples and by the refutation witnesses -------------------- *)
Definition orc_const (answer : bool) : Orc :=
  {| sig_ok := fun _ _ _ _ => answer; fin_ok := fun _ _ _ => answer; binder_ok := fun _ _ _ => answer;
     o_digest := fun tr _ => tr; o_digestSSL := fun tr _ _ => (repeat 0 16 ++ tr)%list;   (* 16 bytes "md5_hash", then the "sha_hash" *)
     o_calc_key := fun _ _ _ _ _ _ _ => []; o_pkcs1 := fun d _ => d; o_hash := fun d _ => d |}.

Definition cert0 : CertMsg :=
  {| cm_entries := [ {| e_id := 1; e_cert := [1]; e_key := 1; e_dc := [] |} ];
     cm_keytype := "rsa"; cm_curve_hash := None; cm_policy := None |}.

Definition run0 : Run :=
  {| r_ver := (3, 4); r_kx := 1; r_req_cert := false; r_psk := None; r_cert := Some cert0;
     r_cv := Some (Some (8, 4), [7]); r_ske := None; r_cr := [1]; r_sr := [2]; r_premaster := [];
     r_tr_cv := [10]; r_tr_fin := [11]; r_tr_binder := [9]; r_prf := Some "sha256"%string;
     r_offered := [(8, 4)]; r_valid := [(8, 4)]; r_dc_offered := []; r_kx_alert := None;
     r_rec_ok := true; r_fin := [3]; r_binder := []; r_ticket_chain := None; r_ticket_srp := None; r_srp_user := None;
     r_srp_known := false; r_own_chain := None; r_srv_scheme := Some "rsa_pss_rsae_sha256"%string;
     r_ctx_ok := true; r_cert_required := false |}.

Definition set_cv (r : Run) (cv : option (option scheme * list Z)) : Run :=
  {| r_ver := r_ver r; r_kx := r_kx r; r_req_cert := r_req_cert r; r_psk := r_psk r; r_cert := r_cert r;
     r_cv := cv; r_ske := r_ske r; r_cr := r_cr r; r_sr := r_sr r; r_premaster := r_premaster r;
     r_tr_cv := r_tr_cv r; r_tr_fin := r_tr_fin r; r_tr_binder := r_tr_binder r; r_prf := r_prf r;
     r_offered := r_offered r; r_valid := r_valid r; r_dc_offered := r_dc_offered r;
     r_kx_alert := r_kx_alert r; r_rec_ok := r_rec_ok r; r_fin := r_fin r; r_binder := r_binder r;
     r_ticket_chain := r_ticket_chain r; r_ticket_srp := r_ticket_srp r; r_srp_user := r_srp_user r; r_srp_known := r_srp_known r;
     r_own_chain := r_own_chain r; r_srv_scheme := r_srv_scheme r; r_ctx_ok := r_ctx_ok r;
     r_cert_required := r_cert_required r |}.

(* former witness 1 (accepted before fix 61d7222, now rejected with illegal_parameter):
   TLS 1.3 client offered only rsa_pss_rsae_sha256 (8,4); the server signs its
   CertificateVerify with rsa_pkcs1_sha1 (2,1) *)
Definition run_w1 : Run := set_cv run0 (Some (Some (2, 1), [7])).

(* former witness 2 (srpUsername = "admin" recorded before fix 11c0ed7, now None):
   TLS 1.2 certificate-only server (no verifier database, RSA key exchange);
   the ClientHello carries an SRP extension with user name "admin" *)
Definition run_w2 : Run :=
  {| r_ver := (3, 3); r_kx := 0; r_req_cert := false; r_psk := None; r_cert := None;
     r_cv := None; r_ske := None; r_cr := [1]; r_sr := [2]; r_premaster := [];
     r_tr_cv := [10]; r_tr_fin := [11]; r_tr_binder := []; r_prf := None;
     r_offered := []; r_valid := []; r_dc_offered := []; r_kx_alert := None;
     r_rec_ok := true; r_fin := [3]; r_binder := []; r_ticket_chain := None; r_ticket_srp := None;
     r_srp_user := Some [97;100;109;105;110]; r_srp_known := false; r_own_chain := Some [1];
     r_srv_scheme := None; r_ctx_ok := true; r_cert_required := false |}.
