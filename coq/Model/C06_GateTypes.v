(* C06: the shape of one row of the _getMsg call-site table (shared by the generated
   Gen/C06_Gates.v and the hand model).  Definitions only. *)
From Coq Require Import ZArith List String.
Import ListNotations.
Local Open Scope Z_scope.

(* one alternative of a gate: (condition text, expected content types, expected handshake types) *)
Definition gate_alt := (string * list Z * list Z)%type.

Record gate_row := mk_row {
  g_fn : string;          (* method that contains the call *)
  g_ord : Z;              (* ordinal of the call inside the method, source order *)
  g_guard : string;       (* text of the enclosing if-conditions *)
  g_alts : list gate_alt  (* one entry per reaching definition of the arguments *)
}.
