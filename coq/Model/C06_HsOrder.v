(* C06 hand model: the receive side of tlslite-ng's handshake as a finite automaton.

   - [modelled_gates]  : my reading of every self._getMsg(...) call site (compared with the
                         table regenerated from /repo: Props.C06.gates_as_modelled).
   - [getmsg]          : the generic logic of TLSRecordLayer._getMsg/_getNextRecord on one
                         incoming item (record-level event).
   - [step]            : position in the handshake coroutine x event -> next position.
   The automaton is parametric in the gate table G, so that it can be run on the extracted
   table as well as on a repaired one.  Definitions only; proofs are in Proofs/C06_Incl.v. *)
From Coq Require Import ZArith List Bool String.
From TV Require Import Model.C06_GateTypes.
Import ListNotations.
Local Open Scope Z_scope.
Local Open Scope string_scope.

(* ------------------------------------------------------------------ events *)
(* handshake message kinds; HRR = ServerHello carrying the HelloRetryRequest random;
   CertE / CertN = Certificate with an empty / non-empty list; CCert = CompressedCertificate *)
Inductive hst := HReq | CH | SH | HRR | NST | EOED | EE | CertE | CertN | CCert | SKE | CR
               | SHD | CV | CKE | Fin | KU | NPN | HOther.

Definition hs_code (t : hst) : Z :=
  match t with
  | HReq => 0 | CH => 1 | SH => 2 | HRR => 2 | NST => 4 | EOED => 5 | EE => 8
  | CertE => 11 | CertN => 11 | SKE => 12 | CR => 13 | SHD => 14 | CV => 15 | CKE => 16
  | Fin => 20 | KU => 24 | CCert => 25 | NPN => 67 | HOther => 99
  end.

Inductive alertk := AWarnNoCert | AWarn | AClose | AFatal.

(* what _getNextRecord hands to _getMsg, plus the two defragmenter-only events *)
Inductive payload :=
| PH (t : hst) (aligned : bool)    (* a record completes handshake message t; aligned = every
                                      defragmenter buffer is empty after taking it out *)
| PBufH (t : hst) (aligned : bool) (* message t was already complete in the buffer (it arrived
                                      in the same record as the previous message) *)
| PFrag                            (* a handshake record that completes no message *)
| PBufFrag                         (* trailing partial message left in the buffer by the record
                                      that carried the previous message *)
| PCcs (ok : bool)                 (* ChangeCipherSpec; ok = its byte is 1 *)
| PAlert (k : alertk)
| PApp (empty : bool)
| PHb.                             (* well-formed heartbeat request *)

(* protection of the record that carried the bytes: E0 = none, E1 = first keys of the
   connection (<=1.2: after CCS; 1.3: handshake traffic keys), E2 = 1.3 application keys *)
Inductive epoch := E0 | E1 | E2.
Definition sym := (epoch * payload)%type.

(* ------------------------------------------------------------------ configurations *)
Inductive role := Client | Server.
Inductive kx := KRsa | KDhe | KEcdhe | KSrp | KSrpCert | KAnon | KCert13 | KPsk13.

Record cfg := mk_cfg {
  c_role : role;
  c_v13 : bool;      (* negotiated version class: false = SSLv3..TLS1.2, true = TLS1.3 *)
  c_ssl3 : bool;     (* SSLv3 (only matters for the no_certificate alert) *)
  c_kx : kx;
  c_reqcert : bool;  (* server under test asks for a client certificate *)
  c_ticket : bool;   (* <=1.2: ServerHello carries the session_ticket extension *)
  c_npn : bool;      (* <=1.2 server under test expects NextProtocol *)
  c_hrr : bool;      (* 1.3 server under test answers the first ClientHello with HRR *)
  c_resume : bool;   (* <=1.2 abbreviated handshake *)
  c_hb : bool;       (* heartbeat negotiated, peer allowed to send *)
  c_ccert : bool;    (* 1.3 client under test offered compress_certificate *)
  c_early : bool     (* 1.3 server under test: the first ClientHello offered early_data with a
                        usable PSK (RecordLayer.early_data_ok is switched on) *)
}.

Definition kx_has_cert (k : kx) : bool :=
  match k with KRsa | KDhe | KEcdhe | KSrpCert => true | _ => false end.
Definition kx_has_ske (k : kx) : bool :=
  match k with KRsa => false | _ => true end.
(* suites for which a CertificateRequest is tolerated by the client / sent by the server *)
Definition kx_certreq_ok (k : kx) : bool :=
  match k with KRsa | KDhe | KEcdhe => true | _ => false end.

(* ------------------------------------------------------------------ positions *)
Inductive reason := R_unexpected | R_illegal | R_badmac | R_remote | R_any.
Definition reason_alert (r : reason) : option Z :=
  match r with R_unexpected => Some 10 | R_illegal => Some 47 | R_badmac => Some 20 | _ => None end.

Inductive pos :=
(* client, <=1.2 *)
| C_SH | C_Cert | C_SKE | C_CRSHD | C_SHD
(* _getFinished (both roles, <=1.2) *)
| F_First | F_Ccs | F_Npn | F_Fin
(* client, 1.3 *)
| C13_SH0 | C13_SH1 | C13_EE | C13_CRCert | C13_Cert | C13_CV | C13_Fin
(* server *)
| S_CH | S_Cert | S_CKE | S_CV | S13_CH2 | S13_Cert | S13_CV | S13_Fin
(* terminal / post-handshake *)
| P_Done | P_Post | P_Abort (r : reason).

(* contents of the defragmenter's handshake buffer: empty / what is left of the record that
   carried the previous message, not yet looked at / an incomplete message *)
Inductive bufk := BEmpty | BUnknown | BPartial.
(* buf: see above; bep: protection of the record that last put bytes into the buffer;
   gotc: a non-empty client certificate was received *)
(* ed: RecordLayer.early_data_ok -- undecryptable records are silently skipped *)
Record st := mk_st { pc : pos; buf : bufk; gotc : bool; bep : epoch; ed : bool }.
Definition pend (s : st) : bool := match buf s with BEmpty => false | _ => true end.

Definition init_pc (c : cfg) : pos :=
  match c_role c with
  | Client => if c_v13 c then C13_SH0 else C_SH
  | Server => S_CH
  end.
Definition init (c : cfg) : st := mk_st (init_pc c) BEmpty false E0 false.

Definition is_done (s : st) : bool := match pc s with P_Done => true | _ => false end.
Definition is_abort (s : st) : bool := match pc s with P_Abort _ => true | _ => false end.
Definition handshaking (s : st) : bool :=
  match pc s with P_Done | P_Post | P_Abort _ => false | _ => true end.

(* self.version > (3,3) at the time _getMsg runs at this position *)
Definition v13_at (c : cfg) (p : pos) : bool :=
  match p with
  | C13_SH1 | C13_EE | C13_CRCert | C13_Cert | C13_CV | C13_Fin => true
  | S13_CH2 | S13_Cert | S13_CV | S13_Fin => true
  | P_Done | P_Post => c_v13 c
  | _ => false
  end.

(* the read state installed at this position *)
Definition rd_at (c : cfg) (p : pos) : epoch :=
  match p with
  | F_Npn | F_Fin => E1
  | C13_EE | C13_CRCert | C13_Cert | C13_CV | C13_Fin => E1
  | S13_Cert | S13_CV | S13_Fin => E1
  | P_Done | P_Post => if c_v13 c then E2 else E1
  | _ => E0
  end.

(* bool(self.session) while _getMsg runs at this position *)
Definition sess_at (c : cfg) (p : pos) : bool :=
  match p with
  | F_First | F_Ccs | F_Npn | F_Fin =>
      match c_role c with Server => negb (c_resume c) | Client => false end
  | P_Done | P_Post => true
  | _ => false
  end.

(* _middlebox_compat_mode *)
Definition mb_at (p : pos) : bool := match p with P_Done | P_Post => false | _ => true end.

(* ------------------------------------------------------------------ gates *)
Definition modelled_gates : list gate_row := [
  mk_row "_handshakeClientAsyncHelper" 0 ""
     [("", [22], [2])];
  mk_row "_handshakeClientAsyncHelper" 1 "result.random == TLS_1_3_HRR and ext and (ext.version > (3, 3))"
     [("", [22], [2])];
  mk_row "_handshakeClientAsyncHelper" 2 "ext and ext.version > (3, 3)"
     [("", [22], [8])];
  mk_row "_handshakeClientAsyncHelper" 3 "ext and ext.version > (3, 3) && not sr_psk"
     [("comp_cert_ext", [22], [13; 11; 25]); ("not (comp_cert_ext)", [22], [13; 11])];
  mk_row "_handshakeClientAsyncHelper" 4 "ext and ext.version > (3, 3) && not sr_psk && isinstance(result, CertificateRequest)"
     [("comp_cert_ext", [22], [11; 25]); ("not (comp_cert_ext)", [22], [11])];
  mk_row "_handshakeClientAsyncHelper" 5 "ext and ext.version > (3, 3) && not sr_psk"
     [("", [22], [15])];
  mk_row "_handshakeClientAsyncHelper" 6 "ext and ext.version > (3, 3)"
     [("", [22], [20])];
  mk_row "_handshakeClientAsyncHelper" 7 "cipherSuite in CipherSuite.certAllSuites or cipherSuite in CipherSuite.ecdheEcdsaSuites or cipherSuite in CipherSuite.dheDsaSuites"
     [("", [22], [11])];
  mk_row "_handshakeClientAsyncHelper" 8 "cipherSuite not in CipherSuite.certSuites"
     [("", [22], [12])];
  mk_row "_handshakeClientAsyncHelper" 9 ""
     [("", [22], [13; 14])];
  mk_row "_handshakeClientAsyncHelper" 10 "isinstance(result, CertificateRequest)"
     [("", [22], [14])];
  mk_row "_handshakeServerAsyncHelper" 0 ""
     [("", [22], [1])];
  mk_row "_handshakeServerAsyncHelper" 1 "version > (3, 3) && hrr_ext"
     [("", [22], [1])];
  mk_row "_handshakeServerAsyncHelper" 2 "version > (3, 3) && reqCert and selected_psk is None"
     [("cert_req_comp_cert_ext", [22], [11; 25]); ("not (cert_req_comp_cert_ext)", [22], [11])];
  mk_row "_handshakeServerAsyncHelper" 3 "version > (3, 3) && client_cert_chain and client_cert_chain.getNumCerts()"
     [("", [22], [15])];
  mk_row "_handshakeServerAsyncHelper" 4 "version > (3, 3)"
     [("", [22], [20])];
  mk_row "_handshakeServerAsyncHelper" 5 "cipherSuite in CipherSuite.srpAllSuites"
     [("", [22], [16])];
  mk_row "_handshakeServerAsyncHelper" 6 "not (cipherSuite in CipherSuite.srpAllSuites) && cipherSuite in CipherSuite.certSuites or cipherSuite in CipherSuite.dheCertSuites or cipherSuite in CipherSuite.dheDsaSuites or (cipherSuite in CipherSuite.ecdheCertSuites) or (cipherSuite in CipherSuite.ecdheEcdsaSuites) && reqCert && self.version == (3, 0)"
     [("", [22; 21], [11])];
  mk_row "_handshakeServerAsyncHelper" 7 "not (cipherSuite in CipherSuite.srpAllSuites) && cipherSuite in CipherSuite.certSuites or cipherSuite in CipherSuite.dheCertSuites or cipherSuite in CipherSuite.dheDsaSuites or (cipherSuite in CipherSuite.ecdheCertSuites) or (cipherSuite in CipherSuite.ecdheEcdsaSuites) && reqCert && not (self.version == (3, 0)) && self.version in ((3, 1), (3, 2), (3, 3))"
     [("", [22], [11])];
  mk_row "_handshakeServerAsyncHelper" 8 "not (cipherSuite in CipherSuite.srpAllSuites) && cipherSuite in CipherSuite.certSuites or cipherSuite in CipherSuite.dheCertSuites or cipherSuite in CipherSuite.dheDsaSuites or (cipherSuite in CipherSuite.ecdheCertSuites) or (cipherSuite in CipherSuite.ecdheEcdsaSuites)"
     [("", [22], [16])];
  mk_row "_handshakeServerAsyncHelper" 9 "not (cipherSuite in CipherSuite.srpAllSuites) && cipherSuite in CipherSuite.certSuites or cipherSuite in CipherSuite.dheCertSuites or cipherSuite in CipherSuite.dheDsaSuites or (cipherSuite in CipherSuite.ecdheCertSuites) or (cipherSuite in CipherSuite.ecdheEcdsaSuites) && clientCertChain"
     [("", [22], [15])];
  mk_row "_handshakeServerAsyncHelper" 10 "not (cipherSuite in CipherSuite.srpAllSuites) && not (cipherSuite in CipherSuite.certSuites or cipherSuite in CipherSuite.dheCertSuites or cipherSuite in CipherSuite.dheDsaSuites or (cipherSuite in CipherSuite.ecdheCertSuites) or (cipherSuite in CipherSuite.ecdheEcdsaSuites)) && cipherSuite in CipherSuite.anonSuites or cipherSuite in CipherSuite.ecdhAnonSuites"
     [("", [22], [16])];
  mk_row "_getFinished" 0 "expect_new_session_ticket and self._client"
     [("", [22], [4])];
  mk_row "_getFinished" 1 ""
     [("", [22; 20], [])];
  mk_row "_getFinished" 2 "expect_next_protocol"
     [("", [22], [67])];
  mk_row "_getFinished" 3 ""
     [("", [22], [20])];
  mk_row "readAsync" 0 ""
     [("self.version > (3, 3) && not self._client && self._client_keypair", [23; 22], [24; 13]); ("self.version > (3, 3) && not self._client && not (self._client_keypair) && self._cert_requests && cert_req_with_comp_cert_ext", [23; 22], [24; 11; 25]); ("self.version > (3, 3) && not self._client && not (self._client_keypair) && self._cert_requests && not (cert_req_with_comp_cert_ext)", [23; 22], [24; 11]); ("self.version > (3, 3) && not self._client && not (self._client_keypair) && not (self._cert_requests)", [23; 22], [24]); ("self.version > (3, 3) && not (not self._client) && self._client_keypair", [23; 22], [4; 24; 13]); ("self.version > (3, 3) && not (not self._client) && not (self._client_keypair) && self._cert_requests && cert_req_with_comp_cert_ext", [23; 22], [4; 24; 11; 25]); ("self.version > (3, 3) && not (not self._client) && not (self._client_keypair) && self._cert_requests && not (cert_req_with_comp_cert_ext)", [23; 22], [4; 24; 11]); ("self.version > (3, 3) && not (not self._client) && not (self._client_keypair) && not (self._cert_requests)", [23; 22], [4; 24]); ("not (self.version > (3, 3))", [23], [])];
  mk_row "_decrefAsync" 0 "self._refCount == 0 and (not self.closed) && not (self.closeSocket)"
     [("", [21; 23], [])];
  mk_row "_handle_srv_pha" 0 "cert.cert_chain"
     [("", [22], [15])];
  mk_row "_handle_srv_pha" 1 ""
     [("", [22], [20])]
].

(* my reading of every unexpected_message abort site (method, ordinal, enclosing conditions).
   Those the automaton implements: _clientGetServerHello 0 and _serverGetClientHello 0 (first-flight
   record boundary, flow at C13_SH0 / S_CH), _clientKeyExchange 0 (CertificateRequest only with
   certificate suites that are not SRP, flow at C_CRSHD), _getFinished 0 (CCS only between complete
   handshake messages, flow at F_Ccs), _getMsg 0-7 (getmsg / getmsg_hs).  Compared with the
   regenerated table by Props.C06.order_checks_as_modelled. *)
Definition modelled_order_checks : list (string * Z * string) := [
  ("_handshakeClientAsyncHelper", 0, "real_version > (3, 3) and (not self._defragmenter.is_empty())");
  ("_handshakeClientAsyncHelper", 1, "ext and ext.version > (3, 3) && not sr_psk && cert_ext && not settings.dc_sig_algs");
  ("_handshakeClientAsyncHelper", 2, "isinstance(result, CertificateRequest) && cipherSuite not in CipherSuite.certAllSuites and cipherSuite not in CipherSuite.ecdheEcdsaSuites and (cipherSuite not in CipherSuite.dheDsaSuites) or cipherSuite in CipherSuite.srpAllSuites");
  ("_handshakeServerAsyncHelper", 0, "version > (3, 3) && not self._defragmenter.is_empty()");
  ("_getFinished", 0, "not self._defragmenter.is_empty()");
  ("_getFinished", 1, "expect_next_protocol && result is None");
  ("_getMsg", 0, "self.version > (3, 3) and recordHeader.type != ContentType.handshake and self._defragmenter.buffers[ContentType.handshake]");
  ("_getMsg", 1, "self.version > (3, 3) and ContentType.handshake in expectedType and self._middlebox_compat_mode and (recordHeader.type == ContentType.change_cipher_spec) && ccs.type != 1");
  ("_getMsg", 2, "recordHeader.type not in expectedType && recordHeader.type == ContentType.heartbeat and self.heartbeat_supported && heartbeat_message.message_type == HeartbeatMessageType.heartbeat_request && not self.heartbeat_can_receive");
  ("_getMsg", 3, "recordHeader.type not in expectedType");
  ("_getMsg", 4, "not (recordHeader.type == ContentType.change_cipher_spec) && not (recordHeader.type == ContentType.alert) && not (recordHeader.type == ContentType.application_data) && recordHeader.type == ContentType.handshake && recordHeader.ssl2 && subType != HandshakeType.client_hello");
  ("_getMsg", 5, "not (recordHeader.type == ContentType.change_cipher_spec) && not (recordHeader.type == ContentType.alert) && not (recordHeader.type == ContentType.application_data) && recordHeader.type == ContentType.handshake && recordHeader.ssl2 && HandshakeType.client_hello not in secondaryType");
  ("_getMsg", 6, "not (recordHeader.type == ContentType.change_cipher_spec) && not (recordHeader.type == ContentType.alert) && not (recordHeader.type == ContentType.application_data) && recordHeader.type == ContentType.handshake && not (recordHeader.ssl2) && subType not in secondaryType");
  ("_getMsg", 7, "not (recordHeader.type == ContentType.change_cipher_spec) && not (recordHeader.type == ContentType.alert) && not (recordHeader.type == ContentType.application_data) && recordHeader.type == ContentType.handshake && self.version > (3, 3) and subType in (HandshakeType.client_hello, HandshakeType.end_of_early_data, HandshakeType.server_hello, HandshakeType.finished, HandshakeType.key_update) and (not self._defragmenter.is_empty())");
  ("_getNextRecord", 0, "except TLSUnexpectedMessage");
  ("_getNextRecord", 1, "header.type != ContentType.application_data and parser.getRemainingLength() == 0");
  ("_getNextRecord", 2, "header.type not in ContentType.all")
].

(* the defragmenter pieces those checks rely on, as normalised source text *)
Definition modelled_defrag : list (string * string) := [
  ("Defragmenter.is_empty", "return all((not i for i in self.buffers.values()))");
  ("Defragmenter.get_message", "for msg_type in self.priorities: buf = self.buffers[msg_type] length = self.decoders[msg_type](buf) if length is None: continue data = buf[:length] del buf[:length] return (msg_type, data) ; return None");
  ("Defragmenter.add_data", "if msg_type not in self.priorities: raise ValueError('Message type not defined') ; self.buffers[msg_type] += data");
  ("Defragmenter.clear_buffers", "for key in self.buffers.keys(): self.buffers[key] = bytearray(0)");
  ("TLSRecordLayer.defragmenter_setup", "self._defragmenter.add_static_size(ContentType.change_cipher_spec, 1) ; self._defragmenter.add_static_size(ContentType.alert, 2) ; self._defragmenter.add_dynamic_size(ContentType.handshake, 1, 3)");
  ("is_empty.users", "_handshakeClientAsyncHelper:1 ; _handshakeServerAsyncHelper:1 ; _getFinished:1 ; _getMsg:1")
].

(* my reading of every assignment to early_data_ok: switched on by a first ClientHello that
   offers early_data (TLS 1.3 in its supported_versions), restored around a TLS 1.3 CCS by
   _getNextRecord, switched off UNCONDITIONALLY after every record recvRecord processed
   (step_t: ed'/ed'').  Compared by Props.C06.early_data_as_modelled. *)
Definition modelled_early_data : list (string * Z * string * string) := [
  ("_handshakeServerAsyncHelper", 0, "ver_ext and (3, 4) in ver_ext.versions && early_data", "True");
  ("_getNextRecord", 0, "header.type == ContentType.application_data or (self.version > (3, 3) and header.type == ContentType.change_cipher_spec) && header.type == ContentType.change_cipher_spec", "early_data_ok");
  ("RecordLayer.recvRecord", 0, "", "False")
].

(* my reading of how each flow calls the gate-carrying methods that have several callers:
   the client passes expect_new_session_ticket = "ServerHello carried session_ticket" (c_ticket) and
   never expect_next_protocol; the server passes expect_next_protocol = "nextProtos is not None",
   i.e. exactly when it put the NPN extension into its ServerHello (c_npn), and nothing when it
   resumes (after_ccs / fin_start).  Compared by Props.C06.gate_calls_as_modelled. *)
Definition modelled_gate_calls : list (string * Z * string * string * string) := [
  ("_handshakeClientAsyncHelper", 0, "_getFinished", "session and (session.sessionID or session.tls_1_0_tickets) and serverHello.session_id and (serverHello.session_id == offered_session_id)", "session.masterSecret, session.cipherSuite, expect_new_session_ticket=ticket_announced");
  ("_handshakeClientAsyncHelper", 1, "_getFinished", "", "masterSecret, cipherSuite, nextProto=nextProto, expect_new_session_ticket=expect_new_session_ticket");
  ("_handshakeServerAsyncHelper", 0, "_getFinished", "clientHello.session_id and sessionCache or (ticket_ext and ticket_ext.ticket) && session", "session.masterSecret, session.cipherSuite");
  ("_handshakeServerAsyncHelper", 1, "_getFinished", "", "masterSecret, cipherSuite, expect_next_protocol=nextProtos is not None");
  ("readAsync", 0, "_handle_srv_pha", "not (isinstance(result, NewSessionTicket)) && not (isinstance(result, KeyUpdate)) && isinstance(result, CompressedCertificate)", "result");
  ("readAsync", 1, "_handle_srv_pha", "not (isinstance(result, NewSessionTicket)) && not (isinstance(result, KeyUpdate)) && not (isinstance(result, CompressedCertificate)) && isinstance(result, Certificate)", "result")
].


Definition gate := (list Z * list Z)%type.   (* content types, handshake types *)
Definition no_gate : gate := ([], []).       (* a missing row admits nothing *)

Fixpoint gate_of (G : list gate_row) (fn : string) (ord : Z) (alt : nat) : gate :=
  match G with
  | [] => no_gate
  | r :: G' =>
      if (String.eqb (g_fn r) fn && Z.eqb (g_ord r) ord)%bool
      then match nth_error (g_alts r) alt with
           | Some (_, cts, hts) => (cts, hts)
           | None => no_gate
           end
      else gate_of G' fn ord alt
  end.

(* rows are keyed by ROOT method (helper generators with a single caller are flattened into it):
   _handshakeClientAsyncHelper 0-1 = _clientGetServerHello, 2-6 = _clientTLS13Handshake,
   7-10 = _clientKeyExchange; _handshakeServerAsyncHelper 0-1 = _serverGetClientHello,
   2-4 = _serverTLS13Handshake, 5 = _serverSRPKeyExchange, 6-9 = _serverCertKeyExchange,
   10 = _serverAnonKeyExchange *)
Definition gate_at (G : list gate_row) (c : cfg) (p : pos) : gate :=
  match p with
  | C_SH | C13_SH0 => gate_of G "_handshakeClientAsyncHelper" 0 0
  | C13_SH1 => gate_of G "_handshakeClientAsyncHelper" 1 0
  | C_Cert => gate_of G "_handshakeClientAsyncHelper" 7 0
  | C_SKE => gate_of G "_handshakeClientAsyncHelper" 8 0
  | C_CRSHD => gate_of G "_handshakeClientAsyncHelper" 9 0
  | C_SHD => gate_of G "_handshakeClientAsyncHelper" 10 0
  | F_First => gate_of G "_getFinished" 0 0
  | F_Ccs => gate_of G "_getFinished" 1 0
  | F_Npn => gate_of G "_getFinished" 2 0
  | F_Fin => gate_of G "_getFinished" 3 0
  | C13_EE => gate_of G "_handshakeClientAsyncHelper" 2 0
  | C13_CRCert => gate_of G "_handshakeClientAsyncHelper" 3 (if c_ccert c then 0 else 1)%nat
  | C13_Cert => gate_of G "_handshakeClientAsyncHelper" 4 (if c_ccert c then 0 else 1)%nat
  | C13_CV => gate_of G "_handshakeClientAsyncHelper" 5 0
  | C13_Fin => gate_of G "_handshakeClientAsyncHelper" 6 0
  | S_CH => gate_of G "_handshakeServerAsyncHelper" 0 0
  | S13_CH2 => gate_of G "_handshakeServerAsyncHelper" 1 0
  | S_Cert => if c_ssl3 c then gate_of G "_handshakeServerAsyncHelper" 6 0
              else gate_of G "_handshakeServerAsyncHelper" 7 0
  | S_CKE => match c_kx c with
             | KSrp | KSrpCert => gate_of G "_handshakeServerAsyncHelper" 5 0
             | KAnon => gate_of G "_handshakeServerAsyncHelper" 10 0
             | _ => gate_of G "_handshakeServerAsyncHelper" 8 0
             end
  | S_CV => gate_of G "_handshakeServerAsyncHelper" 9 0
  (* in TLS 1.3 a CertificateRequest always carries compress_certificate: alternative 0 *)
  | S13_Cert => gate_of G "_handshakeServerAsyncHelper" 2 0
  | S13_CV => gate_of G "_handshakeServerAsyncHelper" 3 0
  | S13_Fin => gate_of G "_handshakeServerAsyncHelper" 4 0
  (* readAsync without post-handshake authentication pending *)
  | P_Done | P_Post =>
      gate_of G "readAsync" 0
        (if c_v13 c then match c_role c with Server => 3 | Client => 7 end else 8)%nat
  | P_Abort _ => no_gate
  end.

Definition zin (x : Z) (l : list Z) : bool := existsb (Z.eqb x) l.

(* ------------------------------------------------------------------ _getMsg *)
Inductive deliv := DHs (t : hst) | DCcs (ok : bool) | DAlert (k : alertk) | DApp.
Inductive gres :=
| GSkip (warn : option Z)   (* loop again; warn = description of a warning alert sent *)
| GSkipU                    (* record layer: undecryptable record dropped (early-data window) *)
| GAbort (r : reason)
| GDeliver (d : deliv).

Definition ct_of (p : payload) : Z :=
  match p with
  | PH _ _ | PBufH _ _ | PFrag | PBufFrag => 22
  | PCcs _ => 20 | PAlert _ => 21 | PApp _ => 23 | PHb => 24
  end.

Definition key_change_msg (t : hst) : bool :=
  match t with CH | EOED | SH | HRR | Fin | KU => true | _ => false end.

Record gctx := mk_gctx {
  x_v13 : bool; x_client : bool; x_sess : bool; x_mb : bool; x_hb : bool; x_rd : epoch
}.

Definition epoch_eqb (a b : epoch) : bool :=
  match a, b with E0, E0 | E1, E1 | E2, E2 => true | _, _ => false end.

(* handshake part of _getMsg once a complete message (t, aligned) is in hand *)
Definition getmsg_hs (x : gctx) (g : gate) (t : hst) (aligned : bool) : gres :=
  let '(cts, hts) := g in
  if negb (zin 22 cts) then
    (* unexpected record type: renegotiation attempt? *)
    let reneg := if x_client x then (Z.eqb (hs_code t) 0) else (Z.eqb (hs_code t) 1) in
    if (reneg && x_sess x)%bool then GSkip (Some 100) else GAbort R_unexpected
  else if negb (zin (hs_code t) hts) then GAbort R_unexpected
  else if (x_v13 x && key_change_msg t && negb aligned)%bool then GAbort R_unexpected
  else GDeliver (DHs t).

(* one incoming item; [pend] = the handshake buffer is non-empty before it arrives *)
Definition getmsg (x : gctx) (g : gate) (pend : bool) (edw : bool) (s : sym) : gres :=
  let '(ep, p) := s in
  let '(cts, hts) := g in
  match p with
  (* bytes that are already in the defragmenter are not read from the socket again: no
     record-layer processing applies to them ([step_t] makes sure they are only offered when
     the buffer holds the rest of an earlier record) *)
  | PBufH t a => getmsg_hs x g t a
  | PBufFrag => GSkip None
  | _ =>
    (* RecordLayer.recvRecord: a TLS 1.3 ChangeCipherSpec record is passed through unprotected;
       everything else must open under the current read state *)
    let passthrough := (x_v13 x && epoch_eqb ep E0 && match p with PCcs _ => true | _ => false end)%bool in
    (* recvRecord, no read keys yet and early_data_ok: every record of outer type application_data
       is taken for early data and dropped, whatever it contains *)
    if (edw && epoch_eqb (x_rd x) E0 && match p with PApp _ => true | _ => false end)%bool then GSkipU else
    if negb (epoch_eqb ep (x_rd x) || passthrough)
    then
      (* TLS 1.3 plaintext alert under handshake keys: taken as an alert before the first
         protected record (hence also inside the early-data window), refused afterwards *)
      if (x_v13 x && epoch_eqb ep E0 && negb (epoch_eqb (x_rd x) E0)
          && match p with PAlert _ => true | _ => false end)%bool then GAbort R_any
      (* RecordLayer.recvRecord: while early_data_ok a record that does not open is dropped *)
      else if edw then GSkipU
      else GAbort (match x_rd x with
                   | E0 => R_any               (* ciphertext read as if it were plaintext *)
                   | _ => R_badmac
                   end)
    else match p with
    | PFrag => GSkip None
    | PH t a => getmsg_hs x g t a
    | PCcs ok =>
        (* recvRecord: a TLS 1.3 record that opens to inner type change_cipher_spec *)
        if (x_v13 x && negb (epoch_eqb ep E0))%bool then GAbort R_unexpected
        (* interleaving ban first, then the middlebox-compatibility tolerance *)
        else if (x_v13 x && pend)%bool then GAbort R_unexpected
        else if (x_v13 x && zin 22 cts && x_mb x)%bool
        then (if ok then GSkip None else GAbort R_unexpected)
        else if negb (zin 20 cts) then GAbort R_unexpected
        else GDeliver (DCcs ok)
    | PAlert k =>
        if (x_v13 x && pend)%bool then GAbort R_unexpected
        else if negb (zin 21 cts) then GAbort R_remote
        else GDeliver (DAlert k)
    | PHb =>
        if (x_v13 x && pend)%bool then GAbort R_unexpected
        else if negb (zin 24 cts)
             then (if x_hb x then GSkip None else GAbort R_unexpected)
             else GAbort R_any
    | PApp e =>
        if (x_v13 x && pend)%bool then GAbort R_unexpected
        else if negb (zin 23 cts) then GAbort R_unexpected
        else if e then GSkip None
        else GDeliver DApp
    | _ => GAbort R_any
    end
  end.

(* heartbeat_supported while _getMsg runs at this position: the server sets it while it
   processes the first ClientHello, the <=1.2 client at the end of ServerHello processing, the
   1.3 client only after the handshake *)
Definition hb_at (c : cfg) (p : pos) : bool :=
  c_hb c &&
  match p with
  | P_Done | P_Post => true
  | S_CH | C_SH => false
  | _ => match c_role c with Server => true | Client => negb (c_v13 c) end
  end.

Definition ctx_at (c : cfg) (p : pos) : gctx :=
  mk_gctx (v13_at c p) (match c_role c with Client => true | Server => false end)
          (sess_at c p) (mb_at p) (hb_at c p) (rd_at c p).

(* ------------------------------------------------------------------ the coroutines *)
Definition after_ccs (c : cfg) : pos :=
  match c_role c with
  (* the resumption branch of _serverGetClientHello calls _getFinished without
     expect_next_protocol *)
  | Server => if (c_npn c && negb (c_resume c))%bool then F_Npn else F_Fin
  | Client => F_Fin
  end.

(* _getFinished: an announcing client first reads the NewSessionTicket (F_First), everybody
   else starts at the ChangeCipherSpec gate (F_Ccs) *)
Definition fin_start (c : cfg) : pos :=
  match c_role c with
  | Client => if c_ticket c then F_First else F_Ccs
  | Server => F_Ccs
  end.

Definition c12_after_sh (c : cfg) : pos :=
  if c_resume c then fin_start c
  else if kx_has_cert (c_kx c) then C_Cert
  else if kx_has_ske (c_kx c) then C_SKE else C_CRSHD.

Definition s_after_ch (c : cfg) : pos :=
  if c_v13 c then
    (if (c_reqcert c && negb (match c_kx c with KPsk13 => true | _ => false end))%bool
     then S13_Cert else S13_Fin)
  else if c_resume c then fin_start c
  else if (c_reqcert c && kx_certreq_ok (c_kx c))%bool then S_Cert else S_CKE.

(* what the coroutine does with a delivered message: (next position, got non-empty cert);
   pd = the defragmenter is non-empty once the message has been taken out *)
Definition flow (c : cfg) (p : pos) (gc : bool) (pd : bool) (d : deliv) : pos * bool :=
  match p, d with
  (* ---- client <= 1.2 *)
  | C_SH, DHs SH => (c12_after_sh c, gc)
  | C_SH, DHs HRR => (P_Abort R_any, gc)
  | C_Cert, DHs CertN => (if kx_has_ske (c_kx c) then C_SKE else C_CRSHD, gc)
  | C_Cert, DHs CertE => (P_Abort R_any, gc)
  | C_SKE, DHs SKE => (C_CRSHD, gc)
  | C_CRSHD, DHs CR => (if kx_certreq_ok (c_kx c) then C_SHD else P_Abort R_unexpected, gc)
  | C_CRSHD, DHs SHD => (fin_start c, gc)
  | C_SHD, DHs SHD => (fin_start c, gc)
  (* ---- _getFinished *)
  | F_First, DHs NST => (F_Ccs, gc)
  | F_Ccs, DCcs ok => (if ok then (if pd then P_Abort R_unexpected else after_ccs c)
                       else P_Abort R_illegal, gc)
  | F_Npn, DHs NPN => (F_Fin, gc)
  | F_Fin, DHs Fin => (P_Done, gc)
  (* ---- client 1.3 *)
  | C13_SH0, DHs HRR => (C13_SH1, gc)
  | C13_SH0, DHs SH => (if pd then P_Abort R_unexpected else C13_EE, gc)
  | C13_SH1, DHs SH => (C13_EE, gc)
  | C13_SH1, DHs HRR => (P_Abort R_any, gc)
  | C13_EE, DHs EE => (match c_kx c with KPsk13 => C13_Fin | _ => C13_CRCert end, gc)
  | C13_CRCert, DHs CR => (C13_Cert, gc)
  | C13_CRCert, DHs CertN => (C13_CV, gc)
  | C13_CRCert, DHs CCert => (C13_CV, gc)
  | C13_CRCert, DHs CertE => (P_Abort R_any, gc)
  | C13_Cert, DHs CertN => (C13_CV, gc)
  | C13_Cert, DHs CCert => (C13_CV, gc)
  | C13_Cert, DHs CertE => (P_Abort R_any, gc)
  | C13_CV, DHs CV => (C13_Fin, gc)
  | C13_Fin, DHs Fin => (P_Done, gc)
  (* ---- server *)
  | S_CH, DHs CH => (if (c_v13 c && pd)%bool then P_Abort R_unexpected
                     else if (c_v13 c && c_hrr c)%bool then S13_CH2 else s_after_ch c, gc)
  | S13_CH2, DHs CH => (s_after_ch c, gc)
  | S_Cert, DHs CertN => (S_CKE, true)
  | S_Cert, DHs CertE => (S_CKE, false)
  | S_Cert, DAlert AWarnNoCert => (S_CKE, false)
  | S_Cert, DAlert _ => (P_Abort R_remote, gc)
  | S_CKE, DHs CKE => (if gc then S_CV else fin_start c, gc)
  | S_CV, DHs CV => (fin_start c, gc)
  | S13_Cert, DHs CertN => (S13_CV, true)
  | S13_Cert, DHs CCert => (S13_CV, true)
  | S13_Cert, DHs CertE => (S13_Fin, false)
  | S13_CV, DHs CV => (S13_Fin, gc)
  | S13_Fin, DHs Fin => (P_Done, gc)
  (* ---- post-handshake (readAsync): data, tickets and key updates keep the connection up *)
  | P_Done, DApp => (P_Post, gc)
  | P_Post, DApp => (P_Post, gc)
  | P_Done, DHs NST => (P_Post, gc)
  | P_Post, DHs NST => (P_Post, gc)
  | P_Done, DHs KU => (P_Post, gc)
  | P_Post, DHs KU => (P_Post, gc)
  (* anything else that a gate lets through is a coding error (AssertionError) *)
  | _, _ => (P_Abort R_any, gc)
  end.

Definition reason_eqb (a b : reason) : bool :=
  match a, b with
  | R_unexpected, R_unexpected | R_illegal, R_illegal | R_badmac, R_badmac
  | R_remote, R_remote | R_any, R_any => true
  | _, _ => false
  end.

Definition pos_eqb (a b : pos) : bool :=
  match a, b with
  | C_SH, C_SH | C_Cert, C_Cert | C_SKE, C_SKE | C_CRSHD, C_CRSHD | C_SHD, C_SHD
  | F_First, F_First | F_Ccs, F_Ccs | F_Npn, F_Npn | F_Fin, F_Fin
  | C13_SH0, C13_SH0 | C13_SH1, C13_SH1 | C13_EE, C13_EE | C13_CRCert, C13_CRCert
  | C13_Cert, C13_Cert | C13_CV, C13_CV | C13_Fin, C13_Fin
  | S_CH, S_CH | S_Cert, S_Cert | S_CKE, S_CKE | S_CV, S_CV | S13_CH2, S13_CH2
  | S13_Cert, S13_Cert | S13_CV, S13_CV | S13_Fin, S13_Fin
  | P_Done, P_Done | P_Post, P_Post => true
  | P_Abort r, P_Abort r' => reason_eqb r r'
  | _, _ => false
  end.

(* the gates of one configuration, looked up once (gate_at compares strings) *)
Definition gtab := list (pos * gate).
Fixpoint tab_get (t : gtab) (p : pos) : gate :=
  match t with
  | [] => no_gate
  | (p', g) :: t' => if pos_eqb p p' then g else tab_get t' p
  end.

Definition is_buf (p : payload) : bool :=
  match p with PBufH _ _ | PBufFrag => true | _ => false end.
Definition is_hs_record (p : payload) : bool :=
  match p with PH _ _ | PFrag => true | _ => false end.

(* Which events describe a possible input in the current buffer situation:
   - right after a message that did not end its record (BUnknown) the defragmenter looks at
     the rest of that record first: the next event is PBufH (another complete message) or
     PBufFrag (an incomplete one), carrying the epoch of that record;
   - otherwise the next event comes from a new record. *)
Definition wf_event (s : st) (e : sym) : bool :=
  match buf s with
  | BUnknown => is_buf (snd e) && epoch_eqb (fst e) (bep s)
  | _ => negb (is_buf (snd e))
  end.

Definition buf_after (b : bufk) (p : payload) : bufk :=
  match p with
  | PH _ a | PBufH _ a => if a then BEmpty else BUnknown
  | PFrag | PBufFrag => BPartial
  | _ => b
  end.

(* one event.  Second component: description of a warning alert sent while staying put.
   An event that describes no possible input (see wf_event) goes to the sink P_Abort R_any. *)
Definition step_t (t : gtab) (c : cfg) (s : st) (e : sym) : st * option Z :=
  match pc s with
  | P_Abort _ => (s, None)
  | p =>
      if negb (wf_event s e)
      then (mk_st (P_Abort R_any) (buf s) (gotc s) (bep s) (ed s), None)
      else
      let r := getmsg (ctx_at c p) (tab_get t p) (pend s) (ed s) e in
      let buf' := buf_after (buf s) (snd e) in
      let bep' := if is_hs_record (snd e) then fst e else bep s in
      (* early_data_ok after the event: any record that was processed switches it off, except a
         TLS 1.3 ChangeCipherSpec (_getNextRecord restores the flag); buffered bytes involve no
         record *)
      let ed' := if is_buf (snd e) then ed s
                 else if (v13_at c p && match snd e with PCcs _ => true | _ => false end)%bool then ed s
                 else false in
      match r with
      | GSkip w =>
          (mk_st (match p with P_Done => P_Post | _ => p end) buf' (gotc s) bep' ed', w)
      | GSkipU => (mk_st (match p with P_Done => P_Post | _ => p end) (buf s) (gotc s) (bep s) (ed s), None)
      | GAbort rs => (mk_st (P_Abort rs) (buf s) (gotc s) (bep s) (ed s), None)
      | GDeliver d =>
          let '(p', gc') := flow c p (gotc s) (match buf' with BEmpty => false | _ => true end) d in
          (* _serverGetClientHello switches the window on while it processes a first
             ClientHello that offers early_data with a PSK *)
          let ed'' := match p, d with
                      | S_CH, DHs CH => (c_v13 c && c_early c)%bool
                      | _, _ => ed'
                      end in
          (mk_st p' buf' gc' bep' ed'', None)
      end
  end.

Definition run_from (t : gtab) (c : cfg) (s : st) (w : list sym) : st :=
  fold_left (fun s e => fst (step_t t c s e)) w s.

(* ------------------------------------------------------------------ finite enumerations *)
Definition all_hst : list hst :=
  [HReq; CH; SH; HRR; NST; EOED; EE; CertE; CertN; CCert; SKE; CR; SHD; CV; CKE; Fin; KU; NPN; HOther].
Definition all_payload : list payload :=
  flat_map (fun t => [PH t true; PH t false; PBufH t true; PBufH t false]) all_hst
  ++ [PFrag; PBufFrag; PCcs true; PCcs false; PAlert AWarnNoCert; PAlert AWarn; PAlert AClose;
      PAlert AFatal; PApp true; PApp false; PHb].
Definition all_epoch : list epoch := [E0; E1; E2].
Definition Sigma : list sym := flat_map (fun e => map (fun p => (e, p)) all_payload) all_epoch.

Definition all_reason : list reason := [R_unexpected; R_illegal; R_badmac; R_remote; R_any].
Definition all_pos : list pos :=
  [C_SH; C_Cert; C_SKE; C_CRSHD; C_SHD; F_First; F_Ccs; F_Npn; F_Fin;
   C13_SH0; C13_SH1; C13_EE; C13_CRCert; C13_Cert; C13_CV; C13_Fin;
   S_CH; S_Cert; S_CKE; S_CV; S13_CH2; S13_Cert; S13_CV; S13_Fin; P_Done; P_Post]
  ++ map P_Abort all_reason.
Definition all_st : list st :=
  flat_map (fun p => flat_map (fun e => flat_map (fun b =>
    [mk_st p b false e false; mk_st p b true e false; mk_st p b false e true; mk_st p b true e true])
    [BEmpty; BUnknown; BPartial])
    all_epoch) all_pos.

Definition gate_tab (G : list gate_row) (c : cfg) : gtab := map (fun p => (p, gate_at G c p)) all_pos.
Definition step (G : list gate_row) (c : cfg) (s : st) (e : sym) : st * option Z :=
  step_t (gate_tab G c) c s e.
Definition run (G : list gate_row) (c : cfg) (w : list sym) : st :=
  run_from (gate_tab G c) c (init c) w.
(* the endpoint completes its handshake exactly at the end of w *)
Definition completes (G : list gate_row) (c : cfg) (w : list sym) : bool := is_done (run G c w).

Definition bools : list bool := [false; true].

(* the configurations the theorems quantify over: full products per role and version class *)
Definition cl12 (k : kx) (tk rs hb : bool) : cfg := mk_cfg Client false false k false tk false false rs hb false false.
Definition sv12 (k : kx) (s3 rq np rs hb : bool) : cfg := mk_cfg Server false s3 k rq false np false rs hb false false.
Definition cl13 (k : kx) (cc hb : bool) : cfg := mk_cfg Client true false k false false false false false hb cc false.
Definition sv13e (k : kx) (rq hr hb : bool) : cfg := mk_cfg Server true false k rq false false hr false hb false true.
Definition sv13 (k : kx) (rq hr hb : bool) : cfg := mk_cfg Server true false k rq false false hr false hb false false.

Definition kx12 : list kx := [KRsa; KDhe; KEcdhe; KSrp; KSrpCert; KAnon].
Definition cfgs_client12 : list cfg :=
  flat_map (fun k => flat_map (fun tk => flat_map (fun rs => flat_map (fun hb =>
    [cl12 k tk rs hb]) bools) bools) bools) kx12.
Definition cfgs_server12 : list cfg :=
  flat_map (fun k => flat_map (fun s3 => flat_map (fun rq => flat_map (fun np => flat_map (fun rs =>
    flat_map (fun hb => [sv12 k s3 rq np rs hb]) bools) bools) bools) bools) bools) kx12.
Definition cfgs_client13 : list cfg :=
  flat_map (fun k => flat_map (fun cc => flat_map (fun hb => [cl13 k cc hb]) bools) bools) [KCert13; KPsk13].
Definition cfgs_server13 : list cfg :=
  flat_map (fun k => flat_map (fun rq => flat_map (fun hr => flat_map (fun hb =>
    [sv13 k rq hr hb]) bools) bools) bools) [KCert13; KPsk13]
  (* early data can only be offered together with a PSK *)
  ++ flat_map (fun rq => flat_map (fun hr => flat_map (fun hb => [sv13e KPsk13 rq hr hb; sv13e KCert13 rq hr hb])
       bools) bools) bools.
Definition all_cfgs : list cfg := cfgs_client12 ++ cfgs_server12 ++ cfgs_client13 ++ cfgs_server13.
