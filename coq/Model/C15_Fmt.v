(* C15 -- a format language for TLS wire structures with one generic encoder and
   one generic decoder.  Definitions only.

   Every tlslite message / extension class is described by one [fmt] term
   (Model/C15_Messages.v); the generic theorems of Proofs/C15_Fmt.v hold for every
   well-formed term, hence for each of them.  That a term describes what the
   Python class does is checked by correspondence on every run.

   The encoder is built from the Writer primitives of Model/C15_Codec.v; the
   decoder works on the remaining input (the bytes from Parser.index on); its
   clauses are shown equal to the Parser primitives in Proofs/C15_Codec.v. *)
From Coq Require Import ZArith List Bool.
From TV Require Import Base.Prelude Model.C15_Codec.
Import ListNotations.
Open Scope Z_scope.

Inductive val :=
| VInt (x : Z)
| VBytes (b : list Z)
| VPair (a b : val)
| VNil | VCons (h t : val)
| VNone | VSome (v : val)
| VTag (t : Z) (v : val).

Inductive fmt :=
| FU (n : Z)                       (* p.get(n) / w.add(x,n): n-byte big-endian unsigned integer *)
| FConst (n : Z) (c : Z)           (* an n-byte integer that must equal c (message type, curve_type 3, ...) *)
| FFix (n : Z)                     (* p.getFixBytes(n): exactly n opaque bytes *)
| FRest (lo : Z) (hi : option Z)   (* all remaining bytes of the enclosing structure; length within lo..hi *)
| FSeq (f g : fmt)                 (* f then g *)
| FBounded (ll : Z) (f : fmt)      (* ll-byte length L, then f must consume exactly the next L bytes
                                      (startLengthCheck/stopLengthCheck, or a sub-Parser that must be emptied) *)
| FRep (f : fmt)                   (* `while not at end: f` *)
| FOpt (f : fmt)                   (* nothing left -> None, otherwise f (optional tail / "empty payload") *)
| FTag (n : Z) (sel : Z -> fmt)    (* n-byte tag t, then the format selected by t (extension dispatch) *)
| FCheck (p : val -> bool) (f : fmt)   (* f restricted to the values satisfying p (a parser-side domain rule,
                                          e.g. "no two extensions of the same type"): both directions refuse others *).

(* derived forms *)
Definition FVar (ll : Z) : fmt := FBounded ll (FRest 0 None).                 (* getVarBytes(ll) *)
Definition FVarR (ll lo hi : Z) : fmt := FBounded ll (FRest lo (Some hi)).    (* ... with a parser-side length limit *)
Definition FVarList (el ll : Z) : fmt := FBounded ll (FRep (FU el)).          (* getVarList(el,ll) *)
Fixpoint FTuple (el : Z) (k : nat) : fmt :=
  match k with O => FFix 0 | 1%nat => FU el | S k' => FSeq (FU el) (FTuple el k') end.
Definition FVarTuples (el : Z) (k : nat) (ll : Z) : fmt := FBounded ll (FRep (FTuple el k)).
Definition FList (ll : Z) (f : fmt) : fmt := FBounded ll (FRep f).

Definition in_range (lo : Z) (hi : option Z) (n : Z) : bool :=
  (lo <=? n) && match hi with None => true | Some h => n <=? h end.

(* ---- encoder -------------------------------------------------------------- *)
Fixpoint encode (f : fmt) (v : val) {struct f} : res (list Z) :=
  match f with
  | FU n => match v with VInt x => w_add [] x n | _ => Err TypeError end
  | FConst n c => match v with
                  | VInt x => if x =? c then w_add [] x n else Err ValueError
                  | _ => Err TypeError end
  | FFix n => match v with
              | VBytes b => if (zlen b =? n) && all_bytes b then Ok b else Err ValueError
              | _ => Err TypeError end
  | FRest lo hi => match v with
                   | VBytes b => if in_range lo hi (zlen b) && all_bytes b then Ok b else Err ValueError
                   | _ => Err TypeError end
  | FSeq f1 f2 => match v with
                  | VPair a b => x <- encode f1 a ;; y <- encode f2 b ;; Ok (x ++ y)
                  | _ => Err TypeError end
  | FBounded ll f1 => x <- encode f1 v ;; w_add_var_bytes [] x ll
  | FRep f1 =>
      (fix rep (v : val) : res (list Z) :=
         match v with
         | VNil => Ok []
         | VCons h t => x <- encode f1 h ;; y <- rep t ;; Ok (x ++ y)
         | _ => Err TypeError
         end) v
  | FOpt f1 => match v with
               | VNone => Ok []
               | VSome v1 => encode f1 v1
               | _ => Err TypeError end
  | FTag n sel => match v with
                  | VTag t v1 => x <- w_add [] t n ;; y <- encode (sel t) v1 ;; Ok (x ++ y)
                  | _ => Err TypeError end
  | FCheck p f1 => if p v then encode f1 v else Err ValueError
  end.

(* ---- decoder -------------------------------------------------------------- *)
(* the next n bytes and what follows them; DecodeError when fewer than n remain *)
Definition take (n : Z) (bs : list Z) : res (list Z * list Z) :=
  if (0 <=? n) && (n <=? zlen bs) then Ok (firstn (Z.to_nat n) bs, skipn (Z.to_nat n) bs)
  else Err DecodeError.

(* `while bytes remain: element`.  The Python loop has no fuel: an element that
   consumes nothing would loop for ever; that case (and running out of fuel, which
   cannot happen with fuel = input length) is the distinguished OutOfFuel outcome,
   proved unreachable for well-formed formats (decode_error_is_DecodeError). *)
Fixpoint rep_dec (dec : list Z -> res (val * list Z)) (fuel : nat) (bs : list Z)
  : res (val * list Z) :=
  match bs with
  | [] => Ok (VNil, [])
  | _ :: _ =>
    match fuel with
    | O => Err OutOfFuel
    | S k =>
      '(v, r) <- dec bs ;;
      if (length r <? length bs)%nat
      then '(vs, r2) <- rep_dec dec k r ;; Ok (VCons v vs, r2)
      else Err OutOfFuel
    end
  end.

Definition is_nil {A} (l : list A) : bool := match l with [] => true | _ => false end.

Fixpoint decode (f : fmt) (bs : list Z) {struct f} : res (val * list Z) :=
  match f with
  | FU n => '(a, r) <- take n bs ;; Ok (VInt (be_val a), r)
  | FConst n c => '(a, r) <- take n bs ;;
                  if be_val a =? c then Ok (VInt c, r) else Err DecodeError
  | FFix n => '(a, r) <- take n bs ;; Ok (VBytes a, r)
  | FRest lo hi => if in_range lo hi (zlen bs) then Ok (VBytes bs, []) else Err DecodeError
  | FSeq f1 f2 => '(a, r) <- decode f1 bs ;; '(b, r2) <- decode f2 r ;; Ok (VPair a b, r2)
  | FBounded ll f1 =>
      '(lb, r) <- take ll bs ;;
      '(body, r2) <- take (be_val lb) r ;;
      '(v, r3) <- decode f1 body ;;
      if is_nil r3 then Ok (v, r2) else Err DecodeError
  | FRep f1 => rep_dec (decode f1) (length bs) bs
  | FOpt f1 => match bs with
               | [] => Ok (VNone, [])
               | _ :: _ => '(v, r) <- decode f1 bs ;; Ok (VSome v, r)
               end
  | FTag n sel => '(a, r) <- take n bs ;;
                  '(v, r2) <- decode (sel (be_val a)) r ;; Ok (VTag (be_val a) v, r2)
  | FCheck p f1 => '(v, r) <- decode f1 bs ;; if p v then Ok (v, r) else Err DecodeError
  end.

(* ---- static classification of formats ------------------------------------- *)
(* consumes at least one byte whenever it succeeds / never encodes to [] *)
Fixpoint nonempty (f : fmt) : bool :=
  match f with
  | FU n | FConst n _ | FFix n => 0 <? n
  | FRest lo _ => 0 <? lo
  | FBounded ll _ => 0 <? ll
  | FTag n _ => 0 <? n
  | FSeq f1 f2 => nonempty f1 || nonempty f2
  | FRep _ | FOpt _ => false
  | FCheck _ f1 => nonempty f1
  end.

(* self-delimiting: what it consumes is determined by the bytes it consumes *)
Fixpoint delim (f : fmt) : Prop :=
  match f with
  | FU _ | FConst _ _ | FFix _ | FBounded _ _ => True
  | FRest _ _ | FRep _ | FOpt _ => False
  | FSeq f1 f2 => delim f1 /\ delim f2
  | FTag _ sel => forall t, delim (sel t)
  | FCheck _ f1 => delim f1
  end.

(* well-formed format terms: the side conditions under which the grammar is
   unambiguous.  Every term of Model/C15_Messages.v is proved well-formed. *)
Fixpoint wf_fmt (f : fmt) : Prop :=
  match f with
  | FU n | FConst n _ | FFix n => 0 <= n
  | FRest lo _ => True
  | FSeq f1 f2 => delim f1 /\ wf_fmt f1 /\ wf_fmt f2
  | FBounded ll f1 => 0 < ll /\ wf_fmt f1
  | FRep f1 => delim f1 /\ nonempty f1 = true /\ wf_fmt f1
  | FOpt f1 => nonempty f1 = true /\ wf_fmt f1
  | FTag n sel => 0 <= n /\ forall t, wf_fmt (sel t)
  | FCheck _ f1 => wf_fmt f1
  end.

(* ---- the specification of "fits": written directly, not via encode --------- *)
Fixpoint vsize (f : fmt) (v : val) {struct f} : Z :=
  match f with
  | FU n | FConst n _ => n
  | FFix _ | FRest _ _ => match v with VBytes b => zlen b | _ => 0 end
  | FSeq f1 f2 => match v with VPair a b => vsize f1 a + vsize f2 b | _ => 0 end
  | FBounded ll f1 => ll + vsize f1 v
  | FRep f1 => (fix rep (v : val) : Z :=
                  match v with VCons h t => vsize f1 h + rep t | _ => 0 end) v
  | FOpt f1 => match v with VSome v1 => vsize f1 v1 | _ => 0 end
  | FTag n sel => match v with VTag t v1 => n + vsize (sel t) v1 | _ => 0 end
  | FCheck _ f1 => vsize f1 v
  end.

(* a value of the right shape whose every field fits the width the format gives it *)
Fixpoint wf_val (f : fmt) (v : val) {struct f} : Prop :=
  match f with
  | FU n => match v with VInt x => 0 <= n /\ 0 <= x < 256 ^ n | _ => False end
  | FConst n c => match v with VInt x => x = c /\ 0 <= n /\ 0 <= x < 256 ^ n | _ => False end
  | FFix n => match v with VBytes b => zlen b = n /\ all_bytes b = true | _ => False end
  | FRest lo hi => match v with VBytes b => in_range lo hi (zlen b) = true /\ all_bytes b = true | _ => False end
  | FSeq f1 f2 => match v with VPair a b => wf_val f1 a /\ wf_val f2 b | _ => False end
  | FBounded ll f1 => wf_val f1 v /\ 0 <= ll /\ vsize f1 v < 256 ^ ll
  | FRep f1 => (fix rep (v : val) : Prop :=
                  match v with VNil => True | VCons h t => wf_val f1 h /\ rep t | _ => False end) v
  | FOpt f1 => match v with VNone => True | VSome v1 => wf_val f1 v1 | _ => False end
  | FTag n sel => match v with
                  | VTag t v1 => (0 <= n /\ 0 <= t < 256 ^ n) /\ wf_val (sel t) v1
                  | _ => False end
  | FCheck p f1 => p v = true /\ wf_val f1 v
  end.

(* ---- helpers for the case files ------------------------------------------- *)
Fixpoint val_eqb (a b : val) : bool :=
  match a, b with
  | VInt x, VInt y => x =? y
  | VBytes x, VBytes y => list_eqb x y
  | VPair a1 a2, VPair b1 b2 => val_eqb a1 b1 && val_eqb a2 b2
  | VNil, VNil => true
  | VCons h1 t1, VCons h2 t2 => val_eqb h1 h2 && val_eqb t1 t2
  | VNone, VNone => true
  | VSome x, VSome y => val_eqb x y
  | VTag t1 x, VTag t2 y => (t1 =? t2) && val_eqb x y
  | _, _ => false
  end.

Fixpoint vlist (l : list val) : val :=
  match l with [] => VNil | x :: xs => VCons x (vlist xs) end.

(* domain rule of extension lists: no two elements carry the same tag *)
Fixpoint tags_of (v : val) : list Z :=
  match v with
  | VCons (VTag t _) tl => t :: tags_of tl
  | VCons _ tl => tags_of tl
  | _ => []
  end.
Fixpoint nodupZ (l : list Z) : bool :=
  match l with [] => true | x :: tl => negb (existsb (Z.eqb x) tl) && nodupZ tl end.
Definition uniq_tags (v : val) : bool := nodupZ (tags_of v).

(* dispatch table with default, as a function *)
Fixpoint sel_of (tbl : list (Z * fmt)) (d : fmt) (t : Z) : fmt :=
  match tbl with
  | [] => d
  | (k, f) :: tl => if t =? k then f else sel_of tl d t
  end.
