(* C14 -- the loop of TLSRecordLayer.readAsync(max, min) (tlslite/tlsrecordlayer.py) over the
   sequence of post-handshake MESSAGES the peer sent.  Definitions only.

   By the L3 theorems (recv_chunk_independent, defrag_extracts_stream_messages) the messages
   _getMsg delivers are a function of the byte stream.  What one CALL of read()/readAsync() does
   must therefore be a function of (messages not yet consumed, state, max, min) only -- never of
   how many of those messages happened to be sitting in the read-ahead buffer.  This model has
   no access to the transport, so agreeing with it under every chunking IS that statement.

     while (len(_readBuffer) < min or (not _readBuffer and try_once)) and not closed:
         try_once = False
         msg = _getMsg(...)            # one message; would-block => the generator is suspended
         NewSessionTicket        -> tickets.append
         KeyUpdate               -> answer if requested; try_once = True
         CertificateRequest(PHA) -> answer
         ApplicationData         -> _readBuffer += data
         close_notify            -> (caught) connection is closed
     max = len(_readBuffer) if max is None
     return _readBuffer[:max]   (rest stays)
   Heartbeat requests/responses are consumed inside _getMsg and are not messages here. *)
From Coq Require Import ZArith List Bool.
From TV Require Import Base.Prelude.
Import ListNotations.
Open Scope Z_scope.

Inductive msg := MData (d : list Z) | MTicket | MKeyUpdate | MPha | MClose.

Record rstate := { r_buf : list Z; r_closed : bool; r_tickets : Z }.
Definition r_init : rstate := {| r_buf := []; r_closed := false; r_tickets := 0 |}.

Inductive rresult := RBytes (d : list Z) | RPending.

Definition handle (m : msg) (st : rstate) : rstate * bool (* try_once afterwards *) :=
  match m with
  | MData d => ({| r_buf := r_buf st ++ d; r_closed := r_closed st; r_tickets := r_tickets st |}, false)
  | MTicket => ({| r_buf := r_buf st; r_closed := r_closed st; r_tickets := r_tickets st + 1 |}, false)
  | MKeyUpdate => (st, true)
  | MPha => (st, false)
  | MClose => ({| r_buf := r_buf st; r_closed := true; r_tickets := r_tickets st |}, false)
  end.

Definition loop_cond (min : Z) (try_once : bool) (st : rstate) : bool :=
  ((zlen (r_buf st) <? min) || ((zlen (r_buf st) =? 0) && try_once)) && negb (r_closed st).

Definition finish (max : option Z) (st : rstate) : rresult * rstate :=
  let n := match max with None => zlen (r_buf st) | Some k => k end in
  (RBytes (py_slice (r_buf st) None (Some n)),
   {| r_buf := py_slice (r_buf st) (Some n) None; r_closed := r_closed st; r_tickets := r_tickets st |}).

(* structurally recursive on the messages: every iteration consumes one *)
Fixpoint read_loop (max : option Z) (min : Z) (try_once : bool) (st : rstate) (ms : list msg)
  : rresult * rstate * list msg :=
  if loop_cond min try_once st then
    match ms with
    | [] => (RPending, st, [])            (* nothing more has been sent: the call stays suspended *)
    | m :: ms' => let '(st', t) := handle m st in read_loop max min t st' ms'
    end
  else let '(r, st') := finish max st in (r, st', ms).

Definition read_call (max : option Z) (min : Z) (st : rstate) (ms : list msg) :=
  read_loop max min true st ms.

(* a sequence of calls; a suspended call is abandoned (its messages are all consumed) *)
Fixpoint read_calls (calls : list (option Z * Z)) (st : rstate) (ms : list msg)
  : list (rresult * Z * bool) * rstate * list msg :=
  match calls with
  | [] => ([], st, ms)
  | (mx, mn) :: cs =>
      let '(r, st', ms') := read_call mx mn st ms in
      let '(tr, st'', ms'') := read_calls cs st' ms' in
      ((r, r_tickets st', r_closed st') :: tr, st'', ms'')
  end.

(* messages arrive in stages: each stage's messages are appended to what is still unread, then the
   stage's calls are made *)
Fixpoint read_stages (stages : list (list msg * list (option Z * Z))) (st : rstate) (pending : list msg)
  : list (rresult * Z * bool) :=
  match stages with
  | [] => []
  | (ms, calls) :: rest =>
      let '(tr, st', unread) := read_calls calls st (pending ++ ms) in
      tr ++ read_stages rest st' unread
  end.

Definition data_of (ms : list msg) : list Z :=
  concat (map (fun m => match m with MData d => d | _ => [] end) ms).
Definition delivered (r : rresult) : list Z := match r with RBytes d => d | RPending => [] end.

(* correspondence helper *)
Definition rresult_eqb (a c : rresult) : bool :=
  match a, c with RBytes x, RBytes y => list_eqb x y | RPending, RPending => true | _, _ => false end.
Fixpoint trace_eqb (a c : list (rresult * Z * bool)) : bool :=
  match a, c with
  | [], [] => true
  | (r1, t1, c1) :: a', (r2, t2, c2) :: c' => rresult_eqb r1 r2 && (t1 =? t2) && Bool.eqb c1 c2 && trace_eqb a' c'
  | _, _ => false
  end.
Definition ReadCase := (list (list msg * list (option Z * Z)) * list (rresult * Z * bool))%type.
Definition chk_readloop (c : ReadCase) : bool :=
  let '(stages, expected) := c in trace_eqb (read_stages stages r_init []) expected.
