(* Small-step interleaving semantics: any number of threads, each executing a list of
   atomic steps, over a shared store with ONE lock.  A schedule (list of thread numbers,
   one per step, arbitrary length, arbitrary pre-emption) drives the execution.
   Definitions only; the serializability theorem is in Proofs/C18_Conc.v.

   The granularity is one step per shared-memory access, i.e. finer than Python
   statements: `self.x = f(self.x)` is a Rd step followed by a Wr step and another thread
   may run in between.  The semantics does NOT make accesses wait for the lock: only Acq
   blocks.  Whether accesses happen under the lock is a property of the programs
   (well_locked), extracted from the source by translator/units_locks.py. *)
From Coq Require Import ZArith List Bool.
From TV Require Import Base.Prelude Base.C18_Lib.
Import ListNotations.
Open Scope Z_scope.
Set Implicit Arguments.

Section Conc.
  Variables Lo V : Type.             (* thread-local state; values of shared variables *)

  Definition store := Z -> V.        (* shared variables are numbered *)
  Definition upd (st : store) (x : Z) (v : V) : store := fun y => if y =? x then v else st y.

  Inductive step :=
  | Acq                                   (* lock.acquire(): enabled only when the lock is free *)
  | Rel                                   (* lock.release(): by the holder *)
  | Rd (x : Z) (f : Lo -> V -> Lo)        (* read shared x into the local state *)
  | Wr (x : Z) (g : Lo -> V -> V)         (* write shared x (may depend on its current value) *)
  | Loc (f : Lo -> Lo).                   (* thread-local computation *)

  Record thread := { t_lo : Lo; t_prog : list step }.
  Record config := { g_store : store; g_lock : option nat; g_threads : list thread }.

  Definition set_thread (ths : list thread) (i : nat) (lo : Lo) (p : list step) : list thread :=
    upd_nth i ths {| t_lo := lo; t_prog := p |}.

  (* thread i performs its next step; None = thread does not exist, is finished, or is blocked *)
  Definition fire (c : config) (i : nat) : option config :=
    match nth_error (g_threads c) i with
    | None => None
    | Some t =>
      match t_prog t with
      | [] => None
      | s :: p =>
        let st := g_store c in
        let lo := t_lo t in
        match s with
        | Acq => match g_lock c with
                 | None => Some {| g_store := st; g_lock := Some i;
                                   g_threads := set_thread (g_threads c) i lo p |}
                 | Some _ => None
                 end
        | Rel => match g_lock c with
                 | Some j => if Nat.eqb j i
                             then Some {| g_store := st; g_lock := None;
                                          g_threads := set_thread (g_threads c) i lo p |}
                             else None
                 | None => None
                 end
        | Rd x f => Some {| g_store := st; g_lock := g_lock c;
                            g_threads := set_thread (g_threads c) i (f lo (st x)) p |}
        | Wr x g => Some {| g_store := upd st x (g lo (st x)); g_lock := g_lock c;
                            g_threads := set_thread (g_threads c) i lo p |}
        | Loc f => Some {| g_store := st; g_lock := g_lock c;
                           g_threads := set_thread (g_threads c) i (f lo) p |}
        end
      end
    end.

  (* an interleaving: the scheduler picks a thread for every single step *)
  Fixpoint run_sched (c : config) (sched : list nat) : option config :=
    match sched with
    | [] => Some c
    | i :: sched' => match fire c i with Some c' => run_sched c' sched' | None => None end
    end.

  Definition terminal (c : config) : Prop := forall t, In t (g_threads c) -> t_prog t = [].

  (* ---- lock discipline of a program ---------------------------------------- *)
  (* outside the lock only local steps and Acq; inside anything but Acq; ends outside *)
  Fixpoint wl (inside : bool) (p : list step) : bool :=
    match p with
    | [] => negb inside
    | Acq :: p' => negb inside && wl true p'
    | Rel :: p' => inside && wl false p'
    | Rd _ _ :: p' => inside && wl inside p'
    | Wr _ _ :: p' => inside && wl inside p'
    | Loc _ :: p' => wl inside p'
    end.
  Definition well_locked (p : list step) : bool := wl false p.

  (* ---- sequential execution of whole operations ----------------------------- *)
  (* One "operation" of a thread = its steps up to and including the next release and the
     local steps that follow it (up to the next acquire).  Executed alone, without any
     other thread running in between; the lock plays no role. *)
  Fixpoint run_chunk (released : bool) (st : store) (lo : Lo) (p : list step)
    : store * Lo * list step :=
    match p with
    | [] => (st, lo, [])
    | Acq :: p' => if released then (st, lo, p) else run_chunk released st lo p'
    | Rel :: p' => run_chunk true st lo p'
    | Rd x f :: p' => run_chunk released st (f lo (st x)) p'
    | Wr x g :: p' => run_chunk released (upd st x (g lo (st x))) lo p'
    | Loc f :: p' => run_chunk released st (f lo) p'
    end.

  Definition sconf := (store * list thread)%type.

  Definition run_op (sc : sconf) (i : nat) : sconf :=
    match nth_error (snd sc) i with
    | None => sc
    | Some t =>
      let '(st, lo, p) := run_chunk false (fst sc) (t_lo t) (t_prog t) in
      (st, set_thread (snd sc) i lo p)
    end.

  (* a sequential order: thread order[0] runs its next whole operation, then order[1], ... *)
  Definition serial (order : list nat) (sc : sconf) : sconf := fold_left run_op order sc.

  (* whole program of one thread run to the end, alone *)
  Fixpoint run_all (st : store) (lo : Lo) (p : list step) : store * Lo :=
    match p with
    | [] => (st, lo)
    | Acq :: p' => run_all st lo p'
    | Rel :: p' => run_all st lo p'
    | Rd x f :: p' => run_all st (f lo (st x)) p'
    | Wr x g :: p' => run_all (upd st x (g lo (st x))) lo p'
    | Loc f :: p' => run_all st (f lo) p'
    end.

  Fixpoint count_acq (p : list step) : nat :=
    match p with
    | [] => O
    | Acq :: p' => S (count_acq p')
    | _ :: p' => count_acq p'
    end.

  (* ---- shapes: what the extractor can see of a step -------------------------- *)
  Inductive shape := SAcq | SRel | SRd | SWr | SLoc.
  Definition shape_of (s : step) : shape :=
    match s with Acq => SAcq | Rel => SRel | Rd _ _ => SRd | Wr _ _ => SWr | Loc _ => SLoc end.
End Conc.

Arguments Acq {Lo V}.
Arguments Rel {Lo V}.
Arguments Rd {Lo V} x f.
Arguments Wr {Lo V} x g.
Arguments Loc {Lo V} f.

(* lock discipline decided on shapes alone *)
Fixpoint wl_shape (inside : bool) (p : list shape) : bool :=
  match p with
  | [] => negb inside
  | SAcq :: p' => negb inside && wl_shape true p'
  | SRel :: p' => inside && wl_shape false p'
  | SRd :: p' => inside && wl_shape inside p'
  | SWr :: p' => inside && wl_shape inside p'
  | SLoc :: p' => wl_shape inside p'
  end.
Definition well_locked_shape (p : list shape) : bool := wl_shape false p.

Fixpoint count_acq_shape (p : list shape) : nat :=
  match p with
  | [] => O
  | SAcq :: p' => S (count_acq_shape p')
  | _ :: p' => count_acq_shape p'
  end.
