(* C05 -- executable arithmetic used to RUN the text generated from Python_DSAKey.verify
   (Gen/C05_DsaVerify.v) on real key numbers in the correspondence (definitions only).
   powMod(b, e, m) = b^e mod m by square-and-multiply; invMod(a, q) for a PRIME q is a^(q-2) mod q
   (Fermat); like tlslite's invMod it yields 0 for a = 0 (no inverse). *)
From Coq Require Import ZArith Bool.
From TV Require Import Gen.C05_DsaVerify.
Open Scope Z_scope.

Fixpoint ppowmod (b : Z) (e : positive) (m : Z) : Z :=
  match e with
  | xH => b mod m
  | xO e' => let t := ppowmod b e' m in (t * t) mod m
  | xI e' => let t := ppowmod b e' m in (((t * t) mod m) * b) mod m
  end.

Definition zpowmod (b e m : Z) : Z :=
  match e with
  | Z0 => 1 mod m
  | Zpos p => ppowmod b p m
  | Zneg _ => 0
  end.

Definition zinvmod_prime (a q : Z) : Z := zpowmod a (q - 2) q.

Definition dsa_verify_run (p q g y digest r s : Z) : bool :=
  dsa_verify_tail zinvmod_prime zpowmod p q g y digest r s.

(* correspondence on real 2048-bit keys: modular exponentiation by vm_compute over Z is far too slow, so
   invMod / powMod are finite tables of the mathematical functions computed by the harness
   (independent of /repo); a query outside the table yields -1 and can never agree *)
From Coq Require Import List.
Import ListNotations.
Fixpoint tbl_inv (t : list (Z * Z * Z)) (a m : Z) : Z :=
  match t with
  | [] => -1
  | (a', m', v) :: t' => if (a =? a') && (m =? m') then v else tbl_inv t' a m
  end.
Fixpoint tbl_pow (t : list (Z * Z * Z * Z)) (b e m : Z) : Z :=
  match t with
  | [] => -1
  | (b', e', m', v) :: t' => if (b =? b') && (e =? e') && (m =? m') then v else tbl_pow t' b e m
  end.

(* case: tables, key numbers, digest number, (r, s), what Python_DSAKey.verify returned *)
Definition dsa_case_ok (c : list (Z * Z * Z) * list (Z * Z * Z * Z) * (Z * Z * Z * Z * Z * Z * Z) * bool) : bool :=
  let '(ti, tp, (p, q, g, y, d, r, s), impl) := c in
  Bool.eqb (dsa_verify_tail (tbl_inv ti) (tbl_pow tp) p q g y d r s) impl.
