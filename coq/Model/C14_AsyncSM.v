(* C14 -- AsyncStateMachine (tlslite/integration/asyncstatemachine.py).  Definitions only.

   A generator is the list of things successive next() calls produce:
     GY v    -> yields v (0 = wants read, 1 = wants write; anything else is a value)
     GRaise  -> raises
   and the end of the list is StopIteration.
   The machine has four operation slots, [result], and reports events to its subclass. *)
From Coq Require Import ZArith List Bool.
From TV Require Import Base.Prelude.
Import ListNotations.
Open Scope Z_scope.

Inductive gstep := GY (v : Z) | GRaise.
Definition gen := list gstep.

Inductive aevent := EConnect | EClose | ERead (v : Z) | EWrite.
Inductive aexn := XAssert | XGen | XStop.       (* AssertionError, raised by generator, StopIteration *)

Record asm := {
  a_hs : option gen; a_cl : option gen; a_rd : option gen; a_wr : option gen;
  a_result : option Z }.

Definition asm_idle : asm :=
  {| a_hs := None; a_cl := None; a_rd := None; a_wr := None; a_result := None |}.   (* _clear() *)

Definition is_some {A} (o : option A) : bool := match o with Some _ => true | None => false end.
Definition active_ops (m : asm) : Z :=
  (if is_some (a_hs m) then 1 else 0) + (if is_some (a_cl m) then 1 else 0) +
  (if is_some (a_rd m) then 1 else 0) + (if is_some (a_wr m) then 1 else 0).
Definition is01 (v : Z) : bool := (v =? 0) || (v =? 1).

(* _checkAssert(maxActive): true = passes *)
Definition check_assert (maxActive : Z) (m : asm) : bool :=
  (match a_result m with
   | None => active_ops m =? 0
   | Some v => is01 v && (active_ops m =? 1)
   end) && (active_ops m <=? maxActive).

Definition wants_read (m : asm) : option bool :=
  match a_result m with Some v => Some (v =? 0) | None => None end.
Definition wants_write (m : asm) : option bool :=
  match a_result m with Some v => Some (v =? 1) | None => None end.

(* outcome of one API call: new state, events delivered to the subclass, exception if any
   (every exception path runs _clear() first) *)
Definition ares := (asm * list aevent * option aexn)%type.
Definition fail (x : aexn) : ares := (asm_idle, [], Some x).

Definition set_hs (g : option gen) (m : asm) := {| a_hs := g; a_cl := a_cl m; a_rd := a_rd m; a_wr := a_wr m; a_result := a_result m |}.
Definition set_cl (g : option gen) (m : asm) := {| a_hs := a_hs m; a_cl := g; a_rd := a_rd m; a_wr := a_wr m; a_result := a_result m |}.
Definition set_rd (g : option gen) (m : asm) := {| a_hs := a_hs m; a_cl := a_cl m; a_rd := g; a_wr := a_wr m; a_result := a_result m |}.
Definition set_wr (g : option gen) (m : asm) := {| a_hs := a_hs m; a_cl := a_cl m; a_rd := a_rd m; a_wr := g; a_result := a_result m |}.
Definition set_result (r : option Z) (m : asm) := {| a_hs := a_hs m; a_cl := a_cl m; a_rd := a_rd m; a_wr := a_wr m; a_result := r |}.

(* _doHandshakeOp / _doCloseOp / _doWriteOp: StopIteration completes the operation *)
Definition do_finishing (g : gen) (setg : option gen -> asm -> asm) (done_ev : list aevent) (m : asm) : ares :=
  match g with
  | [] => (set_result None (setg None m), done_ev, None)
  | GY v :: g' => (set_result (Some v) (setg (Some g') m), [], None)
  | GRaise :: _ => fail XGen
  end.

(* _doReadOp: a non-(0,1) value completes the read; StopIteration is not caught *)
Definition do_read (g : gen) (m : asm) : ares :=
  match g with
  | [] => fail XStop
  | GY v :: g' => if is01 v then (set_result (Some v) (set_rd (Some g') m), [], None)
                  else (set_result None (set_rd None m), [ERead v], None)
  | GRaise :: _ => fail XGen
  end.

Definition dispatch (m : asm) (idle : asm -> ares) : ares :=
  match a_hs m, a_cl m, a_rd m, a_wr m with
  | Some g, _, _, _ => do_finishing g set_hs [EConnect] m
  | None, Some g, _, _ => do_finishing g set_cl [EClose] m
  | None, None, Some g, _ => do_read g m
  | None, None, None, Some g => do_finishing g set_wr [] m
  | None, None, None, None => idle m
  end.

Inductive acall :=
| SetHandshake (g : gen) | SetClose (g : gen) | SetWrite (g : gen)
| InRead (fresh_reader : gen)        (* the generator tlsConnection.readAsync(16384) would return *)
| InWrite.

Definition asm_call (c : acall) (m : asm) : ares :=
  match c with
  | SetHandshake g => if check_assert 0 m then do_finishing g set_hs [EConnect] (set_hs (Some g) m) else fail XAssert
  | SetClose g => if check_assert 0 m then do_finishing g set_cl [EClose] (set_cl (Some g) m) else fail XAssert
  | SetWrite g => if check_assert 0 m then do_finishing g set_wr [] (set_wr (Some g) m) else fail XAssert
  | InRead fresh => if check_assert 1 m then dispatch m (fun m => do_read fresh (set_rd (Some fresh) m)) else fail XAssert
  | InWrite => if check_assert 1 m then dispatch m (fun m => (m, [EWrite], None)) else fail XAssert
  end.

(* a whole trace of calls: per call the events, the exception and wantsRead/wantsWrite afterwards *)
Definition obs := (list aevent * option aexn * option bool * option bool)%type.
Fixpoint asm_trace (cs : list acall) (m : asm) : list obs * asm :=
  match cs with
  | [] => ([], m)
  | c :: cs' => let '(m', evs, x) := asm_call c m in
                let '(os, m'') := asm_trace cs' m' in
                ((evs, x, wants_read m', wants_write m') :: os, m'')
  end.

(* a well-behaved operation: yields only 0/1, never raises *)
Definition yields01 (ys : list Z) : gen := map GY ys.
Definition all01 (ys : list Z) : bool := forallb is01 ys.

(* comparison helpers for the correspondence *)
Definition aevent_eqb (a c : aevent) : bool :=
  match a, c with
  | EConnect, EConnect => true | EClose, EClose => true | EWrite, EWrite => true
  | ERead x, ERead y => x =? y | _, _ => false
  end.
Definition aexn_eqb (a c : aexn) : bool :=
  match a, c with XAssert, XAssert => true | XGen, XGen => true | XStop, XStop => true | _, _ => false end.
Definition opt_eqb {A} (eqb : A -> A -> bool) (a c : option A) : bool :=
  match a, c with Some x, Some y => eqb x y | None, None => true | _, _ => false end.
Fixpoint all2 {A} (eqb : A -> A -> bool) (a c : list A) : bool :=
  match a, c with [] , [] => true | x :: a', y :: c' => eqb x y && all2 eqb a' c' | _, _ => false end.
Definition obs_eqb (a c : obs) : bool :=
  let '(e1, x1, r1, w1) := a in let '(e2, x2, r2, w2) := c in
  all2 aevent_eqb e1 e2 && opt_eqb aexn_eqb x1 x2 && opt_eqb Bool.eqb r1 r2 && opt_eqb Bool.eqb w1 w2.
Definition AsmCase := (list acall * list obs)%type.
Definition chk_asm (c : AsmCase) : bool :=
  let '(calls, expected) := c in all2 obs_eqb (fst (asm_trace calls asm_idle)) expected.
