(* C17 -- connection lifecycle model (hand-written; definitions only, no proofs).

   One endpoint of tlslite-ng's TLSRecordLayer/TLSConnection seen at the level of
   _getMsg/_sendMsg results.  Mirrors, branch by branch:
     tlsrecordlayer.py  readAsync, writeAsync, closeAsync/_decrefAsync, makefile (refcount),
                        _shutdown, _sendError, _sendMsgThroughSocket (look-for-alert path),
                        the alert branch of _getMsg, _handshakeStart/_handshakeDone
     tlsconnection.py   _handshakeWrapperAsync
     bufferedsocket.py  buffer_writes / flush / close (close flushes first and may raise)
     recordlayer.py     _sockRecvAll: b'' from the socket => TLSAbruptCloseError
   The transport is part of the state: a queue of whole incoming messages, how the receive
   direction ended (still open / EOF / errno), and an optional persistent send failure that
   starts after k more successful socket writes.  The socket semantics are those of
   harness/c17_util.FSock: buffered input stays readable, then EOF/errno; after close() EBADF. *)
From Coq Require Import ZArith List Bool.
Import ListNotations.
Open Scope Z_scope.

(* post-handshake control traffic: KeyUpdate (update_requested or not), a heartbeat request
   (answer: the extension was negotiated, the endpoint answers it), a TLS 1.3 post-handshake
   CertificateRequest (answer: the client is prepared for it) *)
Inductive ctl := KuReq | KuNoReq | HbReq (answer : bool) | PhaReq (answer : bool).
Inductive item := IData (d : list Z) | IAlert (lvl desc : Z) | IHs (benign : bool) | ICtl (k : ctl).
Inductive rxend := RxOpen | RxEof | RxErr (e : Z).
Inductive witem := WData (d : list Z) | WAlert (lvl desc : Z) | WHs (ct : Z).
Inductive exn := XClosed | XAbrupt | XSock (e : Z) | XRemote (desc : Z) | XLocal (desc : Z) | XValue.
Inductive outcome :=
| ORet (d : list Z)      (* read returned these bytes *)
| ODone                  (* write/close returned normally *)
| OExc (x : exn)         (* the call raised *)
| OBlocked               (* the generator asked for more input and was abandoned *)
| OHsDone                (* the handshake call returned normally: "handshake complete" *)
| OStep                  (* a handshake step / flag change went through *)
| ONone                  (* event not applicable in this state (no-op) *)
| OFuel.                 (* model ran out of fuel: proved unreachable, never matches the code *)

Inductive r (A : Type) := Val (a : A) | Exc (x : exn) | Blk | Fuel.
Arguments Val {A} a. Arguments Exc {A} x. Arguments Blk {A}. Arguments Fuel {A}.

Definition EBADF : Z := 9.
Definition zlen {A} (l : list A) : Z := Z.of_nat (length l).
Definition is_nil {A} (l : list A) : bool := match l with [] => true | _ => false end.

Record st := mkst {
  closed : bool;
  hs : bool;
  refc : Z;
  sess : option bool;
  ign : bool;
  csock : bool;
  tls13 : bool;
  split : bool;
  recsz : Z;
  sock_open : bool;
  bufw : bool;
  wq : list witem;
  rbuf : list Z;
  inq : list item;
  rxe : rxend;
  txf : option (Z * Z);
  wire : list witem }.

Definition set_closed (v : bool) (s : st) : st :=
  mkst v (hs s) (refc s) (sess s) (ign s) (csock s) (tls13 s) (split s) (recsz s) (sock_open s) (bufw s) (wq s) (rbuf s) (inq s) (rxe s) (txf s) (wire s).
Definition set_hs (v : bool) (s : st) : st :=
  mkst (closed s) v (refc s) (sess s) (ign s) (csock s) (tls13 s) (split s) (recsz s) (sock_open s) (bufw s) (wq s) (rbuf s) (inq s) (rxe s) (txf s) (wire s).
Definition set_refc (v : Z) (s : st) : st :=
  mkst (closed s) (hs s) v (sess s) (ign s) (csock s) (tls13 s) (split s) (recsz s) (sock_open s) (bufw s) (wq s) (rbuf s) (inq s) (rxe s) (txf s) (wire s).
Definition set_sess (v : option bool) (s : st) : st :=
  mkst (closed s) (hs s) (refc s) v (ign s) (csock s) (tls13 s) (split s) (recsz s) (sock_open s) (bufw s) (wq s) (rbuf s) (inq s) (rxe s) (txf s) (wire s).
Definition set_ign (v : bool) (s : st) : st :=
  mkst (closed s) (hs s) (refc s) (sess s) v (csock s) (tls13 s) (split s) (recsz s) (sock_open s) (bufw s) (wq s) (rbuf s) (inq s) (rxe s) (txf s) (wire s).
Definition set_csock (v : bool) (s : st) : st :=
  mkst (closed s) (hs s) (refc s) (sess s) (ign s) v (tls13 s) (split s) (recsz s) (sock_open s) (bufw s) (wq s) (rbuf s) (inq s) (rxe s) (txf s) (wire s).
Definition set_tls13 (v : bool) (s : st) : st :=
  mkst (closed s) (hs s) (refc s) (sess s) (ign s) (csock s) v (split s) (recsz s) (sock_open s) (bufw s) (wq s) (rbuf s) (inq s) (rxe s) (txf s) (wire s).
Definition set_split (v : bool) (s : st) : st :=
  mkst (closed s) (hs s) (refc s) (sess s) (ign s) (csock s) (tls13 s) v (recsz s) (sock_open s) (bufw s) (wq s) (rbuf s) (inq s) (rxe s) (txf s) (wire s).
Definition set_recsz (v : Z) (s : st) : st :=
  mkst (closed s) (hs s) (refc s) (sess s) (ign s) (csock s) (tls13 s) (split s) v (sock_open s) (bufw s) (wq s) (rbuf s) (inq s) (rxe s) (txf s) (wire s).
Definition set_sock_open (v : bool) (s : st) : st :=
  mkst (closed s) (hs s) (refc s) (sess s) (ign s) (csock s) (tls13 s) (split s) (recsz s) v (bufw s) (wq s) (rbuf s) (inq s) (rxe s) (txf s) (wire s).
Definition set_bufw (v : bool) (s : st) : st :=
  mkst (closed s) (hs s) (refc s) (sess s) (ign s) (csock s) (tls13 s) (split s) (recsz s) (sock_open s) v (wq s) (rbuf s) (inq s) (rxe s) (txf s) (wire s).
Definition set_wq (v : list witem) (s : st) : st :=
  mkst (closed s) (hs s) (refc s) (sess s) (ign s) (csock s) (tls13 s) (split s) (recsz s) (sock_open s) (bufw s) v (rbuf s) (inq s) (rxe s) (txf s) (wire s).
Definition set_rbuf (v : list Z) (s : st) : st :=
  mkst (closed s) (hs s) (refc s) (sess s) (ign s) (csock s) (tls13 s) (split s) (recsz s) (sock_open s) (bufw s) (wq s) v (inq s) (rxe s) (txf s) (wire s).
Definition set_inq (v : list item) (s : st) : st :=
  mkst (closed s) (hs s) (refc s) (sess s) (ign s) (csock s) (tls13 s) (split s) (recsz s) (sock_open s) (bufw s) (wq s) (rbuf s) v (rxe s) (txf s) (wire s).
Definition set_rxe (v : rxend) (s : st) : st :=
  mkst (closed s) (hs s) (refc s) (sess s) (ign s) (csock s) (tls13 s) (split s) (recsz s) (sock_open s) (bufw s) (wq s) (rbuf s) (inq s) v (txf s) (wire s).
Definition set_txf (v : option (Z * Z)) (s : st) : st :=
  mkst (closed s) (hs s) (refc s) (sess s) (ign s) (csock s) (tls13 s) (split s) (recsz s) (sock_open s) (bufw s) (wq s) (rbuf s) (inq s) (rxe s) v (wire s).
Definition set_wire (v : list witem) (s : st) : st :=
  mkst (closed s) (hs s) (refc s) (sess s) (ign s) (csock s) (tls13 s) (split s) (recsz s) (sock_open s) (bufw s) (wq s) (rbuf s) (inq s) (rxe s) (txf s) v.

(* ---- socket -------------------------------------------------------------------------- *)
(* one socket write carrying the records ws; Some e = socket.error(e) *)
Definition sock_send (ws : list witem) (s : st) : st * option Z :=
  if negb (sock_open s) then (s, Some EBADF)
  else match txf s with
       | Some (k, e) => if k <=? 0 then (s, Some e)
                        else (set_wire (wire s ++ ws) (set_txf (Some (k - 1, e)) s), None)
       | None => (set_wire (wire s ++ ws) s, None)
       end.

(* BufferedSocket.send under buffer_writes *)
Definition send_rec (w : witem) (s : st) : st * option Z :=
  if bufw s then (set_wq (wq s ++ [w]) s, None) else sock_send [w] s.

(* BufferedSocket.flush: the queue is cleared before sendall *)
Definition flush (s : st) : st * option Z :=
  match wq s with [] => (s, None) | q => sock_send q (set_wq [] s) end.

(* TLSRecordLayer._shutdown(resumable); BufferedSocket.close flushes first and may raise,
   in which case the socket is not closed and session.resumable is not touched *)
Definition shutdown (res : bool) (s : st) : st * option Z :=
  let s1 := set_closed true s in
  let '(s2, e) := if csock s1
                  then (let '(s', e) := flush s1 in
                        match e with Some z => (s', Some z) | None => (set_sock_open false s', None) end)
                  else (s1, None) in
  match e with
  | Some z => (s2, Some z)
  | None => ((if res then s2 else set_sess (option_map (fun _ => false) (sess s2)) s2), None)
  end.

(* "self._shutdown(res); raise x" *)
Definition raise_after_shutdown (res : bool) (x : exn) (s : st) : st * outcome :=
  let '(s', e) := shutdown res s in
  (s', OExc (match e with Some z => XSock z | None => x end)).

(* next whole message from the transport (what _getNextRecord returns) *)
Definition no_input (s : st) : r item :=
  if negb (sock_open s) then Exc (XSock EBADF)
  else match rxe s with RxOpen => Blk | RxEof => Exc XAbrupt | RxErr e => Exc (XSock e) end.

Definition recv_item (s : st) : st * r item :=
  match inq s with
  | i :: q => (set_inq q s, Val i)
  | [] => (s, no_input s)
  end.

(* _sendError: flush, buffer_writes off, fatal alert, _shutdown(False), raise TLSLocalAlert.
   Always raises; returns the exception that leaves. *)
Definition send_error (d : Z) (s : st) : st * exn :=
  let '(s1, e) := flush s in
  match e with Some z => (s1, XSock z) | None =>
  let s2 := set_bufw false s1 in
  let '(s3, e) := send_rec (WAlert 2 d) s2 in
  match e with Some z => (s3, XSock z) | None =>
  let '(s4, e) := shutdown false s3 in
  (s4, match e with Some z => XSock z | None => XLocal d end) end end.

(* alert branch of _getMsg: warning or close_notify => answer close_notify (socket errors
   ignored), _shutdown(description == close_notify); fatal => _shutdown(False); raise *)
Definition alert_branch (l d : Z) (s : st) : st * exn :=
  let s1 := if (l =? 1) || (d =? 0) then fst (send_rec (WAlert 1 0) s) else s in
  let '(s2, e) := shutdown (d =? 0) s1 in
  (s2, match e with Some z => XSock z | None => XRemote d end).

(* _sendMsg of a handshake-type record OUTSIDE any handshake (KeyUpdate, post-handshake
   CertificateRequest): _sendMsgThroughSocket's look-for-alert branch with no
   _handshakeWrapperAsync around it.  When reading the next record itself fails (EOF, errno)
   that exception leaves this function with nothing shut down; the caller (post_send_w) does it. *)
Definition post_send_hs (s : st) : st * r unit :=
  let '(s1, e) := send_rec (WHs 22) s in
  match e with
  | None => (s1, Val tt)
  | Some z =>
      match recv_item s1 with
      | (s2, Val i) =>
          let '(s3, e') := shutdown false s2 in
          (s3, Exc (match e' with
                    | Some z' => XSock z'
                    | None => match i with IAlert _ d => XRemote d | _ => XSock z end
                    end))
      | (s2, Exc x) => (s2, Exc x)
      | (s2, Blk) => (s2, Blk)
      | (s2, Fuel) => (s2, Fuel)
      end
  end.

(* TLSRecordLayer._send_post_handshake_msg (since /repo fa8f243): the send of a public
   post-handshake call; any exception => _shutdown(False), then re-raised.  (Before that fix
   post_send_hs was used bare: an exception of the look-for-alert read left the connection open.) *)
Definition post_send_w (s : st) : st * r unit :=
  match post_send_hs s with
  | (s1, Exc x) => let '(s2, e) := shutdown false s1 in
                   (s2, Exc (match e with Some z => XSock z | None => x end))
  | p => p
  end.

Inductive rctx := CRead | CWait | CHs.

(* _getMsg for the three kinds of caller: readAsync (application data; in TLS 1.3 also
   NewSessionTicket = IHs true), _decrefAsync waiting for the peer's close_notify (alert or
   application data expected), a handshake (handshake/CCS expected) *)
Fixpoint get_msg_q (c : rctx) (q : list item) (s : st) : st * r item :=
  match q with
  | [] => let s0 := set_inq [] s in (s0, no_input s0)
  | i :: q' =>
    let s0 := set_inq q' s in
    match i with
    | IAlert l d =>
        match c with
        | CWait => (s0, Val i)
        | _ => let '(s1, x) := alert_branch l d s0 in (s1, Exc x)
        end
    | IData d =>
        match c with
        | CHs => let '(s1, x) := send_error 10 s0 in (s1, Exc x)
        | _ => match d with [] => get_msg_q c q' s0 | _ => (s0, Val i) end
        end
    | IHs b =>
        match c with
        | CHs => (s0, Val i)
        | CRead => if b && tls13 s0 then (s0, Val i)
                   else let '(s1, x) := send_error 10 s0 in (s1, Exc x)
        | CWait => let '(s1, x) := send_error 10 s0 in (s1, Exc x)
        end
    | ICtl k =>
        match k with
        | HbReq a =>
            (* answered inside _getMsg whoever the caller is; socket errors of the answer are ignored *)
            if a then get_msg_q c q' (fst (send_rec (WHs 24) s0))
            else let '(s1, x) := send_error 10 s0 in (s1, Exc x)
        | KuReq | KuNoReq =>
            match c with
            | CRead => if tls13 s0 then (s0, Val i) else let '(s1, x) := send_error 10 s0 in (s1, Exc x)
            | _ => let '(s1, x) := send_error 10 s0 in (s1, Exc x)
            end
        | PhaReq a =>
            match c with
            | CRead => if a && tls13 s0 then (s0, Val i) else let '(s1, x) := send_error 10 s0 in (s1, Exc x)
            | _ => let '(s1, x) := send_error 10 s0 in (s1, Exc x)
            end
        end
    end
  end.
Definition get_msg (c : rctx) (s : st) : st * r item := get_msg_q c (inq s) s.

(* ---- readAsync ------------------------------------------------------------------------ *)
(* one message for the read loop: _getMsg, then -- inside the same try block, so that the same
   except clauses apply -- the answer to a KeyUpdate(update_requested) (_handle_keyupdate_request ->
   send_keyupdate_request) or to a post-handshake CertificateRequest (_handle_pha: Certificate,
   CertificateVerify, Finished buffered and flushed in one write) *)
Definition read_msg (s : st) : st * r item :=
  match get_msg CRead s with
  | (s1, Val (ICtl KuReq)) =>
      match post_send_w s1 with
      | (s2, Val _) => (s2, Val (ICtl KuNoReq))
      | (s2, Exc x) => (s2, Exc x)
      | (s2, Blk) => (s2, Blk)
      | (s2, Fuel) => (s2, Fuel)
      end
  | (s1, Val (ICtl (PhaReq _))) =>
      let '(s2, e) := sock_send [WHs 22; WHs 22; WHs 22] s1 in
      (s2, match e with Some z => Exc (XSock z) | None => Val (IHs true) end)
  | p => p
  end.

Fixpoint read_loop (fuel : nat) (try_once : bool) (mn : Z) (s : st) : st * r unit :=
  match fuel with
  | O => (s, Fuel)
  | S f =>
    if ((zlen (rbuf s) <? mn) || (is_nil (rbuf s) && try_once)) && negb (closed s) then
      match read_msg s with
      | (s1, Val (IData d)) => read_loop f false mn (set_rbuf (rbuf s1 ++ d) s1)
      | (s1, Val (ICtl KuNoReq)) => read_loop f true mn s1      (* KeyUpdate handled: try_once again *)
      | (s1, Val _) => read_loop f false mn s1
      | (s1, Exc (XRemote d)) => if d =? 0 then read_loop f false mn s1 else (s1, Exc (XRemote d))
      | (s1, Exc XAbrupt) =>
          if ign s1 then
            (let '(s2, e) := shutdown true s1 in
             match e with Some z => (s2, Exc (XSock z)) | None => read_loop f false mn s2 end)
          else (s1, Exc XAbrupt)
      | (s1, Exc x) => (s1, Exc x)
      | (s1, Blk) => (s1, Blk)
      | (s1, Fuel) => (s1, Fuel)
      end
    else (s, Val tt)
  end.

(* max is None or a non-negative number (Python's slice for negative max is not modelled;
   the harness only passes max >= 0) *)
Definition do_read (mx : option Z) (mn : Z) (s : st) : st * outcome :=
  match read_loop (S (S (length (inq s)))) true mn s with
  | (s1, Val _) =>
      let n := match mx with None => length (rbuf s1) | Some m => Z.to_nat m end in
      (set_rbuf (skipn n (rbuf s1)) s1, ORet (firstn n (rbuf s1)))
  | (s1, Exc x) => raise_after_shutdown false x s1
  | (s1, Blk) => (s1, OBlocked)
  | (s1, Fuel) => (s1, OFuel)
  end.

(* ---- writeAsync ----------------------------------------------------------------------- *)
Fixpoint frags (fuel : nat) (n : nat) (d : list Z) : list (list Z) :=
  match fuel with
  | O => [d]
  | S f => if (length d <=? n)%nat then [d] else firstn n d :: frags f n (skipn n d)
  end.

(* records produced by _sendMsg for application data d: 1/n-1 split for CBC in SSLv3/TLS1.0,
   then fragments of at most recordSize bytes (recordSize >= 1) *)
Definition records (s : st) (d : list Z) : list (list Z) :=
  let n := Z.to_nat (recsz s) in
  if split s then
    match d with
    | [] => [[]]
    | b :: rest => [b] :: match rest with [] => [] | _ => frags (length rest) n rest end
    end
  else frags (length d) n d.

Fixpoint send_all (rs : list (list Z)) (s : st) : st * option Z :=
  match rs with
  | [] => (s, None)
  | x :: rs' => let '(s1, e) := send_rec (WData x) s in
                match e with Some z => (s1, Some z) | None => send_all rs' s1 end
  end.

(* a write on a closed connection raises before the try block: no _shutdown, session untouched
   (before /repo 8b57b65 its handler ran _shutdown(ignoreAbruptClose)) *)
Definition do_write (d : list Z) (s : st) : st * outcome :=
  if closed s then (s, OExc XClosed)
  else let '(s1, e) := send_all (records s d) s in
       match e with
       | Some z => raise_after_shutdown (ign s1) (XSock z) s1
       | None => (s1, ODone)
       end.

(* ---- post-handshake public calls: send_keyupdate_request, request_post_handshake_auth,
        write_heartbeat / send_heartbeat_request ------------------------------------------------ *)
Definition post_outcome (p : st * r unit) : st * outcome :=
  match p with
  | (s1, Val _) => (s1, ODone)
  | (s1, Exc x) => (s1, OExc x)
  | (s1, Blk) => (s1, OBlocked)
  | (s1, Fuel) => (s1, OFuel)
  end.

(* closed => TLSClosedConnectionError; not TLS 1.3 => caller error (XValue stands for the
   exceptions raised before anything is sent: ValueError, TLSIllegalParameterException,
   TLSInternalError) *)
Definition do_keyupdate (s : st) : st * outcome :=
  if closed s then (s, OExc XClosed)
  else if negb (tls13 s) then (s, OExc XValue)
  else post_outcome (post_send_w s).

(* ok: server side, the client announced post_handshake_auth.  On a closed connection the
   version test comes first (version is (0,0) after _shutdown): ValueError *)
Definition do_pha (ok : bool) (s : st) : st * outcome :=
  if closed s || negb ok || negb (tls13 s) then (s, OExc XValue)
  else post_outcome (post_send_w s).

(* ok: heartbeat negotiated and this side may send requests.  A heartbeat record is not a
   handshake record: no look-for-alert; the socket error goes through _send_post_handshake_msg *)
Definition do_heartbeat (ok : bool) (s : st) : st * outcome :=
  if closed s then (s, OExc XClosed)
  else if negb ok then (s, OExc XValue)
  else let '(s1, e) := send_rec (WHs 24) s in
       match e with Some z => raise_after_shutdown false (XSock z) s1 | None => (s1, ODone) end.

(* ---- closeAsync / _decrefAsync -------------------------------------------------------- *)
Fixpoint close_wait (fuel : nat) (s : st) : st * r (Z * Z) :=
  match fuel with
  | O => (s, Fuel)
  | S f => match get_msg CWait s with
           | (s1, Val (IAlert l d)) => (s1, Val (l, d))
           | (s1, Val _) => close_wait f s1          (* application data is discarded *)
           | (s1, Exc x) => (s1, Exc x)
           | (s1, Blk) => (s1, Blk)
           | (s1, Fuel) => (s1, Fuel)
           end
  end.

(* "except (socket.error, TLSAbruptCloseError): self._shutdown(True)" *)
Definition close_forgive (s : st) : st * outcome :=
  let '(s', e) := shutdown true s in
  (s', match e with Some z => OExc (XSock z) | None => ODone end).

Definition do_close (s : st) : st * outcome :=
  if closed s then (s, ODone)
  else
    let s1 := set_refc (refc s - 1) s in
    if refc s1 =? 0 then
      let '(s2, e) := send_rec (WAlert 1 0) s1 in
      match e with
      | Some _ => close_forgive s2
      | None =>
        if csock s2 then
          (let '(s3, e) := shutdown true s2 in
           match e with Some _ => close_forgive s3 | None => (s3, ODone) end)
        else
          match close_wait (S (length (inq s2))) s2 with
          | (s3, Val (l, d)) =>
              if d =? 0 then
                (let '(s4, e) := shutdown true s3 in
                 match e with Some _ => close_forgive s4 | None => (s4, ODone) end)
              else raise_after_shutdown false (XRemote d) s3
          | (s3, Exc (XSock _)) => close_forgive s3
          | (s3, Exc XAbrupt) => close_forgive s3
          | (s3, Exc x) => raise_after_shutdown false x s3
          | (s3, Blk) => (s3, OBlocked)
          | (s3, Fuel) => (s3, OFuel)
          end
      end
    else (s1, ODone).

(* ---- handshake ------------------------------------------------------------------------ *)
Inductive hstep :=
| HRecv                 (* a _getMsg(handshake / change_cipher_spec) call *)
| HSend (ct : Z)        (* _sendMsgThroughSocket of one record of content type ct *)
| HBufOn                (* sock.buffer_writes = True *)
| HFlushOff             (* sock.flush(); sock.buffer_writes = False *)
| HSetSess (r : bool)   (* self.session = <session object whose resumable flag is r> *)
| HDone.                (* _handshakeDone; the handshake call returns *)

(* _handshakeWrapperAsync: TLSAlert is re-raised as it is (the raiser already shut down),
   anything else => _shutdown(False) and re-raise *)
Definition hs_wrapper (x : exn) (s : st) : st * outcome :=
  let s' := set_hs false s in
  match x with
  | XRemote _ | XLocal _ => (s', OExc x)
  | _ => raise_after_shutdown false x s'
  end.

(* _sendMsgThroughSocket after socket.error z on a handshake record: read the next record,
   _shutdown(False), raise TLSRemoteAlert if it is an alert, otherwise re-raise the socket error
   (before /repo 0ab9df1 the last case fell through and the handshake went on) *)
Definition look_for_alert (z : Z) (s : st) : st * outcome :=
  match recv_item s with
  | (s1, Val i) =>
      let '(s2, e) := shutdown false s1 in
      match e with
      | Some z' => hs_wrapper (XSock z') s2
      | None => match i with IAlert _ d => hs_wrapper (XRemote d) s2 | _ => hs_wrapper (XSock z) s2 end
      end
  | (s1, Exc x) => hs_wrapper x s1
  | (s1, Blk) => (set_hs false s1, OBlocked)
  | (s1, Fuel) => (s1, OFuel)
  end.

Definition do_hs (h : hstep) (s : st) : st * outcome :=
  if negb (hs s) then (s, ONone) else
  match h with
  | HRecv => match get_msg CHs s with
             | (s1, Val _) => (s1, OStep)
             | (s1, Exc x) => hs_wrapper x s1
             | (s1, Blk) => (set_hs false s1, OBlocked)
             | (s1, Fuel) => (s1, OFuel)
             end
  | HSend ct => let '(s1, e) := send_rec (WHs ct) s in
                match e with
                | None => (s1, OStep)
                | Some z => if ct =? 22 then look_for_alert z s1 else hs_wrapper (XSock z) s1
                end
  | HBufOn => (set_bufw true s, OStep)
  | HFlushOff => let '(s1, e) := flush s in
                 match e with Some z => hs_wrapper (XSock z) s1 | None => (set_bufw false s1, OStep) end
  | HSetSess b => (set_sess (Some b) s, OStep)
  | HDone => (set_hs false (set_closed false s), OHsDone)
  end.

(* _handshakeStart inside the wrapper: on an open connection ValueError, hence _shutdown(False) *)
Definition do_hs_start (s : st) : st * outcome :=
  if negb (closed s) then raise_after_shutdown false XValue s
  else (set_refc 1 (set_hs true s), OStep).

(* ---- events --------------------------------------------------------------------------- *)
Inductive event :=
| URead (mx : option Z) (mn : Z) | UWrite (d : list Z) | UClose | UMakefile
| UHsStart | UHs (h : hstep)
| USetIgn (b : bool) | USetCsock (b : bool)
| UKeyUpdate | UPha (ok : bool) | UHeartbeat (ok : bool)
| NIn (i : item)                (* a whole message arrives *)
| NEof                          (* the peer's direction ends without close_notify *)
| NReset (e : Z)                (* recv starts failing with errno e (after what is queued) *)
| NSendBreak (k : Z) (e : Z).   (* after k more socket writes, send fails with errno e for good *)

Definition rx_open (s : st) : bool := match rxe s with RxOpen => true | _ => false end.

Definition step (s : st) (ev : event) : st * outcome :=
  match ev with
  | URead mx mn => do_read mx mn s
  | UWrite d => do_write d s
  | UClose => do_close s
  | UMakefile => (set_refc (refc s + 1) s, OStep)
  | UHsStart => do_hs_start s
  | UHs h => do_hs h s
  | USetIgn b => (set_ign b s, OStep)
  | USetCsock b => (set_csock b s, OStep)
  | UKeyUpdate => do_keyupdate s
  | UPha ok => do_pha ok s
  | UHeartbeat ok => do_heartbeat ok s
  | NIn i => if rx_open s && sock_open s then (set_inq (inq s ++ [i]) s, ONone) else (s, ONone)
  | NEof => if rx_open s then (set_rxe RxEof s, ONone) else (s, ONone)
  | NReset e => if rx_open s then (set_rxe (RxErr e) s, ONone) else (s, ONone)
  | NSendBreak k e => match txf s with None => (set_txf (Some (k, e)) s, ONone) | Some _ => (s, ONone) end
  end.

Fixpoint run (s : st) (evs : list event) : st * list outcome :=
  match evs with
  | [] => (s, [])
  | ev :: evs' => let '(s1, o) := step s ev in
                  let '(s2, os) := run s1 evs' in (s2, o :: os)
  end.

(* a fresh TLSConnection(sock): closed, no session, refcount 0, nothing buffered *)
Definition init (ign_ csock_ tls13_ split_ : bool) (recsz_ : Z) : st :=
  mkst true false 0 None ign_ csock_ tls13_ split_ recsz_ true false [] [] [] RxOpen None [].
