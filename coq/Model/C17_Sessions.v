(* C17 -- several connections sharing session objects (definitions only, no proofs).

   tlslite-ng shares a Session BY REFERENCE: the server's SessionCache entry, the .session of
   the connection that created it and the .session of every connection that resumed it (session
   ID or TLS <= 1.2 ticket with the ID still cached) are the same Python object, and so is the
   client's session object handed to handshakeClient*(session=...).  _shutdown(False) on any of
   these connections therefore switches resumable off for all of them, for the cache, and for
   every later resumption attempt.  (TLS 1.3 builds a fresh Session per connection.)

   world = the connections (state of Model/C17_Lifecycle.v + a reference into the store) and the
   store of session objects (their resumable flags).  A connection's own `sess` field is only a
   view: it is loaded from the store before each step and written back after it. *)
From Coq Require Import ZArith List Bool.
From TV Require Import Model.C17_Lifecycle.
Import ListNotations.
Open Scope Z_scope.

Record wconn := mkwc { cst : st; sref : option nat }.
Record world := mkw { conns : list wconn; store : list bool }.

Definition flag (w : world) (l : nat) : bool := nth l (store w) false.

Definition view (w : world) (c : wconn) : option bool := option_map (flag w) (sref c).

Fixpoint upd {A} (l : list A) (n : nat) (x : A) : list A :=
  match l, n with
  | [], _ => []
  | _ :: t, O => x :: t
  | h :: t, S k => h :: upd t k x
  end.

Inductive wevent :=
| WConn (i : nat) (ev : event)   (* an event of Model/C17_Lifecycle on connection i *)
| WNewSession (i : nat)          (* self.session = Session(); .create(...): a fresh resumable object *)
| WAdopt (i : nat) (l : nat)     (* resumption: self.session = <the existing object l> (no copy) *)
| WLookup (l : nat).             (* is object l still usable for resumption (SessionCache lookup / Session.valid()) *)

Inductive wout := WO (o : outcome) | WFound (b : bool) | WNothing.

Definition is_setsess (ev : event) : bool :=
  match ev with UHs (HSetSess _) => true | _ => false end.

Definition wstep (w : world) (e : wevent) : world * wout :=
  match e with
  | WConn i ev =>
      match nth_error (conns w) i with
      | None => (w, WNothing)
      | Some c =>
          if is_setsess ev then (w, WNothing)      (* session objects are installed by WNewSession / WAdopt only *)
          else
            let '(s', o) := step (set_sess (view w c) (cst c)) ev in
            let st' := match sref c, sess s' with
                       | Some l, Some b => upd (store w) l b
                       | _, _ => store w
                       end in
            (mkw (upd (conns w) i (mkwc s' (sref c))) st', WO o)
      end
  | WNewSession i =>
      match nth_error (conns w) i with
      | None => (w, WNothing)
      | Some c => (mkw (upd (conns w) i (mkwc (cst c) (Some (length (store w))))) (store w ++ [true]), WNothing)
      end
  | WAdopt i l =>
      match nth_error (conns w) i with
      | None => (w, WNothing)
      | Some c => if (l <? length (store w))%nat
                  then (mkw (upd (conns w) i (mkwc (cst c) (Some l))) (store w), WNothing)
                  else (w, WNothing)
      end
  | WLookup l => (w, WFound (flag w l))
  end.

Fixpoint wrun (w : world) (evs : list wevent) : world * list wout :=
  match evs with
  | [] => (w, [])
  | e :: t => let '(w1, o) := wstep w e in
              let '(w2, os) := wrun w1 t in (w2, o :: os)
  end.

(* the view a connection has of its session after the last event *)
Definition conn_view (w : world) (i : nat) : option bool :=
  match nth_error (conns w) i with Some c => view w c | None => None end.

Definition conn_closed (w : world) (i : nat) : bool :=
  match nth_error (conns w) i with Some c => closed (cst c) | None => true end.
