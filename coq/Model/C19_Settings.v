(* C19 -- executable model of tlslite/handshakesettings.py : HandshakeSettings.validate()
   Definitions only (no proofs).  Hand-written, statement by statement, in the order of the
   Python text; tied to /repo by (a) Gen/SettingsTables.v (tables, installation flags and the
   ast skeleton, regenerated on every run) and (b) the correspondence run of harness/props/C19.py.

   List-valued attributes are modelled BY REFERENCE: a heap of cells, the settings object holds
   locations.  `other.x = self.x` shares the location, `x[:] = ...` writes through the location,
   a list comprehension / `x[:]` on the right-hand side allocates a fresh cell. *)
From Coq Require Import ZArith List Bool String.
From TV Require Import Base.Prelude.
Import ListNotations.
Open Scope Z_scope.

(* ---- Python values that can sit in a settings attribute or inside one of its lists -------- *)
Inductive val :=
| VStr (s : string)
| VInt (z : Z)
| VBool (b : bool)
| VNone
| VPair (a b : Z)                      (* 2-tuple of ints: protocol version, signature scheme *)
| VBytes (l : list Z)                  (* bytearray (ticket key) *)
| VPsk (n : Z) (h : option string)     (* tuple of length n; element [2] (when n >= 3) is the str h, or None *)
| VHost (keys : list (bool * bool)).   (* VirtualHost; per Keypair: (bool(key), bool(certificates)) *)

Definition opt_str_eqb (a b : option string) : bool :=
  match a, b with
  | Some x, Some y => String.eqb x y
  | None, None => true
  | _, _ => false
  end.

Definition bb_eqb (a b : bool * bool) : bool := Bool.eqb (fst a) (fst b) && Bool.eqb (snd a) (snd b).

Fixpoint list_beq {A} (eqb : A -> A -> bool) (a b : list A) : bool :=
  match a, b with
  | [], [] => true
  | x :: xs, y :: ys => eqb x y && list_beq eqb xs ys
  | _, _ => false
  end.

Definition b2z (b : bool) : Z := if b then 1 else 0.

(* Python's == on these values (True == 1, False == 0) *)
Definition py_eq (a b : val) : bool :=
  match a, b with
  | VStr x, VStr y => String.eqb x y
  | VInt x, VInt y => x =? y
  | VBool x, VBool y => Bool.eqb x y
  | VInt x, VBool y => x =? b2z y
  | VBool x, VInt y => b2z x =? y
  | VNone, VNone => true
  | VPair a1 a2, VPair b1 b2 => (a1 =? b1) && (a2 =? b2)
  | VBytes x, VBytes y => list_beq Z.eqb x y
  | VPsk n h, VPsk m k => (n =? m) && opt_str_eqb h k
  | VHost x, VHost y => list_beq bb_eqb x y
  | _, _ => false
  end.

(* structural equality, used to compare views *)
Definition val_eqb (a b : val) : bool :=
  match a, b with
  | VInt _, VBool _ | VBool _, VInt _ => false
  | _, _ => py_eq a b
  end.

Definition val_in (x : val) (l : list val) : bool := existsb (py_eq x) l.
Definition in_tab (x : val) (t : list string) : bool :=
  match x with VStr s => existsb (String.eqb s) t | _ => false end.
Definition in_ztab (x : val) (t : list Z) : bool :=
  match x with VInt z => existsb (Z.eqb z) t | VBool b => existsb (Z.eqb (b2z b)) t | _ => false end.

Definition truthy (v : val) : bool :=
  match v with
  | VStr s => negb (String.eqb s EmptyString)
  | VInt z => negb (z =? 0)
  | VBool b => b
  | VNone => false
  | VPair _ _ => true
  | VBytes l => match l with [] => false | _ => true end
  | VPsk n _ => negb (n =? 0)
  | VHost _ => true
  end.

(* x in (True, False) *)
Definition boolish (v : val) : bool :=
  match v with VBool _ => true | VInt z => (z =? 0) || (z =? 1) | _ => false end.

Definition is_int (v : val) : bool := match v with VInt _ | VBool _ => true | _ => false end.

Definition ver_lt (a b : Z * Z) : bool := (fst a <? fst b) || ((fst a =? fst b) && (snd a <? snd b)).
Definition ver_le (a b : Z * Z) : bool := negb (ver_lt b a).
Definition ver_eqb (a b : Z * Z) : bool := (fst a =? fst b) && (snd a =? snd b).

Definition isnil {A} (l : list A) : bool := match l with [] => true | _ => false end.

(* ---- heap ----------------------------------------------------------------------------------- *)
Definition loc := nat.
Definition heap := list (list val).
Definition hget (h : heap) (l : loc) : list val := nth l h [].
(* l[k] = x on a Coq list; out of range: no effect (callers state the range) *)
Fixpoint lupd {A} (l : list A) (k : nat) (x : A) : list A :=
  match l, k with
  | [], _ => []
  | _ :: t, O => x :: t
  | y :: t, S n => y :: lupd t n x
  end.
Definition hset (h : heap) (l : loc) (v : list val) : heap := lupd h l v.
Definition halloc (h : heap) (v : list val) : heap * loc := ((h ++ [v])%list, List.length h).

(* ---- the object --------------------------------------------------------------------------- *)
(* indices of the list-valued attributes in [locs] *)
Definition F_cipherNames := 0%nat.
Definition F_macNames := 1%nat.
Definition F_keyExchangeNames := 2%nat.
Definition F_cipherImplementations := 3%nat.
Definition F_versions := 4%nat.
Definition F_ec_point_formats := 5%nat.
Definition F_ticketKeys := 6%nat.
Definition F_certificate_compression_send := 7%nat.
Definition F_certificate_compression_receive := 8%nat.
Definition F_dc_sig_algs := 9%nat.
Definition F_certificateTypes := 10%nat.
Definition F_rsaSigHashes := 11%nat.
Definition F_rsaSchemes := 12%nat.
Definition F_dsaSigHashes := 13%nat.
Definition F_ecdsaSigHashes := 14%nat.
Definition F_more_sig_schemes := 15%nat.
Definition F_virtual_hosts := 16%nat.
Definition F_eccCurves := 17%nat.
Definition F_dhGroups := 18%nat.
Definition F_keyShares := 19%nat.
Definition F_pskConfigs := 20%nat.
Definition F_psk_modes := 21%nat.
Definition NF := 22%nat.

Definition list_field_names : list string :=
  ["cipherNames"; "macNames"; "keyExchangeNames"; "cipherImplementations"; "versions"; "ec_point_formats";
   "ticketKeys"; "certificate_compression_send"; "certificate_compression_receive"; "dc_sig_algs";
   "certificateTypes"; "rsaSigHashes"; "rsaSchemes"; "dsaSigHashes"; "ecdsaSigHashes"; "more_sig_schemes";
   "virtual_hosts"; "eccCurves"; "dhGroups"; "keyShares"; "pskConfigs"; "psk_modes"]%string.

(* attributes holding immutable values (ints, bools, str, tuples, None, callables) *)
Record scalars := {
  minVersion : Z * Z;
  maxVersion : Z * Z;
  useExtendedMasterSecret : val;
  requireExtendedMasterSecret : val;
  useExperimentalTackExtension : val;
  sendFallbackSCSV : val;
  useEncryptThenMAC : val;
  usePaddingExtension : val;
  padding_cb : bool;                      (* is a callback set *)
  ticketCipher : val;
  ticketLifetime : Z;
  max_early_data : Z;
  ticket_count : Z;
  record_size_limit : option Z;
  dc_valid_time : Z;
  minKeySize : Z;
  maxKeySize : Z;
  dhParams : option (list val);           (* None or a tuple *)
  defaultCurve : val;
  use_heartbeat_extension : val;
  heartbeat_response_callback : bool      (* is a callback set *)
}.

Definition scalar_field_names : list string :=
  ["minVersion"; "maxVersion"; "useExtendedMasterSecret"; "requireExtendedMasterSecret";
   "useExperimentalTackExtension"; "sendFallbackSCSV"; "useEncryptThenMAC"; "usePaddingExtension";
   "padding_cb"; "ticketCipher"; "ticketLifetime"; "max_early_data"; "ticket_count"; "record_size_limit";
   "dc_valid_time"; "minKeySize"; "maxKeySize"; "dhParams"; "defaultCurve"; "use_heartbeat_extension";
   "heartbeat_response_callback"]%string.

Record settings := { locs : list loc; sc : scalars }.

Definition L (s : settings) (f : nat) : loc := nth f (locs s) O.
Definition G (h : heap) (s : settings) (f : nat) : list val := hget h (L s f).

Definition set_loc (s : settings) (f : nat) (v : loc) : settings :=
  {| locs := lupd (locs s) f v; sc := sc s |}.

(* every location of the object is allocated and the object has all its list attributes *)
Definition wf (h : heap) (s : settings) : bool :=
  Nat.eqb (List.length (locs s)) NF && forallb (fun l => Nat.ltb l (List.length h)) (locs s).

(* ---- domain tables and installation --------------------------------------------------------- *)
Record tables := {
  t_all_cipher : list string;
  t_all_mac : list string;
  t_kex : list string;
  t_impl : list string;
  t_certtypes : list string;
  t_all_rsa_hashes : list string;
  t_dsa_hashes : list string;
  t_ecdsa_hashes : list string;
  t_sig_schemes : list string;
  t_rsa_schemes : list string;
  t_all_curves : list string;
  t_all_dh : list string;
  t_tls13_groups : list string;
  t_known_versions : list (Z * Z);
  t_ticket_ciphers : list string;
  t_psk_modes : list string;
  t_ecpf : list Z;
  t_ecpf_uncompressed : Z;
  t_comp_send : list string;
  t_comp_recv : list string;
  t_dc_forbidden : list (Z * Z);
  t_dc_valid_time : Z
}.

Record install := { i_m2crypto : bool; i_pycrypto : bool; i_tdes : bool }.

(* ---- helpers of the Python text --------------------------------------------------------------- *)
Definition guard (bad : bool) : res unit := if bad then Err ValueError else Ok tt.

(* _not_matching(values, sieve) followed by `if unknown: raise ValueError` *)
Definition not_matching (values : list val) (sieve : list string) : list val :=
  filter (fun v => negb (in_tab v sieve)) values.
Definition all_known (values : list val) (sieve : list string) : res unit :=
  guard (negb (isnil (not_matching values sieve))).

Definition py_len (v : val) : res Z :=
  match v with
  | VStr s => Ok (Z.of_nat (String.length s))
  | VBytes l => Ok (zlen l)
  | VPsk n _ => Ok n
  | VPair _ _ => Ok 2
  | _ => Err TypeError
  end.

(* any(len(i) not in sieve for i in values): short-circuits at the first offending element *)
Fixpoint not_allowed_len (values : list val) (sieve : list Z) : res bool :=
  match values with
  | [] => Ok false
  | x :: xs => n <- py_len x ;;
               if negb (existsb (Z.eqb n) sieve) then Ok true else not_allowed_len xs sieve
  end.

(* i[2] for an element already known to have len(i) == 3 *)
Definition third (v : val) : val :=
  match v with
  | VPsk _ (Some s) => VStr s
  | VPsk _ None => VNone
  | VStr s => VStr (String.substring 2 1 s)
  | VBytes l => VInt (nth 2 l 0)
  | _ => VNone
  end.

(* [i[2] for i in pskConfigs if len(i) == 3 and i[2] not in set(['sha256','sha384'])]
   evaluated after not_allowed_len succeeded, hence len() is defined on every element *)
Definition bad_psk_hash (v : val) : bool :=
  match py_len v with
  | Ok n => (n =? 3) && negb (in_tab (third v) ["sha256"; "sha384"]%string)
  | Err _ => false
  end.

(* VirtualHost.validate() / Keypair.validate() *)
Definition vhost_validate (v : val) : res unit :=
  match v with
  | VHost keys =>
      _ <- guard (isnil keys) ;;
      guard (existsb (fun k => negb (fst k) || negb (snd k)) keys)
  | _ => Err AttributeError
  end.

Fixpoint forM_ {A} (f : A -> res unit) (l : list A) : res unit :=
  match l with
  | [] => Ok tt
  | x :: xs => _ <- f x ;; forM_ f xs
  end.

(* lowest = min(other.minVersion, (3, 3));  [i for i in other.versions if lowest <= i <= other.maxVersion]
   History: before /repo f81c02a `if maxVersion < (3,4): [i for i in versions if i < (3,4)]`; f81c02a clipped
   at minVersion itself, which made TLS 1.3-only settings (minVersion = (3,4)) non-idempotent and unable to
   connect; 0b9340a keeps (3,3) for them.  Comparing a non-tuple with a tuple raises TypeError. *)
Definition clip_lo (c : Z * Z) : Z * Z := if ver_lt (3, 3) c then (3, 3) else c.     (* min(c, (3,3)) *)
Definition in_range (lo hi : Z * Z) (a b : Z) : bool := ver_le lo (a, b) && ver_le (a, b) hi.
Fixpoint filter_range (lo hi : Z * Z) (l : list val) : res (list val) :=
  match l with
  | [] => Ok []
  | VPair a b :: xs => r <- filter_range lo hi xs ;; Ok (if in_range lo hi a b then VPair a b :: r else r)
  | _ :: _ => Err TypeError
  end.

(* any(alg in DELEGETED_CREDENTIAL_FORBIDDEN_ALG for alg in other.dc_sig_algs): a scheme is a 2-tuple;
   anything else compares unequal to every forbidden tuple.
   (Before /repo 8cc633e the test was `other.dc_sig_algs in DELEGETED_...`, a list compared with each
   tuple, constantly False: rejects_outside_domain was refuted at D_dc_sig_algs by dc_sig_algs=[(8,4)].) *)
Definition forbidden_alg (T : tables) (x : val) : bool :=
  match x with
  | VPair a b => existsb (fun t => (fst t =? a) && (snd t =? b)) (t_dc_forbidden T)
  | _ => false
  end.
Definition dc_sig_algs_forbidden (T : tables) (l : list val) : bool := existsb (forbidden_alg T) l.

(* key length demanded by the ticket cipher (/repo c50a338) *)
Definition aes128_ticket_ciphers : list string := ["aes128gcm"; "aes128ccm"; "aes128ccm_8"]%string.
Definition ticket_key_len (cipher : val) : Z := if in_tab cipher aes128_ticket_ciphers then 16 else 32.

(* contents of the list attributes of an object, in attribute order *)
Definition lists (h : heap) (s : settings) : list (list val) := map (hget h) (locs s).

(* ---- the _sanityCheck* functions: they only READ `other`; they are written over the contents
   [v] of its list attributes (v = lists h other) and its scalars [c] ------------------------------ *)
Section Checks.
Variable T : tables.
Variable v : list (list val).
Variable c : scalars.
Let g (f : nat) : list val := nth f v [].

Definition sanityCheckKeySizes : res unit :=
  _ <- guard (minKeySize c <? 512) ;;
  _ <- guard (minKeySize c >? 16384) ;;
  _ <- guard (maxKeySize c <? 512) ;;
  _ <- guard (maxKeySize c >? 16384) ;;
  _ <- guard (maxKeySize c <? minKeySize c) ;;
  forM_ vhost_validate (g F_virtual_hosts).

Definition sanityCheckCipherSettings : res unit :=
  _ <- all_known (g F_cipherNames) (t_all_cipher T) ;;
  _ <- all_known (g F_macNames) (t_all_mac T) ;;
  _ <- all_known (g F_keyExchangeNames) (t_kex T) ;;
  all_known (g F_cipherImplementations) (t_impl T).

Definition sanityCheckECDHSettings : res unit :=
  _ <- all_known (g F_eccCurves) (t_all_curves T) ;;
  _ <- guard (negb (in_tab (defaultCurve c) (t_all_curves T))) ;;
  _ <- guard (negb (isnil (filter (fun x => negb (val_in x (g F_eccCurves)) && negb (val_in x (g F_dhGroups)))
                                  (g F_keyShares)))) ;;
  _ <- all_known (g F_ecdsaSigHashes) (t_ecdsa_hashes T) ;;
  _ <- all_known (g F_more_sig_schemes) (t_sig_schemes T) ;;
  _ <- all_known (g F_dhGroups) (t_all_dh T) ;;
  if negb (val_in (VPair 3 3) (g F_versions)) && val_in (VPair 3 4) (g F_versions)
  then all_known (g F_eccCurves) (t_tls13_groups T)
  else Ok tt.

Definition dhParams_bad (p : option (list val)) : bool :=
  match p with
  | None => false
  | Some [] => false
  | Some [a; b] => negb (is_int a) || negb (is_int b)
  | Some _ => true
  end.

Definition sanityCheckDHSettings : res unit :=
  _ <- sanityCheckECDHSettings ;;
  _ <- guard (negb (isnil (filter (fun x => negb (in_tab x (t_all_dh T)) && negb (in_tab x (t_all_curves T)))
                                  (g F_keyShares)))) ;;
  guard (dhParams_bad (dhParams c)).

Definition sanityCheckPrimitivesNames : res unit :=
  _ <- sanityCheckCipherSettings ;;
  _ <- sanityCheckDHSettings ;;
  _ <- all_known (g F_certificateTypes) (t_certtypes T) ;;
  _ <- all_known (g F_rsaSigHashes) (t_all_rsa_hashes T) ;;
  _ <- all_known (g F_rsaSchemes) (t_rsa_schemes T) ;;
  _ <- all_known (g F_dsaSigHashes) (t_dsa_hashes T) ;;
  guard (isnil (g F_rsaSigHashes) && isnil (g F_ecdsaSigHashes) && isnil (g F_dsaSigHashes)
         && isnil (g F_more_sig_schemes) && ver_le (3, 3) (maxVersion c)).

(* the raising part of _sanityCheckProtocolVersions; the assignment to other.versions is in [validate] *)
Definition sanityCheckProtocolVersions_raises : res unit :=
  _ <- guard (ver_lt (maxVersion c) (minVersion c)) ;;
  _ <- guard (negb (existsb (ver_eqb (minVersion c)) (t_known_versions T))) ;;
  guard (negb (existsb (ver_eqb (maxVersion c)) (t_known_versions T))).

Definition sanityCheckEMSExtension : res unit :=
  _ <- guard (negb (boolish (useExtendedMasterSecret c))) ;;
  _ <- guard (negb (boolish (requireExtendedMasterSecret c))) ;;
  guard (truthy (requireExtendedMasterSecret c) && negb (truthy (useExtendedMasterSecret c))).

Definition compression_check (l : list val) (sieve : list string) : res unit :=
  if isnil l then Ok tt else all_known l sieve.

Definition sanityCheckExtensions : res unit :=
  _ <- guard (negb (boolish (useEncryptThenMAC c))) ;;
  _ <- guard (negb (boolish (usePaddingExtension c))) ;;
  _ <- guard (negb (boolish (use_heartbeat_extension c))) ;;
  _ <- guard (heartbeat_response_callback c && negb (truthy (use_heartbeat_extension c))) ;;
  _ <- guard (match record_size_limit c with
              | None => false
              | Some r => negb ((64 <=? r) && (r <=? 2 ^ 14 + 1))
              end) ;;
  _ <- guard (negb (isnil (filter (fun x => negb (in_ztab x (t_ecpf T))) (g F_ec_point_formats)))) ;;
  _ <- guard (negb (val_in (VInt (t_ecpf_uncompressed T)) (g F_ec_point_formats))) ;;
  _ <- guard (dc_sig_algs_forbidden T (g F_dc_sig_algs)) ;;
  _ <- guard (dc_valid_time c >? t_dc_valid_time T) ;;
  _ <- sanityCheckEMSExtension ;;
  _ <- compression_check (g F_certificate_compression_send) (t_comp_send T) ;;
  compression_check (g F_certificate_compression_receive) (t_comp_recv T).

Definition sanityCheckPsks : res unit :=
  bad <- not_allowed_len (g F_pskConfigs) [2; 3] ;;
  _ <- guard bad ;;
  _ <- guard (existsb bad_psk_hash (g F_pskConfigs)) ;;
  all_known (g F_psk_modes) (t_psk_modes T).

Definition sanityCheckTicketSettings : res unit :=
  _ <- guard (negb (in_tab (ticketCipher c) (t_ticket_ciphers T))) ;;
  bad <- not_allowed_len (g F_ticketKeys) [16; 32] ;;
  _ <- guard bad ;;
  (* the key has to fit the selected cipher (before c50a338 this check did not exist:
     ticketCipher=chacha20-poly1305 with a 16-byte key was accepted) *)
  bad2 <- not_allowed_len (g F_ticketKeys) [ticket_key_len (ticketCipher c)] ;;
  _ <- guard bad2 ;;
  _ <- guard (negb ((0 <? ticketLifetime c) && (ticketLifetime c <=? 7 * 24 * 60 * 60))) ;;
  _ <- guard (negb ((0 <? max_early_data c) && (max_early_data c <=? 2 ^ 64))) ;;
  guard (negb ((0 <=? ticket_count c) && (ticket_count c <? 2 ^ 16))).
End Checks.

(* _remove_all_matches(values, needle): values[:] = (i for i in values if i != needle) *)
Definition remove_all_matches (h : heap) (l : loc) (needle : string) : heap :=
  hset h l (filter (fun v => negb (py_eq v (VStr needle))) (hget h l)).

(* ---- validate() --------------------------------------------------------------------------------
   Returns the heap after the call (exceptions do not undo earlier writes) and the result.
   The receiver [s] is immutable here by construction: Python's validate() never assigns to an
   attribute of self (checked on the implementation by the snapshot comparison). *)

(* first block of checks: `if not other.certificateTypes`, _sanityCheckKeySizes,
   _sanityCheckPrimitivesNames, raising part of _sanityCheckProtocolVersions *)
Definition checks_A (T : tables) (h : heap) (o : settings) : res unit :=
  _ <- guard (isnil (G h o F_certificateTypes)) ;;
  _ <- sanityCheckKeySizes (lists h o) (sc o) ;;
  _ <- sanityCheckPrimitivesNames T (lists h o) (sc o) ;;
  sanityCheckProtocolVersions_raises T (sc o).

(* end of _sanityCheckProtocolVersions (always a new list):
   other.versions = [i for i in other.versions if min(other.minVersion, (3,3)) <= i <= other.maxVersion] *)
Definition step_versions (h : heap) (o : settings) : res (heap * settings) :=
  match filter_range (clip_lo (minVersion (sc o))) (maxVersion (sc o)) (G h o F_versions) with
  | Ok l => let '(h', p) := halloc h l in Ok (h', set_loc o F_versions p)
  | Err e => Err e
  end.

(* if other.maxVersion < (3, 3): other.macNames = [e for e in self.macNames if e == "sha" or e == "md5"] *)
Definition keep_old_mac (e : val) : bool := py_eq e (VStr "sha") || py_eq e (VStr "md5").
Definition step_macnames (self : settings) (h : heap) (o : settings) : heap * settings :=
  if ver_lt (maxVersion (sc o)) (3, 3)
  then let '(h', p) := halloc h (filter keep_old_mac (G h self F_macNames)) in (h', set_loc o F_macNames p)
  else (h, o).

Definition checks_C (T : tables) (h : heap) (o : settings) : res unit :=
  _ <- sanityCheckPsks T (lists h o) ;; sanityCheckTicketSettings T (lists h o) (sc o).

(* _sanity_check_implementations, without its final test.  Since /repo 851aa29 it first rebinds
   other.cipherImplementations to a copy (x = x[:]) and filters the COPY in place.
   (Before, the filtering wrote through the location shared with the receiver: the frame theorem was
   refuted at that cell - finding F2.) *)
Definition step_impl (I : install) (h : heap) (o : settings) : heap * settings :=
  let '(h', p) := halloc h (G h o F_cipherImplementations) in
  let h3 := if negb (i_m2crypto I) then remove_all_matches h' p "openssl" else h' in
  let h4 := if negb (i_pycrypto I) then remove_all_matches h3 p "pycrypto" else h3 in
  (h4, set_loc o F_cipherImplementations p).

(* _sanity_check_ciphers, without its final test: copies first (x = x[:]), then filters the copy *)
Definition step_ciphers (I : install) (h : heap) (o : settings) : heap * settings :=
  if negb (i_tdes I)
  then let '(h', p) := halloc h (G h o F_cipherNames) in
       (remove_all_matches h' p "3des", set_loc o F_cipherNames p)
  else (h, o).

Definition validate (T : tables) (I : install) (h : heap) (s : settings) : heap * res settings :=
  (* other = HandshakeSettings(); _copy_*: every attribute of other is bound to self's object *)
  let o := s in
  match checks_A T h o with
  | Err e => (h, Err e)
  | Ok _ =>
  match step_versions h o with
  | Err e => (h, Err e)
  | Ok (h1, o1) =>
  match sanityCheckExtensions T (lists h1 o1) (sc o1) with
  | Err e => (h1, Err e)
  | Ok _ =>
  let '(h2, o2) := step_macnames s h1 o1 in
  match checks_C T h2 o2 with
  | Err e => (h2, Err e)
  | Ok _ =>
  let '(h4, o4) := step_impl I h2 o2 in
  if isnil (G h4 o4 F_cipherImplementations) then (h4, Err ValueError) else
  let '(h5, o5) := step_ciphers I h4 o4 in
  if isnil (G h5 o5 F_cipherNames) then (h5, Err ValueError) else (h5, Ok o5)
  end end end end.

(* ---- observation of an object: contents of every list attribute + the scalars ------------------ *)
Definition view (h : heap) (s : settings) : list (list val) * scalars := (lists h s, sc s).
