(* C04 -- what the model claims about the code's transcript / downgrade-protection sites.
   HAND-MAINTAINED (not generated).  Compared by Props/C04.transcript_sites_as_modelled with
   Gen/C04_Sites.v, which translator/units_c04.py regenerates from /repo on every run.

   How the entries map to Model/C04_Tamper.v:
   * hash_sites.  _sendMsg/_queue_message/_getMsg feed every handshake message sent/received:
     the transcripts Tc*/Ts* of run12/run12r/run13 (each flight appended when sent / received).
     _handshakeStart: transcripts start empty.  _clientGetServerHello (reset, message_hash,
     HelloRetryRequest re-added) and _serverGetClientHello (reset, message_hash; the HRR itself
     is then fed by _sendMsgs): `[MHash (hash .. [MCH ch1]); MSH hrr]` on both sides.
     update_binders / verify_binder: `pre ++ [MCH (ch_truncate c)]` in binders_for / binder_ok.
   * sentinel checks and writes are NOT compared as text any more: translator/units_c04.py EXECUTES the client's
     region between _clientGetServerHello and the first branch (TLS 1.3 / resumption / key exchange) and the
     statements that build the random of every TLS <= 1.2 ServerHello over their whole finite domain
     (sentinel_check_table, sentinel_write_table); Props/C04.sentinel_sites_decide_as_modelled compares those
     tables with sentinel_hit / sentinel_for.  guard_positions keeps WHERE they stand.
   * guard_sites.  (formerly also: sentinel_check x2 = sentinel_hit; sentinel_write x4 = sentinel_for: two in
     _handshakeServerAsyncHelper (full handshake, run12) and, since /repo 9a5e0f9, two in
     _serverGetClientHello for the resumed ServerHello (run12r); server_hello_sites shows that both
     TLS <= 1.2 ServerHello constructions take `random`, i.e. the value the writes act on; scsv_check = scsv_hit; hrr_second_hello_compare = hrr_second_ok;
     finished_compare = the zl_eqb tests on received Finished values (full equality);
     binder_compare = binder_ok.)
   * client_hello_sites / client_suite_sites.  client_hello_suites / client_first_hello: the list starts
     with the renegotiation SCSV, TLS_FALLBACK_SCSV is appended to wireCipherSuites iff
     settings.sendFallbackSCSV, and BOTH ClientHello.create calls (with and without an offered session id)
     pass wireCipherSuites.
   * guard_positions.  sentinel checks directly after _clientGetServerHello and before any key
     exchange; SCSV after version selection and before any ServerHello is built. *)
From Coq Require Import List String.
Import ListNotations.
Open Scope string_scope.

Definition expected_hash_sites : list (string * string * string * string * string) := [
  ("tlslite/tlsrecordlayer.py", "__init__", "assign", "self._handshake_hash = HandshakeHashes()", "");
  ("tlslite/tlsrecordlayer.py", "_sendMsg", "update", "self._handshake_hash <- buf", "if update_hashes and contentType == ContentType.handshake");
  ("tlslite/tlsrecordlayer.py", "_queue_message", "update", "self._handshake_hash <- serialised_msg", "if msg.contentType == ContentType.handshake");
  ("tlslite/tlsrecordlayer.py", "_getMsg", "update", "self._handshake_hash <- p.bytes", "else recordHeader.type == ContentType.change_cipher_spec && else recordHeader.type == ContentType.alert && else recordHeader.type == ContentType.application_data && if recordHeader.type == ContentType.handshake");
  ("tlslite/tlsrecordlayer.py", "_handshakeStart", "assign", "self._handshake_hash = HandshakeHashes()", "");
  ("tlslite/tlsconnection.py", "_clientGetServerHello", "assign", "self._handshake_hash = HandshakeHashes()", "if result.random == TLS_1_3_HRR and ext and (ext.version > (3, 3))");
  ("tlslite/tlsconnection.py", "_clientGetServerHello", "update", "self._handshake_hash <- writer.bytes", "if result.random == TLS_1_3_HRR and ext and (ext.version > (3, 3))");
  ("tlslite/tlsconnection.py", "_clientGetServerHello", "update", "self._handshake_hash <- hello_retry.write()", "if result.random == TLS_1_3_HRR and ext and (ext.version > (3, 3))");
  ("tlslite/tlsconnection.py", "_serverGetClientHello", "assign", "self._handshake_hash = HandshakeHashes()", "if version > (3, 3) && if hrr_ext");
  ("tlslite/tlsconnection.py", "_serverGetClientHello", "update", "self._handshake_hash <- writer.bytes", "if version > (3, 3) && if hrr_ext");
  ("tlslite/handshakehelpers.py", "update_binders", "update", "hh <- client_hello.psk_truncate()", "");
  ("tlslite/handshakehelpers.py", "verify_binder", "update", "hh <- client_hello.psk_truncate()", "")
].

Definition expected_guard_sites : list (string * string * string * string * string * string) := [
  ("tlslite/tlsrecordlayer.py", "_handle_srv_pha", "finished_compare", "finished.verify_data != verify_data", "alert AlertDescription.decrypt_error", "");
  ("tlslite/tlsconnection.py", "_clientTLS13Handshake", "finished_compare", "finished.verify_data != verify_data", "raise TLSDecryptionFailed", "");
  ("tlslite/tlsconnection.py", "_serverTLS13Handshake", "finished_compare", "cl_finished.verify_data != cl_verify_data", "alert AlertDescription.decrypt_error", "");
  ("tlslite/tlsconnection.py", "_serverGetClientHello", "scsv_check", "version < settings.maxVersion and CipherSuite.TLS_FALLBACK_SCSV in clientHello.cipher_suites", "alert AlertDescription.inappropriate_fallback", "");
  ("tlslite/tlsconnection.py", "_serverGetClientHello", "hrr_second_hello_compare", "clientHello1 != clientHello", "alert AlertDescription.illegal_parameter", "if version > (3, 3) && if hrr_ext");
  ("tlslite/tlsconnection.py", "_getFinished", "finished_compare", "finished.verify_data != verifyData", "alert AlertDescription.decrypt_error", "");
  ("tlslite/handshakehelpers.py", "verify_binder", "binder_compare", "not ct_compare_digest(binder, ext.binders[position])", "raise TLSIllegalParameterException", "")
].

Definition expected_server_hello_sites : list (string * string * string * string * string) := [
  ("tlslite/tlsconnection.py", "_handshakeServerAsyncHelper", "serverHello", "self.version", "random");
  ("tlslite/tlsconnection.py", "_serverTLS13Handshake", "serverHello", "(3, 3)", "getRandomBytes(32)");
  ("tlslite/tlsconnection.py", "_serverGetClientHello", "serverHello", "version", "random");
  ("tlslite/tlsconnection.py", "_serverGetClientHello", "hrr", "(3, 3)", "TLS_1_3_HRR")
].

Definition expected_guard_positions : list (string * string * string) := [
  ("tlslite/tlsconnection.py", "_handshakeClientAsyncHelper", "call:_clientGetServerHello < sentinel_check < call:_clientTLS13Handshake < call:_clientResume < call:_clientKeyExchange");
  ("tlslite/tlsconnection.py", "_handshakeServerAsyncHelper", "call:_serverTLS13Handshake < sentinel_write < server_hello_create");
  ("tlslite/tlsconnection.py", "_serverGetClientHello", "version_assigned < scsv_check < sentinel_write < server_hello_create < call:_server_select_certificate < server_hello_create < hrr_second_hello_compare")
].

Definition expected_client_hello_sites : list (string * string * string * string * string * string) := [
  ("tlslite/tlsconnection.py", "_clientSendClientHello", "if session and session.sessionID && else session.cipherSuite not in cipherSuites", "sent_version", "session.sessionID", "wireCipherSuites");
  ("tlslite/tlsconnection.py", "_clientSendClientHello", "else session and session.sessionID", "sent_version", "session_id", "wireCipherSuites")
].

Definition expected_client_suite_sites : list (string * string * string * string) := [
  ("tlslite/tlsconnection.py", "_clientSendClientHello", "", "cipherSuites = [CipherSuite.TLS_EMPTY_RENEGOTIATION_INFO_SCSV]");
  ("tlslite/tlsconnection.py", "_clientSendClientHello", "if srpParams", "cipherSuites += CipherSuite.getSrpAllSuites(settings)");
  ("tlslite/tlsconnection.py", "_clientSendClientHello", "else srpParams && if certParams", "cipherSuites += CipherSuite.getTLS13Suites(settings)");
  ("tlslite/tlsconnection.py", "_clientSendClientHello", "else srpParams && if certParams", "cipherSuites += CipherSuite.getEcdsaSuites(settings)");
  ("tlslite/tlsconnection.py", "_clientSendClientHello", "else srpParams && if certParams", "cipherSuites += CipherSuite.getEcdheCertSuites(settings)");
  ("tlslite/tlsconnection.py", "_clientSendClientHello", "else srpParams && if certParams", "cipherSuites += CipherSuite.getDheCertSuites(settings)");
  ("tlslite/tlsconnection.py", "_clientSendClientHello", "else srpParams && if certParams", "cipherSuites += CipherSuite.getCertSuites(settings)");
  ("tlslite/tlsconnection.py", "_clientSendClientHello", "else srpParams && if certParams", "cipherSuites += CipherSuite.getDheDsaSuites(settings)");
  ("tlslite/tlsconnection.py", "_clientSendClientHello", "else srpParams && else certParams && if anonParams", "cipherSuites += CipherSuite.getEcdhAnonSuites(settings)");
  ("tlslite/tlsconnection.py", "_clientSendClientHello", "else srpParams && else certParams && if anonParams", "cipherSuites += CipherSuite.getAnonSuites(settings)");
  ("tlslite/tlsconnection.py", "_clientSendClientHello", "", "wireCipherSuites = list(cipherSuites)");
  ("tlslite/tlsconnection.py", "_clientSendClientHello", "if settings.sendFallbackSCSV", "wireCipherSuites.append(CipherSuite.TLS_FALLBACK_SCSV)")
].

Definition expected_sentinel_write_functions : list string := ["_handshakeServerAsyncHelper"; "_serverGetClientHello"].
