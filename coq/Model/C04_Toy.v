(* C04 -- toy instance of the idealised primitives (definitions only; the proofs that it
   satisfies H_ideal_hash / H_ideal_prf are in Proofs/C04_Toy.v) and concrete honest
   endpoints used by the Examples and by the correspondence evaluation.
   hash = a prefix-free serialisation of the transcript term; fin = the tuple itself. *)
From Coq Require Import ZArith List Bool.
From TV Require Import Base.Prelude Model.C04_Tamper.
Import ListNotations.
Open Scope Z_scope.

Definition eZ (z : Z) : list Z := [z].

Definition eB (b : bool) : list Z := [if b then 1 else 0].

Definition eList {A} (e : A -> list Z) (l : list A) : list Z := Z.of_nat (length l) :: flat_map e l.

Definition ePair {A B} (e1 : A -> list Z) (e2 : B -> list Z) (p : A * B) : list Z := e1 (fst p) ++ e2 (snd p).

Definition eExt : ext -> list Z := ePair eZ (eList eZ).

Definition ch_tuple (c : chello) :=
  (ch_ver c, (ch_rand c, (ch_sid c, (ch_suites c, (ch_comp c, (ch_exts c, ch_binders c)))))).

Definition eCH : chello -> list Z :=
  fun c => ePair eZ (ePair eZ (ePair eZ (ePair (eList eZ) (ePair (eList eZ) (ePair (eList eExt) (eList (eList eZ)))))))
                 (ch_tuple c).

Definition sh_tuple (s : shello) :=
  (sh_ver s, (sh_rand s, (sh_tail s, (sh_hrr s, (sh_sid s, (sh_suite s, sh_exts s)))))).

Definition eSH : shello -> list Z :=
  fun s => ePair eZ (ePair eZ (ePair eZ (ePair eB (ePair eZ (ePair eZ (eList eExt)))))) (sh_tuple s).

Definition eMsg (m : msg) : list Z :=
  match m with
  | MCH c => 1 :: eCH c
  | MSH s => 2 :: eSH s
  | MHash d => 3 :: eList eZ d
  | MOther t b => 4 :: t :: [b]
  | MFin v => 5 :: eList eZ v
  end.

Definition toy_hash (a : Z) (t : transcript) : list Z := a :: eList eMsg t.

Definition toy_fin (k l : Z) (d : list Z) : list Z := k :: l :: d.

(* ---- concrete honest endpoints (Examples; also the shape used by the correspondence) ---- *)
Definition idf (l : list msg) : list msg := l.
Definition ex_prf (v s : Z) : Z := if v <? TLS12 then 0 else if s =? 4866 then 2 else 1.
Definition ex_suite_ok (v s : Z) : bool := if v >=? TLS13 then (4865 <=? s) && (s <=? 4869) else negb ((4865 <=? s) && (s <=? 4869)).

(* TLS 1.2 between a TLS-1.2 client and a TLS-1.3-capable server: the sentinel (2) is written *)
Definition ex_ch12 : chello :=
  mkCH 771 100 0 [49199; 156; 255] [0] [(23, []); (10, [29; 23]); (0, [5]); (16, [6]); (28, [2048])] [].
Definition ex_sh12 (v : Z) : shello := mkSH v 200 9 false 300 49199 [(23, []); (16, [7]); (28, [1024])].
Definition ex_run12 (a1 a2 a3 a4 : list msg -> list msg) : outcome :=
  run12 toy_hash toy_fin ex_prf ex_suite_ok 769 771 769 772 ex_ch12 (fun _ => true)
        (fun v c => Some (ex_sh12 v, [MOther 11 1; MOther 12 2; MOther 14 3]))
        (fun _ _ => true) (fun _ => [MOther 16 4]) (fun _ _ => true) (fun _ _ => true)
        (fun _ => [MOther 4 5]) (fun _ => 9) (fun _ => 9) a1 a2 a3 a4.

(* abbreviated handshake on the same pair: the resumed ServerHello gets the sentinel too (since /repo 9a5e0f9) *)
Definition ex_ch12r : chello :=
  mkCH 771 101 300 [49199; 156; 255] [0] [(23, []); (10, [29; 23])] [].
Definition ex_run12r (a1 a2 a3 : list msg -> list msg) : outcome :=
  run12r toy_hash toy_fin ex_prf ex_suite_ok 769 771 769 772 ex_ch12r (fun _ => true) (fun _ _ => true)
         (fun v c => Some (mkSH v 201 9 false 300 49199 [(23, [])], 9)) 9 a1 a2 a3.

(* TLS 1.3 with HelloRetryRequest and an external PSK *)
Definition ex_ch13 : chello :=
  mkCH 771 102 400 [4865; 4866; 49199; 255] [0]
       [(43, [772; 771; 770; 769]); (10, [29; 24]); (51, [29; 1001]); (45, [1]); (0, [5]); (41, [50])] [].
Definition ex_hrr : shello := mkSH 771 0 0 true 400 4865 [(51, [24]); (44, [60]); (43, [772])].
Definition ex_ch13_2 (c1 : chello) (h : shello) : option chello :=
  Some (mkCH 771 102 400 [4865; 4866; 49199; 255] [0]
             [(43, [772; 771; 770; 769]); (10, [29; 24]); (51, [24; 1002]); (45, [1]); (0, [5]); (44, [60]); (41, [50])] []).
Definition ex_sh13 : shello := mkSH 771 202 9 false 400 4865 [(51, [24; 1003]); (43, [772]); (41, [0])].
Definition ex_run13 (hrr : bool) (a1 a2 a3 a4 a5 : list msg -> list msg) : outcome :=
  run13 toy_hash toy_fin ex_prf ex_suite_ok 769 772 769 772 ex_ch13 (fun _ => true) (fun _ _ => true)
        (fun _ _ => true) (fun _ _ => true) (fun _ => 9) (fun _ => 9)
        (fun c => if hrr then Some (ex_hrr, Some [60], 24) else None)
        ex_ch13_2
        (fun T c => Some (ex_sh13, [MOther 8 1; MOther 11 2; MOther 15 3], Some (0%nat, 77)))
        [77] (fun _ => []) (fun _ => 1) a1 a2 a3 a4 a5.

(* an attacker that removes TLS 1.3 from supported_versions (and nothing else) *)
Definition strip13 (l : list msg) : list msg :=
  map (fun m => match m with
                | MCH c => MCH (mkCH (ch_ver c) (ch_rand c) (ch_sid c) (ch_suites c) (ch_comp c)
                                     (map (fun e => if fst e =? X_VERSIONS then (fst e, filter (fun v => v <? TLS13) (snd e)) else e)
                                          (ch_exts c)) (ch_binders c))
                | _ => m end) l.

(* decidable form of `unforgeable` for a finished run: every delivered Finished value is an emitted one *)
Definition delivered_fins_emitted (o : outcome) : bool :=
  forallb (fun m => match m with MFin v => existsb (zl_eqb v) (o_emit o) | _ => true end) (o_dlv o).
Definition done2 (o : outcome) : bool * bool :=
  (match o_c o with Some _ => true | None => false end, match o_s o with Some _ => true | None => false end).
