(* C19 -- the tables and installation flags of the tree under test (regenerated Gen/SettingsTables.v)
   packaged for the model, plus the evaluation helpers used by the correspondence run. *)
From Coq Require Import ZArith List Bool String.
From TV Require Import Base.Prelude Gen.SettingsTables Model.C19_Settings.
Import ListNotations.
Open Scope Z_scope.

Definition repo_tables : tables := {|
  t_all_cipher := ALL_CIPHER_NAMES;
  t_all_mac := ALL_MAC_NAMES;
  t_kex := KEY_EXCHANGE_NAMES;
  t_impl := CIPHER_IMPLEMENTATIONS;
  t_certtypes := CERTIFICATE_TYPES;
  t_all_rsa_hashes := ALL_RSA_SIGNATURE_HASHES;
  t_dsa_hashes := DSA_SIGNATURE_HASHES;
  t_ecdsa_hashes := ECDSA_SIGNATURE_HASHES;
  t_sig_schemes := SIGNATURE_SCHEMES;
  t_rsa_schemes := RSA_SCHEMES;
  t_all_curves := ALL_CURVE_NAMES;
  t_all_dh := ALL_DH_GROUP_NAMES;
  t_tls13_groups := TLS13_PERMITTED_GROUPS;
  t_known_versions := KNOWN_VERSIONS;
  t_ticket_ciphers := TICKET_CIPHERS;
  t_psk_modes := PSK_MODES;
  t_ecpf := EC_POINT_FORMATS;
  t_ecpf_uncompressed := EC_POINT_UNCOMPRESSED;
  t_comp_send := ALL_COMPRESSION_ALGOS_SEND;
  t_comp_recv := ALL_COMPRESSION_ALGOS_RECEIVE;
  t_dc_forbidden := DC_FORBIDDEN_ALG;
  t_dc_valid_time := DC_VALID_TIME
|}.

Definition repo_install : install :=
  {| i_m2crypto := flag_m2cryptoLoaded; i_pycrypto := flag_pycryptoLoaded; i_tdes := flag_tripleDESPresent |}.

(* ---- comparison with an observed run of the implementation ---------------------------------- *)
Definition vlist_eqb (a b : list val) : bool := list_beq val_eqb a b.

Definition optZ_eqb (a b : option Z) : bool :=
  match a, b with Some x, Some y => x =? y | None, None => true | _, _ => false end.
Definition optl_eqb (a b : option (list val)) : bool :=
  match a, b with Some x, Some y => vlist_eqb x y | None, None => true | _, _ => false end.

Definition scalars_eqb (a b : scalars) : bool :=
  ver_eqb (minVersion a) (minVersion b) && ver_eqb (maxVersion a) (maxVersion b)
  && val_eqb (useExtendedMasterSecret a) (useExtendedMasterSecret b)
  && val_eqb (requireExtendedMasterSecret a) (requireExtendedMasterSecret b)
  && val_eqb (useExperimentalTackExtension a) (useExperimentalTackExtension b)
  && val_eqb (sendFallbackSCSV a) (sendFallbackSCSV b)
  && val_eqb (useEncryptThenMAC a) (useEncryptThenMAC b)
  && val_eqb (usePaddingExtension a) (usePaddingExtension b)
  && Bool.eqb (padding_cb a) (padding_cb b)
  && val_eqb (ticketCipher a) (ticketCipher b)
  && (ticketLifetime a =? ticketLifetime b) && (max_early_data a =? max_early_data b)
  && (ticket_count a =? ticket_count b) && optZ_eqb (record_size_limit a) (record_size_limit b)
  && (dc_valid_time a =? dc_valid_time b) && (minKeySize a =? minKeySize b) && (maxKeySize a =? maxKeySize b)
  && optl_eqb (dhParams a) (dhParams b) && val_eqb (defaultCurve a) (defaultCurve b)
  && val_eqb (use_heartbeat_extension a) (use_heartbeat_extension b)
  && Bool.eqb (heartbeat_response_callback a) (heartbeat_response_callback b).

Definition heap_eqb (a b : heap) : bool := list_beq vlist_eqb a b.
Definition locs_eqb (a b : list loc) : bool := list_beq Nat.eqb a b.

(* One observed call.  The harness numbers the distinct list objects it meets (receiver first, in
   attribute order, then new objects of the result in attribute order), which is also the order in
   which the model allocates, so locations can be compared literally.
     obs_heap0 / obs_self : receiver before the call
     obs_heap1            : every numbered object after the call (after an exception: the receiver's
                            objects only; the model's later cells are unreachable garbage then)
     obs_res              : None = exception with code obs_code, Some = attribute locations of the result *)
Record obs := {
  obs_heap0 : heap;
  obs_self : settings;
  obs_heap1 : heap;
  obs_res : option (list loc);
  obs_code : Z
}.

Definition chk_validate (o : obs) : bool :=
  wf (obs_heap0 o) (obs_self o) &&
  let '(h', r) := validate repo_tables repo_install (obs_heap0 o) (obs_self o) in
  match r, obs_res o with
  | Ok s', Some l => locs_eqb (locs s') l && heap_eqb h' (obs_heap1 o) && scalars_eqb (sc s') (sc (obs_self o))
  | Err e, None => (exn_code e =? obs_code o) && heap_eqb (firstn (List.length (obs_heap0 o)) h') (obs_heap1 o)
  | _, _ => false
  end.
