(* C04 -- symbolic model of the tlslite-ng handshake under an on-path attacker.
   Definitions only (no proofs).

   Messages are symbolic terms carrying the negotiation-relevant fields.  An
   attacker is an ARBITRARY function on every flight (list msg -> list msg), in
   both directions.  Each endpoint's transcript is the list of handshake messages
   it sent / received in order -- exactly the places where the code calls
   _handshake_hash.update (tlsrecordlayer._sendMsg / _queue_message / _getMsg),
   including the synthetic message_hash restart after a HelloRetryRequest on both
   sides (tlsconnection.py 993-1001, 4160-4168) and the truncated-ClientHello
   transcript of the PSK binders (handshakehelpers.py).

   Content generation of the honest endpoints (which certificate, which key
   exchange message, which suite ...) is a set of oracles (Section variables):
   every theorem holds for all of them.  What is modelled concretely is what the
   property is about: where the transcript is updated, what the Finished values
   are computed over, version selection, the downgrade sentinel, TLS_FALLBACK_SCSV,
   the client's ServerHello checks and the second-ClientHello comparison. *)
From Coq Require Import ZArith List Bool Lia.
From TV Require Import Base.Prelude.
Import ListNotations.
Open Scope Z_scope.

(* ---- protocol versions as Z: 768 + minor ------------------------------------ *)
Definition SSL3 := 768.  Definition TLS10 := 769.  Definition TLS11 := 770.
Definition TLS12 := 771.  Definition TLS13 := 772.
Definition KNOWN_VERSIONS := [768; 769; 770; 771; 772].

(* ---- extension types that the model looks into ------------------------------- *)
Definition X_SNI := 0.        Definition X_GROUPS := 10.     Definition X_ALPN := 16.
Definition X_ETM := 22.       Definition X_EMS := 23.        Definition X_RSL := 28.
Definition X_PADDING := 21.   Definition X_PSK := 41.        Definition X_EARLY := 42.
Definition X_VERSIONS := 43.  Definition X_COOKIE := 44.     Definition X_KEYSHARE := 51.
Definition FALLBACK_SCSV := 22016.        (* 0x5600 *)

(* an extension: type and payload.  The payload is decoded where the model needs
   it (supported_versions: the version list; key_share: the groups followed by an
   identifier of the shares; pre_shared_key: identities, then the binders) and an
   identifier (digest) of the bytes otherwise, so that different bytes are
   different terms. *)
Definition ext := (Z * list Z)%type.

Record chello := mkCH {
  ch_ver : Z;            (* legacy client_version *)
  ch_rand : Z;           (* identifier of the 32 random bytes *)
  ch_sid : Z;
  ch_suites : list Z;    (* cipher_suites, SCSVs included, in order *)
  ch_comp : list Z;
  ch_exts : list ext;    (* in wire order *)
  ch_binders : list (list Z)   (* PSK binders (part of the last extension on the wire) *)
}.

Record shello := mkSH {
  sh_ver : Z;            (* legacy server_version *)
  sh_rand : Z;           (* identifier of random[0:24] *)
  sh_tail : Z;           (* random[24:32]: 1 = TLS 1.1 sentinel, 2 = TLS 1.2 sentinel, else an id >= 3 *)
  sh_hrr : bool;         (* random == the HelloRetryRequest constant *)
  sh_sid : Z;
  sh_suite : Z;
  sh_exts : list ext
}.

Inductive msg :=
| MCH (c : chello)
| MSH (s : shello)
| MHash (d : list Z)              (* synthetic message_hash message: digest of ClientHello1 *)
| MOther (ty : Z) (body : Z)      (* any other handshake message: type and identifier of its bytes *)
| MFin (v : list Z).              (* Finished: verify_data *)

Definition transcript := list msg.

(* ---- decidable equality ------------------------------------------------------- *)
Fixpoint lists_eqb {A} (eq : A -> A -> bool) (a b : list A) : bool :=
  match a, b with
  | [], [] => true
  | x :: xs, y :: ys => eq x y && lists_eqb eq xs ys
  | _, _ => false
  end.
Definition zl_eqb := lists_eqb Z.eqb.
Definition ext_eqb (a b : ext) : bool := (fst a =? fst b) && zl_eqb (snd a) (snd b).
Definition ch_eqb (a b : chello) : bool :=
  (ch_ver a =? ch_ver b) && (ch_rand a =? ch_rand b) && (ch_sid a =? ch_sid b) &&
  zl_eqb (ch_suites a) (ch_suites b) && zl_eqb (ch_comp a) (ch_comp b) &&
  lists_eqb ext_eqb (ch_exts a) (ch_exts b) && lists_eqb zl_eqb (ch_binders a) (ch_binders b).
Definition sh_eqb (a b : shello) : bool :=
  (sh_ver a =? sh_ver b) && (sh_rand a =? sh_rand b) && (sh_tail a =? sh_tail b) &&
  Bool.eqb (sh_hrr a) (sh_hrr b) && (sh_sid a =? sh_sid b) && (sh_suite a =? sh_suite b) &&
  lists_eqb ext_eqb (sh_exts a) (sh_exts b).
Definition msg_eqb (a b : msg) : bool :=
  match a, b with
  | MCH x, MCH y => ch_eqb x y
  | MSH x, MSH y => sh_eqb x y
  | MHash x, MHash y => zl_eqb x y
  | MOther t x, MOther u y => (t =? u) && (x =? y)
  | MFin x, MFin y => zl_eqb x y
  | _, _ => false
  end.
Definition tr_eqb := lists_eqb msg_eqb.

(* ---- small accessors ---------------------------------------------------------- *)
Definition memZ (x : Z) (l : list Z) : bool := existsb (Z.eqb x) l.

Fixpoint find_ext (t : Z) (l : list ext) : option (list Z) :=
  match l with
  | [] => None
  | (u, p) :: r => if u =? t then Some p else find_ext t r
  end.
Definition has_ext (t : Z) (l : list ext) : bool :=
  match find_ext t l with Some _ => true | None => false end.

Definition maxZ_list (l : list Z) (d : Z) : Z := fold_left Z.max l d.

(* the version a ServerHello selects: supported_versions if present (only looked at
   when server_version >= TLS 1.2, tlsconnection.py 1106-1111), else server_version *)
Definition sh_version (s : shello) : Z :=
  if sh_ver s >=? TLS12 then
    match find_ext X_VERSIONS (sh_exts s) with
    | Some (v :: _) => v
    | _ => sh_ver s
    end
  else sh_ver s.

(* ---- server: version selection (tlsconnection.py 3449-3466, 3729-3755) -------- *)
(* settings.versions after validate(): [1.3;1.2;1.1;1.0] clipped to [minVersion, maxVersion]
   (HandshakeSettings._sanityCheckProtocolVersions) *)
Definition server_versions (smin smax : Z) : list Z :=
  filter (fun v => (smin <=? v) && (v <=? smax)) [TLS13; TLS12; TLS11; TLS10].

Fixpoint first_matching (vals matches : list Z) : option Z :=
  match vals with
  | [] => None
  | v :: r => if memZ v matches then Some v else first_matching r matches
  end.

(* highest version the client is taken to support ("real_version") *)
Definition ch_real_version (c : chello) : Z :=
  if ch_ver c >=? TLS12 then
    match find_ext X_VERSIONS (ch_exts c) with
    | Some vs => maxZ_list (filter (fun v => memZ v KNOWN_VERSIONS) vs) (ch_ver c)
    | None => ch_ver c
    end
  else ch_ver c.

Inductive sel := SelErr (alert : Z) | SelOk (v : Z).

Definition ALERT_PROTOCOL_VERSION := 70.   Definition ALERT_ILLEGAL_PARAMETER := 47.
Definition ALERT_INAPPROPRIATE_FALLBACK := 86.  Definition ALERT_DECRYPT_ERROR := 51.
Definition ALERT_HANDSHAKE_FAILURE := 40.

Definition sel_version (smin smax : Z) (c : chello) : sel :=
  if ch_real_version c <? smin then SelErr ALERT_PROTOCOL_VERSION
  else match find_ext X_VERSIONS (ch_exts c) with
       | Some vs =>
           match first_matching (server_versions smin smax) vs with
           | Some v => SelOk v
           | None => SelErr ALERT_PROTOCOL_VERSION
           end
       | None =>
           if ch_ver c >? smax then SelOk (Z.min smax TLS12)
           else SelOk (Z.min (ch_ver c) TLS12)
       end.

(* inappropriate fallback (tlsconnection.py 3757-3762) *)
Definition scsv_hit (smax v : Z) (c : chello) : bool :=
  (v <? smax) && memZ FALLBACK_SCSV (ch_suites c).

(* ---- client: the cipher-suite list put on the wire (_clientSendClientHello) ------------- *)
(* cipherSuites = [TLS_EMPTY_RENEGOTIATION_INFO_SCSV] + the real suites; wireCipherSuites = that list, plus
   TLS_FALLBACK_SCSV when settings.sendFallbackSCSV.  BOTH ClientHello constructions -- the one that offers a
   cached session id and the one that does not -- pass wireCipherSuites. *)
Definition RENEGO_SCSV := 255.
Definition client_hello_suites (real : list Z) (send_scsv : bool) : list Z :=
  RENEGO_SCSV :: real ++ (if send_scsv then [FALLBACK_SCSV] else []).
(* session: the session id of an offered cached session, if any; fresh_sid: the id used otherwise *)
Definition client_first_hello (ver rand fresh_sid : Z) (real : list Z) (send_scsv : bool)
           (session : option Z) (exts : list ext) : chello :=
  mkCH ver rand (match session with Some sid => sid | None => fresh_sid end)
       (client_hello_suites real send_scsv) [0] exts [].

(* RFC 8446 4.1.3 value for the last 8 bytes of ServerHello.random (2515-2520) *)
Definition sentinel_for (smax v : Z) (dflt : Z) : Z :=
  if (v <? TLS12) && (smax >=? TLS12) then 1
  else if (v =? TLS12) && (smax >? TLS12) then 2
  else dflt.

Definition set_tail (s : shello) (t : Z) : shello :=
  mkSH (sh_ver s) (sh_rand s) t (sh_hrr s) (sh_sid s) (sh_suite s) (sh_exts s).

(* ---- client: checks on the ServerHello ---------------------------------------- *)
(* tlsconnection.py 544-560 *)
Definition sentinel_hit (cmax v tail : Z) : bool :=
  ((cmax >? TLS12) && (v <=? TLS12) && ((tail =? 1) || (tail =? 2))) ||
  ((cmax =? TLS12) && (v <? TLS12) && (tail =? 1)).

Inductive verdict := VOk | VAbort (alert : Z).

(* _clientGetServerHello checks, then the sentinel checks of _handshakeClientAsyncHelper; suite_ok abstracts
   CipherSuite.filterForVersion.  `real_version > maxVersion and real_version not in settings.versions` *)
Definition client_sh_check (suite_ok : Z -> Z -> bool) (cmin cmax : Z) (c : chello) (s : shello) : verdict :=
  let v := sh_version s in
  if v <? cmin then VAbort ALERT_PROTOCOL_VERSION
  else if (v >? cmax) && negb (memZ v (server_versions cmin cmax)) then VAbort ALERT_PROTOCOL_VERSION
  else if (v >? TLS12) && negb (sh_sid s =? ch_sid c) then VAbort ALERT_ILLEGAL_PARAMETER
  else if negb (memZ (sh_suite s) (ch_suites c) && suite_ok v (sh_suite s)) then VAbort ALERT_ILLEGAL_PARAMETER
  else if sentinel_hit cmax v (sh_tail s) then VAbort ALERT_ILLEGAL_PARAMETER
  else VOk.

Definition is_ok (v : verdict) : bool := match v with VOk => true | _ => false end.

(* ---- server: second ClientHello after HelloRetryRequest (4201-4302) ----------- *)
(* The code edits a copy of ClientHello1 and then compares the serialisations. *)
Fixpoint replace_ext (t : Z) (p : list Z) (l : list ext) : list ext :=
  match l with
  | [] => []
  | (u, q) :: r => if u =? t then (u, p) :: r else (u, q) :: replace_ext t p r
  end.
Fixpoint remove_ext (t : Z) (l : list ext) : list ext :=
  match l with
  | [] => []
  | (u, q) :: r => if u =? t then remove_ext t r else (u, q) :: remove_ext t r
  end.
Fixpoint index_of_ext (t : Z) (l : list ext) (n : nat) : option nat :=
  match l with
  | [] => None
  | (u, _) :: r => if u =? t then Some n else index_of_ext t r (S n)
  end.
Definition insert_at {A} (n : nat) (x : A) (l : list A) : list A := firstn n l ++ x :: skipn n l.
Definition replace_last {A} (x : A) (l : list A) : list A :=
  match l with [] => [] | _ => removelast l ++ [x] end.

(* "PSK extension not last in client hello" (3618-3622): getExtension returns the first one *)
Definition psk_is_last (c : chello) : bool :=
  match index_of_ext X_PSK (ch_exts c) 0 with
  | Some i => Nat.eqb (S i) (length (ch_exts c))
  | None => true
  end.

(* permitted differences: key_share, cookie, padding, pre_shared_key (+ binders), early_data *)
Definition hrr_permitted (t : Z) : bool :=
  (t =? X_KEYSHARE) || (t =? X_COOKIE) || (t =? X_PADDING) || (t =? X_PSK) || (t =? X_EARLY).

(* the edited copy of ClientHello1; None = an alert is sent during the editing *)
Definition hrr_expected (cookie : option (list Z)) (c1 c2 : chello) : option chello :=
  match find_ext X_KEYSHARE (ch_exts c2), find_ext X_KEYSHARE (ch_exts c1) with
  | Some ks2, Some _ =>
    let e1 := replace_ext X_KEYSHARE ks2 (ch_exts c1) in
    let e2 :=
      match cookie with
      | None => Some e1
      | Some ck =>
          match index_of_ext X_COOKIE (ch_exts c2) 0, find_ext X_COOKIE (ch_exts c2) with
          | Some i, Some ck2 => if zl_eqb ck ck2 then Some (insert_at i (X_COOKIE, ck2) e1) else None
          | _, _ => None
          end
      end in
    match e2 with
    | None => None
    | Some e2 =>
      let e3 :=
        match find_ext X_PADDING e2, find_ext X_PADDING (ch_exts c2) with
        | None, None => e2
        | None, Some p2 =>
            match index_of_ext X_PADDING (ch_exts c2) 0 with
            | Some i => insert_at i (X_PADDING, p2) e2 | None => e2 end
        | Some _, None => remove_ext X_PADDING e2
        | Some _, Some p2 => replace_ext X_PADDING p2 e2
        end in
      let psk_new := find_ext X_PSK (ch_exts c2) in
      let psk_old := find_ext X_PSK e3 in
      let psk_last_ok :=
        match psk_new, psk_old with
        | Some p2, Some _ =>
            match last (ch_exts c2) (0, []) with (t, _) => t =? X_PSK end
        | _, _ => true
        end in
      if negb psk_last_ok then None else
      let e4 := match psk_new, psk_old with
                | Some p2, Some _ => replace_last (X_PSK, p2) e3
                | _, _ => e3
                end in
      let b4 := match psk_new, psk_old with
                | Some _, Some _ => ch_binders c2
                | _, _ => ch_binders c1
                end in
      let e5 := match find_ext X_EARLY e4 with Some _ => remove_ext X_EARLY e4 | None => e4 end in
      Some (mkCH (ch_ver c1) (ch_rand c1) (ch_sid c1) (ch_suites c1) (ch_comp c1) e5 b4)
    end
  | _, _ => None
  end.

Definition hrr_second_ok (cookie : option (list Z)) (group : Z) (c1 c2 : chello) : bool :=
  match find_ext X_KEYSHARE (ch_exts c2) with
  | Some (g :: _ :: nil) =>           (* exactly one share: [group; share id] *)
      (g =? group) &&
      match hrr_expected cookie c1 c2 with
      | Some c => ch_eqb c c2
      | None => false
      end
  | _ => false
  end.

(* the part of a ClientHello that HelloRetryRequest may not change *)
Definition ch_fixed_part (c : chello) :=
  (ch_ver c, ch_rand c, ch_sid c, ch_suites c, ch_comp c,
   filter (fun e => negb (hrr_permitted (fst e))) (ch_exts c)).

(* ClientHello with the binders cut off (ClientHello.psk_truncate) *)
Definition ch_truncate (c : chello) : chello :=
  mkCH (ch_ver c) (ch_rand c) (ch_sid c) (ch_suites c) (ch_comp c) (ch_exts c) [].
Definition set_binders (c : chello) (b : list (list Z)) : chello :=
  mkCH (ch_ver c) (ch_rand c) (ch_sid c) (ch_suites c) (ch_comp c) (ch_exts c) b.

(* ---- flight shapes ------------------------------------------------------------- *)
Definition get_ch (l : list msg) : option chello :=
  match l with [MCH c] => Some c | _ => None end.
Definition get_sh_flight (l : list msg) : option (shello * list msg) :=
  match l with MSH s :: r => Some (s, r) | _ => None end.
(* body ++ [Finished v] *)
Fixpoint get_fin_flight (l : list msg) : option (list msg * list Z) :=
  match l with
  | [] => None
  | [MFin v] => Some ([], v)
  | m :: r => match get_fin_flight r with Some (b, v) => Some (m :: b, v) | None => None end
  end.

Definition L_CLIENT := 1.  Definition L_SERVER := 2.  Definition L_BINDER := 3.

(* what an endpoint holds when it has completed *)
Record endst := mkEnd {
  e_tr : transcript;       (* everything fed to _handshake_hash, in order *)
  e_key : Z;               (* master secret (<= 1.2) / handshake secret (1.3), as a symbolic key *)
  e_ch : chello;           (* the ClientHello it sent / accepted *)
  e_sh : shello            (* the ServerHello it accepted / sent *)
}.

Record outcome := mkOut {
  o_c : option endst;      (* Some = the client completed the handshake *)
  o_s : option endst;
  o_emit : list (list Z);  (* Finished / binder values computed by the honest endpoints *)
  o_keys : list Z;         (* the honest endpoints' keys *)
  o_dlv : list msg;        (* every message the attacker delivered to an endpoint *)
  o_stage : Z * Z          (* diagnostic: (who stopped first: 0 nobody, 1 client, 2 server; alert) *)
}.

Definition stop (who alert : Z) : outcome := mkOut None None [] [] [] (who, alert).

Notation "'let?' p ':=' e 'else' d 'in' k" :=
  (match e with Some p => k | None => d end)
  (at level 200, p pattern, e at level 100, d at level 100, k at level 200).

Section Flows.
  (* ---- idealised primitives ---------------------------------------------------- *)
  Variable hash : Z -> transcript -> list Z.         (* transcript hash under PRF algorithm a *)
  Variable fin : Z -> Z -> list Z -> list Z.         (* key, label, transcript digest -> verify_data / binder *)
  Variable prf_of : Z -> Z -> Z.                     (* (version, suite) -> hash algorithm of PRF / HKDF *)
  Variable suite_ok : Z -> Z -> bool.                (* suite defined for version *)

  (* ---- configuration ------------------------------------------------------------ *)
  Variables cmin cmax smin smax : Z.

  (* ---- content oracles (arbitrary) ---------------------------------------------- *)
  Variable c_hello : chello.                                   (* first ClientHello *)
  Variable s_ch_ok : chello -> bool.                           (* the other ClientHello sanity checks *)
  Variable s_reply12 : Z -> chello -> option (shello * list msg).   (* version, hello -> ServerHello, Certificate..ServerHelloDone *)
  Variable c_extra_ok : chello -> shello -> bool.              (* the other ServerHello checks (ALPN, extensions ...) *)
  Variable c_flight12 : transcript -> list msg.                (* Certificate?, ClientKeyExchange, CertificateVerify? *)
  Variable s_flight_ok : transcript -> list msg -> bool.       (* key exchange / certificate checks on a received flight *)
  Variable c_flight_ok : transcript -> list msg -> bool.
  Variable s_nst : transcript -> list msg.                     (* NewSessionTicket before the server's CCS, or nothing *)
  Variable c_key s_key : transcript -> Z.                      (* master / handshake secret as a function of own transcript *)
  (* resumption *)
  Variable s_resume : Z -> chello -> option (shello * Z).      (* ServerHello of an abbreviated handshake, session key *)
  Variable c_sess_key : Z.
  (* TLS 1.3 *)
  Variable s_hrr : chello -> option (shello * option (list Z) * Z).  (* HelloRetryRequest, cookie, selected group *)
  Variable c_hello2 : chello -> shello -> option chello.       (* None = the client rejects the HRR *)
  Variable s_reply13 : transcript -> chello -> option (shello * list msg * option (nat * Z)).
                                                               (* ServerHello, EE..CertificateVerify, selected PSK (index, binder key) *)
  Variable c_psk_keys : list Z.                                (* binder keys of the PSKs the client offers, in order *)
  Variable c_flight13 : transcript -> list msg.                (* client Certificate / CertificateVerify, or nothing *)
  Variable psk_alg : Z -> Z.                                   (* hash algorithm attached to a PSK *)

  Definition alg_of (s : shello) : Z := prf_of (sh_version s) (sh_suite s).

  Definition server_front (c : chello) : sel :=
    match sel_version smin smax c with
    | SelErr a => SelErr a
    | SelOk v => if scsv_hit smax v c then SelErr ALERT_INAPPROPRIATE_FALLBACK
                 else if s_ch_ok c then SelOk v else SelErr ALERT_HANDSHAKE_FAILURE
    end.

  Definition client_accepts (c : chello) (s : shello) : verdict :=
    match client_sh_check suite_ok cmin cmax c s with
    | VOk => if c_extra_ok c s then VOk else VAbort ALERT_HANDSHAKE_FAILURE
    | VAbort a => VAbort a
    end.

  (* ============ TLS <= 1.2, full handshake ====================================== *)
  Definition run12 (a1 a2 a3 a4 : list msg -> list msg) : outcome :=
    let ch := c_hello in
    let d1 := a1 [MCH ch] in
    let? ch' := get_ch d1 else stop 2 10 in
    match server_front ch' with
    | SelErr a => stop 2 a
    | SelOk v =>
    if v >=? TLS13 then stop 2 0 else                                      (* TLS 1.3 is run13 *)
    let? (sh0, rest) := s_reply12 v ch' else stop 2 ALERT_HANDSHAKE_FAILURE in
    let sh := set_tail sh0 (sentinel_for smax v (sh_tail sh0)) in          (* 2515-2520 *)
    let Ts1 := MCH ch' :: MSH sh :: rest in
    let d2 := a2 (MSH sh :: rest) in
    let? (sh', rest') := get_sh_flight d2 else stop 1 10 in
    match client_accepts ch sh' with
    | VAbort a => stop 1 a
    | VOk =>
    if sh_version sh' >=? TLS13 then stop 1 0 else                         (* line 565: TLS 1.3 path *)
    let Tc1 := MCH ch :: MSH sh' :: rest' in
    if negb (c_flight_ok Tc1 rest') then stop 1 ALERT_HANDSHAKE_FAILURE else
    let fl := c_flight12 Tc1 in
    let Tc2 := Tc1 ++ fl in
    let kc := c_key Tc2 in
    let vc := fin kc L_CLIENT (hash (alg_of sh') Tc2) in
    let Tc3 := Tc2 ++ [MFin vc] in
    let d3 := a3 (fl ++ [MFin vc]) in
    let? (body3, v3) := get_fin_flight d3 else stop 2 10 in
    let Ts2 := Ts1 ++ body3 in
    if negb (s_flight_ok Ts1 body3) then stop 2 ALERT_HANDSHAKE_FAILURE else
    let ks := s_key Ts2 in
    if negb (zl_eqb v3 (fin ks L_CLIENT (hash (alg_of sh) Ts2))) then stop 2 ALERT_DECRYPT_ERROR else
    let Ts3 := Ts2 ++ [MFin v3] in
    let nst := s_nst Ts3 in
    let Ts4 := Ts3 ++ nst in
    let vs := fin ks L_SERVER (hash (alg_of sh) Ts4) in
    let Ts5 := Ts4 ++ [MFin vs] in
    let sdone := Some (mkEnd Ts5 ks ch' sh) in
    let d4 := a4 (nst ++ [MFin vs]) in
    let dl := d1 ++ d2 ++ d3 ++ d4 in
    let? (body4, v4) := get_fin_flight d4 else mkOut None sdone [vc; vs] [kc; ks] dl (1, 10) in
    let Tc4 := Tc3 ++ body4 in
    if negb (zl_eqb v4 (fin kc L_SERVER (hash (alg_of sh') Tc4)))
    then mkOut None sdone [vc; vs] [kc; ks] dl (1, ALERT_DECRYPT_ERROR) else
    let Tc5 := Tc4 ++ [MFin v4] in
    mkOut (Some (mkEnd Tc5 kc ch sh')) sdone [vc; vs] [kc; ks] dl (0, 0)
    end end.

  (* ============ TLS <= 1.2, abbreviated handshake (session id / ticket) ========= *)
  (* the resumed ServerHello is built in _serverGetClientHello; since /repo 9a5e0f9 the sentinel is written
     there too (before that fix it was not: the statement sentinel_written was refuted for this flow) *)
  Definition run12r (a1 a2 a3 : list msg -> list msg) : outcome :=
    let ch := c_hello in
    let d1 := a1 [MCH ch] in
    let? ch' := get_ch d1 else stop 2 10 in
    match server_front ch' with
    | SelErr a => stop 2 a
    | SelOk v =>
    if v >=? TLS13 then stop 2 0 else
    let? (sh0, ks) := s_resume v ch' else stop 2 ALERT_HANDSHAKE_FAILURE in
    let sh := set_tail sh0 (sentinel_for smax v (sh_tail sh0)) in
    let Ts1 := [MCH ch'; MSH sh] in
    let vs := fin ks L_SERVER (hash (alg_of sh) Ts1) in
    let Ts2 := Ts1 ++ [MFin vs] in
    let d2 := a2 [MSH sh; MFin vs] in
    let? (sh', rest') := get_sh_flight d2 else stop 1 10 in
    match client_accepts ch sh' with
    | VAbort a => stop 1 a
    | VOk =>
    if sh_version sh' >=? TLS13 then stop 1 0 else
    let? (body2, v2) := get_fin_flight rest' else stop 1 10 in
    let kc := c_sess_key in
    let Tc1 := MCH ch :: MSH sh' :: body2 in
    if negb (zl_eqb v2 (fin kc L_SERVER (hash (alg_of sh') Tc1))) then stop 1 ALERT_DECRYPT_ERROR else
    let Tc2 := Tc1 ++ [MFin v2] in
    let vc := fin kc L_CLIENT (hash (alg_of sh') Tc2) in
    let Tc3 := Tc2 ++ [MFin vc] in
    let cdone := Some (mkEnd Tc3 kc ch sh') in
    let d3 := a3 [MFin vc] in
    let dl := d1 ++ d2 ++ d3 in
    let? (body3, v3) := get_fin_flight d3 else mkOut cdone None [vs; vc] [ks; kc] dl (2, 10) in
    let Ts3 := Ts2 ++ body3 in
    if negb (zl_eqb v3 (fin ks L_CLIENT (hash (alg_of sh) Ts3)))
    then mkOut cdone None [vs; vc] [ks; kc] dl (2, ALERT_DECRYPT_ERROR) else
    mkOut cdone (Some (mkEnd (Ts3 ++ [MFin v3]) ks ch' sh)) [vs; vc] [ks; kc] dl (0, 0)
    end end.

  (* the ServerHello that reaches the client in run12 / run12r (None: the run stops before the client sees one) *)
  Definition client_sees12 (a1 a2 : list msg -> list msg) : option shello :=
    let? ch' := get_ch (a1 [MCH c_hello]) else None in
    match server_front ch' with
    | SelErr _ => None
    | SelOk v =>
    if v >=? TLS13 then None else
    let? (sh0, rest) := s_reply12 v ch' else None in
    let sh := set_tail sh0 (sentinel_for smax v (sh_tail sh0)) in
    let? (sh', rest') := get_sh_flight (a2 (MSH sh :: rest)) else None in
    Some sh'
    end.

  Definition client_sees12r (a1 a2 : list msg -> list msg) : option shello :=
    let? ch' := get_ch (a1 [MCH c_hello]) else None in
    match server_front ch' with
    | SelErr _ => None
    | SelOk v =>
    if v >=? TLS13 then None else
    let? (sh0, ks) := s_resume v ch' else None in
    let sh := set_tail sh0 (sentinel_for smax v (sh_tail sh0)) in
    let vs := fin ks L_SERVER (hash (alg_of sh) [MCH ch'; MSH sh]) in
    let? (sh', rest') := get_sh_flight (a2 [MSH sh; MFin vs]) else None in
    Some sh'
    end.

  (* ============ TLS 1.3: full, HelloRetryRequest, PSK ============================ *)
  (* binders of a ClientHello over (transcript so far ++ truncated hello): update_binders *)
  Definition binders_for (alg : Z -> Z) (pre : transcript) (c : chello) : list (list Z) :=
    map (fun k => fin k L_BINDER (hash (alg k) (pre ++ [MCH (ch_truncate c)]))) c_psk_keys.

  Definition binder_ok (pre : transcript) (c : chello) (sel : option (nat * Z)) : bool :=
    match sel with
    | None => true
    | Some (i, k) =>
        match nth_error (ch_binders c) i with
        | Some b => zl_eqb b (fin k L_BINDER (hash (psk_alg k) (pre ++ [MCH (ch_truncate c)])))
        | None => false
        end
    end.

  (* second half, common to all TLS 1.3 flows.  Tc/Ts: transcripts up to and including the
     last ClientHello; chc/chs: the hello each side holds; pre_s: the server's transcript
     before that hello (for the binder) *)
  Definition run13_main (a4 a5 : list msg -> list msg) (hrr_suite : option Z)
             (Tc Ts pre_s : transcript) (chc chs : chello)
             (emit0 : list (list Z)) (dl0 : list msg) : outcome :=
    let? (sh, fl, psk) := s_reply13 Ts chs else stop 2 ALERT_HANDSHAKE_FAILURE in
    if negb (binder_ok pre_s chs psk) then stop 2 ALERT_ILLEGAL_PARAMETER else
    let Tsh := Ts ++ [MSH sh] in
    let ks := s_key Tsh in
    let Ts1 := Tsh ++ fl in
    let vs := fin ks L_SERVER (hash (alg_of sh) Ts1) in
    let Ts2 := Ts1 ++ [MFin vs] in
    let d4 := a4 (MSH sh :: fl ++ [MFin vs]) in
    let? (sh', rest') := get_sh_flight d4 else stop 1 10 in
    if sh_hrr sh' then stop 1 10 else
    if match hrr_suite with Some s => negb (s =? sh_suite sh') | None => false end
    then stop 1 ALERT_ILLEGAL_PARAMETER else
    match client_accepts chc sh' with
    | VAbort a => stop 1 a
    | VOk =>
    if negb (sh_version sh' =? TLS13) then stop 1 0 else
    let? (body4, v4) := get_fin_flight rest' else stop 1 10 in
    let Tch := Tc ++ [MSH sh'] in
    let kc := c_key Tch in
    let Tc1 := Tch ++ body4 in
    if negb (c_flight_ok Tch body4) then stop 1 ALERT_HANDSHAKE_FAILURE else
    if negb (zl_eqb v4 (fin kc L_SERVER (hash (alg_of sh') Tc1))) then stop 1 ALERT_DECRYPT_ERROR else
    let Tc2 := Tc1 ++ [MFin v4] in
    let cfl := c_flight13 Tc2 in
    let Tc3 := Tc2 ++ cfl in
    let vc := fin kc L_CLIENT (hash (alg_of sh') Tc3) in
    let Tc4 := Tc3 ++ [MFin vc] in
    let cdone := Some (mkEnd Tc4 kc chc sh') in
    let d5 := a5 (cfl ++ [MFin vc]) in
    let dl := dl0 ++ d4 ++ d5 in
    let em := emit0 ++ [vs; vc] in
    let? (body5, v5) := get_fin_flight d5 else mkOut cdone None em [ks; kc] dl (2, 10) in
    let Ts3 := Ts2 ++ body5 in
    if negb (s_flight_ok Ts2 body5) then mkOut cdone None em [ks; kc] dl (2, ALERT_HANDSHAKE_FAILURE) else
    if negb (zl_eqb v5 (fin ks L_CLIENT (hash (alg_of sh) Ts3)))
    then mkOut cdone None em [ks; kc] dl (2, ALERT_DECRYPT_ERROR) else
    mkOut cdone (Some (mkEnd (Ts3 ++ [MFin v5]) ks chs sh)) em [ks; kc] dl (0, 0)
    end.

  Definition run13 (a1 a2 a3 a4 a5 : list msg -> list msg) : outcome :=
    let ch0 := c_hello in
    let ch1 := set_binders ch0 (binders_for psk_alg [] ch0) in
    let d1 := a1 [MCH ch1] in
    let? ch1' := get_ch d1 else stop 2 10 in
    match server_front ch1' with
    | SelErr a => stop 2 a
    | SelOk v =>
    if negb (v =? TLS13) then stop 2 0 else
    if negb (psk_is_last ch1') then stop 2 ALERT_ILLEGAL_PARAMETER else   (* 3618-3622 *)
    match s_hrr ch1' with
    | None =>
        run13_main a4 a5 None [MCH ch1] [MCH ch1'] [] ch1 ch1' (ch_binders ch1) d1
    | Some (hrr, cookie, group) =>
        (* server: synthetic message_hash replaces ClientHello1 (4160-4168), HRR appended by _sendMsgs *)
        let Ts := [MHash (hash (prf_of TLS13 (sh_suite hrr)) [MCH ch1']); MSH hrr] in
        let d2 := a2 [MSH hrr] in
        let? hrr' := match d2 with [MSH h] => Some h | _ => None end else stop 1 10 in
        if negb (sh_hrr hrr') then stop 1 10 else
        (* client: same replacement with the digest of what it SENT (993-1001) *)
        let Tc := [MHash (hash (prf_of TLS13 (sh_suite hrr')) [MCH ch1]); MSH hrr'] in
        let? ch2_0 := c_hello2 ch1 hrr' else stop 1 ALERT_ILLEGAL_PARAMETER in
        let ch2 := set_binders ch2_0 (binders_for psk_alg Tc ch2_0) in
        let d3 := a3 [MCH ch2] in
        let? ch2' := get_ch d3 else stop 2 10 in
        if negb (hrr_second_ok cookie group ch1' ch2') then stop 2 ALERT_ILLEGAL_PARAMETER else
        run13_main a4 a5 (Some (sh_suite hrr')) (Tc ++ [MCH ch2]) (Ts ++ [MCH ch2']) Ts ch2 ch2'
                   (ch_binders ch1 ++ ch_binders ch2) (d1 ++ d2 ++ d3)
    end end.

  (* ---- what "completed" and "agree" mean ---------------------------------------- *)
  Definition both_complete (o : outcome) : Prop :=
    exists c s, o_c o = Some c /\ o_s o = Some s.

  (* H-ideal-PRF, unforgeability half: a Finished/binder value under an honest key that
     the attacker delivers was computed by an honest endpoint in this run *)
  Definition unforgeable (o : outcome) : Prop :=
    forall v k l d, In (MFin v) (o_dlv o) -> In k (o_keys o) -> v = fin k l d -> In v (o_emit o).

  (* the negotiated view of an endpoint, read from the two hellos it holds and its key *)
  Record view := mkView {
    v_version : Z; v_suite : Z; v_key : Z; v_ems : bool; v_etm : bool;
    v_alpn : option (list Z); v_sni : option (list Z);
    v_limit_c : option (list Z); v_limit_s : option (list Z);
    v_crandom : Z; v_srandom : Z * Z; v_sid : Z
  }.
  (* extensions the server answers in EncryptedExtensions (TLS 1.3) are read from the transcript *)
  Definition view_of (e : endst) : view :=
    let c := e_ch e in let s := e_sh e in
    mkView (sh_version s) (sh_suite s) (e_key e)
           (has_ext X_EMS (sh_exts s)) (has_ext X_ETM (sh_exts s))
           (find_ext X_ALPN (sh_exts s)) (find_ext X_SNI (ch_exts c))
           (find_ext X_RSL (ch_exts c)) (find_ext X_RSL (sh_exts s))
           (ch_rand c) (sh_rand s, sh_tail s) (sh_sid s).
End Flows.

