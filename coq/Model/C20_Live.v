(* C20: comparison of one live handshake's observations (harness/c20_live.py) with the
   meaning parsed from the IANA name of the suite.  Definitions only; evaluated by
   vm_compute on the observations of every run. *)
From Coq Require Import ZArith List Bool String.
From TV Require Import Spec.Iana.
Import ListNotations.
Open Scope string_scope.
Open Scope Z_scope.

Record side := {
  sd_suite : Z; sd_ver : Z;
  sd_conn_cipher : option string;      (* connection.getCipherName() = name of the installed cipher object *)
  sd_sess_cipher : option string;      (* session.getCipherName() *)
  sd_sess_mac : option string;         (* session.getMacName() *)
  sd_aead : bool; sd_tag : Z;          (* installed cipher object *)
  sd_mac_ds : Z;                       (* digest size of the installed MAC object, 0 = none *)
  sd_nonce : Z;                        (* bytes of fixed nonce installed, 0 = none *)
  sd_etm : bool;
  sd_srv_cert : option string          (* key type of session.serverCertChain *)
}.

(* TLS 1.3 only: what happened after the handshake *)
Record post := {
  p_agree : bool;            (* both ends hold the same traffic secrets before and after each KeyUpdate, data flows
                                both ways after each, and the first record under the twice-updated client keys
                                opens with keys derived by the harness (hashlib/hmac) under the hash of the NAME *)
  p_steps : list string;     (* hash that maps each traffic secret to the next (client x2, server x2), identified
                                by recomputing HKDF-Expand-Label "traffic upd" with hashlib/hmac *)
  p_lens : list Z;           (* byte lengths of all six traffic secrets *)
  p_pha : bool;              (* post-handshake client authentication completed *)
  p_resume : bool            (* a second handshake resumed by PSK (ticket) onto the same suite and data flowed *)
}.

Record obs := {
  o_sid : Z; o_ver : Z;                (* what the harness asked for *)
  o_sh_suite : Z; o_sh_ver : Z;        (* ServerHello on the wire *)
  o_wire_cert : option string;         (* key type of the Certificate message on the wire (TLS <= 1.2) *)
  o_wire_kx : string;                  (* shape of ServerKeyExchange / ClientKeyExchange on the wire *)
  o_ske_signed : bool; o_sigalg : string;
  o_cli : side; o_srv : side;
  o_fact : list (string * Z * Z);      (* distinct (cipherfactory function, key bytes, IV bytes or -1) calls *)
  o_prfs : list string;                (* distinct PRF functions calc_key applied *)
  o_hkdf : list string;                (* distinct hash names given to the TLS 1.3 key schedule *)
  o_n : Z; o_c2s : list Z; o_s2c : list Z;  (* application data: payload bytes, record body lengths *)
  o_exp_same : bool; o_exp_kind : string;   (* keyingMaterialExporter: both ends equal; PRF/hash that produced it *)
  o_post : option post;
  o_resumed : bool                          (* TLS <= 1.2 abbreviated handshake; o_sid is then the suite of the RESUMED session *)
}.

Definition with_meaning (o : obs) (f : meaning -> bool) : bool :=
  match meaning_of (o_sid o) with Some m => f m | None => false end.

Definition chk_ids (o : obs) : bool :=
  (o_sh_suite o =? o_sid o) && (o_sh_ver o =? o_ver o)
  && (sd_suite (o_cli o) =? o_sid o) && (sd_suite (o_srv o) =? o_sid o)
  && (sd_ver (o_cli o) =? o_ver o) && (sd_ver (o_srv o) =? o_ver o).

Definition chk_live_version (o : obs) : bool := with_meaning o (fun m => defined_in m (o_sh_ver o)).

Definition expected_wire_kx (m : meaning) : string :=
  match m_kx m with
  | KxRSA => "rsa" | KxDHE => "dhe" | KxECDHE => "ecdhe" | KxSRP => "srp" | KxTLS13 => "tls13"
  | KxDH => "static-dh" | KxECDH => "static-ecdh"
  end.
Definition expected_cert (m : meaning) : option string :=
  match m_auth m with
  | AuRSA => Some "rsa" | AuDSS => Some "dsa" | AuECDSA => Some "ecdsa" | _ => None
  end.
Definition expected_signed (m : meaning) : bool :=
  match m_kx m, m_auth m with
  | KxRSA, _ => false | KxTLS13, _ => false
  | _, AuAnon => false | _, AuSRP => false
  | _, _ => true
  end.

Definition chk_kx (o : obs) : bool := with_meaning o (fun m =>
  let v := o_ver o in
  if o_resumed o then String.eqb (o_wire_kx o) "resumed" else
  String.eqb (o_wire_kx o) (expected_wire_kx m)
  && (if v =? 4 then true else
        Bool.eqb (o_ske_signed o) (expected_signed m)
        && ostring_eqb (o_wire_cert o) (expected_cert m)
        && ostring_eqb (sd_srv_cert (o_cli o)) (expected_cert m)
        && (String.eqb (o_sigalg o) "" || ostring_eqb (Some (o_sigalg o)) (expected_cert m)))).

Definition side_cipher_ok (m : meaning) (v : Z) (s : side) : bool :=
  Bool.eqb (sd_aead s) (match m_kind m with Aead => true | _ => false end)
  && (sd_tag s =? m_tag m)
  && ostring_eqb (sd_conn_cipher s) (enc_object_name m)
  && match m_kind m with
     | Aead => m_draft m || (sd_nonce s =? fixed_iv_at m v)
     | _ => sd_nonce s =? 0
     end.

Definition fact_eqb (a b : string * Z * Z) : bool :=
  let '(n1, k1, i1) := a in let '(n2, k2, i2) := b in String.eqb n1 n2 && (k1 =? k2) && (i1 =? i2).

Definition chk_cipher (o : obs) : bool := with_meaning o (fun m =>
  let v := o_ver o in
  side_cipher_ok m v (o_cli o) && side_cipher_ok m v (o_srv o)
  && match m_cipher m, o_fact o with
     | CNull, [] => true
     | CNull, _ => false
     | _, [f] => fact_eqb f (factory_name m, m_keylen m, match m_kind m with Aead => -1 | _ => m_fixed_iv m end)
     | _, _ => false
     end).

Definition chk_mac (o : obs) : bool := with_meaning o (fun m =>
  (sd_mac_ds (o_cli o) =? m_maclen m) && (sd_mac_ds (o_srv o) =? m_maclen m)).

Definition prf_function (p : string) : string :=
  if String.eqb p "ssl3" then "PRF_SSL" else if String.eqb p "md5sha1" then "PRF"
  else if String.eqb p "sha256" then "PRF_1_2" else "PRF_1_2_SHA384".
Definition slist_eqb (a b : list string) : bool :=
  Nat.eqb (List.length a) (List.length b) && forallb (fun p => String.eqb (fst p) (snd p)) (combine a b).

Definition chk_prf (o : obs) : bool := with_meaning o (fun m =>
  let v := o_ver o in
  if v =? 4 then slist_eqb (o_prfs o) [] && slist_eqb (o_hkdf o) [prf_at m 4]
  else slist_eqb (o_prfs o) [prf_function (prf_at m v)] && slist_eqb (o_hkdf o) []).

Definition chk_names_cipher (o : obs) : bool := with_meaning o (fun m =>
  ostring_eqb (sd_sess_cipher (o_cli o)) (Some (lib_cipher_name m))
  && ostring_eqb (sd_sess_cipher (o_srv o)) (Some (lib_cipher_name m))).

Definition chk_names_mac (o : obs) : bool := with_meaning o (fun m =>
  mac_name_agrees m (sd_sess_mac (o_cli o)) && mac_name_agrees m (sd_sess_mac (o_srv o))).

Definition chk_sizes (o : obs) : bool := with_meaning o (fun m =>
  record_sizes_ok m (o_ver o) (sd_etm (o_cli o)) (o_n o) (o_c2s o)
  && record_sizes_ok m (o_ver o) (sd_etm (o_srv o)) (o_n o) (o_s2c o)
  && negb (Nat.eqb (List.length (o_c2s o)) 0) && negb (Nat.eqb (List.length (o_s2c o)) 0)).

Definition chk_exporter (o : obs) : bool := with_meaning o (fun m =>
  if o_ver o =? 0 then true else o_exp_same o && String.eqb (o_exp_kind o) (prf_at m (o_ver o))).

Definition chk_post (o : obs) : bool := with_meaning o (fun m =>
  if o_ver o =? 4 then
    match o_post o with
    | Some p =>
        p_agree p && p_pha p && p_resume p
        && Nat.eqb (List.length (p_steps p)) 4 && forallb (fun h => String.eqb h (prf_at m 4)) (p_steps p)
        && Nat.eqb (List.length (p_lens p)) 6 && forallb (fun l => l =? prf_hash_len m) (p_lens p)
    | None => false
    end
  else true).

(* TLS 1.3 handshake with externally provisioned PSKs *)
Record pskobs := {
  k_suite : Z;                    (* suite in the ServerHello *)
  k_configured : list string;     (* hash each configured PSK is bound to, in identity order *)
  k_selected : option Z;          (* selected_identity of the ServerHello, if any *)
  k_srv : list string;            (* distinct hash names the SERVER handed to HKDF/HMAC helpers (binder check included) *)
  k_cli : list string             (* distinct hash names the CLIENT handed to them, its per-PSK binder computations apart *)
}.
Definition chk_pskobs (k : pskobs) : bool :=
  match meaning_of (k_suite k) with
  | Some m =>
      let h := prf_at m 4 in
      match k_selected k with
      | Some i => (0 <=? i) && match nth_error (k_configured k) (Z.to_nat i) with
                               | Some ph => String.eqb ph h
                               | None => false
                               end
      | None => true
      end
      && slist_eqb (k_srv k) [h] && slist_eqb (k_cli k) [h]
  | None => false
  end.

(* the Python twin of the registry and of parse_name (harness/c20_iana.py) says the same *)
Definition twin_ok (c : Z * option string * option (list Z)) : bool :=
  let '(s, name, codes) := c in
  ostring_eqb (iana_name s) name
  && match meaning_of s, codes with
     | None, None => true
     | Some m, Some l =>
         let mine := [kx_code (m_kx m); auth_code (m_auth m); cipher_code (m_cipher m); m_keylen m;
                      ckind_code (m_kind m); m_block m; m_tag m; m_fixed_iv m; mac_code (m_mac m); m_maclen m;
                      prf_code (m_prf m); m_minv m; m_maxv m; if m_draft m then 1 else 0] in
         Nat.eqb (List.length mine) (List.length l) && forallb (fun p => fst p =? snd p) (combine mine l)
     | _, _ => false
     end.
