(* C15 -- model of tlslite/utils/codec.py (Writer: python-3 branch; Parser).
   Definitions only.  Hand-written; tied to the code on every run by the
   per-primitive correspondence of harness/props/C15.py (boundary values of every
   width, overflow, negative values, truncated buffers).

   Writer  = the bytearray `self.bytes`            (list Z, all elements 0..255)
   Parser  = record (bytes, index, indexCheck, lengthCheck), passed by value.
   A Python exception is `Err e`; the state after an exception is unobservable
   (every caller lets the exception propagate), so it is not modelled. *)
From Coq Require Import ZArith List Bool.
From TV Require Import Base.Prelude.
Import ListNotations.
Open Scope Z_scope.

(* ---- big-endian integers --------------------------------------------------- *)
(* the low [n] bytes of x, most significant first  (int.to_bytes(n,'big')) *)
Fixpoint be_bytes (n : nat) (x : Z) : list Z :=
  match n with
  | O => []
  | S k => be_bytes k (x / 256) ++ [x mod 256]
  end.

(* bytes_to_int(b,'big') *)
Definition be_val (l : list Z) : Z := fold_left (fun a b => a * 256 + b) l 0.

Definition fits (x n : Z) : bool := (0 <=? n) && (0 <=? x) && (x <? 256 ^ n).

(* ---- Writer ------------------------------------------------------------------ *)
Definition Writer := list Z.

(* codec.py:80 add (py3): x.to_bytes(length,'big'); OverflowError -> ValueError
   (negative x, x >= 256^length); negative length is a ValueError of to_bytes. *)
Definition w_add (w : Writer) (x n : Z) : res Writer :=
  if fits x n then Ok (w ++ be_bytes (Z.to_nat n) x) else Err ValueError.

(* codec.py:31 addOne: bytearray.append -> ValueError outside range(256)
   codec.py:56/63/70 addTwo/Three/Four: struct.error -> ValueError *)
Definition w_addOne (w : Writer) (x : Z) : res Writer := w_add w x 1.
Definition w_addTwo (w : Writer) (x : Z) : res Writer := w_add w x 2.
Definition w_addThree (w : Writer) (x : Z) : res Writer := w_add w x 3.
Definition w_addFour (w : Writer) (x : Z) : res Writer := w_add w x 4.

(* codec.py:125 addFixSeq *)
Definition w_addFixSeq (w : Writer) (s : list Z) (n : Z) : res Writer :=
  foldM (fun w e => w_add w e n) s w.

(* codec.py:177 addVarSeq: the three branches (extend / pack / add) all raise
   ValueError for an element outside 0..256^length-1 and otherwise append its
   big-endian encoding. *)
Definition w_addVarSeq (w : Writer) (s : list Z) (n ll : Z) : res Writer :=
  w1 <- w_add w (zlen s * n) ll ;;
  w_addFixSeq w1 s n.

(* codec.py:208 addVarTupleSeq *)
Definition w_addVarTupleSeq (w : Writer) (s : list (list Z)) (n ll : Z) : res Writer :=
  match s with
  | [] => w_add w 0 ll
  | t0 :: _ =>
    let startPos := zlen w in
    let dataLength := zlen s * zlen t0 * n in
    w1 <- w_add w dataLength ll ;;
    w2 <- foldM (fun w t => w_addFixSeq w t n) s w1 ;;
    if startPos + dataLength + ll =? zlen w2 then Ok w2 else Err ValueError
  end.

(* codec.py:243 add_var_bytes *)
Definition w_add_var_bytes (w : Writer) (data : list Z) (ll : Z) : res Writer :=
  w1 <- w_add w (zlen data) ll ;;
  Ok (w1 ++ data).

(* ---- Parser ------------------------------------------------------------------ *)
Record Parser := mkParser { pbytes : list Z; pindex : Z; pindexCheck : Z; plengthCheck : Z }.

Definition p_init (bs : list Z) : Parser := mkParser bs 0 0 0.
Definition p_set_index (p : Parser) (i : Z) : Parser :=
  mkParser (pbytes p) i (pindexCheck p) (plengthCheck p).

(* codec.py:312 getFixBytes *)
Definition p_getFixBytes (p : Parser) (n : Z) : res (list Z * Parser) :=
  let e := pindex p + n in
  if e >? zlen (pbytes p) then Err DecodeError
  else Ok (py_slice (pbytes p) (Some (pindex p)) (Some e), p_set_index p (pindex p + n)).

(* codec.py:300 get *)
Definition p_get (p : Parser) (n : Z) : res (Z * Parser) :=
  '(b, p1) <- p_getFixBytes p n ;;
  Ok (be_val b, p1).

(* codec.py:328 skip_bytes *)
Definition p_skip_bytes (p : Parser) (n : Z) : res Parser :=
  if pindex p + n >? zlen (pbytes p) then Err DecodeError
  else Ok (p_set_index p (pindex p + n)).

(* codec.py:334 getVarBytes *)
Definition p_getVarBytes (p : Parser) (ll : Z) : res (list Z * Parser) :=
  '(n, p1) <- p_get p ll ;;
  p_getFixBytes p1 n.

(* `for x in range(cnt): l[x] = self.get(length)` *)
Fixpoint p_get_many (cnt : nat) (p : Parser) (n : Z) : res (list Z * Parser) :=
  match cnt with
  | O => Ok ([], p)
  | S k => '(x, p1) <- p_get p n ;; '(xs, p2) <- p_get_many k p1 n ;; Ok (x :: xs, p2)
  end.

(* codec.py:349 getFixList *)
Definition p_getFixList (p : Parser) (n cnt : Z) : res (list Z * Parser) :=
  p_get_many (Z.to_nat cnt) p n.

(* codec.py:366 getVarList *)
Definition p_getVarList (p : Parser) (n ll : Z) : res (list Z * Parser) :=
  '(len, p1) <- p_get p ll ;;
  m <- py_mod len n ;;
  if negb (m =? 0) then Err DecodeError
  else
    cnt <- py_div len n ;;
    p_get_many (Z.to_nat cnt) p1 n.

Fixpoint p_get_tuples (cnt : nat) (p : Parser) (n k : Z) : res (list (list Z) * Parser) :=
  match cnt with
  | O => Ok ([], p)
  | S c => '(t, p1) <- p_get_many (Z.to_nat k) p n ;;
           '(ts, p2) <- p_get_tuples c p1 n k ;; Ok (t :: ts, p2)
  end.

(* codec.py:388 getVarTupleList *)
Definition p_getVarTupleList (p : Parser) (n k ll : Z) : res (list (list Z) * Parser) :=
  '(len, p1) <- p_get p ll ;;
  m <- py_mod len (n * k) ;;
  if negb (m =? 0) then Err DecodeError
  else
    cnt <- py_div len (n * k) ;;
    p_get_tuples (Z.to_nat cnt) p1 n k.

(* codec.py:416 startLengthCheck *)
Definition p_startLengthCheck (p : Parser) (ll : Z) : res Parser :=
  '(n, p1) <- p_get p ll ;;
  Ok (mkParser (pbytes p1) (pindex p1) (pindex p1) n).

(* codec.py:426 setLengthCheck *)
Definition p_setLengthCheck (p : Parser) (n : Z) : Parser :=
  mkParser (pbytes p) (pindex p) (pindex p) n.

(* codec.py:436 stopLengthCheck *)
Definition p_stopLengthCheck (p : Parser) : res unit :=
  if negb (pindex p - pindexCheck p =? plengthCheck p) then Err DecodeError else Ok tt.

(* codec.py:446 atLengthCheck *)
Definition p_atLengthCheck (p : Parser) : res bool :=
  if pindex p - pindexCheck p <? plengthCheck p then Ok false
  else if pindex p - pindexCheck p =? plengthCheck p then Ok true
  else Err DecodeError.

(* codec.py:463 getRemainingLength *)
Definition p_getRemainingLength (p : Parser) : Z := zlen (pbytes p) - pindex p.
