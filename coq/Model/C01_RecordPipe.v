(* C01/C02 -- executable model of tlslite-ng's record layer (definitions only).

   L3  RecordLayer.sendRecord / recvRecord and their helpers
       (tlslite/recordlayer.py):  protect / unprotect
   L4  TLSRecordLayer._sendMsg fragmentation, the application-data part of
       _getMsg/readAsync (tlslite/tlsrecordlayer.py): fragment, send_app,
       deliver, read_call, and a two-endpoint system driven by an arbitrary
       schedule of events.

   Bulk cipher, MAC and AEAD are oracles (fields of Prim).  Every Python
   operation that can raise on the modelled paths is an explicit RErr outcome. *)
From Coq Require Import ZArith List Bool.
From TV Require Import Base.Prelude Spec.CbcCheck.
Import ListNotations.
Open Scope Z_scope.

(* ---- outcomes ------------------------------------------------------------- *)
Inductive rerr :=
| EBadMac          (* TLSBadRecordMAC *)
| EDecryptFailed   (* TLSDecryptionFailed *)
| EOverflow        (* TLSRecordOverflow *)
| EUnexpected      (* TLSUnexpectedMessage *)
| EIllegalParam    (* TLSIllegalParameterException *)
| EValue           (* ValueError: a value does not fit its encoding *)
| EAssert.         (* AssertionError *)

Inductive rres (A : Type) :=
| ROk (a : A)
| RErr (e : rerr).
Arguments ROk {A} a.
Arguments RErr {A} e.

Definition rbind {A B} (m : rres A) (f : A -> rres B) : rres B :=
  match m with ROk a => f a | RErr e => RErr e end.
Notation "x <~ m ;; k" := (rbind m (fun x => k))
  (at level 61, m at next level, right associativity).
Notation "' p <~ m ;; k" := (rbind m (fun p => k))
  (at level 61, p pattern, m at next level, right associativity).

Definition rerr_code (e : rerr) : Z :=
  match e with
  | EBadMac => 1 | EDecryptFailed => 2 | EOverflow => 3 | EUnexpected => 4
  | EIllegalParam => 5 | EValue => 6 | EAssert => 7
  end.

(* ---- small list helpers ---------------------------------------------------- *)
Definition ztake {A} (n : Z) (l : list A) : list A := firstn (Z.to_nat n) l.
Definition zdrop {A} (n : Z) (l : list A) : list A := skipn (Z.to_nat n) l.
Definition zeros (n : Z) : list Z := repeat 0 (Z.to_nat n).
Definition last_byte (l : list Z) : Z := nthZ l (zlen l - 1).

(* Writer.add(n, k): k bytes, big endian *)
Fixpoint be_bytes (k : nat) (n : Z) : list Z :=
  match k with
  | O => []
  | S k' => be_bytes k' (n / 256) ++ [n mod 256]
  end.

(* ---- versions ---------------------------------------------------------------- *)
Definition ver_lt (a b : Z * Z) : bool :=
  (fst a <? fst b) || ((fst a =? fst b) && (snd a <? snd b)).
Definition ver_le (a b : Z * Z) : bool := negb (ver_lt b a).
Definition ver_macable (v : Z * Z) : bool :=
  existsb (pairZ_eqb v) [(3, 0); (3, 1); (3, 2); (3, 3)].

(* ---- primitives (oracles) and configuration -------------------------------------- *)
Section WithCipherState.
Context {CS : Type}.            (* internal state of the bulk cipher object *)

Record Prim := {
  pr_enc  : CS -> list Z -> CS * list Z;            (* encContext.encrypt *)
  pr_dec  : CS -> list Z -> CS * list Z;            (* encContext.decrypt *)
  pr_mac  : HMac;                                   (* macContext (key absorbed) *)
  pr_seal : list Z -> list Z -> list Z -> list Z;   (* seal(nonce, plaintext, aad) *)
  pr_open : list Z -> list Z -> list Z -> option (list Z)  (* open(nonce, ct, aad) *)
}.

(* one direction of a connection in one key epoch *)
Record Cfg := {
  c_ver : Z * Z;            (* RecordLayer.version *)
  c_tls13 : bool;           (* RecordLayer.tls13record *)
  c_has_enc : bool;         (* encContext is not None *)
  c_has_mac : bool;         (* macContext is not None *)
  c_block : bool;           (* encContext.isBlockCipher *)
  c_aead : bool;            (* encContext.isAEAD *)
  c_etm : bool;             (* ConnectionState.encryptThenMAC *)
  c_bs : Z;                 (* encContext.block_size *)
  c_aes : bool;             (* "aes" in encContext.name *)
  c_chacha : bool;          (* encContext.name == "chacha20-poly1305" *)
  c_tag : Z;                (* encContext.tagLength *)
  c_nonce_len : Z;          (* encContext.nonceLength *)
  c_fixed_nonce : list Z;   (* ConnectionState.fixedNonce *)
  c_fixed_iv : list Z;      (* sender's RecordLayer.fixedIVBlock *)
  c_send_limit : Z;         (* sender's RecordLayer.send_record_limit *)
  c_recv_limit : Z;         (* receiver's RecordLayer.recv_record_limit *)
  c_pad_cb : option (Z -> Z -> Z -> Z);  (* sender's padding_cb(length, type, max_padding) *)
  c_plain_alert : bool      (* receiver's RecordLayer.allow_plaintext_alert (TLS 1.3: True until _handshakeDone) *)
}.

Record St := { st_cs : CS; st_seq : Z }.
Definition set_cs (s : St) (cs : CS) : St := {| st_cs := cs; st_seq := st_seq s |}.

(* a record as RecordSocket.send writes it / RecordSocket.recv returns it *)
Definition Wire := (Z * (Z * Z) * list Z)%type.        (* header type, header version, body *)
Definition wire_bytes (w : Wire) : list Z :=
  let '(ty, ver, body) := w in
  [ty; fst ver; snd ver; zlen body / 256; zlen body mod 256] ++ body.

Definition is_tls13_plus (c : Cfg) : bool := ver_lt (3, 3) (c_ver c) && c_tls13 c.
Definition ds (P : Prim) : Z := mac_ds (pr_mac P).

(* ConnectionState.getSeqNumBytes *)
Definition next_seq (s : St) : rres (list Z * St) :=
  if (0 <=? st_seq s) && (st_seq s <? 18446744073709551616)
  then ROk (be_bytes 8 (st_seq s), {| st_cs := st_cs s; st_seq := st_seq s + 1 |})
  else RErr EValue.

(* RecordLayer.calculateMAC *)
Definition calc_mac (c : Cfg) (m : HMac) (seqb : list Z) (ty : Z) (data : list Z) : rres (list Z) :=
  if negb (is_byte ty) then RErr EValue else
  if negb (ver_macable (c_ver c)) then RErr EAssert else
  if 65536 <=? zlen data then RErr EValue else
  ROk (mac_fn m (mac_acc m ++ mac_header seqb ty (c_ver c) (zlen data) ++ data)).

(* RecordLayer.addPadding *)
Definition add_padding (bs : Z) (data : list Z) : list Z :=
  let p := bs - 1 - (zlen data mod bs) in
  data ++ repeat p (Z.to_nat (p + 1)).

(* RecordLayer._getNonce *)
Definition xor_nonce (fixed seqb : list Z) : list Z :=
  map (fun p => Z.lxor (fst p) (snd p)) (combine (zeros (zlen fixed - zlen seqb) ++ seqb) fixed).
Definition uses_xor_nonce (c : Cfg) : bool :=
  (c_chacha c && (zlen (c_fixed_nonce c) =? 12)) || is_tls13_plus c.
Definition get_nonce (c : Cfg) (seqb : list Z) : rres (list Z) :=
  if uses_xor_nonce c
  then (if zlen (c_fixed_nonce c) <? zlen seqb then RErr EValue      (* bytearray(negative) *)
        else ROk (xor_nonce (c_fixed_nonce c) seqb))
  else ROk (c_fixed_nonce c ++ seqb).
Definition explicit_nonce (c : Cfg) : bool := c_aes c && negb (is_tls13_plus c).

Definition iv_prefix (c : Cfg) : list Z := if ver_le (3, 2) (c_ver c) then c_fixed_iv c else [].

(* ---- sending ------------------------------------------------------------------------ *)
Definition append_mac (c : Cfg) (P : Prim) (s : St) (ty : Z) (data : list Z) : rres (St * list Z) :=
  if c_has_mac c then
    '(seqb, s1) <~ next_seq s ;;
    t <~ calc_mac c (pr_mac P) seqb ty data ;;
    ROk (s1, data ++ t)
  else ROk (s, data).

(* RecordLayer._macThenEncrypt *)
Definition mac_then_encrypt (c : Cfg) (P : Prim) (s : St) (ty : Z) (data : list Z) : rres (St * list Z) :=
  '(s1, d1) <~ append_mac c P s ty data ;;
  if c_has_enc c then
    let d2 := if c_block c then add_padding (c_bs c) (iv_prefix c ++ d1) else d1 in
    if c_block c && negb (zlen d2 mod c_bs c =? 0) then RErr EAssert else
    let r := pr_enc P (st_cs s1) d2 in
    ROk (set_cs s1 (fst r), snd r)
  else ROk (s1, d1).

(* RecordLayer._encryptThenMAC *)
Definition encrypt_then_mac (c : Cfg) (P : Prim) (s : St) (ty : Z) (data : list Z) : rres (St * list Z) :=
  '(s1, d1) <~ (if c_has_enc c then
                  let d2 := add_padding (c_bs c) (iv_prefix c ++ data) in
                  if negb (zlen d2 mod c_bs c =? 0) then RErr EAssert else
                  let r := pr_enc P (st_cs s) d2 in
                  ROk (set_cs s (fst r), snd r)
                else ROk (s, data)) ;;
  append_mac c P s1 ty d1.

(* RecordLayer._encryptThenSeal; hver = RecordSocket.version *)
Definition aad12 (c : Cfg) (seqb : list Z) (ty : Z) (n : Z) : list Z :=
  seqb ++ [ty; fst (c_ver c); snd (c_ver c); n / 256; n mod 256].
Definition aad13 (ty : Z) (hver : Z * Z) (n : Z) : list Z :=
  [ty; fst hver; snd hver; n / 256; n mod 256].

Definition encrypt_then_seal (c : Cfg) (P : Prim) (s : St) (ty : Z) (data : list Z) : rres (St * list Z) :=
  '(seqb, s1) <~ next_seq s ;;
  let n := if is_tls13_plus c then zlen data + c_tag c else zlen data in
  if negb (is_byte ty && is_byte (n / 256)) then RErr EValue else
  let aad := if is_tls13_plus c then aad13 ty (3, 3) n else aad12 c seqb ty n in
  nonce <~ get_nonce c seqb ;;
  if negb (zlen nonce =? c_nonce_len c) then RErr EAssert else
  let ct := pr_seal P nonce data aad in
  ROk (s1, if explicit_nonce c then seqb ++ ct else ct).

(* the TLS 1.3 inner plaintext built by sendRecord *)
Definition inner_plaintext (c : Cfg) (ty : Z) (data : list Z) : rres (list Z) :=
  if negb (is_byte ty) then RErr EValue else
  let d1 := data ++ [ty] in
  match c_pad_cb c with
  | None => ROk d1
  | Some cb =>
      let k := cb (zlen d1) ty (c_send_limit c - zlen d1 - 1) in
      if k <? 0 then RErr EValue else ROk (d1 ++ zeros k)
  end.

(* RecordLayer.sendRecord + RecordSocket.send, SSLv3 .. TLS 1.3 *)
Definition protect (c : Cfg) (P : Prim) (s : St) (rec : Z * list Z) : rres (St * Wire) :=
  let (ty, data) := rec in
  let hide := is_tls13_plus c && c_has_enc c && negb (ty =? 20) in
  '(ty1, d1) <~ (if hide then d <~ inner_plaintext c ty data ;; ROk (23, d) else ROk (ty, data)) ;;
  '(s1, body) <~ (if ver_lt (3, 3) (c_ver c) && (ty1 =? 20) then ROk (s, d1)
                  else if c_has_enc c && c_aead c then encrypt_then_seal c P s ty1 d1
                  else if c_etm c then encrypt_then_mac c P s ty1 d1
                  else mac_then_encrypt c P s ty1 d1) ;;
  if negb (is_byte ty1) || (65536 <=? zlen body) then RErr EValue else
  ROk (s1, (ty1, (if is_tls13_plus c then (3, 3) else c_ver c), body)).

(* ---- receiving ---------------------------------------------------------------------- *)
(* RecordLayer._decryptStreamThenMAC *)
Definition decrypt_stream_then_mac (c : Cfg) (P : Prim) (s : St) (ty : Z) (body : list Z)
  : rres (St * list Z) :=
  '(s1, d1) <~ (if c_has_enc c then
                  if negb (ver_macable (c_ver c)) then RErr EAssert else
                  let r := pr_dec P (st_cs s) body in ROk (set_cs s (fst r), snd r)
                else ROk (s, body)) ;;
  if c_has_mac c then
    if ds P >? zlen d1 then RErr EBadMac else
    let m := zlen d1 - ds P in
    '(seqb, s2) <~ next_seq s1 ;;
    t <~ calc_mac c (pr_mac P) seqb ty (ztake m d1) ;;
    if list_eqb t (zdrop m d1) then ROk (s2, ztake m d1) else RErr EBadMac
  else ROk (s1, d1).

(* RecordLayer._decryptThenMAC; the constant-time check is Spec.CbcCheck.well_formed
   (its equality with ct_check_cbc_mac_and_pad is property C12) *)
Definition decrypt_then_mac (c : Cfg) (P : Prim) (s : St) (ty : Z) (body : list Z)
  : rres (St * list Z) :=
  if negb (ver_macable (c_ver c)) then RErr EAssert else
  if negb (c_block c && c_has_mac c) then RErr EAssert else
  if negb (zlen body mod c_bs c =? 0) then RErr EDecryptFailed else
  let r := pr_dec P (st_cs s) body in
  let d1 := if ver_le (3, 2) (c_ver c) then zdrop (c_bs c) (snd r) else snd r in
  '(seqb, s1) <~ next_seq (set_cs s (fst r)) ;;
  if negb (is_byte ty) then RErr EValue else
  if well_formed (c_ver c) (c_bs c) (pr_mac P) seqb ty d1
  then ROk (s1, ztake (zlen d1 - (last_byte d1 + 1 + ds P)) d1)
  else RErr EBadMac.

(* padding check of RecordLayer._macThenDecrypt *)
Definition etm_padding_ok (c : Cfg) (d : list Z) : bool :=
  let p := last_byte d in
  (p + 1 <=? zlen d) &&
  (is_ssl3 (c_ver c) || forallb (fun b => b =? p) (ztake p (zdrop (zlen d - (p + 1)) d))).

(* RecordLayer._macThenDecrypt *)
Definition mac_then_decrypt (c : Cfg) (P : Prim) (s : St) (ty : Z) (body : list Z)
  : rres (St * list Z) :=
  '(s1, d1) <~ (if c_has_mac c then
                  if zlen body <? ds P then RErr EBadMac else
                  let m := zlen body - ds P in
                  '(seqb, s1) <~ next_seq s ;;
                  t <~ calc_mac c (pr_mac P) seqb ty (ztake m body) ;;
                  if list_eqb t (zdrop m body) then ROk (s1, ztake m body) else RErr EBadMac
                else ROk (s, body)) ;;
  if c_has_enc c then
    if negb (zlen d1 mod c_bs c =? 0) then RErr EDecryptFailed else
    let r := pr_dec P (st_cs s1) d1 in
    let d2 := if ver_le (3, 2) (c_ver c) then zdrop (c_bs c) (snd r) else snd r in
    if zlen d2 =? 0 then RErr EBadMac else
    if etm_padding_ok c d2
    then ROk (set_cs s1 (fst r), ztake (zlen d2 - (last_byte d2 + 1)) d2)
    else RErr EBadMac
  else ROk (s1, d1).

(* RecordLayer._decryptAndUnseal *)
Definition decrypt_and_unseal (c : Cfg) (P : Prim) (s : St) (w : Wire) : rres (St * list Z) :=
  let '(hty, hver, body) := w in
  '(seqb, s1) <~ next_seq s ;;
  '(nonce, buf) <~ (if explicit_nonce c then
                      if 8 >? zlen body then RErr EBadMac
                      else ROk (c_fixed_nonce c ++ ztake 8 body, zdrop 8 body)
                    else n <~ get_nonce c seqb ;; ROk (n, body)) ;;
  if c_tag c >? zlen buf then RErr EBadMac else
  aad <~ (if is_tls13_plus c then
            if negb (hty =? 23) then RErr EUnexpected else
            if negb (pairZ_eqb hver (3, 3)) then RErr EIllegalParam else
            ROk (aad13 hty hver (zlen body))
          else
            if negb (is_byte hty && is_byte ((zlen buf - c_tag c) / 256)) then RErr EValue else
            ROk (aad12 c seqb hty (zlen buf - c_tag c))) ;;
  match pr_open P nonce buf aad with
  | Some p => ROk (s1, p)
  | None => RErr EBadMac
  end.

(* RecordLayer._tls13_de_pad: (content, type) *)
Fixpoint strip_zeros (l : list Z) : list Z :=
  match l with
  | x :: t => if x =? 0 then strip_zeros t else l
  | [] => []
  end.
Definition de_pad (data : list Z) : rres (Z * list Z) :=
  match strip_zeros (rev data) with
  | [] => RErr EUnexpected
  | t :: r => ROk (t, rev r)
  end.

(* RecordSocket.recv length checks + RecordLayer.recvRecord (SSLv3-framed records) *)
Definition unprotect (c : Cfg) (P : Prim) (s : St) (w : Wire) : rres (St * (Z * list Z)) :=
  let '(hty, hver, body) := w in
  let n := zlen body in
  if n >? c_recv_limit c + 2048 then RErr EOverflow else
  if c_tls13 c && (n >? c_recv_limit c + 256) then RErr EOverflow else
  let t13 := is_tls13_plus c in
  '(s1, d1) <~ (if t13 && (hty =? 20) then ROk (s, body)
                else if t13 && c_plain_alert c && (hty =? 21) && (n <? 3) && c_has_enc c && (st_seq s =? 0) then ROk (s, body)
                else if c_has_enc c && c_aead c then decrypt_and_unseal c P s w
                else if c_etm c then mac_then_decrypt c P s hty body
                else if c_has_enc c && c_block c then decrypt_then_mac c P s hty body
                else decrypt_stream_then_mac c P s hty body) ;;
  '(ty, d2) <~ (if t13 && c_has_enc c && (hty =? 23) then
                  if zlen d1 >? c_recv_limit c + 1 then RErr EOverflow else
                  '(ty, d2) <~ de_pad d1 ;;
                  if ty =? 20 then RErr EUnexpected          (* RFC 8446 section 5: protected change_cipher_spec *)
                  else ROk (ty, d2)
                else ROk (hty, d1)) ;;
  if zlen d2 >? c_recv_limit c then RErr EOverflow else ROk (s1, (ty, d2)).

(* ---- L4: fragmentation (TLSRecordLayer._sendMsg) ----------------------------------------- *)
Fixpoint split_fuel (fuel : nat) (lim : Z) (buf : list Z) : list (list Z) :=
  match fuel with
  | O => [buf]
  | S f => if zlen buf >? lim then ztake lim buf :: split_fuel f lim (zdrop lim buf) else [buf]
  end.
(* `while len(buf) > recordSize`: for recordSize >= 1 at most len(buf) iterations *)
Definition split (lim : Z) (buf : list Z) : list (list Z) := split_fuel (length buf) lim buf.

Definition record_size (user_limit send_limit : Z) : Z := Z.min user_limit send_limit.

(* RecordLayer.isCBCMode and the 1/n-1 condition of _sendMsg *)
Definition beast_split (c : Cfg) (ty : Z) : bool :=
  ver_le (c_ver c) (3, 1) && (c_has_enc c && c_block c) && (ty =? 23).

Definition fragment (beast : bool) (lim : Z) (data : list Z) : list (list Z) :=
  if beast
  then ztake 1 data :: (if zlen (zdrop 1 data) =? 0 then [] else split lim (zdrop 1 data))
  else split lim data.

(* sendRecord over a list of fragments *)
Fixpoint protect_all (c : Cfg) (P : Prim) (s : St) (ty : Z) (frags : list (list Z)) : rres (St * list Wire) :=
  match frags with
  | [] => ROk (s, [])
  | f :: fs => '(s1, w) <~ protect c P s (ty, f) ;;
               '(s2, ws) <~ protect_all c P s1 ty fs ;;
               ROk (s2, w :: ws)
  end.

(* writeAsync(data): ApplicationData through _sendMsg *)
Definition send_app (c : Cfg) (P : Prim) (user_limit : Z) (s : St) (data : list Z) : rres (St * list Wire) :=
  protect_all c P s 23 (fragment (beast_split c 23) (record_size user_limit (c_send_limit c)) data).

(* the application-data part of _getMsg + readAsync: a non-empty application_data record is
   appended to _readBuffer, an empty one is skipped *)
Definition deliver (c : Cfg) (P : Prim) (s : St) (rbuf : list Z) (w : Wire) : rres (St * list Z) :=
  '(s1, r) <~ unprotect c P s w ;;
  if fst r =? 23 then ROk (s1, rbuf ++ snd r) else RErr EUnexpected.

Fixpoint deliver_all (c : Cfg) (P : Prim) (s : St) (rbuf : list Z) (ws : list Wire) : rres (St * list Z) :=
  match ws with
  | [] => ROk (s, rbuf)
  | w :: ws' => '(s1, b1) <~ deliver c P s rbuf w ;; deliver_all c P s1 b1 ws'
  end.

End WithCipherState.
Arguments Prim : clear implicits.
Arguments St : clear implicits.

(* ---- readAsync(max, min) over a queue of arriving application-data payloads --------------- *)
(* `arrivals` are the payloads of the application_data records _getMsg will return next
   (empty ones are never returned by _getMsg).  Result: bytes returned, new buffer, rest of
   the arrivals.  The loop stops when the arrivals run out (the real call would block). *)
Fixpoint fill_buffer (fuel : nat) (min : Z) (try_once : bool) (buf : list Z) (arrivals : list (list Z))
  : list Z * list (list Z) :=
  match fuel with
  | O => (buf, arrivals)
  | S f =>
      if (zlen buf <? min) || ((zlen buf =? 0) && try_once) then
        match arrivals with
        | [] => (buf, [])
        | a :: rest => fill_buffer f min false (buf ++ a) rest
        end
      else (buf, arrivals)
  end.

Definition read_call (max : option Z) (min : Z) (buf : list Z) (arrivals : list (list Z))
  : list Z * list Z * list (list Z) :=
  let '(b1, rest) := fill_buffer (S (length arrivals)) min true buf arrivals in
  let m := match max with None => zlen b1 | Some v => v end in
  (ztake m b1, zdrop m b1, rest).

(* a sequence of read calls *)
Fixpoint read_calls (calls : list (option Z * Z)) (buf : list Z) (arrivals : list (list Z))
  : list (list Z) * list Z * list (list Z) :=
  match calls with
  | [] => ([], buf, arrivals)
  | (mx, mn) :: cs =>
      let '(out, b1, rest) := read_call mx mn buf arrivals in
      let '(outs, b2, rest2) := read_calls cs b1 rest in
      (out :: outs, b2, rest2)
  end.

(* ---- two endpoints and an arbitrary schedule ------------------------------------------------ *)
Section System.
Context {CS : Type}.
Inductive side := A | B.
Definition other (x : side) : side := match x with A => B | B => A end.

(* per direction: configuration, primitives, user recordSize, sender state, receiver state,
   records in flight (FIFO network), receiver's _readBuffer, and two ghost logs *)
Record Dir := {
  d_cfg : @Cfg ; d_prim : Prim CS; d_user : Z;
  d_snd : St CS; d_rcv : St CS;
  d_flight : list Wire;
  d_rbuf : list Z;
  d_written : list Z;       (* ghost: everything the sender's application wrote *)
  d_read : list Z;          (* ghost: everything the receiver's application was handed *)
  d_failed : bool           (* some step raised *)
}.

Inductive event :=
| EvWrite (data : list Z)     (* sender: write(data) *)
| EvDeliver                   (* receiver processes the next record in flight *)
| EvRead (max : Z).           (* receiver's application takes up to max bytes from _readBuffer *)

Definition fail (d : Dir) : Dir :=
  {| d_cfg := d_cfg d; d_prim := d_prim d; d_user := d_user d; d_snd := d_snd d; d_rcv := d_rcv d;
     d_flight := d_flight d; d_rbuf := d_rbuf d; d_written := d_written d; d_read := d_read d;
     d_failed := true |}.

Definition dir_step (d : Dir) (e : event) : Dir :=
  match e with
  | EvWrite data =>
      match send_app (d_cfg d) (d_prim d) (d_user d) (d_snd d) data with
      | ROk (s1, ws) =>
          {| d_cfg := d_cfg d; d_prim := d_prim d; d_user := d_user d; d_snd := s1; d_rcv := d_rcv d;
             d_flight := d_flight d ++ ws; d_rbuf := d_rbuf d; d_written := d_written d ++ data;
             d_read := d_read d; d_failed := d_failed d |}
      | RErr _ => fail d
      end
  | EvDeliver =>
      match d_flight d with
      | [] => d                         (* nothing to read: the call would block *)
      | w :: rest =>
          match deliver (d_cfg d) (d_prim d) (d_rcv d) (d_rbuf d) w with
          | ROk (r1, b1) =>
              {| d_cfg := d_cfg d; d_prim := d_prim d; d_user := d_user d; d_snd := d_snd d; d_rcv := r1;
                 d_flight := rest; d_rbuf := b1; d_written := d_written d; d_read := d_read d;
                 d_failed := d_failed d |}
          | RErr _ => fail d
          end
      end
  | EvRead max =>
      {| d_cfg := d_cfg d; d_prim := d_prim d; d_user := d_user d; d_snd := d_snd d; d_rcv := d_rcv d;
         d_flight := d_flight d; d_rbuf := zdrop max (d_rbuf d); d_written := d_written d;
         d_read := d_read d ++ ztake max (d_rbuf d); d_failed := d_failed d |}
  end.

(* the connection: direction A->B and direction B->A; an event names the direction it acts on *)
Definition Sys := (Dir * Dir)%type.
Definition sys_step (s : Sys) (e : side * event) : Sys :=
  match fst e with
  | A => (dir_step (fst s) (snd e), snd s)
  | B => (fst s, dir_step (snd s) (snd e))
  end.
Definition sys_run (s : Sys) (es : list (side * event)) : Sys := fold_left sys_step es s.

(* plaintext carried by the records in flight, as the receiver in state r will see it *)
End System.

(* ---- record_size_limit (RFC 8449) as applied by tlsconnection.py ------------------------------- *)
(* `ext` is the value in the peer's extension, `own` is settings.record_size_limit.
   The record layer's limits exclude the TLS 1.3 content-type byte, the extension includes it. *)
Definition send_limit_after (tls13 : bool) (client : bool) (ext : Z) : Z :=
  if tls13 then (if client then ext - 1 else Z.min 16384 (ext - 1))   (* EncryptedExtensions / ClientHello *)
  else (if client then ext else Z.min 16384 ext).                     (* ServerHello / ClientHello, applied at Finished *)
Definition recv_limit_after (tls13 : bool) (own : Z) : Z :=
  if tls13 then Z.min 16384 (own - 1) else Z.min 16384 own.
(* what the client accepts in the server's extension *)
Definition ext_acceptable (tls13 : bool) (client : bool) (ext : Z) : bool :=
  if client then (64 <=? ext) && (ext <=? (if tls13 then 16385 else 16384)) else 64 <=? ext.

(* ---- readAsync(max, min) when the peer may close ------------------------------------------------ *)
(* AClose: the peer's close_notify (or an abrupt close with ignoreAbruptClose): _shutdown() sets
   `closed`, the loop of readAsync ends and what is buffered is still handed out, now and by later calls *)
Inductive arrival := AData (p : list Z) | AClose.

Fixpoint fill_buffer_c (fuel : nat) (min : Z) (try_once : bool) (buf : list Z) (closed : bool)
         (arr : list arrival) : list Z * bool * list arrival :=
  match fuel with
  | O => (buf, closed, arr)
  | S f =>
      if ((zlen buf <? min) || ((zlen buf =? 0) && try_once)) && negb closed then
        match arr with
        | [] => (buf, closed, [])
        | AData a :: rest => fill_buffer_c f min false (buf ++ a) closed rest
        | AClose :: rest => (buf, true, rest)
        end
      else (buf, closed, arr)
  end.

Definition read_call_c (max : option Z) (min : Z) (buf : list Z) (closed : bool) (arr : list arrival)
  : list Z * list Z * bool * list arrival :=
  let '(b1, cl, rest) := fill_buffer_c (S (length arr)) min true buf closed arr in
  let m := match max with None => zlen b1 | Some v => v end in
  (ztake m b1, zdrop m b1, cl, rest).

Fixpoint read_calls_c (calls : list (option Z * Z)) (buf : list Z) (closed : bool) (arr : list arrival)
  : list (list Z) * list Z * bool * list arrival :=
  match calls with
  | [] => ([], buf, closed, arr)
  | (mx, mn) :: cs =>
      let '(out, b1, cl, rest) := read_call_c mx mn buf closed arr in
      let '(outs, b2, cl2, rest2) := read_calls_c cs b1 cl rest in
      (out :: outs, b2, cl2, rest2)
  end.

Fixpoint data_of (arr : list arrival) : list Z :=
  match arr with
  | [] => []
  | AData a :: r => a ++ data_of r
  | AClose :: r => data_of r
  end.

(* ---- key epochs of TLS 1.3 KeyUpdate (RFC 8446 7.2) and the defragmenter across a key change -------- *)
(* next : application_traffic_secret_N -> _N+1 (HKDF-Expand-Label(.., "traffic upd"));
   the N-th KeyUpdate of a direction installs keys derived from generation N *)
Fixpoint generation {S : Type} (next : S -> S) (s0 : S) (n : nat) : S :=
  match n with O => s0 | S k => next (generation next s0 k) end.

(* bytes waiting in the defragmenter (alert / handshake / CCS buffers together), each tagged with the
   key epoch of the record that carried it; a read-key change is allowed only when nothing is waiting
   (_getFinished: `if not self._defragmenter.is_empty(): unexpected_message`; TLS 1.3: _getMsg) *)
Inductive dstep :=
| DRecord (bytes : list Z)          (* a record of the current epoch adds its bytes *)
| DMessage (n : nat)                (* a complete message of n bytes is taken out and yielded *)
| DKeyChange.                       (* ChangeCipherSpec / Finished / KeyUpdate processed *)

Definition dstate := (nat * list (Z * nat) * list (nat * list (Z * nat)))%type.   (* epoch, waiting, yielded (epoch at yield, bytes) *)

Definition defrag_step (st : option dstate) (e : dstep) : option dstate :=
  match st with
  | None => None                                   (* fatal alert already sent *)
  | Some (ep, waiting, out) =>
      match e with
      | DRecord bs => Some (ep, waiting ++ map (fun b => (b, ep)) bs, out)
      | DMessage n => if (n <=? length waiting)%nat
                      then Some (ep, skipn n waiting, out ++ [(ep, firstn n waiting)]) else Some (ep, waiting, out)
      | DKeyChange => match waiting with [] => Some (S ep, [], out) | _ => None end
      end
  end.

(* ---- TLS <= 1.2: when the negotiated limits take effect (RFC 8449 section 4: protected records only) ----
   _sendFinished installs the send limit right after _changeWriteState(), _getFinished installs the
   receive limit right after _changeReadState(); before that both are the protocol maximum.  TLS 1.3
   installs both as soon as the extensions are known (everything after that is protected). *)
Definition send_limit_at (write_switched negotiated client : bool) (ext : Z) : Z :=
  if write_switched && negotiated then send_limit_after false client ext else 16384.
Definition recv_limit_at (read_switched negotiated : bool) (own : Z) : Z :=
  if read_switched && negotiated then recv_limit_after false own else 16384.
(* the value carried by the extension of an endpoint whose setting is `own` *)
Definition ext_sent (by_server : bool) (own : Z) : Z := if by_server then Z.min 16384 own else own.
