(* C03 -- executable model of tlslite-ng's parameter negotiation (definitions only, no proofs).

   Tables (suite lists, the _filterSuites classification, offer/selection order, group and
   signature-scheme ids) come from Gen/C03Tables.v, regenerated from /repo on every run.
   Hand-modelled (tied by correspondence with live endpoints, harness/props/C03.py):
     client_offer        <- TLSConnection._clientSendClientHello
     server_hello_stage  <- TLSConnection._serverGetClientHello (version, groups, suites,
                            _server_select_certificate, HelloRetryRequest group choice)
     sig_hashes_to_list / pick_ske_sig <- _sigHashesToList / _pickServerKeyExchangeSig
     server_legacy / client_legacy <- _handshakeServerAsyncHelper / _clientGetServerHello,
                            _clientKeyExchange, keyexchange.py (TLS <= 1.2)
     server_tls13 / client_tls13   <- _serverTLS13Handshake / _clientTLS13Handshake
     check_chain         <- _check_certchain_with_settings
   Not modelled: resumption and tickets, virtual hosts, delegated credentials, TACK,
   heartbeat, certificate compression, the cryptography itself.

   Encodings: protocol version (3, n) is the integer n; suites, groups are wire ids; settings
   names are indices into handshakesettings' ALL_* tables; a signature scheme is hash*256+sig;
   outcome Err (OtherExn (1000+d)) = client raised alert d, 2000+d = server raised alert d,
   1900 / 2900 = client / server died with a Python exception and no alert,
   1800 = the client refused its own configuration with ValueError before sending anything. *)
From Coq Require Import ZArith List Bool.
From TV Require Import Base.Prelude Gen.C03Tables.
Import ListNotations.
Open Scope Z_scope.

Definition memZ (x : Z) (l : list Z) : bool := existsb (Z.eqb x) l.

(* getFirstMatching(values, matches) *)
Fixpoint first_matching (a b : list Z) : option Z :=
  match a with
  | [] => None
  | x :: t => if memZ x b then Some x else first_matching t b
  end.

Definition client_alert {A} (d : Z) : res A := Err (OtherExn (1000 + d)).
Definition server_alert {A} (d : Z) : res A := Err (OtherExn (2000 + d)).
Definition client_crash {A} : res A := Err (OtherExn 1900).
Definition server_crash {A} : res A := Err (OtherExn 2900).
(* a site that dies with a Python exception in the unrepaired tree and sends alert d once the
   corresponding repair (flag from Gen/C03Tables.v) is present; who = 1000 client / 2000 server *)
Definition crash_or {A} (repaired : bool) (who d : Z) : res A :=
  if repaired then Err (OtherExn (who + d)) else Err (OtherExn (who + 900)).

Definition a_handshake_failure := 40.
Definition a_illegal_parameter := 47.
Definition a_protocol_version := 70.
Definition a_insufficient_security := 71.
Definition a_internal_error := 80.
Definition a_record_overflow := 22.
Definition a_inappropriate_fallback := 86.
Definition a_missing_extension := 109.
Definition a_unknown_psk_identity := 115.
Definition a_no_application_protocol := 120.

(* ---- configuration ----------------------------------------------------------------------- *)
Record Settings := {
  st_minV : Z; st_maxV : Z; st_versions : list Z;
  st_ciphers : list Z; st_macs : list Z; st_kxs : list Z;
  st_curves : list Z; st_dhgroups : list Z; st_shares : list Z; st_default_curve : Z;
  st_rsa_hashes : list Z; st_rsa_schemes : list Z;       (* schemes: 0 = pss, 1 = pkcs1 *)
  st_ecdsa_hashes : list Z; st_dsa_hashes : list Z; st_more_sigs : list Z;
  st_min_key : Z; st_max_key : Z;
  st_etm : bool; st_ems : bool; st_req_ems : bool;
  st_rsl : option Z;
  st_psks : list (Z * Z);                                (* (identity, 0 = sha256 | 1 = sha384) *)
  st_psk_modes : list Z;                                 (* 0 = psk_dhe_ke, 1 = psk_ke *)
  st_dh_bits : Z                                         (* size of the server's own dhParams *)
}.

(* certificate algorithm: 0 rsa, 1 rsa-pss, 2 ecdsa, 3 Ed25519, 4 Ed448, 5 dsa *)
Record Cert := { ct_alg : Z; ct_bits : Z; ct_curve : Z; ct_id : Z; ct_small_key : bool }.

Record Client := {
  cl_set : Settings;
  cl_flavour : Z;                      (* 0 certificate, 1 SRP, 2 anonymous *)
  cl_cert : option Cert;
  cl_alpn : option (list Z); cl_npn : option (list Z); cl_sni : option Z;
  cl_srp_user : Z; cl_fallback : bool;
  cl_ticket : option Z;                (* a TLS 1.3 ticket of an earlier session is held: Some (PRF hash of that
                                          session's suite, 0 = sha256 | 1 = sha384); offered as PSK identity 999 *)
  cl_hello2_len : Z                    (* measured input: byte length of the ClientHello record that
                                          answers a HelloRetryRequest (its padding makes it config-dependent) *)
}.

Record Server := {
  sv_set : Settings;
  sv_cert : option Cert;
  sv_srp : option (list (Z * Z));      (* verifier database: user -> group size in bits *)
  sv_anon : bool; sv_req_cert : bool;
  sv_alpn : option (list Z); sv_npn : option (list Z);
  sv_nst_len : Z;                      (* measured input: byte length of the plaintext NewSessionTicket record the
                                          server sends before its ChangeCipherSpec in TLS <= 1.2 (0 = none sent) *)
  sv_ticket : option Z                 (* the server's ticketKeys decrypt the client's ticket: Some (PRF hash of the
                                          ticket's suite) *)
}.

Definition ticket_identity : Z := 999.

(* ---- suite filtering (CipherSuite._filterSuites, filterForVersion, filter_for_certificate) --- *)
Definition admitted (tbl : list (Z * bool * list Z)) (names : list Z) (v : Z) (s : Z) : bool :=
  existsb (fun row => let '(n, gate, l) := row in
                      memZ n names && (negb gate || (3 <=? v)) && memZ s l) tbl.

Definition suite_allowed (st : Settings) (v : Z) (s : Z) : bool :=
  admitted mac_table (st_macs st) v s &&
  admitted cipher_table (st_ciphers st) v s &&
  (((4 <=? v) && memZ s kx_tls13_list) || admitted kx_table (st_kxs st) v s).

Definition filter_suites (st : Settings) (v : Z) (l : list Z) : list Z :=
  filter (suite_allowed st v) l.

Definition get_suites (st : Settings) (v : Z) (bases : list (list Z)) : list Z :=
  flat_map (filter_suites st v) bases.

Definition suite_in_version (lo hi : Z) (s : Z) : bool :=
  ((0 <=? lo) && (lo <=? 3) && memZ s ssl3Suites) ||
  ((3 <=? hi) && (lo <=? 3) && memZ s tls12Suites) ||
  ((3 <? hi) && memZ s tls13Suites).

Definition filter_for_version (l : list Z) (lo hi : Z) : list Z :=
  filter (suite_in_version lo hi) l.

Definition suite_for_cert (cert : option Cert) (s : Z) : bool :=
  memZ s tls13Suites ||
  match cert with
  | Some c =>
      let a := ct_alg c in
      (((a =? 0) || (a =? 1)) && memZ s certAllSuites && negb ((a =? 1) && memZ s certSuites)) ||
      ((a =? 1) && memZ s certSuites && negb (memZ s certAllSuites)) ||
      (((a =? 2) || (a =? 3) || (a =? 4)) && memZ s ecdheEcdsaSuites) ||
      ((a =? 5) && memZ s dheDsaSuites)
  | None => memZ s srpSuites || memZ s anonSuites || memZ s ecdhAnonSuites
  end.

Definition filter_for_certificate (l : list Z) (cert : option Cert) : list Z :=
  filter (suite_for_cert cert) l.

Definition prf_of (s : Z) : Z := if memZ s sha384PrfSuites then 1 else 0.

(* filter_for_prfs: prfs given as list of option hash (None counts as sha256) *)
Definition filter_for_prfs (l : list Z) (prfs : list Z) : list Z :=
  filter (fun s => (memZ 0 prfs && memZ s sha256PrfSuites) || (memZ 1 prfs && memZ s sha384PrfSuites)) l.

(* ---- groups ------------------------------------------------------------------------------ *)
Definition curves_to_list (st : Settings) (v : Z) : list Z :=
  if ((st_maxV st <? 4) && negb (memZ 4 (st_versions st))) || (v <? 4)
  then filter (fun g => negb (memZ g groups_kem)) (st_curves st)
  else st_curves st.

Definition is_ffdhe_id (g : Z) : bool := (256 <=? g) && (g <? 512).
Definition old_brainpool (g : Z) : bool :=
  (g =? g_brainpoolP256r1) || (g =? g_brainpoolP384r1) || (g =? g_brainpoolP512r1).

Fixpoint assoc (k : Z) (l : list (Z * Z)) : option Z :=
  match l with [] => None | (a, b) :: t => if a =? k then Some b else assoc k t end.

(* ---- signature schemes (_sigHashesToList) ------------------------------------------------ *)
Definition sch (h s : Z) : Z := h * 256 + s.

Definition curve_hash (g : Z) : Z :=   (* curve_name_to_hash_name *)
  if (g =? g_secp256r1) || (g =? g_brainpoolP256r1) then h_sha256
  else if (g =? g_secp384r1) || (g =? g_brainpoolP384r1) then h_sha384
  else h_sha512.

Definition brainpool13_scheme (g : Z) : Z :=
  if g =? g_brainpoolP256r1 then ss_ecdsa_brainpoolP256r1tls13_sha256
  else if g =? g_brainpoolP384r1 then ss_ecdsa_brainpoolP384r1tls13_sha384
  else ss_ecdsa_brainpoolP512r1tls13_sha512.

(* index of ecdsa_brainpoolP*r1tls13_* in more_sig_schemes' code table *)
Definition brainpool13_more_sig (g : Z) : Z :=
  if g =? g_brainpoolP512r1 then 2 else if g =? g_brainpoolP384r1 then 3 else 4.

Definition sig_hashes_to_list (st : Settings) (small_key : bool) (cert : option Cert) (v : Z) : list Z :=
  let alg := match cert with Some c => Some (ct_alg c) | None => None end in
  let is a := match alg with Some x => x =? a | None => false end in
  let none := match alg with None => true | Some _ => false end in
  let more :=
    if none || is 3 || is 4 then
      flat_map (fun m =>
        if (v <? 4) && (5 <=? m) then []            (* ML-DSA: TLS 1.3 only *)
        else if v <? 3 then []
        else if (is 3 && negb (m =? 0)) || (is 4 && negb (m =? 1)) then []
        else if (v <? 4) && (2 <=? m) && (m <=? 4) then []   (* brainpool TLS 1.3 schemes *)
        else match assoc m more_sig_table with Some s => [s] | None => [] end) (st_more_sigs st)
    else [] in
  let ecdsa :=
    if none || is 2 then
      match cert with
      | Some c =>
          if (3 <? v) && old_brainpool (ct_curve c) then [brainpool13_scheme (ct_curve c)]
          else flat_map (fun h =>
                 if (3 <? v) && ((h =? h_sha1) || (h =? h_sha224)) then []
                 else if (3 <? v) && negb (h =? curve_hash (ct_curve c)) then []
                 else [sch h sa_ecdsa]) (st_ecdsa_hashes st)
      | None => flat_map (fun h =>
                 if (3 <? v) && ((h =? h_sha1) || (h =? h_sha224)) then [] else [sch h sa_ecdsa])
                 (st_ecdsa_hashes st)
      end
    else [] in
  let dsa :=
    if none || is 5 then flat_map (fun h => if 3 <? v then [] else [sch h sa_dsa]) (st_dsa_hashes st)
    else [] in
  let rsa :=
    if none || is 0 || is 1 then
      flat_map (fun scheme =>
        if (3 <? v) && (scheme =? 1) then []
        else flat_map (fun h =>
          if scheme =? 1 then (if is 1 then [] else [sch h sa_rsa])
          else if negb ((h =? h_sha256) || (h =? h_sha384) || (h =? h_sha512)) then []
          else if (h =? h_sha512) && small_key then []
          else (if is 1 then [] else [sch 8 h]) ++ (if is 0 then [] else [sch 8 (h + 5)]))
          (st_rsa_hashes st)) (st_rsa_schemes st)
    else [] in
  more ++ ecdsa ++ dsa ++ rsa.

(* _pickServerKeyExchangeSig: Ok None = no scheme needed / RFC default (sha1) *)
Definition pick_ske_sig (st : Settings) (sigalgs : option (list Z)) (cert : option Cert) (v : Z)
  : res (option Z) :=
  match sigalgs with
  | None => Ok None
  | Some offered =>
      match first_matching (sig_hashes_to_list st false cert v) offered with
      | Some s => Ok (Some s)
      | None => server_alert a_handshake_failure
      end
  end.

(* ---- the ClientHello as the negotiation sees it ------------------------------------------ *)
Record CHello := {
  ch_ver : Z; ch_suites : list Z;
  ch_supver : option (list Z);
  ch_groups : option (list Z); ch_shares : option (list Z);
  ch_sigalgs : option (list Z);
  ch_etm : bool; ch_ems : bool;
  ch_alpn : option (list Z); ch_npn : bool; ch_sni : option Z;
  ch_rsl : option Z;
  ch_srp_user : option Z;
  ch_psk_ids : list Z; ch_psk_modes : option (list Z);
  ch_fallback : bool
}.

Fixpoint dedup_append (acc l : list Z) : list Z :=   (* acc ++ [x in l | x not in acc], order kept *)
  match l with
  | [] => acc
  | x :: t => dedup_append (if memZ x acc then acc else acc ++ [x]) t
  end.

Definition client_suites (c : Client) : list Z :=
  let st := cl_set c in
  let order := if cl_flavour c =? 1 then client_order_srp
               else if cl_flavour c =? 0 then client_order_cert else client_order_anon in
  get_suites st (st_maxV st) order.

Definition client_sigalgs (st : Settings) : list Z :=
  let l13 := if (4 <=? st_maxV st) && (st_minV st <=? 4) then sig_hashes_to_list st false None 4 else [] in
  let l12 := if (3 <=? st_maxV st) && (st_minV st <=? 3) then sig_hashes_to_list st false None 3 else [] in
  l13 ++ filter (fun s => negb (memZ s l13)) l12.

Definition client_groups (c : Client) : list Z :=
  let st := cl_set c in
  let suites := client_suites c in
  let tls13 := existsb (fun v => 3 <? v) (st_versions st) in
  let shares := st_shares st in
  (* TLS 1.3 needs supported_groups whatever the TLS 1.2 key exchanges are (/repo 40ad8d2) *)
  let groups0 :=
    (if existsb (fun s => memZ s ecdhAllSuites) suites || tls13 then curves_to_list st 4 else []) ++
    (if tls13 || existsb (fun s => memZ s dhAllSuites) suites then st_dhgroups st else []) in
  match groups0 with
  | [] => []
  | _ => if tls13 && negb (match shares with [] => true | _ => false end)
         then shares ++ filter (fun g => negb (memZ g shares)) groups0 else groups0
  end.

Definition client_offer (c : Client) : res CHello :=
  let st := cl_set c in
  let ext := negb (st_maxV st =? 0) in                 (* no extensions block for SSLv3-only *)
  let suites := client_suites c in
  let tls13 := existsb (fun v => 3 <? v) (st_versions st) in
  let sigalgs := if 3 <=? st_maxV st then Some (client_sigalgs st) else None in
  let shares := st_shares st in
  let groups := client_groups c in
  match sigalgs with
  | Some [] => if fix_sigalg_assert then Err (OtherExn 1800)   (* repaired: ValueError, configuration refused *)
               else client_crash                         (* `assert sig_list` *)
  | _ =>
  Ok {| ch_ver := Z.min (st_maxV st) 3;
        ch_suites := scsv_renego :: suites ++ (if cl_fallback c then [scsv_fallback] else []);
        ch_supver := if ext && tls13 then Some (st_versions st) else None;
        ch_groups := if ext then match groups with [] => None | _ => Some groups end else None;
        ch_shares := if ext && tls13 then Some shares else None;
        ch_sigalgs := if ext then sigalgs else None;
        ch_etm := ext && st_etm st; ch_ems := ext && st_ems st;
        ch_alpn := if ext then cl_alpn c else None;
        ch_npn := match cl_npn c with Some _ => true | None => false end;
        ch_sni := cl_sni c;
        ch_rsl := if ext then st_rsl st else None;
        ch_srp_user := if cl_flavour c =? 1 then Some (cl_srp_user c) else None;
        ch_psk_ids := if ext && (4 <=? st_maxV st)
                      then (match cl_ticket c with Some _ => [ticket_identity] | None => [] end) ++ map fst (st_psks st)
                      else [];
        ch_psk_modes := if ext && tls13 then Some (st_psk_modes st) else None;
        ch_fallback := cl_fallback c |}
  end.

(* ---- server: version, suites, certificate, group (everything up to the ServerHello) ------ *)
Definition list_max (l : list Z) (d : Z) : Z := fold_left Z.max l d.

(* the TLS 1.3 well-formedness checks of the ClientHello that an honest offer can fail *)
Definition server_tls13_sanity (ch : CHello) : res unit :=
  match ch_supver ch with
  | Some vs =>
      if memZ 4 vs then
        let has_psk := negb (match ch_psk_ids ch with [] => true | _ => false end) in
        let modes := match ch_psk_modes ch with Some m => m | None => [] end in
        let psk_ke_only := has_psk && negb (memZ 0 modes) in
        if has_psk && (match ch_psk_modes ch with None => true | Some _ => false end)
        then server_alert a_missing_extension else
        if psk_ke_only then Ok tt else
        match ch_groups ch, ch_shares ch with
        | None, _ => server_alert a_missing_extension
        | _, None => server_alert a_missing_extension
        | Some gs, Some sh =>
            if existsb (fun g => memZ g groups_forbidden13) gs && negb (memZ 3 vs)
            then server_alert a_illegal_parameter
            else if negb (forallb (fun g => memZ g gs) sh) then server_alert a_illegal_parameter
            else match ch_sigalgs ch with
                 | Some _ => Ok tt
                 | None => if has_psk then Ok tt else server_alert a_missing_extension
                 end
        end
      else Ok tt
  | None => Ok tt
  end.

Definition server_suites (s : Server) (ch : CHello) (v : Z) : list Z :=
  let st := sv_set s in
  let (ec, ff) :=
    match ch_groups ch with
    | None => (true, true)
    | Some cg =>
        let ec := match first_matching cg (curves_to_list st v) with Some _ => true | None => false end in
        let ff := match first_matching cg (st_dhgroups st) with
                  | Some _ => true
                  | None => negb (existsb is_ffdhe_id cg) end in
        (ec, ff)
    end in
  let l :=
    match sv_srp s with
    | Some _ => (match sv_cert s with Some _ => get_suites st v server_order_srp_cert | None => [] end)
                ++ get_suites st v server_order_srp
    | None =>
      match sv_cert s with
      | Some _ => (if ec || ff then get_suites st v server_order_cert_any else []) ++
                  (if ec then get_suites st v server_order_cert_ec else []) ++
                  (if ff then get_suites st v server_order_cert_ff else []) ++
                  get_suites st v server_order_cert_rsa
      | None => if sv_anon s then get_suites st v server_order_anon
                else get_suites st v server_order_psk
      end
    end in
  filter_for_version l v v.

Definition tls13_cert_curve_ok (g : Z) : bool :=
  (g =? g_secp256r1) || (g =? g_secp384r1) || (g =? g_secp521r1) || old_brainpool g.

(* _server_select_certificate for a single (certificate, key) pair *)
Definition server_select_suite (s : Server) (ch : CHello) (v : Z) (suites : list Z)
  : res (Z * option Z) :=
  let st := sv_set s in
  let c1 := filter_for_certificate suites (sv_cert s) in
  let prfs := map snd (filter (fun p => memZ (fst p) (ch_psk_ids ch)) (st_psks st)) in
  (* /repo 63e0638: the PRF of a matching PSK narrows the suites only when TLS 1.3 is negotiated *)
  let c2 := if fix_psk_prf_tls13_only && (v <? 4) then c1
            else match prfs with
                 | [] => c1
                 | _ => (* /repo ba94cd5: narrow only if one of the narrowed suites is on offer, else certificate handshake *)
                        if fix_psk_prf_fallback && negb (existsb (fun x => memZ x (ch_suites ch)) (filter_for_prfs c1 prfs))
                        then c1 else filter_for_prfs c1 prfs
                 end in
  (* repaired server: EdDSA certificates are refused with an alert before TLS 1.2 *)
  if fix_eddsa_server && (v <? 3) && (match sv_cert s with Some c => (ct_alg c =? 3) || (ct_alg c =? 4) | None => false end)
  then server_alert a_handshake_failure else
  match first_matching c2 (ch_suites ch) with
  | None =>
      if (match ch_groups ch with Some cg => existsb is_ffdhe_id cg | None => false end)
         && existsb (fun x => memZ x dhAllSuites) (ch_suites ch)
      then server_alert a_insufficient_security else server_alert a_handshake_failure
  | Some suite =>
      sig <- (if (3 <? v) && (match ch_sigalgs ch with None => true | _ => false end) then Ok None
              else pick_ske_sig st (ch_sigalgs ch) (sv_cert s) v) ;;
      match sv_cert s, ch_groups ch, ch_sigalgs ch with
      | Some c, Some cg, Some (_ :: _) =>
          if ct_alg c =? 2 then
            if (v <=? 3) && negb (memZ (ct_curve c) cg) then server_alert a_handshake_failure
            else if (4 <=? v) && negb (tls13_cert_curve_ok (ct_curve c)) then server_alert a_illegal_parameter
            else Ok (suite, sig)
          else Ok (suite, sig)
      | _, _, _ => Ok (suite, sig)
      end
  end.

(* TLS 1.3 group: (selected group, HelloRetryRequest sent?) *)
Definition server_group13 (st : Settings) (ch : CHello) : res (Z * bool) :=
  let pref := st_shares st ++ st_curves st ++ st_dhgroups st in
  let acceptable := filter (fun g => negb (old_brainpool g)) pref in
  match ch_shares ch with
  | None => server_crash
  | Some sh =>
      match first_matching acceptable sh with
      | Some _ =>
          (* _serverTLS13Handshake chooses again, over the unfiltered preference list *)
          match first_matching pref sh with Some g => Ok (g, false) | None => server_alert a_internal_error end
      | None =>
          match first_matching acceptable (match ch_groups ch with Some g => g | None => [] end) with
          | Some g => Ok (g, true)
          | None => server_alert a_handshake_failure
          end
      end
  end.

(* ---- what each side remembers ------------------------------------------------------------ *)
Record SecretIn := {
  si_version : Z; si_prf : Z; si_ems : bool;
  si_kex : Z;              (* 0 rsa, 1 dhe, 2 ecdhe, 3 srp, 4 tls1.3 (ec)dhe, 5 tls1.3 psk only *)
  si_group : option Z; si_dh_bits : option Z; si_psk : option Z; si_hrr : bool
}.

Record View := {
  vw_version : Z; vw_suite : Z; vw_etm : bool; vw_ems : bool;
  vw_alpn : option Z; vw_npn : option Z; vw_sni : option Z;
  vw_send_limit : Z; vw_recv_limit : Z;
  vw_server_chain : option Z; vw_client_chain : option Z;
  vw_sig : option Z;
  vw_secret : SecretIn
}.

(* what the server puts on the wire (abstractly), seen by the client *)
Record Flight := {
  fl_version : Z; fl_suite : Z; fl_etm : bool; fl_ems : bool;
  fl_alpn : option Z; fl_npn : option (list Z);
  fl_rsl : option Z;                   (* record_size_limit extension value *)
  fl_sentinel : Z;                     (* 0 none, 1 TLS 1.1 sentinel, 2 TLS 1.2 sentinel *)
  fl_cert : option Cert;               (* Certificate message *)
  fl_sig : option Z;                   (* scheme on ServerKeyExchange / CertificateVerify *)
  fl_group : option Z; fl_dh_bits : option Z; fl_srp_bits : option Z;
  fl_cert_req : option (list Z);       (* CertificateRequest signature algorithms *)
  fl_psk : option Z;                   (* index of the selected PSK identity *)
  fl_hrr : bool;
  fl_nst_len : Z                       (* length of the plaintext NewSessionTicket record, 0 = none *)
}.

Definition kex_of (suite : Z) : Z :=
  if memZ suite srpAllSuites then 3
  else if memZ suite dhAllSuites then 1
  else if memZ suite ecdhAllSuites then 2 else 0.

Definition two14 := 16384.

Definition opt_eqb (a b : option Z) : bool :=
  match a, b with Some x, Some y => x =? y | None, None => true | _, _ => false end.

(* _check_certchain_with_settings; who = 1000 client / 2000 server *)
Definition check_chain (who : Z) (st : Settings) (v : Z) (c : Cert) : res unit :=
  let al d := Err (OtherExn (who + d)) in
  let a := ct_alg c in
  if a =? 2 then
    if (v <=? 3) && negb (memZ (ct_curve c) (st_curves st)) then al a_handshake_failure
    else if (4 <=? v) && negb (tls13_cert_curve_ok (ct_curve c)) then al a_illegal_parameter
    else if (4 <=? v) && negb (if old_brainpool (ct_curve c)
                               then memZ (brainpool13_more_sig (ct_curve c)) (st_more_sigs st)   (* /repo 3899346 *)
                               else memZ (curve_hash (ct_curve c)) (st_ecdsa_hashes st)) then al a_illegal_parameter
    else Ok tt
  else if (a =? 3) || (a =? 4) then
    if v <? 3 then al a_illegal_parameter
    else if negb (memZ (a - 3) (st_more_sigs st)) then al a_handshake_failure
    else Ok tt
  else
    if ct_bits c <? st_min_key st then al a_handshake_failure
    else if st_max_key st <? ct_bits c then al a_handshake_failure
    else Ok tt.

(* client-auth: which scheme the client signs with (TLS 1.2) *)
Definition client_cv_alg (st : Settings) (cert : Cert) (offered : list Z) : option Z :=
  let valid := sig_hashes_to_list st (ct_small_key cert) (Some cert) 3 in
  match first_matching valid offered with
  | Some s => Some s
  | None => match valid with x :: _ => Some x | [] => None end
  end.

(* ---- TLS <= 1.2 after the hello stage ---------------------------------------------------- *)
Definition server_legacy (s : Server) (ch : CHello) (v suite : Z) : res (Flight * View) :=
  let st := sv_set s in
  let npn := if ch_npn ch then
               match ch_alpn ch, sv_alpn s with Some _, Some _ => None | _, _ => sv_npn s end
             else None in
  let etm := st_etm st && ch_etm ch && negb (memZ suite streamSuites) && negb (memZ suite aeadSuites) in
  ems <- (if st_ems st then
            if ch_ems ch && (negb fix_ems_sslv3_server || (0 <? v)) then Ok true
            else if st_req_ems st then server_alert a_insufficient_security else Ok false
          else Ok false) ;;
  alpn <- (match ch_alpn ch, sv_alpn s with
           | Some ca, Some sa => match first_matching ca sa with
                                 | Some p => Ok (Some p)
                                 | None => server_alert a_no_application_protocol end
           | _, _ => Ok None end) ;;
  let rsl := match ch_rsl ch, st_rsl st with Some _, Some r => Some (Z.min two14 r) | _, _ => None end in
  let sentinel := if (v =? 3) && (3 <? st_maxV st) then 2
                  else if (v <? 3) && (3 <=? st_maxV st) then 1 else 0 in
  let kex := kex_of suite in
  let authed := memZ suite certAllSuites || memZ suite ecdheEcdsaSuites || memZ suite dheDsaSuites in
  (* second _pickServerKeyExchangeSig call: always with version (3, 3) *)
  sig <- (if (kex =? 3) || authed then pick_ske_sig st (ch_sigalgs ch) (sv_cert s) 3 else Ok None) ;;
  srp_bits <- (if kex =? 3 then
                 match sv_srp s, ch_srp_user ch with
                 | Some db, Some u => match assoc u db with
                                      | Some b => Ok (Some b)
                                      | None => server_alert a_unknown_psk_identity end
                 | _, _ => server_alert a_unknown_psk_identity
                 end
               else Ok None) ;;
  dh <- (if kex =? 1 then
           match ch_groups ch with
           | Some cg =>
               match first_matching cg (st_dhgroups st) with
               | Some g => Ok (Some g, assoc g ffdhe_bits)
               | None => if existsb is_ffdhe_id cg && negb (match st_dhgroups st with [] => true | _ => false end)
                         then (if memZ suite anonSuites then crash_or fix_internal_error_anon 2000 a_internal_error
                               else server_alert a_internal_error)
                         else Ok (None, Some (st_dh_bits st))
               end
           | None => Ok (None, Some (st_dh_bits st))
           end
         else Ok (None, None)) ;;
  ec <- (if kex =? 2 then
           let cc := match ch_groups ch with Some cg => cg | None => [st_default_curve st] end in
           match first_matching cc (curves_to_list st v) with
           | Some g => Ok (Some g)
           | None => server_alert a_insufficient_security
           end
         else Ok None) ;;
  let group := if kex =? 2 then ec else fst dh in
  let signed := authed && negb (memZ suite certSuites) in
  (* an rsa-pss key cannot make the MD5+SHA1 PKCS#1 signature of TLS < 1.2: TLSInternalError *)
  _ <- (if signed && (v <? 3) && (match sv_cert s with Some c => ct_alg c =? 1 | None => false end)
        then (if kex =? 3 then crash_or fix_internal_error_srp 2000 a_internal_error
              else server_alert a_internal_error) else Ok tt) ;;
  (* an EdDSA key has no pre-TLS 1.2 signing mode: TypeError in the server, no alert *)
  _ <- (if signed && (v <? 3) && (match sv_cert s with Some c => (ct_alg c =? 3) || (ct_alg c =? 4) | None => false end)
        then server_crash else Ok tt) ;;
  let cert_req := if authed && negb (kex =? 3) && sv_req_cert s
                  then Some (sig_hashes_to_list st false None v) else None in
  let sent_cert := if authed then sv_cert s else None in
  let fl := {| fl_version := v; fl_suite := suite; fl_etm := etm; fl_ems := ems;
               fl_alpn := alpn; fl_npn := npn; fl_rsl := rsl; fl_sentinel := sentinel;
               fl_cert := sent_cert;
               fl_sig := if signed && (3 <=? v) then sig else None;
               fl_group := group; fl_dh_bits := snd dh; fl_srp_bits := srp_bits;
               fl_cert_req := cert_req; fl_psk := None; fl_hrr := false; fl_nst_len := sv_nst_len s |} in
  let limits := match ch_rsl ch, st_rsl st with
                | Some r, Some mine => (Z.min two14 r, Z.min two14 mine)
                | _, _ => (two14, two14) end in
  Ok (fl, {| vw_version := v; vw_suite := suite; vw_etm := etm; vw_ems := ems;
             vw_alpn := alpn; vw_npn := None; vw_sni := ch_sni ch;
             vw_send_limit := fst limits; vw_recv_limit := snd limits;
             (* unrepaired: DHE_DSS is missing from the test, the server forgets its own chain (finding C03-5) *)
             vw_server_chain := if memZ suite certAllSuites || memZ suite ecdheEcdsaSuites
                                   || (fix_dhe_dsa_chain && memZ suite dheDsaSuites)
                                then match sv_cert s with Some c => Some (ct_id c) | None => None end
                                else None;
             vw_client_chain := None; vw_sig := None;
             vw_secret := {| si_version := v; si_prf := prf_of suite; si_ems := ems; si_kex := kex;
                             si_group := group; si_dh_bits := snd dh; si_psk := None; si_hrr := false |} |}).

(* the client's side of TLS <= 1.2, given the server's flight; returns the client's view and
   what it sends back that the server still checks (client certificate, CertificateVerify scheme,
   NPN choice) *)
Definition cert_fits_suite (suite alg : Z) : bool :=
  if memZ suite ecdheEcdsaSuites then (alg =? 2) || (alg =? 3) || (alg =? 4)
  else if memZ suite dheDsaSuites then alg =? 5
  else if memZ suite certSuites then alg =? 0
  else (alg =? 0) || (alg =? 1).

Definition client_legacy (c : Client) (ch : CHello) (fl : Flight)
  : res (View * option Cert * option Z * option Z) :=
  let st := cl_set c in
  let v := fl_version fl in
  let suite := fl_suite fl in
  let npn := match cl_npn c, fl_npn fl with
             | Some mine, Some theirs =>
                 match first_matching mine theirs with
                 | Some p => Some p
                 | None => match mine with x :: _ => Some x | [] => None end end
             | _, _ => None end in
  let kex := kex_of suite in
  let authed := memZ suite certAllSuites || memZ suite ecdheEcdsaSuites || memZ suite dheDsaSuites in
  let my_cert := match fl_cert_req fl with Some _ => cl_cert c | None => None end in
  (* repaired client: an SSLv3 ServerHello must not carry extended_master_secret *)
  _ <- (if fix_ems_sslv3_client && (v =? 0) && fl_ems fl then client_alert a_illegal_parameter else Ok tt) ;;
  _ <- (if authed then
          match fl_cert fl with
          | Some sc =>
              _ <- check_chain 1000 st v sc ;;
              (* /repo ba3ad1b: the certificate's key type must fit the suite (RFC 5246 7.4.2) *)
              _ <- (if fix_cert_type_vs_suite && negb (cert_fits_suite suite (ct_alg sc))
                    then client_alert a_illegal_parameter else Ok tt) ;;
              (match fl_sig fl with
               | Some sg => if memZ sg (sig_hashes_to_list st false (Some sc) 3) then Ok tt
                            else client_alert a_illegal_parameter
               | None => Ok tt end)
          | None => client_alert a_illegal_parameter
          end
        else Ok tt) ;;
  (* repaired client: minKeySize / maxKeySize also bound the Diffie-Hellman prime *)
  _ <- (if fix_dh_size && (kex =? 1) then
          match fl_dh_bits fl with
          | Some b => if (b <? st_min_key st) || (st_max_key st <? b)
                      then client_alert a_insufficient_security else Ok tt
          | None => Ok tt end
        else Ok tt) ;;
  (* /repo a52e2eb: a CertificateRequest without rsa_pkcs1 algorithms is no longer refused by itself *)
  (* repaired client: an EdDSA certificate is refused with an alert before TLS 1.2 *)
  _ <- (match my_cert with
        | Some mc => if fix_eddsa_client && (v <? 3) && ((ct_alg mc =? 3) || (ct_alg mc =? 4))
                     then client_alert a_handshake_failure else Ok tt
        | None => Ok tt end) ;;
  _ <- (if kex =? 3 then
          match fl_srp_bits fl with
          | Some b => if b <? st_min_key st then client_alert a_insufficient_security
                      else if st_max_key st <? b then client_alert a_insufficient_security else Ok tt
          | None => Ok tt end
        else if kex =? 1 then
          match fl_dh_bits fl with
          | Some b => if b <? 1024 then client_alert a_insufficient_security else Ok tt
          | None => Ok tt end
        else if kex =? 2 then
          match fl_group fl with
          | Some g => if memZ g (curves_to_list st 4) then Ok tt else client_alert a_illegal_parameter
          | None => client_alert a_illegal_parameter end
        else Ok tt) ;;
  (* the extended master secret has no SSLv3 form: calc_key asserts, on both sides, no alert *)
  _ <- (if (v =? 0) && fl_ems fl then client_crash else Ok tt) ;;
  cv <- (match fl_cert_req fl, my_cert with
         | Some algs, Some mc =>
             if v =? 3 then match client_cv_alg st mc algs with
                            | Some a => Ok (Some a)
                            | None => crash_or fix_sigalg_tls12 1000 a_handshake_failure   (* validSigAlgs[0]: IndexError *)
                            end
             else Ok None
         | _, _ => Ok None end) ;;
  (* an rsa-pss key cannot make the TLS < 1.2 CertificateVerify signature: TLSInternalError -> internal_error *)
  _ <- (match my_cert with
        | Some mc => if (v <? 3) && (ct_alg mc =? 1) then client_alert a_internal_error else Ok tt
        | None => Ok tt end) ;;
  (* EdDSA keys cannot sign the TLS < 1.2 CertificateVerify: TypeError in the client, no alert *)
  _ <- (match my_cert with
        | Some mc => if (v <? 3) && ((ct_alg mc =? 3) || (ct_alg mc =? 4)) then client_crash else Ok tt
        | None => Ok tt end) ;;
  (* /repo 609ebb4: the client's own record_size_limit takes effect with its READ state, so the server's
     plaintext NewSessionTicket (fl_nst_len) is no longer subject to it *)
  let limits := match fl_rsl fl, st_rsl st with
                | Some r, Some mine => (r, Z.min two14 mine)
                | Some r, None => (r, two14)       (* unreachable for an honest server *)
                | None, _ => (two14, two14) end in
  Ok ({| vw_version := v; vw_suite := suite; vw_etm := fl_etm fl; vw_ems := fl_ems fl;
         vw_alpn := fl_alpn fl; vw_npn := npn; vw_sni := cl_sni c;
         vw_send_limit := fst limits; vw_recv_limit := snd limits;
         vw_server_chain := if authed then match fl_cert fl with Some sc => Some (ct_id sc) | None => None end
                            else None;
         vw_client_chain := match my_cert with Some mc => Some (ct_id mc) | None => None end;
         vw_sig := if (3 <=? v) && (memZ suite certAllSuites || memZ suite ecdheEcdsaSuites)
                      && negb (memZ suite certSuites) && negb (kex =? 3) then fl_sig fl
                   else if (3 <=? v) && (kex =? 3) && memZ suite certAllSuites then fl_sig fl else None;
         vw_secret := {| si_version := v; si_prf := prf_of suite; si_ems := fl_ems fl; si_kex := kex;
                         si_group := fl_group fl; si_dh_bits := fl_dh_bits fl; si_psk := None;
                         si_hrr := false |} |}, my_cert, cv, npn).

(* the server's handling of the client's second flight (TLS <= 1.2) *)
Definition server_legacy_finish (s : Server) (fl : Flight) (sv : View)
  (ccert : option Cert) (cv : option Z) (npn : option Z) : res View :=
  let st := sv_set s in
  let v := fl_version fl in
  chain <- (match fl_cert_req fl, ccert with
            | Some _, Some cc =>
                _ <- (if v =? 3 then
                        match cv with
                        | Some a => if memZ a (sig_hashes_to_list st false (Some cc) v) then Ok tt
                                    else server_alert a_illegal_parameter
                        | None => server_alert a_illegal_parameter end
                      else Ok tt) ;;
                _ <- check_chain 2000 st v cc ;;
                Ok (Some (ct_id cc))
            | _, _ => Ok None end) ;;
  Ok {| vw_version := vw_version sv; vw_suite := vw_suite sv; vw_etm := vw_etm sv; vw_ems := vw_ems sv;
        vw_alpn := vw_alpn sv;
        vw_npn := match fl_npn fl with Some _ => npn | None => None end;
        vw_sni := vw_sni sv; vw_send_limit := vw_send_limit sv; vw_recv_limit := vw_recv_limit sv;
        vw_server_chain := vw_server_chain sv; vw_client_chain := chain; vw_sig := vw_sig sv;
        vw_secret := vw_secret sv |}.

(* ---- TLS 1.3 ----------------------------------------------------------------------------- *)
Fixpoint index_where (f : Z -> bool) (l : list Z) (i : Z) : option (Z * Z) :=
  match l with [] => None | x :: t => if f x then Some (i, x) else index_where f t (i + 1) end.

Definition server_tls13_alpn (s : Server) (ch : CHello) : res (option Z) :=
  match ch_alpn ch with
  | Some ca => match sv_alpn s with
               | Some sa => Ok (first_matching ca sa)
               | None => Ok None                (* no ALPN configured: the extension is ignored *)
               end
  | None => Ok None end.

Definition server_tls13 (s : Server) (ch : CHello) (v suite : Z) (scheme : option Z) (grp : Z * bool)
  (alpn : option Z) : res (Flight * View) :=
  let st := sv_set s in
  let modes := match ch_psk_modes ch with Some m => m | None => [] end in
  let prf := prf_of suite in
  let psk := if negb (match ch_psk_ids ch with [] => true | _ => false end)
                && (memZ 0 modes || memZ 1 modes)
                && (negb (match st_psks st with [] => true | _ => false end)
                    || match sv_ticket s with Some _ => true | None => false end)
             then index_where (fun ident =>
                                 if existsb (fun p => (fst p =? ident)) (st_psks st)
                                 then match assoc ident (st_psks st) with Some h => h =? prf | None => false end
                                 else (ident =? ticket_identity) &&
                                      match sv_ticket s with Some h => h =? prf | None => false end)
                              (ch_psk_ids ch) 0
             else None in
  let has_key := match sv_cert s with Some _ => true | None => false end in
  dhe <- (match psk with
          | Some _ => if memZ 0 modes && memZ 0 (st_psk_modes st) then Ok true
                      else if memZ 1 modes && memZ 1 (st_psk_modes st) then Ok false
                      else server_alert a_handshake_failure
          | None => if has_key then Ok true else server_alert a_handshake_failure
          end) ;;
  let rsl := match ch_rsl ch, st_rsl st with Some _, Some r => Some (Z.min (two14 + 1) r) | _, _ => None end in
  let authed := match psk with None => true | Some _ => false end in
  let cert_req := if authed && sv_req_cert s
                  then Some (sig_hashes_to_list st false None v) else None in
  let fl := {| fl_version := v; fl_suite := suite; fl_etm := false; fl_ems := true;
               fl_alpn := alpn; fl_npn := None; fl_rsl := rsl; fl_sentinel := 0;
               fl_cert := if authed then sv_cert s else None;
               fl_sig := if authed then scheme else None;
               fl_group := if dhe then Some (fst grp) else None;
               fl_dh_bits := None; fl_srp_bits := None; fl_cert_req := cert_req;
               fl_psk := match psk with Some (i, _) => Some i | None => None end;
               fl_hrr := snd grp; fl_nst_len := 0 |} in
  let limits := match ch_rsl ch, st_rsl st with
                | Some r, Some mine => (Z.min two14 (r - 1), Z.min two14 (mine - 1))
                | _, _ => (two14, two14) end in
  Ok (fl, {| vw_version := v; vw_suite := suite; vw_etm := false; vw_ems := true;
             vw_alpn := alpn; vw_npn := None; vw_sni := ch_sni ch;
             vw_send_limit := fst limits; vw_recv_limit := snd limits;
             vw_server_chain := match sv_cert s with Some c => Some (ct_id c) | None => None end;
             vw_client_chain := None;
             vw_sig := if authed then scheme else None;
             vw_secret := {| si_version := v; si_prf := prf; si_ems := true;
                             si_kex := if dhe then 4 else 5;
                             si_group := if dhe then Some (fst grp) else None; si_dh_bits := None;
                             si_psk := match psk with Some (_, ident) => Some ident | None => None end;
                             si_hrr := snd grp |} |}).

Definition client_tls13 (c : Client) (ch : CHello) (fl : Flight)
  : res (View * option Cert * option Z) :=
  let st := cl_set c in
  let suite := fl_suite fl in
  _ <- (match fl_rsl fl with
        | Some r => match st_rsl st with
                    | None => client_alert a_illegal_parameter
                    | Some _ => if (64 <=? r) && (r <=? two14 + 1) then Ok tt
                                else client_alert a_illegal_parameter end
        | None => Ok tt end) ;;
  _ <- (match fl_psk fl, fl_cert fl with
        | None, Some sc =>
            _ <- check_chain 1000 st (fl_version fl) sc ;;
            (* /repo 7ffe769: the CertificateVerify scheme has to fit the key of the server's certificate *)
            (match fl_sig fl with
             | Some sg => if memZ sg (sig_hashes_to_list st false (Some sc) 4) then Ok tt
                          else client_alert a_illegal_parameter
             | None => Ok tt end)
        | None, None => client_crash
        | Some _, _ => Ok tt end) ;;
  let my_cert := match fl_cert_req fl with Some _ => cl_cert c | None => None end in
  cv <- (match fl_cert_req fl, my_cert with
         | Some algs, Some mc =>
             match first_matching (sig_hashes_to_list st (ct_small_key mc) (Some mc) 4) algs with
             | Some a => Ok (Some a)
             | None => crash_or fix_sigalg_tls13 1000 a_handshake_failure   (* toRepr(None) -> getattr fails *)
             end
         | _, _ => Ok None end) ;;
  let limits := match fl_rsl fl, st_rsl st with
                | Some r, Some mine => (r - 1, Z.min two14 (mine - 1))
                | _, _ => (two14, two14) end in
  let ident := match fl_psk fl with
               | Some i => nth_error (ch_psk_ids ch) (Z.to_nat i)
               | None => None end in
  Ok ({| vw_version := fl_version fl; vw_suite := suite; vw_etm := false; vw_ems := true;
         vw_alpn := fl_alpn fl; vw_npn := None; vw_sni := cl_sni c;
         vw_send_limit := fst limits; vw_recv_limit := snd limits;
         vw_server_chain := match fl_cert fl with Some sc => Some (ct_id sc) | None => None end;
         (* _clientTLS13Handshake stores its configured chain whether or not it was requested *)
         vw_client_chain := match cl_cert c with Some mc => Some (ct_id mc) | None => None end;
         vw_sig := fl_sig fl;
         vw_secret := {| si_version := fl_version fl; si_prf := prf_of suite; si_ems := true;
                         si_kex := match fl_group fl with Some _ => 4 | None => 5 end;
                         si_group := fl_group fl; si_dh_bits := None; si_psk := ident;
                         si_hrr := fl_hrr fl |} |}, my_cert, cv).

Definition server_tls13_finish (s : Server) (fl : Flight) (sv : View)
  (ccert : option Cert) (cv : option Z) : res View :=
  let st := sv_set s in
  chain <- (match fl_cert_req fl, ccert with
            | Some _, Some cc =>
                match cv with
                | Some a => if memZ a (sig_hashes_to_list st false (Some cc) 4) then
                              (* unrepaired: no _check_certchain_with_settings here, the key size / curve
                                 policy of the server is not applied to a TLS 1.3 client certificate *)
                              _ <- (if fix_tls13_client_key then check_chain 2000 st (fl_version fl) cc else Ok tt) ;;
                              Ok (Some (ct_id cc))
                            else server_alert a_illegal_parameter
                | None => server_alert a_illegal_parameter end
            | _, _ => Ok None end) ;;
  Ok {| vw_version := vw_version sv; vw_suite := vw_suite sv; vw_etm := vw_etm sv; vw_ems := vw_ems sv;
        vw_alpn := vw_alpn sv; vw_npn := None; vw_sni := vw_sni sv;
        vw_send_limit := vw_send_limit sv; vw_recv_limit := vw_recv_limit sv;
        vw_server_chain := match fl_psk fl with None => vw_server_chain sv | Some _ => vw_server_chain sv end;
        vw_client_chain := chain; vw_sig := vw_sig sv; vw_secret := vw_secret sv |}.

(* ---- the client's checks on the ServerHello (_clientGetServerHello + sentinel) ----------- *)
Definition client_check_hello (c : Client) (ch : CHello) (fl : Flight) : res unit :=
  let st := cl_set c in
  let v := fl_version fl in
  if v <? st_minV st then client_alert a_protocol_version
  else if (st_maxV st <? v) && negb (memZ v (st_versions st)) then client_alert a_protocol_version
  else if negb (memZ (fl_suite fl) (filter_for_version (ch_suites ch) v v)) then client_alert a_illegal_parameter
  else if (if fix_req_ems_tls13 then (v <=? 3) && negb (fl_ems fl) else negb (fl_ems fl && (v <=? 3)))
          && st_req_ems st then client_alert a_insufficient_security
  else if (v <=? 3) && (match fl_alpn fl, ch_alpn ch with
                         | Some p, Some l => negb (memZ p l) | Some _, None => true | None, _ => false end)
       then client_alert a_illegal_parameter
  else if (v <=? 3) && (match fl_rsl fl with Some r => negb ((64 <=? r) && (r <=? two14)) | None => false end)
       then client_alert a_illegal_parameter
  else if (3 <? st_maxV st) && (v <=? 3) && negb (fl_sentinel fl =? 0) then client_alert a_illegal_parameter
  else if (st_maxV st =? 3) && (v <? 3) && (fl_sentinel fl =? 1) then client_alert a_illegal_parameter
  else Ok tt.

(* ---- the whole untampered run ------------------------------------------------------------ *)
Record Outcome := { oc_client : View; oc_server : View; oc_flight : Flight; oc_hello : CHello;
                    oc_client_cert : option Cert }.

Definition server_min_version (st : Settings) (ch : CHello) : res unit :=
  let real := match ch_supver ch with
              | Some vs => if 3 <=? ch_ver ch
                           then list_max (filter (fun v => (0 <=? v) && (v <=? 4)) vs) (ch_ver ch)
                           else ch_ver ch
              | None => ch_ver ch end in
  if real <? st_minV st then server_alert a_protocol_version else Ok tt.

Definition server_pick_version (st : Settings) (ch : CHello) : res Z :=
  match ch_supver ch with
  | Some vs => match first_matching (st_versions st) vs with
               | Some v => Ok v
               | None => server_alert a_protocol_version
               end
  | None => if st_maxV st <? ch_ver ch then Ok (Z.min (st_maxV st) 3) else Ok (Z.min (ch_ver ch) 3)
  end.

(* version, suite, signature scheme picked for the certificate, TLS 1.3 group *)
Definition server_hello_stage (s : Server) (ch : CHello) (hello2_len : Z) : res (Z * Z * option Z * (Z * bool)) :=
  let st := sv_set s in
  _ <- server_min_version st ch ;;
  _ <- server_tls13_sanity ch ;;
  v <- server_pick_version st ch ;;
  _ <- (if (v <? st_maxV st) && ch_fallback ch then server_alert a_inappropriate_fallback else Ok tt) ;;
  _ <- (match ch_rsl ch with Some r => if r <? 64 then server_alert a_illegal_parameter else Ok tt
                           | None => Ok tt end) ;;
  '(suite, sig) <- server_select_suite s ch v (server_suites s ch v) ;;
  grp <- (if 3 <? v then server_group13 st ch else Ok (0, false)) ;;
  (* /repo 1280376: the advertised record_size_limit no longer applies to the plaintext second
     ClientHello, so its measured length (hello2_len) has no influence any more *)
  Ok (v, suite, sig, grp).

Definition negotiate (c : Client) (s : Server) : res Outcome :=
  ch <- client_offer c ;;
  '(v, suite, sig, grp) <- server_hello_stage s ch (cl_hello2_len c) ;;
  if 3 <? v then
    (* the ServerHello is on the wire (and checked by the client) before the server builds
       EncryptedExtensions *)
    '(fl0, _) <- server_tls13 s ch v suite sig grp None ;;
    _ <- client_check_hello c ch fl0 ;;
    alpn <- server_tls13_alpn s ch ;;
    '(fl, sv0) <- server_tls13 s ch v suite sig grp alpn ;;
    '(cv, ccert, cvalg) <- client_tls13 c ch fl ;;
    sv <- server_tls13_finish s fl sv0 ccert cvalg ;;
    Ok {| oc_client := cv; oc_server := sv; oc_flight := fl; oc_hello := ch; oc_client_cert := ccert |}
  else
    '(fl, sv0) <- server_legacy s ch v suite ;;
    _ <- client_check_hello c ch fl ;;
    '(cv, ccert, cvalg, npn) <- client_legacy c ch fl ;;
    sv <- server_legacy_finish s fl sv0 ccert cvalg npn ;;
    Ok {| oc_client := cv; oc_server := sv; oc_flight := fl; oc_hello := ch; oc_client_cert := ccert |}.

(* ---- exporter (keyingMaterialExporter): which function of which inputs ------------------- *)
Section Exporter.
  Variable prf_tls10 : list Z -> list Z -> Z -> list Z.          (* secret inputs abstracted *)
  Variable prf_tls12 : Z -> list Z -> list Z -> Z -> list Z.     (* hash, label, seed, length *)
  Variable hkdf_export : Z -> list Z -> Z -> list Z.             (* hash, label, length *)
  Definition forbidden_label (l : list Z) : bool := false.
  Definition exporter (vw : View) (label : list Z) (len : Z) : res (list Z) :=
    let v := vw_version vw in
    if v <? 1 then Err ValueError
    else if v <? 3 then Ok (prf_tls10 label [] len)
    else if v =? 3 then Ok (prf_tls12 (si_prf (vw_secret vw)) label [] len)
    else if v =? 4 then Ok (hkdf_export (si_prf (vw_secret vw)) label len)
    else Err AssertionError.
End Exporter.
