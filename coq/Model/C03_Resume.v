(* C03 -- the abbreviated (resumed) handshake of TLS <= 1.2, definitions only.
   Hand-modelled from _serverGetClientHello (resumption branch), _clientResume and the resumed path of
   _handshakeClientAsyncHelper; tied by correspondence with live histories (a full handshake followed by a
   connection that offers the session by ID or by RFC 5077 ticket).  TLS 1.3 resumption needs no separate
   function: it is `negotiate` with the ticket offered as PSK identity 999 (cl_ticket / sv_ticket). *)
From Coq Require Import ZArith List Bool.
From TV Require Import Base.Prelude Gen.C03Tables Model.C03_Negotiate.
Import ListNotations.
Open Scope Z_scope.

Record Resumed := { rs_resumed : bool; rs_client : View; rs_server : View }.

(* what an endpoint holds after resuming: everything that belongs to the session comes from the stored
   session, what is negotiated per connection (version, ALPN, record limits) from this connection *)
Definition resumed_view (sess : View) (v : Z) (alpn : option Z) (send recv : Z) : View :=
  {| vw_version := v; vw_suite := vw_suite sess; vw_etm := vw_etm sess; vw_ems := vw_ems sess;
     vw_alpn := alpn; vw_npn := None; vw_sni := vw_sni sess;
     vw_send_limit := send; vw_recv_limit := recv;
     vw_server_chain := vw_server_chain sess; vw_client_chain := vw_client_chain sess; vw_sig := None;
     vw_secret := vw_secret sess |}.

Definition full_handshake (c2 : Client) (s2 : Server) : res Resumed :=
  o <- negotiate c2 s2 ;;
  Ok {| rs_resumed := false; rs_client := oc_client o; rs_server := oc_server o |}.

(* sc / ss: the session as stored by the client / by the server (cache entry or ticket contents) *)
(* by_ticket: the session reaches the server inside an RFC 5077 ticket rather than through its session cache.
   Since /repo 19b1cb2 the ticket carries the SRP user name as well; the one remaining difference modelled here is
   that a ticket needs ClientHello extensions, which an SSLv3-only client does not send. *)
Definition resume_legacy (by_ticket : bool) (c2 : Client) (s2 : Server) (sc ss : View) : res Resumed :=
  ch <- client_offer c2 ;;
  (* the client refuses (ValueError) to offer a session whose suite it no longer enables or whose
     server name differs from the one asked for now *)
  if negb (memZ (vw_suite sc) (client_suites c2)) then Err (OtherExn 1800) else
  if negb (opt_eqb (vw_sni sc) (cl_sni c2)) then Err (OtherExn 1800) else
  let st := sv_set s2 in
  _ <- server_min_version st ch ;;
  _ <- server_tls13_sanity ch ;;
  v <- server_pick_version st ch ;;
  _ <- (if (v <? st_maxV st) && ch_fallback ch then server_alert a_inappropriate_fallback else Ok tt) ;;
  _ <- (match ch_rsl ch with Some r => if r <? 64 then server_alert a_illegal_parameter else Ok tt
                           | None => Ok tt end) ;;
  (* an SSLv3-only client sends no extensions: it neither asked for a ticket nor can offer one, and a server that
     resumes by ticket only (no session cache) does a full handshake *)
  if by_ticket && (st_maxV (cl_set c2) =? 0) then full_handshake c2 s2 else
  if 3 <? v then full_handshake c2 s2                  (* TLS 1.3 selected: the old session is not used *)
  else if negb (memZ (vw_suite ss) (server_suites s2 ch v)) then full_handshake c2 s2
  else if negb (memZ (vw_suite ss) (ch_suites ch)) then server_alert a_illegal_parameter
  else if (match ch_sni ch with Some n => negb (opt_eqb (vw_sni ss) (Some n)) | None => false end)
       then server_alert a_handshake_failure
  else if vw_etm ss && negb (ch_etm ch) then server_alert a_illegal_parameter
  else if vw_ems ss && negb (ch_ems ch) then server_alert a_handshake_failure
  else if negb (vw_ems ss) && ch_ems ch then full_handshake c2 s2
  else
    alpn <- (match ch_alpn ch, sv_alpn s2 with
             | Some ca, Some sa => match first_matching ca sa with
                                   | Some p => Ok (Some p)
                                   | None => server_alert a_no_application_protocol end
             | _, _ => Ok None end) ;;
    let rsl := match ch_rsl ch, st_rsl st with Some _, Some r => Some (Z.min two14 r) | _, _ => None end in
    let sentinel := if (v =? 3) && (3 <? st_maxV st) then 2
                    else if (v <? 3) && (3 <=? st_maxV st) then 1 else 0 in
    let fl := {| fl_version := v; fl_suite := vw_suite ss; fl_etm := vw_etm ss; fl_ems := vw_ems ss;
                 fl_alpn := alpn; fl_npn := None; fl_rsl := rsl; fl_sentinel := sentinel;
                 fl_cert := None; fl_sig := None; fl_group := None; fl_dh_bits := None; fl_srp_bits := None;
                 fl_cert_req := None; fl_psk := None; fl_hrr := false; fl_nst_len := 0 |} in
    let slim := match ch_rsl ch, st_rsl st with
                | Some r, Some mine => (Z.min two14 r, Z.min two14 mine)
                | _, _ => (two14, two14) end in
    _ <- client_check_hello c2 ch fl ;;
    if negb (fl_suite fl =? vw_suite sc) then client_alert a_illegal_parameter else
    let clim := match rsl, st_rsl (cl_set c2) with
                | Some r, Some mine => (r, Z.min two14 mine)
                | Some r, None => (r, two14)
                | None, _ => (two14, two14) end in
    Ok {| rs_resumed := true;
          (* /repo 7678352: no ALPN in this ServerHello => the client reports none (it used to keep the stored
             session's appProto) *)
          rs_client := resumed_view sc v alpn (fst clim) (snd clim);
          rs_server := resumed_view ss v alpn (fst slim) (snd slim) |}.
