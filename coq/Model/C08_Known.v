(* C08: program points of the translated hello regions at which the faithful model CAN crash
   (each one is a finding, see Props/C08.v `*_refuted` and design/C08.md).  The partial
   crash-freedom theorems say: no crash anywhere else. *)
From Coq Require Import List String.
Import ListNotations.
Open Scope string_scope.

(* _serverGetClientHello, ClientHello well-formedness checks.
   Before the fixes b10bb95 (AlertDescription.decoder_error -> decode_error) and 5fb1773 (empty
   supported_versions => decode_error) of /repo this list was
     [ "AlertDescription.decoder_error#1"; "AlertDescription.decoder_error#2";
       "iter:ext.versions#1"; "in:ver_ext.versions#1" ]
   (each site with a witness replayed on the live server).  None is reachable any more. *)
Definition ch_known_sites : list string := [].

(* _clientGetServerHello, ServerHello checks: none known *)
Definition sh_known_sites : list string := [].

(* _serverGetClientHello, key_share checks of the SECOND ClientHello after a HelloRetryRequest.
   Before /repo 79180d8 (proposed fix C08-17) this list was [ "len:ext.client_shares#1" ]: a
   key_share extension with an EMPTY BODY parses to client_shares = None and `len(None)` raised
   TypeError.  Not reachable any more. *)
Definition hrr_ch_known_sites : list string := [].

(* _clientGetServerHello, handling of a HelloRetryRequest: none known *)
Definition hrr_sh_known_sites : list string := [].
