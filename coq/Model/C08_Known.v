(* C08: program points of the translated hello regions at which the faithful model CAN crash
   (each one is a finding, see Props/C08.v `*_refuted` and design/C08.md).  The partial
   crash-freedom theorems say: no crash anywhere else. *)
From Coq Require Import List String.
Import ListNotations.
Open Scope string_scope.

(* _serverGetClientHello, ClientHello well-formedness checks *)
Definition ch_known_sites : list string :=
  [ "AlertDescription.decoder_error#1";   (* tlsconnection.py ~3611: no such alert name *)
    "AlertDescription.decoder_error#2";   (* ~3616 *)
    "iter:ext.versions#1";                (* ~3456: supported_versions with empty body -> versions is None *)
    "in:ver_ext.versions#1" ].            (* ~3565: same, reached when client_version < (3,3) *)

(* _clientGetServerHello, ServerHello checks: none known *)
Definition sh_known_sites : list string := [].
