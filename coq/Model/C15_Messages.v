(* C15 -- one format term per tlslite-ng message / extension class and context.
   Definitions only.  Each term is the reading of the class's parse()/write()
   pair (file:line given); that reading is checked against the running class on
   every run (harness/props/C15.py), and every term is proved well-formed in
   Proofs/C15_Messages.v so that the generic theorems apply to it.

   Handshake messages: tlslite's parse() starts after the 1-byte handshake type
   (the dispatcher consumed it) while write() emits it, so a message is
   [Msg ty body] = type byte, 3-byte length, body consumed exactly. *)
From Coq Require Import ZArith List Bool.
From TV Require Import Base.Prelude Model.C15_Codec Model.C15_Fmt.
Import ListNotations.
Open Scope Z_scope.

Definition Bytes : fmt := FRest 0 None.
Definition FEmpty : fmt := FFix 0.
Definition FFail : fmt := FConst 0 1.          (* accepts nothing, encodes nothing *)
Fixpoint fseq (l : list fmt) : fmt :=
  match l with [] => FEmpty | [f] => f | f :: tl => FSeq f (fseq tl) end.
Definition Msg (ty : Z) (body : fmt) : fmt := FSeq (FConst 1 ty) (FBounded 3 body).

(* ---- extension payloads (extensions.py) ------------------------------------- *)
Definition KeyShareEntry := FSeq (FU 2) (FVar 2).                         (* :1800 *)
Definition PskIdentity := FSeq (FVar 2) (FU 4).                           (* :1990 *)
Definition TACK := fseq [FFix 64; FU 1; FU 1; FU 4; FFix 32; FFix 64].    (* :1130 *)

(* _universalExtensions (:2223): ClientHello, CertificateRequest 1.3,
   EncryptedExtensions, NewSessionTicket, and the fallback of every other context *)
Definition ext_universal : list (Z * fmt) := [
  (0,     FOpt (FList 2 (FSeq (FU 1) (FVar 2))));                        (* SNIExtension :620 *)
  (5,     FOpt (fseq [FU 1; FList 2 (FVar 2); FVar 2]));                  (* StatusRequestExtension :1700 *)
  (9,     FOpt (FVarList 1 1));                                           (* ClientCertTypeExtension *)
  (10,    FOpt (FVarList 2 2));                                           (* SupportedGroupsExtension *)
  (11,    FOpt (FVarList 1 1));                                           (* ECPointFormatsExtension *)
  (12,    FVar 1);                                                        (* SRPExtension :1040 *)
  (13,    FOpt (FVarTuples 1 2 2));                                       (* SignatureAlgorithmsExtension *)
  (16,    FList 2 (FVar 1));                                              (* ALPNExtension :1640 *)
  (13172, FRep (FVar 1));                                                 (* NPNExtension :1120 *)
  (21,    Bytes);                                                         (* PaddingExtension *)
  (65281, FOpt (FVar 1));                                                 (* RenegotiationInfoExtension *)
  (15,    FU 1);                                                          (* HeartbeatExtension (non-empty) *)
  (43,    FOpt (FVarTuples 1 2 1));                                       (* SupportedVersionsExtension *)
  (51,    FOpt (FList 2 KeyShareEntry));                                  (* ClientKeyShareExtension :1880 *)
  (50,    FOpt (FVarTuples 1 2 2));                                       (* SignatureAlgorithmsCertExtension *)
  (41,    FOpt (FSeq (FList 2 PskIdentity) (FList 2 (FVar 1))));          (* PreSharedKeyExtension :2060 *)
  (45,    FOpt (FVarList 1 1));                                           (* PskKeyExchangeModesExtension *)
  (44,    FOpt (FVar 2));                                                 (* CookieExtension *)
  (28,    FOpt (FU 2));                                                   (* RecordSizeLimitExtension *)
  (35,    Bytes);                                                         (* SessionTicketExtension *)
  (27,    FOpt (FVarList 2 1));                                           (* CompressedCertificateExtension *)
  (34,    FOpt (FVarTuples 1 2 2))                                        (* DelegatedCredentialExtension (client) *)
].

(* _serverExtensions (:2249): ServerHello *)
Definition ext_server_only : list (Z * fmt) := [
  (9,     FU 1);                                                          (* ServerCertTypeExtension (non-empty) *)
  (62208, FSeq (FList 2 TACK) (FU 1));                                    (* TACKExtension :1260 *)
  (51,    FOpt KeyShareEntry);                                            (* ServerKeyShareExtension *)
  (43,    FSeq (FU 1) (FU 1));                                            (* SrvSupportedVersionsExtension *)
  (41,    FOpt (FU 2))                                                    (* SrvPreSharedKeyExtension *)
].
(* _hrrExtensions (:2262): HelloRetryRequest *)
Definition ext_hrr_only : list (Z * fmt) := [
  (51,    FU 2);                                                          (* HRRKeyShareExtension *)
  (43,    FSeq (FU 1) (FU 1))
].
(* x509.py:462-497 DelegatedCredential: valid_time, dc_cert_verify_algorithm, SubjectPublicKeyInfo<3>
   (DER content outside the model), algorithm, signature<2> *)
Definition DelegatedCredentialF := fseq [FU 4; FU 1; FU 1; FVar 3; FU 1; FU 1; FVar 2].
(* _certificateExtensions (:2257): CertificateEntry *)
Definition ext_cert_only : list (Z * fmt) := [
  (5,     FSeq (FConst 1 1) (FVar 3));                                    (* CertificateStatusExtension *)
  (34,    DelegatedCredentialF)                                           (* DelegatedCredentialCertExtension :1360 *)
].

Inductive ectx := CtxUniversal | CtxServer | CtxHRR | CtxCert.
Definition ext_table (c : ectx) : list (Z * fmt) :=
  match c with
  | CtxUniversal => ext_universal
  | CtxServer => ext_server_only ++ ext_universal
  | CtxHRR => ext_hrr_only ++ ext_universal
  | CtxCert => ext_cert_only ++ ext_universal
  end.

(* TLSExtension.parse/write (:160-250): 2-byte type, 2-byte length, payload parsed by
   the class registered for the context (unknown types: opaque) and wholly consumed *)
Definition Ext (c : ectx) : fmt := FTag 2 (fun t => FBounded 2 (sel_of (ext_table c) Bytes t)).
Definition ExtList (c : ectx) : fmt := FList 2 (Ext c).
(* the extension block of ClientHello (:637), ServerHello/HRR (:948), CertificateRequest 1.3 (:1322) and
   EncryptedExtensions (:2009): parse() additionally rejects two extensions of the same type; a list with
   a repeated type is outside the value domain (write() does not check) *)
Definition ExtListU (c : ectx) : fmt := FBounded 2 (FCheck uniq_tags (FRep (Ext c))).

(* ---- record layer / small messages (messages.py) -------------------------------- *)
Definition fmt_RecordHeader3 := fseq [FU 1; FU 1; FU 1; FU 2].            (* :52-66 *)
Definition fmt_Alert := FSeq (FU 1) (FU 1).                               (* :185-196 *)
Definition fmt_ChangeCipherSpec := FU 1.                                  (* :1906 (whole buffer) *)
Definition fmt_Heartbeat := fseq [FU 1; FVar 2; Bytes].                   (* :2397-2416 *)
Definition fmt_KeyUpdate := Msg 24 (FU 1).                                (* :2447 *)
Definition fmt_HelloRequest := Msg 0 FEmpty.                              (* :722 *)
Definition fmt_ServerHelloDone := Msg 14 FEmpty.                          (* :1625 *)

(* ---- hellos ---------------------------------------------------------------------- *)
(* ClientHello, TLS form (:621-637, :686-701) *)
Definition fmt_ClientHello := Msg 1 (fseq [
  FU 1; FU 1; FFix 32; FVarR 1 0 32; FVarList 2 2; FVarList 1 1; FOpt (ExtListU CtxUniversal)]).

(* ServerHello / HelloRetryRequest (:928-970): the extension context is selected by the
   value of the 32-byte random, modelled as a 32-byte tag *)
Definition HRR_RANDOM : Z :=
  be_val [207;33;173;116;229;154;97;17;190;29;140;2;30;101;184;145;
          194;162;17;22;122;187;140;94;7;158;9;226;200;168;51;156].
Definition fmt_ServerHello := Msg 2 (fseq [
  FU 1; FU 1;
  FTag 32 (fun rnd => fseq [FVar 1; FU 2; FU 1;
                            FOpt (ExtListU (if rnd =? HRR_RANDOM then CtxHRR else CtxServer))])]).

Definition fmt_EncryptedExtensions := Msg 8 (ExtListU CtxUniversal).       (* :1986-2014 *)

(* ---- certificates ------------------------------------------------------------------ *)
Definition fmt_Certificate12 := Msg 11 (FList 3 (FVarR 3 1 16777215)).    (* :1210-1232, :1245 *)
Definition CertificateEntry := FSeq (FVar 3) (ExtList CtxCert).           (* :1079-1115 *)
Definition fmt_Certificate13 := Msg 11 (FSeq (FVar 1) (FList 3 CertificateEntry)).   (* :1202-1208 *)
Definition fmt_CertificateRequest (tls12 : bool) := Msg 13 (              (* :1335-1362 *)
  if tls12 then fseq [FVarList 1 1; FVarTuples 1 2 2; FList 2 (FVar 2)]
  else fseq [FVarList 1 1; FList 2 (FVar 2)]).
Definition fmt_CertificateRequest13 := Msg 13 (FSeq (FVar 1) (ExtListU CtxUniversal)).
Definition fmt_CertificateVerify (tls12 : bool) := Msg 15 (               (* :1870-1894 *)
  if tls12 then fseq [FU 1; FU 1; FVar 2] else FVar 2).
Definition fmt_CertificateStatus := Msg 22 (FSeq (FU 1) (FVar 3)).        (* :2323-2337 *)

(* ---- key exchange ------------------------------------------------------------------- *)
Inductive kx := KxSRP | KxDH | KxECDH | KxRSA.
Inductive sigform := SigNone | SigOld | Sig12.
Definition ske_params (k : kx) : fmt :=                                   (* :1499-1571 *)
  match k with
  | KxSRP => fseq [FVar 2; FVar 2; FVar 1; FVar 2]
  | KxDH => fseq [FVar 2; FVar 2; FVar 2]
  | KxECDH => fseq [FConst 1 3; FU 2; FVar 1]
  | KxRSA => FFail
  end.
Definition ske_sig (s : sigform) : fmt :=
  match s with SigNone => FEmpty | SigOld => FVar 2 | Sig12 => fseq [FU 1; FU 1; FVar 2] end.
Definition fmt_ServerKeyExchange (k : kx) (s : sigform) := Msg 12 (FSeq (ske_params k) (ske_sig s)).
Definition fmt_ClientKeyExchange (k : kx) (ssl3 : bool) := Msg 16 (       (* :1724-1778 *)
  match k with
  | KxSRP => FVar 2
  | KxRSA => if ssl3 then Bytes else FVar 2
  | KxDH => FVarR 2 1 65535
  | KxECDH => FVar 1
  end).

(* ---- finished, NPN, tickets ----------------------------------------------------------- *)
Definition fmt_Finished (n : Z) := Msg 20 (FFix n).                       (* :1955-1971; n = 36 / 12 / hash length *)
Definition fmt_NextProtocol := Msg 67 (FSeq (FVar 1) (FVar 1)).           (* :1929-1941 *)
Definition fmt_NewSessionTicket13 := Msg 4 (fseq [                        (* :2044-2077 *)
  FU 4; FU 4; FVar 1; FVar 2; ExtList CtxUniversal]).
Definition fmt_NewSessionTicket10 := Msg 4 (FSeq (FU 4) (FVar 2)).        (* :2096-2117 *)
(* SessionTicketPayload (:2228-2275): the leading 2-byte version (0..3) selects the layout *)
Definition stp_base := [FVar 2; FU 1; FU 1; FU 2; FVar 1; FU 8].
Definition stp_certs := FList 3 CertificateEntry.
Definition fmt_SessionTicketPayload := FTag 2 (fun ver =>
  if ver =? 0 then fseq stp_base
  else if ver =? 1 then fseq (stp_base ++ [stp_certs])
  else if ver =? 2 then fseq (stp_base ++ [stp_certs; FU 1; FU 1; FVar 2])
  else if ver =? 3 then fseq (stp_base ++ [stp_certs; FU 1; FU 1; FVar 2; FVar 1])   (* + srp_username<1> *)
  else FFail).

(* names used by the harness *)
Definition fmt_Ext (c : ectx) := Ext c.

(* ---- irregular layouts ------------------------------------------------------------------- *)
(* CompressedCertificate (:2554-2590): framing only; that the blob inflates to a Certificate
   body of the declared size is outside the model *)
Definition fmt_CompressedCertificate := Msg 25 (fseq [FU 2; FU 3; FVarR 3 1 16777215]).

(* RecordHeader2 (:106-150): the first byte carries the header form (0x80 = 2-byte header,
   otherwise 3-byte header with a padding byte), the security-escape bit and the high length bits *)
Definition fmt_RecordHeader2 := FTag 1 (fun b => if 128 <=? b then FU 1 else FSeq (FU 1) (FU 1)).

(* RecordHeader2 as the API sees it -- create(length, padding, securityEscape) -- and the wire value
   it denotes.  The header FORM decides how many length bits exist: 2-byte header (no padding, no
   escape) 15 bits, 3-byte header 14 bits; anything else does not fit and must be refused. *)
Definition rh2_short (pad : Z) (esc : bool) : bool := (pad =? 0) && negb esc.
Definition rh2_val (len pad : Z) (esc : bool) : option val :=
  if rh2_short pad esc then
    if (0 <=? len) && (len <? 32768)
    then Some (VTag (128 + len / 256) (VInt (len mod 256))) else None
  else
    if (0 <=? len) && (len <? 16384) && (0 <=? pad) && (pad <? 256)
    then Some (VTag ((if esc then 64 else 0) + len / 256) (VPair (VInt (len mod 256)) (VInt pad)))
    else None.
(* what parse() reports for a wire value *)
Definition rh2_fields (v : val) : option (Z * Z * bool) :=
  match v with
  | VTag b0 (VInt b1) => if 128 <=? b0 then Some ((b0 - 128) * 256 + b1, 0, false) else None
  | VTag b0 (VPair (VInt b1) (VInt pad)) =>
      if b0 <? 128 then Some ((b0 mod 64) * 256 + b1, pad, 64 <=? b0) else None
  | _ => None
  end.

(* ClientHello, SSLv2 form (:605-621, :653-671): type, version, then the three lengths
   (modelled as tags) followed by the three fields of exactly those lengths; a cipher-spec
   length that is not a multiple of 3 is rejected by the length check *)
Definition fmt_ClientHelloSSL2 := FSeq (FConst 1 1) (fseq [FU 1; FU 1;
  FTag 2 (fun cl => FTag 2 (fun sl => FTag 2 (fun rl =>
    if (0 <=? cl) && (cl mod 3 =? 0) && (0 <=? sl) && (0 <=? rl)
    then fseq [FFix cl; FFix sl; FFix rl] else FFail)))]).

(* ---- example value used by Props/C15.v ------------------------------------------------ *)
(* a ClientHello with session id, two suites, SNI + supported_groups + an unknown extension *)
Definition ex_client_hello : val :=
  VPair (VInt 1) (VPair (VInt 3) (VPair (VInt 3) (VPair (VBytes (repeat 7 32)) (VPair (VBytes [1;2;3])
   (VPair (vlist [VInt 4865; VInt 49199]) (VPair (vlist [VInt 0])
   (VSome (vlist [
      VTag 0 (VSome (vlist [VPair (VInt 0) (VBytes [97;46;98])]));
      VTag 10 (VSome (vlist [VInt 29; VInt 23]));
      VTag 4660 (VBytes [1;2;3;4;5])])))))))).
