(* C08 (work / allocation part): cost-instrumented hand model of tlslite's
   utils/codec.py Parser and of the parsing loops built on it, of the
   Defragmenter extraction loop, of the ASN.1 child walk and of the
   CompressedCertificate decompression step.

   Definitions only; the proofs are in Proofs/C08_Work.v.  The model is tied to
   the code by harness/c08_work.py on every run (same inputs, same outcome,
   traced interpreter lines <= K * model steps + K0).

   Every parser returns  (outcome, steps, alloc) : M _ , the counters being
   reported on the error paths as well (the property is about malformed input):
     steps = number of Parser primitive calls + loop iterations + loop tests,
     alloc = number of bytes / list slots allocated (slices, list cells,
             the [0]*n pre-allocation of getVarList/getFixList).
   All loops take explicit fuel;  Err OutOfFuel  is a visible outcome. *)
From Coq Require Import ZArith List Bool Lia.
From TV Require Import Base.Prelude.
Import ListNotations.
Open Scope Z_scope.

Definition SyntaxErr : exn := OtherExn 1.            (* Python SyntaxError (not DecodeError) *)
Definition BadCertificateErr : exn := OtherExn 2.    (* tlslite.errors.BadCertificateError  *)

(* ---- outcome + cost ---------------------------------------------------------- *)
Definition M (A : Type) : Type := (res A * Z * Z)%type.
Definition m_out {A} (m : M A) : res A := fst (fst m).
Definition m_steps {A} (m : M A) : Z := snd (fst m).
Definition m_alloc {A} (m : M A) : Z := snd m.

Definition mret {A} (a : A) : M A := (Ok a, 0, 0).
Definition merr {A} (e : exn) : M A := (Err e, 0, 0).
Definition mtick (s a : Z) : M unit := (Ok tt, s, a).
Definition mbind {A B} (m : M A) (f : A -> M B) : M B :=
  match m with
  | (Ok x, s, a) => match f x with (r, s', a') => (r, s + s', a + a') end
  | (Err e, s, a) => (Err e, s, a)
  end.
Notation "x <~ m ;; k" := (mbind m (fun x => k))
  (at level 61, m at next level, right associativity).
Notation "' p <~ m ;; k" := (mbind m (fun p => k))
  (at level 61, p pattern, m at next level, right associativity).

(* a parser step: value and the bytes that remain *)
Definition PR (A : Type) : Type := M (A * list Z).

(* ---- Parser primitives (codec.py 300-347) ------------------------------------- *)
Definition be_int (l : list Z) : Z := fold_left (fun acc b => acc * 256 + b) l 0.

(* getFixBytes(n): one step; allocates the slice *)
Definition p_fix (n : Z) (bs : list Z) : PR (list Z) :=
  if zlen bs <? n then (Err DecodeError, 1, 0)
  else let t := firstn (Z.to_nat n) bs in
       (Ok (t, skipn (Z.to_nat n) bs), 1, zlen t).

(* get(n) = bytes_to_int(getFixBytes(n)) *)
Definition p_get (n : Z) (bs : list Z) : PR Z :=
  '(t, r) <~ p_fix n bs ;; mret (be_int t, r).

(* getVarBytes(ll) *)
Definition p_var (ll : Z) (bs : list Z) : PR (list Z) :=
  '(n, r) <~ p_get ll bs ;; p_fix n r.

(* "if parser.getRemainingLength(): raise DecodeError(trailing data)" *)
Definition p_end {A} (v : A) (rest : list Z) : M A :=
  match rest with [] => mret v | _ :: _ => merr DecodeError end.

(* ---- the loop shapes used by the code ---------------------------------------- *)
Inductive loopkind :=
| UntilEmpty      (* while p.getRemainingLength() [> 0]:            state unused      *)
| LenCheck        (* while not p.atLengthCheck():    state = lengthCheck - consumed  *)
| IndexNe         (* while index != total:           state = total - index           *)
| Count.          (* for _ in range(k):              state = k                       *)

Definition loop_test (k : loopkind) (st : Z) (bs : list Z) : res bool :=
  match k with
  | UntilEmpty => Ok (match bs with [] => false | _ :: _ => true end)
  | LenCheck => if st =? 0 then Ok false else if st <? 0 then Err DecodeError else Ok true
  | IndexNe => Ok (negb (st =? 0))
  | Count => Ok (0 <? st)
  end.

Definition loop_upd (k : loopkind) (st consumed : Z) : Z :=
  match k with
  | UntilEmpty => st
  | LenCheck | IndexNe => st - consumed
  | Count => st - 1
  end.

(* one test per round (1 step), one list cell per element (1 alloc) *)
Fixpoint gloop {A} (k : loopkind) (elem : list Z -> PR A) (fuel : nat) (st : Z)
         (bs : list Z) : PR (list A) :=
  match loop_test k st bs with
  | Err e => (Err e, 1, 0)
  | Ok false => (Ok ([], bs), 1, 0)
  | Ok true =>
    match fuel with
    | O => (Err OutOfFuel, 0, 0)
    | S f =>
      _ <~ mtick 1 1 ;;
      '(v, r) <~ elem bs ;;
      '(vs, r') <~ gloop k elem f (loop_upd k st (zlen bs - zlen r)) r ;;
      mret (v :: vs, r')
    end
  end.

(* fuel = number of remaining bytes + 1 *)
Definition run_loop {A} (k : loopkind) (elem : list Z -> PR A) (st : Z) (bs : list Z)
  : PR (list A) := gloop k elem (S (length bs)) st bs.

(* startLengthCheck(ll); while not atLengthCheck(): elem; stopLengthCheck() *)
Definition lencheck_loop {A} (elem : list Z -> PR A) (ll : Z) (bs : list Z) : PR (list A) :=
  '(L, r) <~ p_get ll bs ;; run_loop LenCheck elem L r.

(* Parser(sub-bytes); while p2.getRemainingLength(): elem  -- consumes everything *)
Definition loop_all {A} (elem : list Z -> PR A) (bs : list Z) : M (list A) :=
  '(vs, _) <~ run_loop UntilEmpty elem 0 bs ;; mret vs.

(* ---- getFixList / getVarList / getVarTupleList (codec.py 349-414) -------------- *)
Definition p_fix_list (len cnt : Z) (bs : list Z) : PR (list Z) :=
  _ <~ mtick 1 (Z.max 0 cnt) ;;                    (* l = [0] * lengthList *)
  run_loop Count (p_get len) cnt bs.

Definition parse_var_list (len ll : Z) (bs : list Z) : PR (list Z) :=
  '(n, r) <~ p_get ll bs ;;
  if len =? 0 then merr ZeroDivisionError
  else if n mod len =? 0 then p_fix_list len (n / len) r
  else merr DecodeError.

Definition parse_var_tuple_list (el en ll : Z) (bs : list Z) : PR (list (list Z)) :=
  '(n, r) <~ p_get ll bs ;;
  if el * en =? 0 then merr ZeroDivisionError
  else if n mod (el * en) =? 0
       then run_loop Count (run_loop Count (p_get el) en) (n / (el * en)) r
       else merr DecodeError.

(* ---- extension parsers (extensions.py) ---------------------------------------- *)
(* SNIExtension.parse 817-846 *)
Definition sni_elem (bs : list Z) : PR (Z * list Z) :=
  '(t, r1) <~ p_get 1 bs ;; '(nm, r2) <~ p_var 2 r1 ;; mret ((t, nm), r2).
Definition parse_sni (bs : list Z) : M (option (list (Z * list Z))) :=
  match bs with
  | [] => mret None
  | _ :: _ => '(vs, r) <~ lencheck_loop sni_elem 2 bs ;; p_end (Some vs) r
  end.

(* ALPNExtension.parse 1634-1654 *)
Definition alpn_elem (bs : list Z) : PR (list Z) :=
  '(n, r) <~ p_get 1 bs ;; p_fix n r.
Definition parse_alpn (bs : list Z) : M (list (list Z)) :=
  '(vs, r) <~ lencheck_loop alpn_elem 2 bs ;; p_end vs r.

(* NPNExtension.parse 1152-1166 *)
Definition parse_npn (bs : list Z) : M (list (list Z)) := loop_all (p_var 1) bs.

(* KeyShareEntry.parse 1824-1834, ClientKeyShareExtension.parse 1907-1933 *)
Definition key_share_elem (bs : list Z) : PR (Z * list Z) :=
  '(g, r1) <~ p_get 2 bs ;; '(k, r2) <~ p_var 2 r1 ;; mret ((g, k), r2).
Definition parse_key_shares (bs : list Z) : M (option (list (Z * list Z))) :=
  match bs with
  | [] => mret None
  | _ :: _ => '(vs, r) <~ lencheck_loop key_share_elem 2 bs ;; p_end (Some vs) r
  end.

(* PskIdentity.parse 2056-2060, PreSharedKeyExtension.parse 2101-2125 *)
Definition psk_identity_elem (bs : list Z) : PR (Z * list Z) :=
  '(idn, r1) <~ p_var 2 bs ;; '(age, r2) <~ p_get 4 r1 ;; mret ((age, idn), r2).
Definition parse_psk (bs : list Z)
  : M (option (list (Z * list Z) * list (list Z))) :=
  match bs with
  | [] => mret None
  | _ :: _ =>
    '(ids, r1) <~ lencheck_loop psk_identity_elem 2 bs ;;
    '(bnd, r2) <~ lencheck_loop (p_var 1) 2 r1 ;;
    p_end (Some (ids, bnd)) r2
  end.

(* StatusRequestExtension.parse 1737-1760 *)
Definition parse_status_request (bs : list Z)
  : M (option (Z * list (list Z) * list Z)) :=
  match bs with
  | [] => mret None
  | _ :: _ =>
    '(ty, r1) <~ p_get 1 bs ;;
    '(ids, r2) <~ lencheck_loop (p_var 2) 2 r1 ;;
    '(ext, r3) <~ p_var 2 r2 ;;
    p_end (Some (ty, ids, ext)) r3
  end.

(* ---- generic extension list (TLSExtension.parse 211-253, _parseExt 203-209) ---- *)
(* h = the type-specific parser run on a fresh Parser over the payload copy *)
Definition ext_elem {B} (h : Z -> list Z -> M B) (bs : list Z) : PR (Z * B) :=
  '(t, r1) <~ p_get 2 bs ;;
  '(pl, r2) <~ p_var 2 r1 ;;
  v <~ h t pl ;;
  mret ((t, v), r2).

Definition h_raw (t : Z) (pl : list Z) : M (list Z) := mret pl.

(* p2 = Parser(...); while p2.getRemainingLength(): TLSExtension().parse(p2)
   -- messages.py ClientHello 634-636, ServerHello, CertificateRequest (1.3), EncryptedExtensions,
   NewSessionTicket; all but NewSessionTicket are followed by a duplicate test (below) *)
Definition parse_ext_list_with {B} (h : Z -> list Z -> M B) (bs : list Z) : M (list (Z * B)) :=
  loop_all (ext_elem h) bs.
Definition parse_ext_list (bs : list Z) : M (list (Z * list Z)) :=
  parse_ext_list_with h_raw bs.

(* the extension block of a ClientHello with the type-specific parsers above
   dispatched on the extension type (all other types: raw payload); the
   summary is a flat list of (tag, bytes) *)
Definition summ := list (Z * list Z).
Definition summ_names (l : list (list Z)) : summ := map (fun x => (0, x)) l.
Definition h_client_hello (t : Z) (pl : list Z) : M summ :=
  if t =? 0 then v <~ parse_sni pl ;; mret (match v with None => [(-1, [])] | Some l => l end)
  else if t =? 16 then v <~ parse_alpn pl ;; mret (summ_names v)
  else if t =? 13172 then v <~ parse_npn pl ;; mret (summ_names v)
  else if t =? 51 then v <~ parse_key_shares pl ;; mret (match v with None => [(-1, [])] | Some l => l end)
  else if t =? 41 then v <~ parse_psk pl ;;
       mret (match v with None => [(-1, [])] | Some (ids, bnd) => ids ++ (-2, []) :: summ_names bnd end)
  else if t =? 5 then v <~ parse_status_request pl ;;
       mret (match v with None => [(-1, [])]
                        | Some (ty, ids, ext) => (ty, ext) :: summ_names ids end)
  else mret [(-3, pl)].
(* ClientHello.parse 637-639 (since 6da5459; ServerHello.parse 948-950 has the same test):
     if len(set(e.extType for e in self.extensions)) != len(self.extensions):
         raise DecodeError("Duplicate extension in ClientHello")
   building the set: one step and one cell per parsed extension *)
Fixpoint has_dup (l : list Z) : bool :=
  match l with
  | [] => false
  | x :: tl => existsb (Z.eqb x) tl || has_dup tl
  end.
Definition reject_duplicates {B} (exts : list (Z * B)) : M (list (Z * B)) :=
  _ <~ mtick (zlen exts) (zlen exts) ;;
  if has_dup (map fst exts) then merr DecodeError else mret exts.
Definition parse_client_hello_exts (bs : list Z) : M (list (Z * summ)) :=
  exts <~ parse_ext_list_with h_client_hello bs ;; reject_duplicates exts.
(* EncryptedExtensions.parse 2006-2012 and CertificateRequest._parse_tls13 1316-1325 (since
   7769c7a): the same extension loop followed by the same duplicate test.  The loops that still
   have NO duplicate test -- NewSessionTicket.parse 2088-2090 and the per-entry extension list of
   CertificateEntry.parse 1113-1117 -- are parse_ext_list / lencheck_loop (ext_elem h_raw). *)
Definition parse_ext_list_nodup (bs : list Z) : M (list (Z * list Z)) :=
  exts <~ parse_ext_list bs ;; reject_duplicates exts.

(* ---- certificate lists (messages.py) ----------------------------------------- *)
Section Cert.
  (* X509().parseBinary as an oracle: None = accepted, Some e = raises e; its
     own cost is not counted here (ASN.1 walk below) *)
  Variable cert_chk : list Z -> option exn.

  (* CertificateEntry.parse 1095-1112 *)
  Definition cert_entry (bs : list Z) : PR (list Z * list (Z * list Z)) :=
    '(c, r1) <~ p_var 3 bs ;;
    match cert_chk c with
    | None => '(exts, r2) <~ lencheck_loop (ext_elem h_raw) 2 r1 ;; mret ((c, exts), r2)
    | Some e => merr e
    end.

  (* Certificate._parse_tls13 1170-1175 + _parse_certificate_list 1164-1168;
     input = body after the handshake type byte *)
  Definition parse_cert_list (bs : list Z)
    : M (list Z * list (list Z * list (Z * list Z))) :=
    '(L, r0) <~ p_get 3 bs ;;
    '(ctx, r1) <~ p_var 1 r0 ;;
    '(lst, r2) <~ p_var 3 r1 ;;
    es <~ loop_all cert_entry lst ;;
    if zlen r0 - zlen r2 =? L then mret (ctx, es) else merr DecodeError.

  (* Certificate._parse_tls12 1177-1200: "except SyntaxError: raise BadCertificateError" *)
  Definition is_syntax_error (e : exn) : bool :=
    match e with
    | DecodeError => true
    | OtherExn c => (c =? 1) || (c =? 2)
    | _ => false
    end.
  Definition cert12_elem (bs : list Z) : PR (list Z) :=
    '(c, r) <~ p_var 3 bs ;;
    match c with
    | [] => merr DecodeError
    | _ :: _ =>
      match cert_chk c with
      | None => mret (c, r)
      | Some e => merr (if is_syntax_error e then BadCertificateErr else e)
      end
    end.
  Definition parse_cert_list12 (bs : list Z) : M (list (list Z)) :=
    '(L, r0) <~ p_get 3 bs ;;
    '(total, r1) <~ p_get 3 r0 ;;
    '(cs, r2) <~ run_loop IndexNe cert12_elem total r1 ;;
    if zlen r0 - zlen r2 =? L then mret cs else merr DecodeError.
End Cert.

(* CertificateRequest._parse_tls12 1326-1331: the certificate_authorities loop *)
Definition parse_ca_list (bs : list Z) : PR (list (list Z)) :=
  '(total, r) <~ p_get 2 bs ;; run_loop IndexNe (p_var 2) total r.

(* CertificateRequest._parse_tls12 1320-1333 (sig_algs only for version (3,3)) *)
Definition parse_cert_request12 (tls12 : bool) (bs : list Z)
  : M (list Z * list (list Z) * list (list Z)) :=
  '(L, r0) <~ p_get 3 bs ;;
  '(tys, r1) <~ parse_var_list 1 1 r0 ;;
  '(sigs, r2) <~ (if tls12 then parse_var_tuple_list 1 2 2 r1 else mret ([], r1)) ;;
  '(cas, r3) <~ parse_ca_list r2 ;;
  if zlen r0 - zlen r3 =? L then mret (tys, sigs, cas) else merr DecodeError.

(* ---- Defragmenter (defragmenter.py 41-124) ------------------------------------ *)
(* size handlers *)
Definition static_size (size : Z) (buf : list Z) : option Z :=
  if zlen buf <? size then None else Some size.
Definition dyn_size (off sz : Z) (buf : list Z) : option Z :=
  if zlen buf <? off + sz then None
  else let pl := be_int (firstn (Z.to_nat sz) (skipn (Z.to_nat off) buf)) in
       if zlen buf - (off + sz) <? pl then None else Some (off + sz + pl).
Definition hs_size : list Z -> option Z := dyn_size 1 3.

(* repeated get_message() on one buffer:
     msgs, remaining buffer, iterations (calls), bytes allocated for the
     returned messages (buf[:length]), bytes moved by "del buf[:length]" when
     the tail is shifted down (language-level cost; CPython >= 3.4 defers it) *)
Fixpoint defrag_loop (h : list Z -> option Z) (fuel : nat) (buf : list Z)
  : res (list (list Z) * list Z * Z * Z * Z) :=
  match h buf with
  | None => Ok ([], buf, 1, 0, 0)
  | Some n =>
    match fuel with
    | O => Err OutOfFuel
    | S f =>
      let msg := firstn (Z.to_nat n) buf in
      let rest := skipn (Z.to_nat n) buf in
      '(ms, r, it, al, mv) <- defrag_loop h f rest ;;
      Ok (msg :: ms, r, it + 1, al + zlen msg, mv + zlen rest)
    end
  end.
Definition defrag_get_messages (buf : list Z) := defrag_loop hs_size (length buf) buf.
Definition defrag_get_static (size : Z) (buf : list Z) :=
  defrag_loop (static_size size) (length buf) buf.

(* ---- ASN1Parser (utils/asn1parser.py) ----------------------------------------- *)
(* skip_bytes(n) *)
Definition p_skip (n : Z) (bs : list Z) : PR unit :=
  if zlen bs <? n then (Err DecodeError, 1, 0) else (Ok (tt, skipn (Z.to_nat n) bs), 1, 0).
(* _getASN1Length 118-126 *)
Definition asn1_length (bs : list Z) : PR Z :=
  '(f, r) <~ p_get 1 bs ;;
  if f <=? 127 then mret (f, r) else p_get (Z.land f 127) r.
(* one child: skip type, length, skip value *)
Definition asn1_child (bs : list Z) : PR Z :=
  '(_, r1) <~ p_skip 1 bs ;; '(n, r2) <~ asn1_length r1 ;; '(_, r3) <~ p_skip n r2 ;;
  mret (zlen bs - zlen r3, r3).
(* getChildCount 76-93 *)
Definition asn1_child_count (value : list Z) : M Z :=
  vs <~ loop_all asn1_child value ;; mret (zlen vs).
(* getChildBytes(which) 95-111: re-walks children 0..which from the start *)
Definition asn1_child_bytes (value : list Z) (which : Z) : M (list Z) :=
  '(szs, r) <~ run_loop Count asn1_child (which + 1) value ;;
  match rev szs with
  | [] => merr (OtherExn 3)                        (* which < 0: UnboundLocalError *)
  | last :: _ =>
    let stop := zlen value - zlen r in
    let t := firstn (Z.to_nat last) (skipn (Z.to_nat (stop - last)) value) in
    _ <~ mtick 1 (zlen t) ;; mret t
  end.
(* the common idiom  for i in range(getChildCount()): getChild(i)  *)
Fixpoint asn1_children_from (value : list Z) (n : nat) (i : Z) : M (list (list Z)) :=
  match n with
  | O => mret []
  | S n' => c <~ asn1_child_bytes value i ;; cs <~ asn1_children_from value n' (i + 1) ;;
            mret (c :: cs)
  end.
Definition asn1_all_children (value : list Z) : M (list (list Z)) :=
  k <~ asn1_child_count value ;; asn1_children_from value (Z.to_nat k) 0.

(* ---- CompressedCertificate (messages.py 2496-2574) ----------------------------- *)
Definition IllegalParameterErr : exn := OtherExn 4.   (* TLSIllegalParameterException *)
Definition be3 (n : Z) : list Z := [(n / 65536) mod 256; (n / 256) mod 256; n mod 256].

Section Decompress.
  (* the decompressor: oracle taking the data and the output limit; it returns what it
     produced and whether it stopped cleanly (zlib: eof reached, no unconsumed_tail, no
     unused_data) *)
  Variable dec : list Z -> Z -> res (list Z * bool).
  Variable algo_ok : Z -> bool.                 (* zlib always; brotli/zstd if installed *)
  Variable cert_chk : list Z -> option exn.

  (* _decompress, zlib path since e070e0f:
       dec = zlib.decompressobj(15); out = dec.decompress(data, expected_length + 1)
       if dec.unconsumed_tail or not dec.eof or dec.unused_data: raise ValueError  (-> BadCertificateError)
       if len(out) != expected_length: raise BadCertificateError
     alloc = size of what the decompressor produced (it exists in memory before the tests) *)
  Definition decompress_cert (data : list Z) (expected : Z) : M (list Z) :=
    match dec data (expected + 1) with
    | Err _ => (Err BadCertificateErr, 1, 0)
    | Ok (out, clean) =>
      if clean && (zlen out =? expected) then (Ok out, 1, zlen out)
      else (Err BadCertificateErr, 1, zlen out)
    end.

  (* parse(): 3-byte body length, algorithm(2), expected_length(3), compressed<3> *)
  Definition parse_compressed_cert (bs : list Z) : M (Z * Z * list Z) :=
    '(L, r0) <~ p_get 3 bs ;;
    '(algo, r1) <~ p_get 2 r0 ;;
    '(expected, r2) <~ p_get 3 r1 ;;
    '(comp, r3) <~ p_var 3 r2 ;;
    match comp with
    | [] => merr DecodeError
    | _ :: _ =>
      if zlen r0 - zlen r3 =? L
      then if algo_ok algo
           then out <~ decompress_cert comp expected ;; mret (algo, expected, out)
           else merr IllegalParameterErr
      else merr DecodeError
    end.

  (* ... followed by Certificate.parse of  expected_length(3) ++ decompressed *)
  Definition parse_compressed_cert_full (bs : list Z) :=
    '(_, expected, out) <~ parse_compressed_cert bs ;;
    _ <~ mtick 1 (3 + zlen out) ;;
    parse_cert_list cert_chk (be3 expected ++ out).
End Decompress.

(* toy decompressors used by the Examples (run-length: pairs (count, byte)) *)
Fixpoint rle_expand (data : list Z) : list Z :=
  match data with
  | c :: b :: tl => repeat b (Z.to_nat c) ++ rle_expand tl
  | _ => []
  end.
Definition rle_dec_limited (data : list Z) (lim : Z) : res (list Z * bool) :=
  Ok (firstn (Z.to_nat lim) (rle_expand data), zlen (rle_expand data) <=? lim).
Definition rle_dec_unlimited (data : list Z) (lim : Z) : res (list Z * bool) :=
  Ok (rle_expand data, true).

(* ---- helpers for the correspondence check -------------------------------------- *)
Definition bytes_ok (l : list Z) : Prop := Forall (fun b => 0 <= b < 256) l.

Definition summ_eqb (a b : summ) : bool :=
  Nat.eqb (length a) (length b) &&
  forallb (fun p => Z.eqb (fst (fst p)) (fst (snd p)) && list_eqb (snd (fst p)) (snd (snd p)))
          (combine a b).
Definition summ_opt (v : option summ) : summ :=
  match v with None => [(-1, [])] | Some l => l end.
Definition summ_flat (l : list (Z * summ)) : summ :=
  flat_map (fun p => (1000 + fst p, []) :: snd p) l.
Definition summ_ints (l : list Z) : summ := map (fun x => (x, [])) l.
Definition summ_tuples (l : list (list Z)) : summ := map (fun x => (-4, x)) l.
Definition summ_certs (v : list Z * list (list Z * list (Z * list Z))) : summ :=
  (-5, fst v) :: flat_map (fun e => (-6, fst e) :: snd e) (snd v).
Definition mmap {A B} (f : A -> B) (m : M A) : M B := v <~ m ;; mret (f v).
Definition mfst {A} (m : PR A) : M A := mmap fst m.

(* ---- the shapes of the exported statements ------------------------------------------ *)
(* run on any byte string: never out of fuel, steps linear in the input length *)
Definition linear_work {A} (f : list Z -> M A) (c c0 : Z) : Prop :=
  forall bs, bytes_ok bs ->
    m_out (f bs) <> Err OutOfFuel /\ 0 <= m_steps (f bs) <= c * zlen bs + c0.
Definition linear_alloc {A} (f : list Z -> M A) (c c0 : Z) : Prop :=
  forall bs, bytes_ok bs -> 0 <= m_alloc (f bs) <= c * zlen bs + c0.
(* a loop body: whenever it parses an element, strictly fewer bytes remain *)
Definition strictly_consumes {A} (elem : list Z -> PR A) : Prop :=
  forall bs v rest s a, bytes_ok bs -> elem bs = (Ok (v, rest), s, a) ->
    (length rest < length bs)%nat.
(* both at once (used for the type-specific handlers of an extension list) *)
Definition top {A} (cs ks ca ka : Z) (f : list Z -> M A) : Prop :=
  forall bs, bytes_ok bs ->
    m_out (f bs) <> Err OutOfFuel /\
    0 <= m_steps (f bs) <= cs * zlen bs + ks /\
    0 <= m_alloc (f bs) <= ca * zlen bs + ka.
