(* C14 -- the fragmentation loop of TLSRecordLayer._sendMsg (tlslite/tlsrecordlayer.py):
     while len(buf) > recordSize: send buf[:recordSize]; buf = buf[recordSize:]
     send buf
   as the list of record payloads it produces.  Definitions only. *)
From Coq Require Import ZArith List Bool.
From TV Require Import Base.Prelude.
Import ListNotations.
Open Scope Z_scope.

Fixpoint fragment_fuel (fuel : nat) (k : Z) (buf : list Z) : list (list Z) :=
  match fuel with
  | O => [buf]
  | S f => if k <? zlen buf
           then firstn (Z.to_nat k) buf :: fragment_fuel f k (skipn (Z.to_nat k) buf)
           else [buf]
  end.
(* every iteration removes k >= 1 bytes: length buf iterations always suffice (Proofs: fragment_last_fits) *)
Definition fragment (k : Z) (buf : list Z) : list (list Z) := fragment_fuel (length buf) k buf.

Definition FragCase := (Z * list Z * list (list Z))%type.
Fixpoint lls_eqb (a c : list (list Z)) : bool :=
  match a, c with [], [] => true | x :: a', y :: c' => list_eqb x y && lls_eqb a' c' | _, _ => false end.
Definition chk_fragment (c : FragCase) : bool := let '(k, buf, recs) := c in lls_eqb (fragment k buf) recs.
