(* C10: key agreement.  Model of keyexchange.py FFDHKeyExchange (__init__, calc_public_value,
   _normalise_peer_share, calc_shared_key), ECDHKeyExchange._non_zero_check and the X25519/X448
   branch of ECDHKeyExchange.calc_shared_key, and an executable model of utils/x25519.py
   (the Montgomery ladder: "modelled, not proved").  Definitions only. *)
From Coq Require Import ZArith List Bool.
From TV Require Import Base.Prelude Model.C10_RsaMath Model.C10_RsaSig.
Import ListNotations.
Open Scope Z_scope.

Definition TLSIllegalParameter : exn := OtherExn 30.

(* a peer share is an int (TLS <= 1.2, parsed from the message) or a byte string (TLS 1.3) *)
Inductive share := ShareInt (y : Z) | ShareBytes (b : list Z).
Inductive dhval := ValInt (y : Z) | ValBytes (b : list Z).

(* keyexchange.py:960-972 *)
Definition ffdh_init (g p : Z) : res unit :=
  if (1 <? g) && (g <? p) then Ok tt else Err TLSIllegalParameter.

(* keyexchange.py:985-999 *)
Definition ffdh_calc_public (tls13 : bool) (g p x : Z) : res dhval :=
  let y := powmod g x p in
  if (y =? 1) || (y =? p - 1) then Err TLSIllegalParameter else
  if tls13 then Ok (ValBytes (numberToByteArray y (numBytes p))) else Ok (ValInt y).

(* keyexchange.py:1001-1009 *)
Definition ffdh_normalise (p : Z) (s : share) : res Z :=
  match s with
  | ShareInt y => Ok y
  | ShareBytes b => if negb (numBytes p =? zlen b) then Err TLSIllegalParameter
                    else Ok (bytesToNumber b)
  end.

(* keyexchange.py:1011-1030 *)
Definition ffdh_calc_shared (tls13 : bool) (p x : Z) (s : share) : res (list Z) :=
  y <- ffdh_normalise p s ;;
  if negb ((2 <=? y) && (y <? p - 1)) then Err TLSIllegalParameter else
  let S := powmod y x p in
  if (S =? 1) || (S =? p - 1) then Err TLSIllegalParameter else
  if tls13 then Ok (numberToByteArray S (numBytes p)) else Ok (numberToByteArray_min S).

(* keyexchange.py:1038-1048 *)
Definition non_zero_check (v : list Z) : res unit :=
  let summa := fold_left Z.lor v 0 in
  if summa =? 0 then Err TLSIllegalParameter else Ok tt.

(* ---- utils/x25519.py -------------------------------------------------------- *)
Definition le_to_Z (l : list Z) : Z := fold_right (fun b a => b + 256 * a) 0 l.
Fixpoint Z_to_le (k : nat) (x : Z) : list Z :=
  match k with O => [] | S k' => (x mod 256) :: Z_to_le k' (x / 256) end.

Definition set_nth (l : list Z) (i : nat) (f : Z -> Z) : list Z :=
  firstn i l ++ match nth_error l i with Some x => [f x] | None => [] end ++ skipn (S i) l.

(* decodeUCoordinate: masks the top bits of the last byte when bits % 8 != 0 *)
Definition decodeUCoordinate (u : list Z) (bits : Z) : Z :=
  let u' := if bits mod 8 =? 0 then u
            else set_nth u (length u - 1) (fun b => Z.land b (Z.shiftl 1 (bits mod 8) - 1)) in
  le_to_Z u'.
Definition decodeScalar25519 (k : list Z) : Z :=
  let k := set_nth k 0 (fun b => Z.land b 248) in
  let k := set_nth k 31 (fun b => Z.lor (Z.land b 127) 64) in
  le_to_Z k.
Definition decodeScalar448 (k : list Z) : Z :=
  let k := set_nth k 0 (fun b => Z.land b 252) in
  let k := set_nth k 55 (fun b => Z.lor b 128) in
  le_to_Z k.

Definition cswap (swap : Z) (a b : Z) : Z * Z := if swap =? 0 then (a, b) else (b, a).

Definition ladder_step (k x_1 a24 p : Z) (st : Z * Z * Z * Z * Z) (t : Z) : Z * Z * Z * Z * Z :=
  let '(x_2, z_2, x_3, z_3, swap) := st in
  let k_t := Z.land (Z.shiftr k t) 1 in
  let swap := Z.lxor swap k_t in
  let '(x_2, x_3) := cswap swap x_2 x_3 in
  let '(z_2, z_3) := cswap swap z_2 z_3 in
  let swap := k_t in
  let A := (x_2 + z_2) mod p in
  let AA := powmod A 2 p in
  let B := (x_2 - z_2) mod p in
  let BB := powmod B 2 p in
  let E := (AA - BB) mod p in
  let C := (x_3 + z_3) mod p in
  let D := (x_3 - z_3) mod p in
  let DA := (D * A) mod p in
  let CB := (C * B) mod p in
  let x_3 := powmod (DA + CB) 2 p in
  let z_3 := (x_1 * powmod (DA - CB) 2 p) mod p in
  let x_2 := (AA * BB) mod p in
  let z_2 := (E * (AA + a24 * E)) mod p in
  (x_2, z_2, x_3, z_3, swap).

Definition x25519_generic (k u bits a24 p : Z) : list Z :=
  let ts := rev (zrange 0 bits) in                       (* range(bits-1, -1, -1) *)
  let '(x_2, z_2, x_3, z_3, swap) := fold_left (ladder_step k u a24 p) ts (1, 0, u, 1, 0) in
  let '(x_2, x_3) := cswap swap x_2 x_3 in
  let '(z_2, z_3) := cswap swap z_2 z_3 in
  let ret := (x_2 * powmod z_2 (p - 2) p) mod p in
  Z_to_le (Z.to_nat (divceil bits 8)) ret.

Definition x25519 (k u : list Z) : list Z :=
  x25519_generic (decodeScalar25519 k) (decodeUCoordinate u 255) 255 121665 (2 ^ 255 - 19).
Definition x448 (k u : list Z) : list Z :=
  x25519_generic (decodeScalar448 k) (decodeUCoordinate u 448) 448 39081 (2 ^ 448 - 2 ^ 224 - 1).

(* keyexchange.py:1110-1118, group in {x25519, x448} *)
Definition x_calc_shared (is448 : bool) (priv peer : list Z) : res (list Z) :=
  let size := if is448 then 56 else 32 in
  if negb (zlen peer =? size) then Err TLSIllegalParameter else
  let S := if is448 then x448 priv peer else x25519 priv peer in
  _ <- non_zero_check S ;;
  Ok S.
