(* C10: integer-level model of tlslite/utils/python_rsakey.py
   (Python_RSAKey._rawPublicKeyOp, _rawPrivateKeyOpHelper, _rawPrivateKeyOp) and of
   cryptomath.powMod / pow(b, e, n).  Hand-written (the PyLite subset has no
   objects/locks); tied to /repo by the correspondence in harness/props/C10.py and by the
   source fingerprints in Gen/C10_Tables.v.  Definitions only. *)
From Coq Require Import ZArith List Bool.
From TV Require Import Base.Prelude.
Import ListNotations.
Open Scope Z_scope.

(* pow(b, e, n) for e >= 0, n > 0: square-and-multiply, so that it can be evaluated on
   real key sizes.  Proofs/C10_MathP.v shows powmod b e n = b ^ e mod n. *)
Fixpoint powmod_pos (b : Z) (e : positive) (n : Z) : Z :=
  match e with
  | xH => b mod n
  | xO e' => let r := powmod_pos b e' n in (r * r) mod n
  | xI e' => let r := powmod_pos b e' n in (((r * r) mod n) * b) mod n
  end.

Definition powmod (b e n : Z) : Z :=
  match e with
  | Z0 => 1 mod n
  | Zpos p => powmod_pos b p n
  | Zneg _ => 0          (* never used by the modelled code: all exponents are key parts >= 0 *)
  end.

(* An RSA private key as stored by Python_RSAKey *)
Record rsa_priv := { rk_n : Z; rk_e : Z; rk_d : Z; rk_p : Z; rk_q : Z;
                     rk_dP : Z; rk_dQ : Z; rk_qInv : Z }.

(* python_rsakey.py:102 *)
Definition raw_public_op (n e c : Z) : Z := powmod c e n.

(* python_rsakey.py:90-100  (CRT) *)
Definition raw_private_helper (k : rsa_priv) (m : Z) : Z :=
  let s1 := powmod m (rk_dP k) (rk_p k) in
  let s2 := powmod m (rk_dQ k) (rk_q k) in
  let h := ((s1 - s2) * rk_qInv k) mod (rk_p k) in
  s2 + rk_q k * h.

(* the blinding pair kept in the key object *)
Record blind := { bl_blinder : Z; bl_unblinder : Z }.

(* python_rsakey.py:66-70: first use.  u = getRandomNumber(2, n) is an input;
   ui = invMod(u, n) (0 when there is no inverse) is computed by cryptomath.invMod,
   modelled as an input constrained in the theorems. *)
Definition blind_create (k : rsa_priv) (u ui : Z) : blind :=
  {| bl_unblinder := u; bl_blinder := powmod ui (rk_e k) (rk_n k) |}.

(* python_rsakey.py:75-76 *)
Definition blind_update (k : rsa_priv) (b : blind) : blind :=
  {| bl_blinder := (bl_blinder b * bl_blinder b) mod rk_n k;
     bl_unblinder := (bl_unblinder b * bl_unblinder b) mod rk_n k |}.

(* python_rsakey.py:63-88 with the pair (blinder, unblinder) read under the lock;
   returns the result and the pair stored back in the object *)
Definition raw_private_op (k : rsa_priv) (b : blind) (m : Z) : Z * blind :=
  let n := rk_n k in
  let m' := (m * bl_blinder b) mod n in
  let c := raw_private_helper k m' in
  ((c * bl_unblinder b) mod n, blind_update k b).

(* the same computation with the blinder and the unblinder given separately: what a thread computes
   when the two attribute reads are NOT one atomic step (another thread may update the pair in between) *)
Definition raw_private_op_torn (k : rsa_priv) (bl ub : Z) (m : Z) : Z :=
  let n := rk_n k in
  (raw_private_helper k ((m * bl) mod n) * ub) mod n.

(* a sequence of private operations threading the blinding state *)
Fixpoint raw_private_ops (k : rsa_priv) (b : blind) (ms : list Z) : list Z * blind :=
  match ms with
  | [] => ([], b)
  | m :: ms' => let '(c, b') := raw_private_op k b m in
                let '(cs, b'') := raw_private_ops k b' ms' in (c :: cs, b'')
  end.

(* key validity (H-rsa-key), as a boolean so that it can be checked on a concrete key *)
Definition crt_shape_ok (k : rsa_priv) : bool :=
  (1 <? rk_p k) && (1 <? rk_q k) && (rk_n k =? rk_p k * rk_q k)
  && ((rk_q k * rk_qInv k) mod rk_p k =? 1)
  && (0 <=? rk_dP k) && (0 <=? rk_dQ k) && (0 <=? rk_d k) && (0 <=? rk_e k).
