(* C14 -- Defragmenter (tlslite/defragmenter.py).  Hand model, definitions only.
   (The class stores closures in a dict; outside the PyLite subset.)

   priorities/buffers/decoders are one association list in priority order:
   (msg_type, decoder, buffer). *)
From Coq Require Import ZArith List Bool.
From TV Require Import Base.Prelude.
Import ListNotations.
Open Scope Z_scope.

Inductive decoder :=
| Static (size : Z)                 (* add_static_size *)
| Dynamic (off : Z) (sz : Z).       (* add_dynamic_size(size_offset, size_of_size) *)

Definition entry := (Z * decoder * list Z)%type.
Definition defrag := list entry.

Definition e_type (e : entry) : Z := fst (fst e).
Definition e_dec (e : entry) : decoder := snd (fst e).
Definition e_buf (e : entry) : list Z := snd e.

Definition defined (ty : Z) (d : defrag) : bool := existsb (fun e => e_type e =? ty) d.

(* big-endian value of a byte list (Parser.get) *)
Definition be_val (l : list Z) : Z := fold_left (fun a x => a * 256 + x) l 0.

(* size_handler(data): Some size of the first complete message, None if incomplete *)
Definition msg_size (dec : decoder) (data : list Z) : option Z :=
  match dec with
  | Static size => if zlen data <? size then None else Some size
  | Dynamic off sz =>
      if zlen data <? off + sz then None
      else let payload := be_val (firstn (Z.to_nat sz) (skipn (Z.to_nat off) data)) in
           if zlen data - (off + sz) <? payload then None
           else Some (off + sz + payload)
  end.

Definition add_static_size (ty size : Z) (d : defrag) : res defrag :=
  if defined ty d then Err ValueError
  else if size <? 1 then Err ValueError
  else Ok (d ++ [(ty, Static size, [])]).

Definition add_dynamic_size (ty off sz : Z) (d : defrag) : res defrag :=
  if defined ty d then Err ValueError
  else if sz <? 1 then Err ValueError
  else if off <? 0 then Err ValueError
  else Ok (d ++ [(ty, Dynamic off sz, [])]).

Fixpoint append_to (ty : Z) (data : list Z) (d : defrag) : defrag :=
  match d with
  | [] => []
  | e :: d' => if e_type e =? ty then (e_type e, e_dec e, e_buf e ++ data) :: d'
               else e :: append_to ty data d'
  end.

Definition add_data (ty : Z) (data : list Z) (d : defrag) : res defrag :=
  if defined ty d then Ok (append_to ty data d) else Err ValueError.

(* get_message: first type in priority order that has a complete message *)
Fixpoint get_message (d : defrag) : option ((Z * list Z) * defrag) :=
  match d with
  | [] => None
  | e :: d' =>
      match msg_size (e_dec e) (e_buf e) with
      | Some n => Some ((e_type e, firstn (Z.to_nat n) (e_buf e)),
                        (e_type e, e_dec e, skipn (Z.to_nat n) (e_buf e)) :: d')
      | None => match get_message d' with
                | Some (m, d'') => Some (m, e :: d'')
                | None => None
                end
      end
  end.

Definition clear_buffers (d : defrag) : defrag := map (fun e => (e_type e, e_dec e, [])) d.
Definition is_empty (d : defrag) : bool := forallb (fun e => zlen (e_buf e) =? 0) d.

Definition buffer_of (ty : Z) (d : defrag) : list Z :=
  match find (fun e => e_type e =? ty) d with Some e => e_buf e | None => [] end.
Definition decoder_of (ty : Z) (d : defrag) : option decoder :=
  match find (fun e => e_type e =? ty) d with Some e => Some (e_dec e) | None => None end.
Definition total_len (d : defrag) : nat := fold_right (fun e a => (length (e_buf e) + a)%nat) O d.

(* the inner "while True: ret = get_message(); if ret is None: break; yield ret" loop of
   TLSRecordLayer._getNextRecord / MessageSocket.recvMessage.  Every message has
   positive size, so total_len + 1 iterations always suffice (Proofs: drain_complete). *)
Fixpoint drain_fuel (fuel : nat) (d : defrag) : list (Z * list Z) * defrag :=
  match fuel with
  | O => ([], d)
  | S f => match get_message d with
           | None => ([], d)
           | Some (m, d') => let '(ms, d'') := drain_fuel f d' in (m :: ms, d'')
           end
  end.
Definition drain (d : defrag) : list (Z * list Z) * defrag := drain_fuel (S (total_len d)) d.

(* the outer loop: drain, then put the next record's payload into its buffer, ...
   [records] are (content type, payload).  A record of an undefined type is ValueError. *)
Fixpoint feed (records : list (Z * list Z)) (d : defrag) : res (list (Z * list Z) * defrag) :=
  match records with
  | [] => let '(ms, d') := drain d in Ok (ms, d')
  | (ty, data) :: rs =>
      let '(ms, d1) := drain d in
      d2 <- add_data ty data d1 ;;
      ' (ms', d3) <- feed rs d2 ;;
      Ok (ms ++ ms', d3)
  end.

(* ---- specification side: the messages contained in one type's byte stream --------- *)
Fixpoint parse_fuel (fuel : nat) (dec : decoder) (data : list Z) : list (list Z) * list Z :=
  match fuel with
  | O => ([], data)
  | S f => match msg_size dec data with
           | None => ([], data)
           | Some n => let '(ms, rest) := parse_fuel f dec (skipn (Z.to_nat n) data) in
                       (firstn (Z.to_nat n) data :: ms, rest)
           end
  end.
Definition parse_stream (dec : decoder) (data : list Z) : list (list Z) * list Z :=
  parse_fuel (S (length data)) dec data.

Definition dec_wf (dec : decoder) : bool :=
  match dec with Static size => 1 <=? size | Dynamic off sz => (0 <=? off) && (1 <=? sz) end.
Definition wf (d : defrag) : bool :=
  forallb (fun e => dec_wf (e_dec e)) d.
Fixpoint nodup_types (d : defrag) : bool :=
  match d with [] => true | e :: d' => negb (defined (e_type e) d') && nodup_types d' end.

(* payloads of the records of one type, concatenated *)
Definition stream_for (ty : Z) (records : list (Z * list Z)) : list Z :=
  concat (map snd (filter (fun r => fst r =? ty) records)).
Definition msgs_of (ty : Z) (ms : list (Z * list Z)) : list (list Z) :=
  map snd (filter (fun m => fst m =? ty) ms).

(* the defragmenter TLSRecordLayer sets up: CCS 1 byte, alert 2 bytes, handshake 1+3 header *)
Definition tls_defrag : defrag := [(20, Static 1, []); (21, Static 2, []); (22, Dynamic 1 3, [])].
