(* C14 -- transport model.  Definitions only (no proofs).

   A socket is a *script*: the list of events the OS will present, in order.
     recv side:  Data chunk | Eof | Fail errno      (would-block = Fail 11)
     send side:  Accept k   | SFail errno           (would-block = SFail 11)
   recv(n) on a script whose head is [Data c] returns c when |c| <= n, else the
   first n bytes and the rest of c stays at the head (kernel buffer semantics).
   An exhausted script means "nothing more is known": the generator is left
   suspended, outcome [Pending].

   Modelled code (tlslite/recordlayer.py, tlslite/bufferedsocket.py):
     RecordSocket._sockRecvAll  -> recv_all
     RecordSocket._recvHeader   -> recv_header   (a [prog])
     RecordSocket.recv          -> record_recv   (a [prog])
     RecordSocket._sockSendAll  -> send_all
     RecordSocket.send          -> record_send
     BufferedSocket.recv        -> read-ahead function [ra_buffered] inside recv_all
   Generators are modelled as functions from the script to
   (number of yields, outcome, remaining state). *)
From Coq Require Import ZArith List Bool.
From TV Require Import Base.Prelude.
Import ListNotations.
Open Scope Z_scope.

(* ---- events ------------------------------------------------------------------ *)
Inductive rev := Data (c : list Z) | Eof | Fail (errno : Z).
Inductive sev := Accept (k : Z) | SFail (errno : Z).

Definition EWOULDBLOCK : Z := 11.     (* == EAGAIN on Linux; the code tests membership in both *)
Definition WouldBlock : rev := Fail EWOULDBLOCK.
Definition SBlock : sev := SFail EWOULDBLOCK.
Definition is_wb (e : Z) : bool := e =? EWOULDBLOCK.

(* exceptions that leave these functions *)
Inductive exc :=
| AbruptClose                (* TLSAbruptCloseError *)
| SockError (errno : Z)      (* socket.error propagated *)
| RecordOverflow             (* TLSRecordOverflow *)
| IllegalParameter           (* TLSIllegalParameterException *)
| ValueErr.                  (* ValueError from a header writer *)

Inductive outcome (A : Type) :=
| Done (a : A)
| Raised (e : exc)
| Pending.                   (* script exhausted: generator stays suspended *)
Arguments Done {A} a.
Arguments Raised {A} e.
Arguments Pending {A}.

(* ---- the raw socket ---------------------------------------------------------------- *)
Inductive rret := RData (c : list Z) | RErr (e : Z) | RNone.

Definition raw_recv (n : Z) (s : list rev) : rret * list rev :=
  match s with
  | [] => (RNone, [])
  | Data c :: s' =>
      if zlen c <=? n then (RData c, s')
      else (RData (firstn (Z.to_nat n) c), Data (skipn (Z.to_nat n) c) :: s')
  | Eof :: s' => (RData [], s')
  | Fail e :: s' => (RErr e, s')
  end.

(* read-ahead: how many bytes the layer below RecordSocket asks the OS for when
   RecordSocket asks for m.  Plain socket: m.  BufferedSocket.recv: max(4096, m). *)
Definition ra_raw (m : Z) : Z := m.
Definition ra_buffered (m : Z) : Z := Z.max 4096 m.

(* state of the receiving side: BufferedSocket._read_buffer (always [] for a plain
   socket) and the script *)
Definition rstate := (list Z * list rev)%type.

(* result of a generator: yields, outcome, state afterwards *)
Definition gres (A : Type) := (Z * outcome A * rstate)%type.

(* The while-loop of _sockRecvAll once the read buffer is empty.  [acc] is buf,
   [need] is length.  Invariant at every call: zlen acc < need. *)
Fixpoint recv_loop (ra : Z -> Z) (need : Z) (acc : list Z) (y : Z) (s : list rev)
  : gres (list Z) :=
  match s with
  | [] => (y, Pending, ([], []))
  | Fail e :: s' =>
      if is_wb e then recv_loop ra need acc (y + 1) s'           (* yield 0; continue *)
      else (y, Raised (SockError e), ([], s'))                   (* raise *)
  | Eof :: s' => (y, Raised AbruptClose, ([], s'))
  | Data c :: s' =>
      let m := need - zlen acc in            (* argument of sock.recv *)
      let req := ra m in                     (* what reaches the OS *)
      if zlen c =? 0 then (y, Raised AbruptClose, ([], s'))
      else if zlen c <=? req then
        (* the OS returns the whole chunk *)
        if zlen c <? m then recv_loop ra need (acc ++ c) y s'
        else (y, Done (acc ++ firstn (Z.to_nat m) c), (skipn (Z.to_nat m) c, s'))
      else
        (* the OS returns the first req bytes, the rest of the chunk stays queued *)
        (y, Done (acc ++ firstn (Z.to_nat m) c),
         (firstn (Z.to_nat (req - m)) (skipn (Z.to_nat m) c),
          Data (skipn (Z.to_nat req) c) :: s'))
  end.

(* _sockRecvAll(length) over (read buffer, script) *)
Definition recv_all (ra : Z -> Z) (need : Z) (st : rstate) : gres (list Z) :=
  let '(rbuf, s) := st in
  if need =? 0 then (0, Done [], st)                      (* yields bytearray(0) at once *)
  else if need <=? zlen rbuf then
    (0, Done (firstn (Z.to_nat need) rbuf), (skipn (Z.to_nat need) rbuf, s))
  else recv_loop ra need rbuf 0 s.

(* ---- programs over "read exactly n bytes" -------------------------------------------- *)
Inductive prog (A : Type) :=
| Ret (a : A)
| Throw (e : exc)
| Take (n : Z) (k : list Z -> prog A).
Arguments Ret {A} a.
Arguments Throw {A} e.
Arguments Take {A} n k.

Fixpoint pbind {A B} (p : prog A) (f : A -> prog B) : prog B :=
  match p with
  | Ret a => f a
  | Throw e => Throw e
  | Take n k => Take n (fun d => pbind (k d) f)
  end.

Section Run.
  Variable St : Type.
  Variable take : Z -> St -> Z * outcome (list Z) * St.
  Fixpoint run {A} (p : prog A) (st : St) : Z * outcome A * St :=
    match p with
    | Ret a => (0, Done a, st)
    | Throw e => (0, Raised e, st)
    | Take n k =>
        match take n st with
        | (y, Done d, st') => let '(y2, o, st2) := run (k d) st' in (y + y2, o, st2)
        | (y, Raised e, st') => (y, Raised e, st')
        | (y, Pending, st') => (y, Pending, st')
        end
    end.
End Run.
Arguments run {St} take {A} p st.

(* ---- record header ------------------------------------------------------------------- *)
Record header := {
  h_ssl2 : bool; h_type : Z; h_vmaj : Z; h_vmin : Z; h_len : Z; h_pad : Z; h_esc : bool }.

Definition content_types : list Z := [20; 21; 22; 23; 24].     (* ContentType.all *)
Definition in_Z (x : Z) (l : list Z) : bool := existsb (Z.eqb x) l.
Definition b (l : list Z) (i : nat) : Z := nth i l 0.

(* RecordSocket._recvHeader *)
Definition recv_header : prog header :=
  Take 1 (fun b0 =>
    let first := b b0 0 in
    if in_Z first content_types then
      Take 4 (fun r =>
        Ret {| h_ssl2 := false; h_type := first; h_vmaj := b r 0; h_vmin := b r 1;
               h_len := b r 2 * 256 + b r 3; h_pad := 0; h_esc := false |})
    else
      let short := negb (Z.land first 128 =? 0) in
      Take (if short then 1 else 2) (fun r =>
        let second := b r 0 in
        let hd :=
          if short then
            {| h_ssl2 := true; h_type := 22; h_vmaj := 2; h_vmin := 0;
               h_len := Z.lor (Z.shiftl (Z.land first 127) 8) second; h_pad := 0; h_esc := false |}
          else
            {| h_ssl2 := true; h_type := 22; h_vmaj := 2; h_vmin := 0;
               h_len := Z.lor (Z.shiftl (Z.land first 63) 8) second; h_pad := b r 1;
               h_esc := negb (Z.land first 64 =? 0) |} in
        if (h_len hd <? h_pad hd) || (negb (h_pad hd =? 0) && negb (h_len hd mod 8 =? 0))
        then Throw IllegalParameter
        else Ret hd)).

(* RecordSocket.recv with self.recv_record_limit = limit, self.tls13record = tls13 *)
Definition record_recv (limit : Z) (tls13 : bool) : prog (header * list Z) :=
  pbind recv_header (fun hd =>
    if limit + 1024 + 1024 <? h_len hd then Throw RecordOverflow
    else if tls13 && (limit + 256 <? h_len hd) then Throw RecordOverflow
    else Take (h_len hd) (fun body => Ret (hd, body))).

(* reading k records one after the other, stopping at the first that does not complete *)
Fixpoint recv_many (limit : Z) (tls13 : bool) (k : nat) : prog (list (header * list Z)) :=
  match k with
  | O => Ret []
  | S k' => pbind (record_recv limit tls13) (fun r =>
              pbind (recv_many limit tls13 k') (fun rs => Ret (r :: rs)))
  end.

Definition run_sock (ra : Z -> Z) {A} (p : prog A) (st : rstate) : gres A :=
  run (recv_all ra) p st.

(* ---- the byte-stream reading of a script (specification side) ---------------------- *)
Inductive term := TOpen | TEof | TFail (e : Z).
Definition stream := (list Z * term)%type.

Fixpoint flatten (s : list rev) : stream :=
  match s with
  | [] => ([], TOpen)
  | Data c :: s' => if zlen c =? 0 then ([], TEof)
                    else let '(d, t) := flatten s' in (c ++ d, t)
  | Eof :: _ => ([], TEof)
  | Fail e :: s' => if is_wb e then flatten s' else ([], TFail e)
  end.

Definition stream_of (st : rstate) : stream :=
  let '(d, t) := flatten (snd st) in (fst st ++ d, t).

(* "read exactly n bytes" on a stream: no scheduling left *)
Definition take_spec (n : Z) (x : stream) : Z * outcome (list Z) * stream :=
  let '(d, t) := x in
  if n <=? zlen d then (0, Done (firstn (Z.to_nat n) d), (skipn (Z.to_nat n) d, t))
  else match t with
       | TOpen => (0, Pending, x)
       | TEof => (0, Raised AbruptClose, x)
       | TFail e => (0, Raised (SockError e), x)
       end.

Definition run_spec {A} (p : prog A) (x : stream) : Z * outcome A * stream :=
  run take_spec p x.

Definition out_of {A S} (r : Z * outcome A * S) : outcome A := snd (fst r).
Definition yields_of {A S} (r : Z * outcome A * S) : Z := fst (fst r).
Definition state_of {A S} (r : Z * outcome A * S) : S := snd r.

(* number of would-block events in a script *)
Definition count_wb (s : list rev) : Z :=
  zlen (filter (fun e => match e with Fail e => is_wb e | _ => false end) s).

(* a blocking socket never reports would-block: it waits.  Its script is the
   non-blocking one with the would-blocks removed. *)
Definition strip_wb (s : list rev) : list rev :=
  filter (fun e => match e with Fail e => negb (is_wb e) | _ => true end) s.

(* ---- sending --------------------------------------------------------------------------- *)
(* result: yields, outcome, bytes that reached the wire, remaining script *)
Definition sres := (Z * outcome unit * list Z * list sev)%type.

Definition accepted (k : Z) (data : list Z) : Z := Z.min (Z.max k 0) (zlen data).

(* RecordSocket._sockSendAll(data) *)
Fixpoint send_all (data : list Z) (y : Z) (wire : list Z) (s : list sev) : sres :=
  match s with
  | [] => (y, Pending, wire, [])
  | SFail e :: s' =>
      if is_wb e then send_all data (y + 1) wire s'
      else (y, Raised (SockError e), wire, s')
  | Accept k :: s' =>
      let n := accepted k data in
      if n =? zlen data then (y, Done tt, wire ++ data, s')
      else send_all (skipn (Z.to_nat n) data) (y + 1) (wire ++ firstn (Z.to_nat n) data) s'
  end.

(* socket.sendall(data): no generator, a would-block is an exception like any other *)
Fixpoint sock_sendall (data : list Z) (wire : list Z) (s : list sev)
  : outcome unit * list Z * list sev :=
  match s with
  | [] => (Pending, wire, [])
  | SFail e :: s' => (Raised (SockError e), wire, s')
  | Accept k :: s' =>
      let n := accepted k data in
      if n =? zlen data then (Done tt, wire ++ data, s')
      else sock_sendall (skipn (Z.to_nat n) data) (wire ++ firstn (Z.to_nat n) data) s'
  end.

(* headers written by RecordSocket.send *)
Definition header3_bytes (vmaj vmin ctype len : Z) : option (list Z) :=
  if is_byte ctype && is_byte vmaj && is_byte vmin && (0 <=? len) && (len <? 65536)
  then Some [ctype; vmaj; vmin; len / 256; len mod 256] else None.

Definition header2_bytes (len pad : Z) : option (list Z) :=
  let short := pad =? 0 in
  if (short && (32768 <=? len)) || (negb short && (16384 <=? len)) then None
  else if negb (is_byte pad) || (len <? 0) then None
  else if short then Some [Z.lor 128 (Z.shiftr len 8); Z.land len 255]
  else Some [Z.shiftr len 8; Z.land len 255; pad].

Definition is_ssl2_version (vmaj vmin : Z) : bool :=
  ((vmaj =? 2) && (vmin =? 0)) || ((vmaj =? 0) && (vmin =? 2)).

(* RecordSocket.send(msg, padding) with self.version = (vmaj, vmin), msg.contentType = ctype,
   msg.write() = payload *)
Definition record_send (vmaj vmin ctype : Z) (payload : list Z) (padding : Z) (s : list sev) : sres :=
  let hdr := if is_ssl2_version vmaj vmin then header2_bytes (zlen payload) padding
             else header3_bytes vmaj vmin ctype (zlen payload) in
  match hdr with
  | None => (0, Raised ValueErr, [], s)
  | Some h => send_all (h ++ payload) 0 [] s
  end.

(* total capacity of a script that has no hard failure before it *)
Definition sev_ok (e : sev) : bool := match e with Accept _ => true | SFail e => is_wb e end.
Definition sev_accept_only (e : sev) : bool := match e with Accept _ => true | SFail _ => false end.
