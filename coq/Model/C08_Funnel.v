(* C08, part "error funnel": hand model of the exception -> alert / shutdown funnel of
   tlslite-ng.  Definitions only (lemmas: Proofs/C08_Funnel.v).

   Code modelled (line numbers of /repo/tlslite at /repo HEAD 79180d8):
     errors.py 12-285, utils/codec.py 14-21   exception class hierarchy      -> bases / subclass
     tlsrecordlayer.py 938-947   _shutdown                                    -> shutdown
     tlsrecordlayer.py 950-959   _sendError                                   -> sendError
     tlsrecordlayer.py 1395-1423 _getNextRecordFromSocket except clauses      -> record_alert / record_handler
     tlsrecordlayer.py 1327-1337 _getMsg except clauses                       -> getmsg_alert / getmsg_handler
     tlsrecordlayer.py 1120-1155 _getMsg, alert record of a type not expected -> getmsg_peer_alert
     tlsrecordlayer.py 376-434   readAsync try/except                         -> read_handler
     tlsrecordlayer.py 460-486   writeAsync (closed test BEFORE the try)      -> write_handler
     tlsrecordlayer.py 516-565   closeAsync / _decrefAsync                    -> close_handler / close_peer_alert
     tlsrecordlayer.py 1028-1071 _sendMsgThroughSocket, failed handshake send -> DRecOnly, AShutRaiseRemote,
                                                                                 AShutRaiseSock
     tlsconnection.py 5218-5261  _handshakeWrapperAsync (with the clause of 6da5459 / 0bc7834:
                                 TLSIllegalParameterException / TLSDecodeError /
                                 TLSDecryptionFailed -> _sendError, closing also when
                                 the alert cannot be sent)           -> checker_step / wrapper_alert /
                                                                                 wrapper_handler
   Python semantics used: `except C` catches e iff issubclass(type(e), C); clauses are tried
   in textual order; an exception raised inside an except clause is not caught by the sibling
   clauses of the same try; a bare `except:` catches every BaseException.

   Integer encodings (mirrored by harness/c08_funnel.py, which checks them against the live
   classes):
     layer : 0 handshake (_handshakeWrapperAsync)  1 readAsync  2 writeAsync  3 closeAsync
     depth : 0 record   : inside _recordLayer.recvRecord, reached through _getMsg
             1 parser   : inside the try body of _getMsg but outside the record read
             2 direct   : in the body of the layer, outside _getMsg
             3 checker  : in the user supplied Checker, called by the handshake wrapper
             4 pretry   : readAsync lines 329-369, before its `try`
             5 reconly  : _getNextRecord called from _sendMsgThroughSocket (record handler
                          applies, _getMsg's handler does not)
     action: 0 ARaise e d (a1 = class code, a2 = .description of the instance or -1)
             1 ASendError d (a1 = d)
             2 APeerAlert level descr (a1 = level, a2 = descr)   3 AShutRaiseRemote d (a1 = d)
             4 AShutRaiseSock
     class codes: see exc_code below.
     final class: class code, or -1 when the call returns normally, -2 for undecodable input. *)
From Coq Require Import ZArith List Bool.
Import ListNotations.
Open Scope Z_scope.

(* ---- exception classes ------------------------------------------------------------- *)
Inductive exc_class :=
(* builtins *)
| E_BaseException | E_Exception | E_GeneratorExit | E_KeyboardInterrupt | E_SystemExit
| E_SyntaxError | E_AssertionError | E_AttributeError | E_LookupError | E_IndexError
| E_KeyError | E_TypeError | E_ValueError | E_UnicodeError | E_UnicodeDecodeError
| E_ArithmeticError | E_ZeroDivisionError | E_OverflowError | E_RuntimeError
| E_NotImplementedError | E_RecursionError | E_MemoryError | E_StopIteration
| E_SockError                      (* socket.error is OSError *)
(* tlslite.errors *)
| E_BaseTLSException | E_EncryptionError | E_TLSError | E_TLSClosedConnectionError
| E_TLSAbruptCloseError | E_TLSAlert | E_TLSLocalAlert | E_TLSRemoteAlert
| E_TLSAuthenticationError | E_TLSNoAuthenticationError | E_TLSAuthenticationTypeError
| E_TLSFingerprintError | E_TLSAuthorizationError | E_TLSValidationError | E_TLSFaultError
| E_TLSUnsupportedError | E_TLSInternalError | E_TLSProtocolException
| E_TLSIllegalParameterException | E_TLSDecodeError | E_TLSUnexpectedMessage
| E_TLSRecordOverflow | E_TLSDecryptionFailed | E_TLSBadRecordMAC | E_TLSInsufficientSecurity
| E_TLSUnknownPSKIdentity | E_TLSHandshakeFailure | E_MaskTooLongError | E_MessageTooLongError
| E_EncodingError | E_InvalidSignature | E_UnknownRSAType
(* tlslite.utils.codec *)
| E_DecodeError | E_BadCertificateError.

Definition exc_code (e : exc_class) : Z :=
  match e with
  | E_BaseException => 0 | E_Exception => 1 | E_GeneratorExit => 2 | E_KeyboardInterrupt => 3
  | E_SystemExit => 4
  | E_SyntaxError => 10 | E_AssertionError => 11 | E_AttributeError => 12 | E_LookupError => 13
  | E_IndexError => 14 | E_KeyError => 15 | E_TypeError => 16 | E_ValueError => 17
  | E_UnicodeError => 18 | E_UnicodeDecodeError => 19 | E_ArithmeticError => 20
  | E_ZeroDivisionError => 21 | E_OverflowError => 22 | E_RuntimeError => 23
  | E_NotImplementedError => 24 | E_RecursionError => 25 | E_MemoryError => 26
  | E_StopIteration => 27 | E_SockError => 28
  | E_BaseTLSException => 40 | E_EncryptionError => 41 | E_TLSError => 42
  | E_TLSClosedConnectionError => 43 | E_TLSAbruptCloseError => 44 | E_TLSAlert => 45
  | E_TLSLocalAlert => 46 | E_TLSRemoteAlert => 47 | E_TLSAuthenticationError => 48
  | E_TLSNoAuthenticationError => 49 | E_TLSAuthenticationTypeError => 50
  | E_TLSFingerprintError => 51 | E_TLSAuthorizationError => 52 | E_TLSValidationError => 53
  | E_TLSFaultError => 54 | E_TLSUnsupportedError => 55 | E_TLSInternalError => 56
  | E_TLSProtocolException => 57 | E_TLSIllegalParameterException => 58 | E_TLSDecodeError => 59
  | E_TLSUnexpectedMessage => 60 | E_TLSRecordOverflow => 61 | E_TLSDecryptionFailed => 62
  | E_TLSBadRecordMAC => 63 | E_TLSInsufficientSecurity => 64 | E_TLSUnknownPSKIdentity => 65
  | E_TLSHandshakeFailure => 66 | E_MaskTooLongError => 67 | E_MessageTooLongError => 68
  | E_EncodingError => 69 | E_InvalidSignature => 70 | E_UnknownRSAType => 71
  | E_DecodeError => 80 | E_BadCertificateError => 81
  end.

Definition all_exc : list exc_class :=
  [E_BaseException; E_Exception; E_GeneratorExit; E_KeyboardInterrupt; E_SystemExit;
   E_SyntaxError; E_AssertionError; E_AttributeError; E_LookupError; E_IndexError;
   E_KeyError; E_TypeError; E_ValueError; E_UnicodeError; E_UnicodeDecodeError;
   E_ArithmeticError; E_ZeroDivisionError; E_OverflowError; E_RuntimeError;
   E_NotImplementedError; E_RecursionError; E_MemoryError; E_StopIteration; E_SockError;
   E_BaseTLSException; E_EncryptionError; E_TLSError; E_TLSClosedConnectionError;
   E_TLSAbruptCloseError; E_TLSAlert; E_TLSLocalAlert; E_TLSRemoteAlert;
   E_TLSAuthenticationError; E_TLSNoAuthenticationError; E_TLSAuthenticationTypeError;
   E_TLSFingerprintError; E_TLSAuthorizationError; E_TLSValidationError; E_TLSFaultError;
   E_TLSUnsupportedError; E_TLSInternalError; E_TLSProtocolException;
   E_TLSIllegalParameterException; E_TLSDecodeError; E_TLSUnexpectedMessage;
   E_TLSRecordOverflow; E_TLSDecryptionFailed; E_TLSBadRecordMAC; E_TLSInsufficientSecurity;
   E_TLSUnknownPSKIdentity; E_TLSHandshakeFailure; E_MaskTooLongError; E_MessageTooLongError;
   E_EncodingError; E_InvalidSignature; E_UnknownRSAType; E_DecodeError; E_BadCertificateError].

Definition exc_eqb (a b : exc_class) : bool := exc_code a =? exc_code b.
Definition exc_of_code (z : Z) : option exc_class := find (fun e => exc_code e =? z) all_exc.

(* direct base classes, as written in the class statements *)
Definition bases (e : exc_class) : list exc_class :=
  match e with
  | E_BaseException => []
  | E_Exception | E_GeneratorExit | E_KeyboardInterrupt | E_SystemExit => [E_BaseException]
  | E_SyntaxError | E_AssertionError | E_AttributeError | E_LookupError | E_TypeError
  | E_ValueError | E_ArithmeticError | E_RuntimeError | E_MemoryError | E_StopIteration
  | E_SockError | E_BaseTLSException => [E_Exception]
  | E_IndexError | E_KeyError => [E_LookupError]
  | E_UnicodeError => [E_ValueError]
  | E_UnicodeDecodeError => [E_UnicodeError]
  | E_ZeroDivisionError | E_OverflowError => [E_ArithmeticError]
  | E_NotImplementedError | E_RecursionError => [E_RuntimeError]
  | E_EncryptionError | E_TLSError | E_TLSProtocolException => [E_BaseTLSException]
  | E_TLSClosedConnectionError => [E_TLSError; E_SockError]
  | E_TLSAbruptCloseError | E_TLSAlert | E_TLSAuthenticationError | E_TLSFaultError
  | E_TLSUnsupportedError | E_TLSInternalError => [E_TLSError]
  | E_TLSLocalAlert | E_TLSRemoteAlert => [E_TLSAlert]
  | E_TLSNoAuthenticationError | E_TLSAuthenticationTypeError | E_TLSFingerprintError
  | E_TLSAuthorizationError | E_TLSValidationError => [E_TLSAuthenticationError]
  | E_TLSIllegalParameterException | E_TLSDecodeError | E_TLSUnexpectedMessage
  | E_TLSRecordOverflow | E_TLSDecryptionFailed | E_TLSBadRecordMAC | E_TLSInsufficientSecurity
  | E_TLSUnknownPSKIdentity | E_TLSHandshakeFailure => [E_TLSProtocolException]
  | E_MaskTooLongError | E_MessageTooLongError | E_EncodingError | E_InvalidSignature
  | E_UnknownRSAType => [E_EncryptionError]
  | E_DecodeError | E_BadCertificateError => [E_SyntaxError]
  end.

Fixpoint ancestors (fuel : nat) (e : exc_class) : list exc_class :=
  e :: match fuel with
       | O => []
       | S k => flat_map (ancestors k) (bases e)
       end.

(* issubclass(a, b).  The fuel (8) exceeds the longest chain (5); Proofs/C08_Funnel.v shows
   every class reaches E_BaseException, and the harness compares all pairs with Python. *)
Definition subclass (a b : exc_class) : bool := existsb (exc_eqb b) (ancestors 8 a).

(* Documented for the public calls (docstrings of handshake*/read/write/close: socket.error,
   TLSAbruptCloseError, TLSAlert, TLSAuthenticationError; errors.py says consumers catch
   TLSError).  Note TLSProtocolException and its subclasses are NOT under TLSError. *)
Definition documented (e : exc_class) : bool := subclass e E_TLSError || subclass e E_SockError.
Definition documented_strict (e : exc_class) : bool :=
  subclass e E_SockError || subclass e E_TLSAbruptCloseError || subclass e E_TLSAlert
  || subclass e E_TLSAuthenticationError.

(* ---- AlertDescription / AlertLevel constants used ------------------------------------ *)
Definition close_notify := 0.
Definition unexpected_message := 10.
Definition bad_record_mac := 20.
Definition decryption_failed := 21.
Definition record_overflow := 22.
Definition bad_certificate := 42.
Definition illegal_parameter := 47.
Definition decode_error := 50.
Definition decrypt_error := 51.
Definition level_warning := 1.
Definition level_fatal := 2.
(* index -> value, compared with tlslite.constants by the harness *)
Definition alert_consts : list Z :=
  [close_notify; unexpected_message; bad_record_mac; decryption_failed; record_overflow;
   bad_certificate; illegal_parameter; decode_error; level_warning; level_fatal; decrypt_error].

(* ---- connection state ------------------------------------------------------------------ *)
Inductive wire_event :=
| WAlert (level descr : Z)          (* an alert record: in `wire` it was handed to the real
                                       socket, in `queued` it sits in BufferedSocket._write_queue *)
| WShutdown (resumable_arg : bool). (* _shutdown(resumable_arg) ran (socket closed if closeSocket) *)

Record cst := mkcst {
  closed : bool;                (* TLSRecordLayer.closed (True during a handshake!) *)
  sock_closed : bool;           (* sock.close() was called *)
  has_session : bool;           (* self.session is not None *)
  resumable : bool;             (* self.session.resumable (meaningless without session) *)
  wire : list wire_event;       (* trace of alerts written and shutdowns, oldest first *)
  close_socket : bool;          (* config: self.closeSocket (default True) *)
  ignore_abrupt : bool;         (* config: self.ignoreAbruptClose (default False) *)
  fault : option (list Z);      (* config: None = self.fault unset; Some l = Fault.faultAlerts[self.fault] *)
  buffering : bool;             (* self.sock.buffer_writes (BufferedSocket): sends are queued *)
  queued : list wire_event      (* alert records sitting in BufferedSocket._write_queue (other
                                   queued handshake records are not represented) *)
}.

(* bufferedsocket.py send/sendall: queued while buffer_writes, else handed to the socket *)
Definition emit (ev : wire_event) (st : cst) : cst :=
  mkcst (closed st) (sock_closed st) (has_session st) (resumable st)
        (if buffering st then wire st else wire st ++ [ev])
        (close_socket st) (ignore_abrupt st) (fault st) (buffering st)
        (if buffering st then queued st ++ [ev] else queued st).

(* bufferedsocket.py flush / flush_async: everything queued goes to the socket *)
Definition flush (st : cst) : cst :=
  mkcst (closed st) (sock_closed st) (has_session st) (resumable st) (wire st ++ queued st)
        (close_socket st) (ignore_abrupt st) (fault st) (buffering st) [].

Definition unbuffer (st : cst) : cst :=
  mkcst (closed st) (sock_closed st) (has_session st) (resumable st) (wire st)
        (close_socket st) (ignore_abrupt st) (fault st) false (queued st).

(* tlsrecordlayer.py 938-947; sock.close() is BufferedSocket.close(): flush, then close.
   Without closeSocket nothing is flushed: what is queued is never transmitted. *)
Definition shutdown (r : bool) (st : cst) : cst :=
  mkcst true (sock_closed st || close_socket st) (has_session st)
        (if negb r && has_session st then false else resumable st)
        ((if close_socket st then wire st ++ queued st else wire st) ++ [WShutdown r])
        (close_socket st) (ignore_abrupt st) (fault st) (buffering st)
        (if close_socket st then [] else queued st).

(* tlsrecordlayer.py 951-956: flush_async(); buffer_writes = False; _sendMsg(alert): the
   fatal alert is WRITTEN, after whatever was queued, whatever the buffering flag was *)
Definition send_alert_now (d : Z) (st : cst) : cst :=
  emit (WAlert level_fatal d) (unbuffer (flush st)).

Record raised := mkr { rclass : exc_class; rdescr : option Z }.
Inductive outcome := Done | Raised (r : raised).

(* tlsrecordlayer.py 943-951.  sf = the flush / alert send raises socket.error: it propagates
   out of _sendError before _shutdown (alerts are not ContentType.handshake, so
   _sendMsgThroughSocket line 1055-1059 re-raises). *)
Definition sendError (d : Z) (sf : bool) (st : cst) : outcome * cst :=
  if sf then (Raised (mkr E_SockError None), st)
  else (Raised (mkr E_TLSLocalAlert (Some d)), shutdown false (send_alert_now d st)).

(* tlsrecordlayer.py 1387-1405 *)
Definition record_alert (e : exc_class) : option Z :=
  if subclass e E_TLSUnexpectedMessage then Some unexpected_message
  else if subclass e E_TLSRecordOverflow then Some record_overflow
  else if subclass e E_TLSIllegalParameterException then Some illegal_parameter
  else if subclass e E_TLSDecryptionFailed then Some decryption_failed
  else if subclass e E_TLSBadRecordMAC then Some bad_record_mac
  else None.

(* tlsrecordlayer.py 1309-1319 *)
Definition getmsg_alert (e : exc_class) : option Z :=
  if subclass e E_TLSIllegalParameterException then Some illegal_parameter
  else if subclass e E_BadCertificateError then Some bad_certificate
  else if subclass e E_SyntaxError then Some decode_error
  else None.

Definition record_handler (sf : bool) (r : raised) (st : cst) : outcome * cst :=
  match record_alert (rclass r) with
  | Some d => sendError d sf st
  | None => (Raised r, st)
  end.

Definition getmsg_handler (sf : bool) (r : raised) (st : cst) : outcome * cst :=
  match getmsg_alert (rclass r) with
  | Some d => sendError d sf st
  | None => (Raised r, st)
  end.

(* classes that the funnel treats as a protocol violation by the peer *)
Definition protocol_violation (e : exc_class) : bool :=
  match record_alert e, getmsg_alert e with None, None => false | _, _ => true end.

(* tlsrecordlayer.py 1108-1143: an alert record while no alert is expected.  The
   close_notify reply ignores socket.error (sf). *)
Definition getmsg_peer_alert (level descr : Z) (sf : bool) (st : cst) : outcome * cst :=
  let st1 :=
    if (level =? level_warning) || (descr =? close_notify) then
      let st0 := if sf then st else emit (WAlert level_warning close_notify) st in
      if descr =? close_notify then shutdown true st0 else shutdown false st0
    else shutdown false st in
  (Raised (mkr E_TLSRemoteAlert (Some descr)), st1).

(* ---- outer layers ---------------------------------------------------------------------- *)
(* tlsconnection.py 5003-5010: checker(self) raised e *)
Definition checker_step (e : exc_class) (d : option Z) (sf : bool) (st : cst) : outcome * cst :=
  if subclass e E_TLSAuthenticationError then
    if sf then (Raised (mkr E_SockError None), st)
    else (Raised (mkr e d), emit (WAlert level_fatal close_notify) st)
  else (Raised (mkr e d), st).

(* tlsconnection.py 5240-5249 (added by 6da5459): protocol errors raised directly by the
   handshake code.  Note TLSDecodeError (errors.py) is not codec.DecodeError, and the alert for
   TLSDecryptionFailed is decrypt_error (51) here but decryption_failed (21) in the record
   handler. *)
Definition wrapper_alert (e : exc_class) : option Z :=
  if subclass e E_TLSIllegalParameterException then Some illegal_parameter
  else if subclass e E_TLSDecodeError then Some decode_error
  else if subclass e E_TLSDecryptionFailed then Some decrypt_error
  else None.

(* tlsconnection.py 5250-5258 (0bc7834): the wrapper's own _sendError runs in an inner
   try: TLSLocalAlert is re-raised as is; anything else (the alert could not be sent) ->
   _shutdown(False), then re-raised. *)
Definition wrapper_own_alert (d : Z) (sf : bool) (st : cst) : outcome * cst :=
  match sendError d sf st with
  | (Raised r', st1) =>
      if subclass (rclass r') E_TLSLocalAlert then (Raised r', st1)
      else (Raised r', shutdown false st1)
  | x => x
  end.

(* tlsconnection.py 5231-5261.  The clause for the three protocol-error classes is a sibling of
   `except TLSAlert`: the TLSLocalAlert it raises is not subject to the fault logic. *)
Definition wrapper_handler (sf : bool) (r : raised) (st : cst) : outcome * cst :=
  let c := rclass r in
  if subclass c E_GeneratorExit then (Raised r, st)
  else if subclass c E_TLSAlert then
    match fault st with
    | None => (Raised r, st)                        (* re-raised, NO _shutdown here *)
    | Some allowed =>
        match rdescr r with
        | None => (Raised (mkr E_AttributeError None), st)   (* alert.description missing *)
        | Some d => if existsb (Z.eqb d) allowed then (Done, st)
                    else (Raised (mkr E_TLSFaultError None), st)
        end
    end
  else match wrapper_alert c with
       | Some d => wrapper_own_alert d sf st
       | None => (Raised r, shutdown false st)
       end.

(* tlsrecordlayer.py 409-428 *)
Definition read_handler (r : raised) (st : cst) : outcome * cst :=
  let c := rclass r in
  let is_cn := match rdescr r with Some d => d =? close_notify | None => false end in
  if subclass c E_TLSRemoteAlert && is_cn then (Done, st)
  else if subclass c E_TLSAbruptCloseError && negb (subclass c E_TLSRemoteAlert)
          && ignore_abrupt st then (Done, shutdown true st)
  else if subclass c E_GeneratorExit then (Raised r, st)
  else (Raised r, shutdown false st).

(* tlsrecordlayer.py 473-479 *)
Definition write_handler (r : raised) (st : cst) : outcome * cst :=
  let c := rclass r in
  if subclass c E_GeneratorExit then (Raised r, st)
  else if subclass c E_Exception then (Raised r, shutdown (ignore_abrupt st) st)
  else (Raised r, st).

(* tlsrecordlayer.py 551-558 *)
Definition close_handler (r : raised) (st : cst) : outcome * cst :=
  let c := rclass r in
  if subclass c E_SockError || subclass c E_TLSAbruptCloseError then (Done, shutdown true st)
  else if subclass c E_GeneratorExit then (Raised r, st)
  else (Raised r, shutdown false st).

(* tlsrecordlayer.py 540-550: closeSocket = False, the awaited alert arrived *)
Definition close_peer_alert (descr : Z) (st : cst) : outcome * cst :=
  if descr =? close_notify then (Done, shutdown true st)
  else (Raised (mkr E_TLSRemoteAlert (Some descr)), st).

(* ---- composition ------------------------------------------------------------------------ *)
Inductive layer := LHandshake | LRead | LWrite | LClose.
Inductive depth := DRecord | DParser | DDirect | DChecker | DPreTry | DRecOnly.
Inductive action :=
| ARaise (e : exc_class) (d : option Z)
                                   (* a callee raises an instance of e; d = its .description
                                      (TLSLocalAlert / TLSRemoteAlert instances), else None *)
| ASendError (d : Z)               (* the code at that depth calls _sendError(d) *)
| APeerAlert (level descr : Z)     (* the peer's alert record is processed by _getMsg / _decrefAsync *)
| AShutRaiseRemote (d : Z)         (* self._shutdown(False); raise TLSRemoteAlert
                                      [tlsconnection.py 4867-4868, tlsrecordlayer.py 1057-1063] *)
| AShutRaiseSock.                  (* self._shutdown(False); raise sock_err: a handshake record
                                      could not be sent and the pending record is not an alert
                                      [tlsrecordlayer.py 1057-1066, since 0ab9df1] *)

Definition layer_eqb (a b : layer) : bool :=
  match a, b with
  | LHandshake, LHandshake | LRead, LRead | LWrite, LWrite | LClose, LClose => true
  | _, _ => false
  end.

Definition through (h : raised -> cst -> outcome * cst) (x : outcome * cst) : outcome * cst :=
  match x with
  | (Done, st) => (Done, st)
  | (Raised r, st) => h r st
  end.

Definition perform (ly : layer) (dp : depth) (a : action) (sf : bool) (st : cst) : outcome * cst :=
  match a with
  | ARaise e d => match dp with
                  | DChecker => checker_step e d sf st
                  | _ => (Raised (mkr e d), st)
                  end
  | ASendError d => sendError d sf st
  | APeerAlert l d => match ly with
                      | LClose => close_peer_alert d st
                      | _ => getmsg_peer_alert l d sf st
                      end
  | AShutRaiseRemote d => (Raised (mkr E_TLSRemoteAlert (Some d)), shutdown false st)
  | AShutRaiseSock => (Raised (mkr E_SockError None), shutdown false st)
  end.

Definition layer_handler (ly : layer) (sf : bool) : raised -> cst -> outcome * cst :=
  match ly with
  | LHandshake => wrapper_handler sf
  | LRead => read_handler
  | LWrite => write_handler
  | LClose => close_handler
  end.

Definition under_record (dp : depth) : bool :=
  match dp with DRecord | DRecOnly => true | _ => false end.
Definition under_getmsg (dp : depth) : bool :=
  match dp with DRecord | DParser => true | _ => false end.
Definition is_pretry (dp : depth) : bool := match dp with DPreTry => true | _ => false end.

(* PEP 479: every function of the funnel is a generator; a StopIteration that leaves a
   generator frame is replaced by RuntimeError.  No handler of the funnel distinguishes the two
   classes, so the replacement is applied once, at the outermost frame. *)
Definition pep479 (x : outcome * cst) : outcome * cst :=
  match x with
  | (Raised r, st) =>
      if subclass (rclass r) E_StopIteration then (Raised (mkr E_RuntimeError None), st)
      else (Raised r, st)
  | _ => x
  end.

(* tlsrecordlayer.py 529-531: _decrefAsync first sends close_notify (warning).  `ARaise e` at
   depth direct is that send raising e; every other event of the close layer happens after
   the close_notify went out. *)
Definition layer_prefix (ly : layer) (dp : depth) (a : action) (st : cst) : cst :=
  match ly with
  | LClose => match dp, a with
              | DDirect, ARaise _ _ => st
              | _, _ => emit (WAlert level_warning close_notify) st
              end
  | _ => st
  end.

Definition funnel (ly : layer) (dp : depth) (a : action) (sf : bool) (st0 : cst) : outcome * cst :=
  if layer_eqb ly LClose && closed st0 then (Done, st0)    (* closeAsync on a closed connection *)
  else
    let st := layer_prefix ly dp a st0 in
    let s0 := perform ly dp a sf st in
    let s1 := if under_record dp then through (record_handler sf) s0 else s0 in
    let s2 := if under_getmsg dp then through (getmsg_handler sf) s1 else s1 in
    pep479 (if is_pretry dp then s2 else through (layer_handler ly sf) s2).

(* the alert that class e is mapped to when it arises at depth dp *)
Definition mapped_alert (dp : depth) (e : exc_class) : option Z :=
  match dp with
  | DRecord => match record_alert e with Some d => Some d | None => getmsg_alert e end
  | DRecOnly => record_alert e
  | DParser => getmsg_alert e
  | _ => None
  end.

(* the same, including the conversion done by the handshake wrapper for what reaches it
   unconverted *)
Definition mapped_alert_ly (ly : layer) (dp : depth) (e : exc_class) : option Z :=
  match mapped_alert dp e with
  | Some d => Some d
  | None => if layer_eqb ly LHandshake && negb (is_pretry dp) then wrapper_alert e else None
  end.

(* combinations that exist in the code (others are defined by composition but hypothetical) *)
Definition feasible (ly : layer) (dp : depth) : bool :=
  match ly, dp with
  | LHandshake, (DRecord | DParser | DDirect | DChecker | DRecOnly) => true
  | LRead, (DRecord | DParser | DDirect | DPreTry) => true   (* KeyUpdate/PHA replies: DRecOnly unreachable (app data / non-handshake sends re-raise) *)
  | LWrite, (DDirect | DPreTry) => true   (* DPreTry: the `if self.closed: raise TLSClosedConnectionError` test now precedes the try *)
  | LClose, (DRecord | DParser | DDirect) => true
  | _, _ => false
  end.

(* classes that the callees are specified to raise (recordlayer.py RecordSocket.recv /
   RecordLayer.recvRecord docstrings and code; Parser / message parse methods) *)
Definition spec_record_classes : list exc_class :=
  [E_TLSUnexpectedMessage; E_TLSRecordOverflow; E_TLSIllegalParameterException;
   E_TLSDecryptionFailed; E_TLSBadRecordMAC; E_TLSAbruptCloseError; E_SockError;
   E_TLSClosedConnectionError; E_SyntaxError; E_DecodeError].
Definition spec_parser_classes : list exc_class :=
  [E_SyntaxError; E_DecodeError; E_BadCertificateError; E_TLSIllegalParameterException].
Definition specified (dp : depth) (e : exc_class) : bool :=
  match dp with
  | DRecord => existsb (exc_eqb e) spec_record_classes
  | DParser => existsb (exc_eqb e) spec_parser_classes
  | _ => false
  end.

(* classes the handshake bodies / key exchange / certificate code raise directly, outside
   _getMsg (tlsconnection.py, keyexchange.py, x509.py, handshakehelpers.py, utils/ecc.py,
   utils/compression.py) and that the wrapper converts *)
Definition spec_handshake_direct_classes : list exc_class :=
  [E_TLSIllegalParameterException; E_TLSDecodeError; E_TLSDecryptionFailed].
Definition specified_ly (ly : layer) (dp : depth) (e : exc_class) : bool :=
  specified dp e
  || (layer_eqb ly LHandshake && negb (is_pretry dp)
      && existsb (exc_eqb e) spec_handshake_direct_classes).

(* TLSProtocolException classes that the handshake wrapper does NOT convert: raised directly
   in a handshake body they still reach the caller unchanged and without an alert *)
Definition residue_protocol_classes : list exc_class :=
  [E_TLSProtocolException; E_TLSUnexpectedMessage; E_TLSRecordOverflow; E_TLSBadRecordMAC;
   E_TLSInsufficientSecurity; E_TLSUnknownPSKIdentity; E_TLSHandshakeFailure].

(* undocumented builtins: a crash of the Python code *)
Definition crash_classes : list exc_class :=
  [E_Exception; E_AssertionError; E_AttributeError; E_LookupError; E_IndexError; E_KeyError;
   E_TypeError; E_ValueError; E_UnicodeError; E_UnicodeDecodeError; E_ArithmeticError;
   E_ZeroDivisionError; E_OverflowError; E_RuntimeError; E_NotImplementedError;
   E_RecursionError; E_MemoryError].
Definition is_crash (e : exc_class) : bool := existsb (exc_eqb e) crash_classes.

(* hypotheses of the post-condition theorem, as a boolean *)
Definition escapes_handlers (ly : layer) (e : exc_class) : bool :=
  subclass e E_GeneratorExit || (layer_eqb ly LWrite && negb (subclass e E_Exception)).
Definition wf_event (ly : layer) (dp : depth) (a : action) : bool :=
  negb (is_pretry dp) &&
  match a with
  | ARaise e _ => negb (escapes_handlers ly e)
                && negb (layer_eqb ly LHandshake && subclass e E_TLSAlert)
  | _ => true
  end.
Definition keeps_resumable (ly : layer) (a : action) (st : cst) : bool :=
  (layer_eqb ly LWrite && ignore_abrupt st)
  || match a with APeerAlert _ d => d =? close_notify | _ => false end.

(* what surrounds the fatal alert in the trace of a converted protocol violation: the
   close_notify that closeAsync sent before, and the extra _shutdown of the outer layer after *)
Definition alert_pre (ly : layer) : list wire_event :=
  match ly with LClose => [WAlert level_warning close_notify] | _ => [] end.
Definition alert_tail (ly : layer) (st : cst) : list wire_event :=
  match ly with
  | LHandshake => []
  | LWrite => [WShutdown (ignore_abrupt st)]
  | _ => [WShutdown false]
  end.

Definition is_shutdown_ev (ev : wire_event) : bool :=
  match ev with WShutdown _ => true | WAlert _ _ => false end.

(* ---- integer interface for the harness --------------------------------------------------- *)
Definition layer_of_code (z : Z) : option layer :=
  if z =? 0 then Some LHandshake else if z =? 1 then Some LRead
  else if z =? 2 then Some LWrite else if z =? 3 then Some LClose else None.
Definition depth_of_code (z : Z) : option depth :=
  if z =? 0 then Some DRecord else if z =? 1 then Some DParser else if z =? 2 then Some DDirect
  else if z =? 3 then Some DChecker else if z =? 4 then Some DPreTry
  else if z =? 5 then Some DRecOnly else None.
Definition action_of_code (k a1 a2 : Z) : option action :=
  if k =? 0 then option_map (fun e => ARaise e (if a2 <? 0 then None else Some a2)) (exc_of_code a1)
  else if k =? 1 then Some (ASendError a1)
  else if k =? 2 then Some (APeerAlert a1 a2)
  else if k =? 3 then Some (AShutRaiseRemote a1)
  else if k =? 4 then Some AShutRaiseSock
  else None.

Definition final_code (o : outcome) : Z :=
  match o with Done => -1 | Raised r => exc_code (rclass r) end.
Definition final_descr (o : outcome) : option Z :=
  match o with Done => None | Raised r => rdescr r end.

Fixpoint last_fatal (l : list wire_event) (acc : option Z) : option Z :=
  match l with
  | [] => acc
  | WAlert lv d :: t => last_fatal t (if lv =? level_fatal then Some d else acc)
  | WShutdown _ :: t => last_fatal t acc
  end.

(* the state in which the harness puts the endpoint for each layer (defaults of tlslite) *)
Definition init_state (ly : layer) : cst :=
  match ly with
  | LHandshake => mkcst true false false false [] true false None false []
  | LClose => mkcst false false true true [] false false None false []   (* closeSocket = False: the
                                              only setting in which closeAsync reads *)
  | _ => mkcst false false true true [] true false None false []
  end.

(* predict layer depth class = (final class code, last fatal alert written, closed, resumable)
   for `ARaise class` with a working socket, from init_state. *)
Definition predict (lc dc ec : Z) : Z * option Z * bool * bool :=
  match layer_of_code lc, depth_of_code dc, exc_of_code ec with
  | Some ly, Some dp, Some e =>
      let '(o, st') := funnel ly dp (ARaise e None) false (init_state ly) in
      (final_code o, last_fatal (wire st') None, closed st', resumable st')
  | _, _, _ => (-2, None, false, false)
  end.

(* General comparison used by the correspondence check.
   input  : ((layer, depth), (action kind, a1, a2), sf,
             (closed, sock_closed, has_session, resumable, close_socket, ignore_abrupt), fault,
             buffering)
   observed: (final class code, raised .description, (closed, sock_closed, has_session, resumable),
             trace, (final buffering flag, alerts still queued)) with trace entries (level, descr) for an alert written and (-1, 0/1) for a
             _shutdown(False/True) observed as sock.close() (so only when closeSocket is set;
             the argument is not observable and reported as 0).  resumable is compared only
             when a session exists. *)
Definition ev_code (ev : wire_event) : Z * Z :=
  match ev with
  | WAlert l d => (l, d)
  | WShutdown r => (-1, if r then 1 else 0)
  end.
Definition pair_eqb (a b : Z * Z) : bool := (fst a =? fst b) && (snd a =? snd b).
Fixpoint trace_eqb (a b : list (Z * Z)) : bool :=
  match a, b with
  | [], [] => true
  | x :: a', y :: b' => pair_eqb x y && trace_eqb a' b'
  | _, _ => false
  end.
Definition optZ_eqb (a b : option Z) : bool :=
  match a, b with
  | None, None => true
  | Some x, Some y => x =? y
  | _, _ => false
  end.
(* the harness cannot see the argument of _shutdown, only that the socket was closed *)
Definition ev_code_obs (ev : wire_event) : Z * Z :=
  match ev with
  | WAlert l d => (l, d)
  | WShutdown _ => (-1, 0)
  end.

Definition fcase : Type :=
  ((Z * Z) * (Z * Z * Z) * bool * (bool * bool * bool * bool * bool * bool) * option (list Z)
   * bool)
  * (Z * option Z * (bool * bool * bool * bool) * list (Z * Z) * (bool * list (Z * Z))).

Definition run_case (c : fcase) : option (outcome * cst) :=
  let '((lc, dc), (k, a1, a2), sf, (cl, sc, hs, rs, cs, ia), fl, bf, _) := c in
  match layer_of_code lc, depth_of_code dc, action_of_code k a1 a2 with
  | Some ly, Some dp, Some a =>
      Some (funnel ly dp a sf (mkcst cl sc hs rs [] cs ia fl bf []))
  | _, _, _ => None
  end.

Definition chk_funnel (c : fcase) : bool :=
  let '(_, (ocode, odescr, (ocl, osc, ohs, ors), otrace, (obf, oqueued))) := c in
  match run_case c with
  | None => false
  | Some (o, st') =>
      (final_code o =? ocode) && optZ_eqb (final_descr o) odescr
      && Bool.eqb (closed st') ocl && Bool.eqb (sock_closed st') osc
      && Bool.eqb (has_session st') ohs
      && (negb ohs || Bool.eqb (resumable st') ors)
      && trace_eqb (map ev_code_obs
                      (filter (fun ev => negb (is_shutdown_ev ev) || close_socket st') (wire st')))
                   otrace
      && Bool.eqb (buffering st') obf
      && trace_eqb (map ev_code_obs (queued st')) oqueued
  end.

(* hierarchy tie: (code a, code b, issubclass(a, b)) *)
Definition chk_subclass (c : Z * Z * bool) : bool :=
  let '(a, b, v) := c in
  match exc_of_code a, exc_of_code b with
  | Some x, Some y => Bool.eqb (subclass x y) v
  | _, _ => false
  end.

(* constants tie: (index in alert_consts, value in tlslite.constants) *)
Definition chk_const (c : Z * Z) : bool :=
  let '(i, v) := c in
  match nth_error alert_consts (Z.to_nat i) with
  | Some x => (0 <=? i) && (x =? v)
  | None => false
  end.

(* ((layer, depth, class), observed (final class, last fatal alert, closed, resumable)) against
   `predict` *)
Definition chk_predict (c : (Z * Z * Z) * (Z * option Z * bool * bool)) : bool :=
  let '((l, d, e), (fc, al, cl, rs)) := c in
  let '(fc', al', cl', rs') := predict l d e in
  (fc =? fc') && optZ_eqb al al' && Bool.eqb cl cl' && Bool.eqb rs rs'.
