#!/bin/bash
# usage: seedtest.sh Cxx [check ids...]  -> runs each seeded change of Cxx against the given checks (default: Cxx)
P=$1; shift; CH=${@:-$P}
H=$(git -C /repo rev-parse HEAD)
cd /tmp/seed/$P && git checkout -q -- . && git checkout -q --detach $H
for k in 1 2; do
  [ -f /tmp/seed/$P-out/$k/patch.diff ] || continue
  git checkout -q -- .
  if ! git apply /tmp/seed/$P-out/$k/patch.diff 2>/tmp/scratch/apply.err; then echo "$P-$k PATCH DOES NOT APPLY to HEAD: $(head -2 /tmp/scratch/apply.err)"; continue; fi
  (cd /tmp/seed/$P-out/$k && PYTHONPATH=/tmp/seed/$P timeout 900 /venv/bin/python demo.py >/tmp/scratch/demo.out 2>&1); drc=$?
  echo "$P-$k demo(with patch) rc=$drc: $(tail -1 /tmp/scratch/demo.out | cut -c1-150)"
  for c in $CH; do
    (cd /verif && VERIF_REPO=/tmp/seed/$P timeout 3400 ./check $c > /tmp/scratch/seed-$P-$k-$c.log 2>&1); rc=$?
    echo "   check $c rc=$rc viol=$(grep -c '^VIOLATION' /tmp/scratch/seed-$P-$k-$c.log) nofail=$(grep -c 'no-failing-input-found' /tmp/scratch/seed-$P-$k-$c.log)"
    grep -A1 '^VIOLATION' /tmp/scratch/seed-$P-$k-$c.log | grep -- '->' | cut -c1-220 | sort | uniq -c | sort -rn | head -4
  done
  git checkout -q -- .
  (cd /tmp/seed/$P-out/$k && PYTHONPATH=/tmp/seed/$P timeout 900 /venv/bin/python demo.py >/tmp/scratch/demo.out 2>&1); echo "   demo(clean) rc=$?"
done
