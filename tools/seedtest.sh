#!/bin/bash
# usage: [SEEDBASE=/tmp/seed2] tools/seedtest.sh Cxx [check ids...]
# Runs each seeded change of Cxx (SEEDBASE/Cxx-out/k/{patch.diff,demo.py}) in the scratch worktree SEEDBASE/Cxx
# against the given checks (default: Cxx): demo with patch (must fail), checks via VERIF_REPO, demo without patch (must pass).
B=${SEEDBASE:-/tmp/seed}
P=$1; shift; CH=${@:-$P}
H=$(git -C /repo rev-parse HEAD)
mkdir -p /tmp/scratch
cd $B/$P && git checkout -q -- . && git checkout -q --detach $H
for k in 1 2 3; do
  [ -f $B/$P-out/$k/patch.diff ] || continue
  git checkout -q -- .
  if ! git apply $B/$P-out/$k/patch.diff 2>/tmp/scratch/apply-$P-$k.err; then echo "$P-$k PATCH DOES NOT APPLY to HEAD: $(head -2 /tmp/scratch/apply-$P-$k.err)"; continue; fi
  (cd $B/$P-out/$k && PYTHONPATH=$B/$P timeout 900 /venv/bin/python demo.py >/tmp/scratch/demo-$P-$k.out 2>&1); drc=$?
  echo "$P-$k demo(with patch) rc=$drc: $(tail -1 /tmp/scratch/demo-$P-$k.out | cut -c1-150)"
  for c in $CH; do
    (cd /verif && VERIF_REPO=$B/$P timeout 3400 ./check $c > /tmp/scratch/seed-$P-$k-$c.log 2>&1); rc=$?
    echo "   check $c rc=$rc viol=$(grep -c '^VIOLATION' /tmp/scratch/seed-$P-$k-$c.log) nofail=$(grep -c 'no-failing-input-found' /tmp/scratch/seed-$P-$k-$c.log)"
    grep -A1 '^VIOLATION' /tmp/scratch/seed-$P-$k-$c.log | grep -- '->' | cut -c1-220 | sort | uniq -c | sort -rn | head -4
  done
  git checkout -q -- .
  (cd $B/$P-out/$k && PYTHONPATH=$B/$P timeout 900 /venv/bin/python demo.py >/tmp/scratch/demo-$P-$k.out 2>&1); echo "   demo(clean) rc=$?"
done
