#!/bin/bash
# Re-run every behaviour-preserving change (harmless/Cxx-hk/patch.diff) against the current checks in a fresh
# worktree of /repo HEAD; writes final_result into harmless/*/meta.json.   usage: tools/harmfinal.sh [Cxx ...]
cd /verif
mkdir -p /tmp/scratch
H=$(git -C /repo rev-parse HEAD)
run_one() {
  d=/verif/$1; name=$(basename $d); P=${name%-*}
  W=/tmp/harmfinal/$name
  rm -rf $W; git -C /repo worktree add -q --detach $W $H 2>/dev/null || { echo "$name: cannot create worktree"; return; }
  if ! git -C $W apply $d/patch.diff 2>/dev/null; then res="patch does not apply to /repo HEAD any more"
  else
    VERIF_REPO=$W timeout 3400 ./check $P > /tmp/scratch/hfinal-$name.log 2>&1; r=$?
    v=$(grep -c '^VIOLATION' /tmp/scratch/hfinal-$name.log); n=$(grep -c 'no-failing-input-found' /tmp/scratch/hfinal-$name.log)
    k=$(grep -A1 '^VIOLATION' /tmp/scratch/hfinal-$name.log | grep -- '->' | sed 's/.*\[\(.*\)\]$/\1/' | sort -u | head -3 | tr '\n' ';')
    if [ $r -eq 0 ] && [ $v -eq 0 ]; then res="QUIET (exit 0, no VIOLATION)";
    elif [ $v -gt $n ]; then res="FALSE ALARM with a 'concrete input' ($v VIOLATION lines; $k) - oracle bug";
    else res="tie/proof broke, no-failing-input-found ($k)"; fi
  fi
  python3 - "$d/meta.json" "$res" "$H" <<'PY'
import json,sys
p,res,h=sys.argv[1:4]
m=json.load(open(p)); m['final_result']=res; m['final_result_repo_head']=h
json.dump(m,open(p,'w'),indent=1)
PY
  echo "$name: $res"
  git -C /repo worktree remove --force $W; rm -rf /tmp/verif-alt/$(python3 -c "import hashlib,os;print(hashlib.md5(os.path.realpath('$W').encode()).hexdigest()[:10])")
}
export -f run_one; export H
for a in "${@:-C}"; do ls -d harmless/$a*; done | xargs -P ${SEEDFINAL_P:-4} -I{} bash -c 'run_one {}'
