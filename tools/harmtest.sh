#!/bin/bash
# usage: [HARMBASE=/tmp/harm] tools/harmtest.sh Cxx [check ids...]
# Runs each behaviour-preserving change of Cxx (HARMBASE/Cxx-out/k/patch.diff) in the scratch worktree HARMBASE/Cxx
# against the given checks (default: Cxx).  Expected: rc=0, no VIOLATION.
B=${HARMBASE:-/tmp/harm}
P=$1; shift; CH=${@:-$P}
H=$(git -C /repo rev-parse HEAD)
mkdir -p /tmp/scratch
cd $B/$P && git checkout -q -- . && git checkout -q --detach $H
for k in 1 2 3; do
  [ -f $B/$P-out/$k/patch.diff ] || continue
  git checkout -q -- .
  if ! git apply $B/$P-out/$k/patch.diff 2>/tmp/scratch/happly-$P-$k.err; then echo "$P-h$k PATCH DOES NOT APPLY: $(head -2 /tmp/scratch/happly-$P-$k.err)"; continue; fi
  for c in $CH; do
    (cd /verif && VERIF_REPO=$B/$P timeout 3400 ./check $c > /tmp/scratch/harm-$P-$k-$c.log 2>&1); rc=$?
    echo "$P-h$k check $c rc=$rc viol=$(grep -c '^VIOLATION' /tmp/scratch/harm-$P-$k-$c.log) nofail=$(grep -c 'no-failing-input-found' /tmp/scratch/harm-$P-$k-$c.log) files=$(git diff --name-only | tr '\n' ' ')"
    grep -A1 '^VIOLATION' /tmp/scratch/harm-$P-$k-$c.log | grep -- '->' | cut -c1-260 | sort | uniq -c | sort -rn | head -4
  done
  git checkout -q -- .
done
