#!/usr/bin/env python3
"""usage: tools/saveseeds.py <round> <seedbase> <offset> [Cxx...]
Copies <seedbase>/Cxx-out/k/{patch.diff,demo.py,meta.json} to seeded/Cxx-<offset+k>/ and records the
first-run verdict parsed from /tmp/scratch/seed<round>res-Cxx.txt (written by tools/seedtest.sh)."""
import json, os, re, shutil, subprocess, sys
ROOT = os.path.dirname(os.path.dirname(os.path.abspath(__file__)))
rnd, base, off = int(sys.argv[1]), sys.argv[2], int(sys.argv[3])
pids = sys.argv[4:] or ['C%02d' % i for i in range(1, 21)]
head = subprocess.check_output(['git', '-C', '/repo', 'rev-parse', '--short', 'HEAD']).decode().strip()
for pid in pids:
    rp = '/tmp/scratch/seed%dres-%s.txt' % (rnd, pid)
    if not os.path.exists(rp):
        print(pid, 'no result file'); continue
    txt = open(rp).read()
    for k in (1, 2, 3):
        src = os.path.join(base, pid + '-out', str(k))
        if not os.path.exists(os.path.join(src, 'patch.diff')):
            continue
        m = re.search(r'^%s-%d demo\(with patch\) rc=(\d+).*?\n((?:   .*\n)*)' % (pid, k), txt, flags=re.M)
        if not m:
            print(pid, k, 'not in results'); continue
        drc, rest = int(m.group(1)), m.group(2)
        c = re.search(r'check %s rc=(\d+) viol=(\d+) nofail=(\d+)' % pid, rest)
        dc = re.search(r'demo\(clean\) rc=(\d+)', rest)
        if not c or not dc:
            print(pid, k, 'incomplete'); continue
        rc, viol, nofail = map(int, c.groups())
        if rc == 0 and viol == 0:
            verdict = 'MISSED (exit 0, no VIOLATION)'
        elif viol > nofail:
            verdict = 'CAUGHT with a concrete failing input (%d VIOLATION lines)' % viol
        else:
            verdict = 'TIE-ONLY (VIOLATION ... no-failing-input-found: proof/tie broke, search found no input)'
        dst = os.path.join(ROOT, 'seeded', '%s-%d' % (pid, off + k))
        os.makedirs(dst, exist_ok=True)
        for f in ('patch.diff', 'demo.py'):
            shutil.copy(os.path.join(src, f), os.path.join(dst, f))
        meta = json.load(open(os.path.join(src, 'meta.json')))
        meta.update({
            'property': pid, 'round': rnd,
            'source': 'independent sub-agent given only the property text, a scratch worktree and the summaries of the earlier rounds\' changes (to avoid repeats)',
            'confirmed_by_lead': 'patch applies to /repo HEAD %s; 1714 tests pass with it (agent-reported); demo.py re-run by lead: rc=%d with the patch, rc=%s without' % (head, drc, dc.group(1)),
            'first_run_result': verdict, 'check_result': verdict,
            'what_i_ran': 'SEEDBASE=%s tools/seedtest.sh %s' % (base, pid),
        })
        json.dump(meta, open(os.path.join(dst, 'meta.json'), 'w'), indent=1)
        print('%s-%d: %s' % (pid, off + k, verdict))
