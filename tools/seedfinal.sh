#!/bin/bash
# Re-run every seeded change against the current checks; writes final_result into seeded/*/meta.json
# usage: tools/seedfinal.sh [Cxx ...]   (default: all)
cd /verif
mkdir -p /tmp/scratch
H=$(git -C /repo rev-parse HEAD)
run_one() {
  d=/verif/$1; name=$(basename $d); P=${name%-*}
  W=/tmp/seedfinal/$name
  rm -rf $W; git -C /repo worktree add -q --detach $W $H 2>/dev/null || { echo "$name: cannot create worktree"; return; }
  patch=$d/patch.diff; [ -f $d/patch.rebased.diff ] && patch=$d/patch.rebased.diff
  if ! git -C $W apply $patch 2>/dev/null; then echo "$name PATCH-DOES-NOT-APPLY"; res="patch does not apply to /repo HEAD any more (code it touched was changed by a later fix: commit)"; rc=-1; viol=0; nofail=0
  else
    checks="$P"; [ -f $d/extra_checks ] && checks="$P $(cat $d/extra_checks)"
    rc=0; viol=0; nofail=0; keys=""
    for c in $checks; do
      VERIF_REPO=$W timeout 3400 ./check $c > /tmp/scratch/final-$name-$c.log 2>&1; r=$?
      v=$(grep -c '^VIOLATION' /tmp/scratch/final-$name-$c.log); n=$(grep -c 'no-failing-input-found' /tmp/scratch/final-$name-$c.log)
      k=$(grep -A1 '^VIOLATION' /tmp/scratch/final-$name-$c.log | grep -- '->' | sed 's/.*\[\(.*\)\]$/\1/' | sort -u | head -3 | tr '\n' ';')
      [ $r -ne 0 ] && rc=$r; viol=$((viol+v)); nofail=$((nofail+n)); keys="$keys $c:$k"
    done
    if [ $viol -gt 0 ] && [ $viol -gt $nofail ]; then res="CAUGHT with a concrete failing input ($viol VIOLATION lines;$keys)";
    elif [ $viol -gt 0 ]; then res="reported as broken proof/tie only, no-failing-input-found ($keys)";
    else res="MISSED (exit $rc, no VIOLATION)"; fi
  fi
  python3 - "$d/meta.json" "$res" "$H" <<'PY'
import json,sys
p,res,h=sys.argv[1:4]
m=json.load(open(p)); m['final_result']=res; m['final_result_repo_head']=h
if 'first_run_result' not in m: m['first_run_result']=m.get('check_result','')
json.dump(m,open(p,'w'),indent=1)
PY
  echo "$name: $res"
  git -C /repo worktree remove --force $W; rm -rf /tmp/verif-alt/$(python3 -c "import hashlib,os;print(hashlib.md5(os.path.realpath('$W').encode()).hexdigest()[:10])")
}
export -f run_one; export H
for a in "${@:-C}"; do ls -d seeded/$a*; done | xargs -P ${SEEDFINAL_P:-4} -I{} bash -c 'run_one {}'
