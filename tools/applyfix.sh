#!/bin/bash
# usage: applyfix.sh <diff> "<subject>" "<body>"
set -e
cd /repo
git apply --3way "$1" 2>/dev/null || git apply "$1"
out=$(timeout 1800 /venv/bin/python -m pytest -q -p no:cacheprovider 2>&1 | tail -1)
echo "$out"
case "$out" in *"1714 passed"*) ;; *) echo "TESTS CHANGED - reverting"; git checkout -- .; git reset -q; exit 1;; esac
git add -A
git commit -q -m "$2" -m "$3"
git log --oneline | head -1
