#!/bin/bash
# Run every claimed check once (tier $1, default quick) and summarise.
cd "$(dirname "$0")"
tier=${1:-quick}
mkdir -p /tmp/verif-runall
for f in harness/props/C??.py; do
  p=$(basename $f .py)
  s=$(date +%s)
  ./check $p --tier $tier > /tmp/verif-runall/$p.log 2>&1
  rc=$?
  e=$(date +%s)
  echo "$p rc=$rc $((e-s))s viol=$(grep -c '^VIOLATION' /tmp/verif-runall/$p.log) known=$(grep -c '^KNOWN-FINDING' /tmp/verif-runall/$p.log)"
done
