"""Translation unit for C19: tlslite/handshakesettings.py -> coq/Gen/SettingsTables.v

Regenerated on every run from the tree named by VERIF_REPO:

* every domain table of handshakesettings.py (CIPHER_NAMES, ALL_MAC_NAMES, ...), by importing the
  module (so that installation-dependent tables - ML-KEM groups, brotli/zstd - are what the running
  installation really has);
* the installation flags validate() consults (m2cryptoLoaded, pycryptoLoaded, tripleDESPresent) and a
  few informational ones;
* the default value of every HandshakeSettings attribute (used for `Example`s);
* a structural skeleton read from the *ast* of the file: the ordered (function, kind, field) list of
  the `_copy_*` methods (kind = alias | copy), the ordered statement list of validate(), the list of
  in-place list mutation sites (`x[:] = ...`, `.remove`, `.append`, ... on something reachable from
  `other`/`values`) per function, every re-binding `other.X = <new object>` outside the copy phase, and the set of attributes assigned in __init__;
* the cipher-suite attribute table (id -> cipher, mac, key exchange, version window) derived from the
  CipherSuite lists of constants.py, used by the `compatible` predicate.

Fail-closed: a `_copy_*` statement that is not `other.X = self.X` / `list(self.X)` / `self.X[:]`,
or a missing function, raises Refuse.
"""
import ast
import hashlib
import importlib
import os
import sys

sys.path.insert(0, os.path.dirname(os.path.abspath(__file__)))
from pylite import Refuse  # noqa: E402

REPO = os.path.realpath(os.environ.get('VERIF_REPO', '/repo'))

STR_TABLES = ['CIPHER_NAMES', 'ALL_CIPHER_NAMES', 'MAC_NAMES', 'ALL_MAC_NAMES', 'KEY_EXCHANGE_NAMES',
              'CIPHER_IMPLEMENTATIONS', 'CERTIFICATE_TYPES', 'RSA_SIGNATURE_HASHES', 'DSA_SIGNATURE_HASHES',
              'ECDSA_SIGNATURE_HASHES', 'ALL_RSA_SIGNATURE_HASHES', 'SIGNATURE_SCHEMES', 'RSA_SCHEMES',
              'CURVE_NAMES', 'ALL_CURVE_NAMES', 'ALL_DH_GROUP_NAMES', 'TLS13_PERMITTED_GROUPS',
              'TICKET_CIPHERS', 'PSK_MODES', 'ALL_COMPRESSION_ALGOS_SEND', 'ALL_COMPRESSION_ALGOS_RECEIVE']

COPY_FUNS = ['_copy_cipher_settings', '_copy_extension_settings', '_copy_key_settings']
CHECK_FUNS = ['_sanityCheckKeySizes', '_not_matching', '_sanityCheckCipherSettings', '_sanityCheckECDHSettings',
              '_sanityCheckDHSettings', '_sanityCheckPrimitivesNames', '_sanityCheckProtocolVersions',
              '_sanityCheckEMSExtension', '_sanityCheckExtensions', '_not_allowed_len', '_sanityCheckPsks',
              '_sanityCheckTicketSettings', '_remove_all_matches', '_sanity_check_ciphers',
              '_sanity_check_implementations', 'validate'] + COPY_FUNS
MUTATORS = ('append', 'remove', 'extend', 'insert', 'pop', 'clear', 'sort', 'reverse', '__setitem__',
            '__delitem__', '__iadd__')


def sl(s):
    return '"' + str(s).replace('"', '""') + '"'


def strlist(xs):
    return '[' + '; '.join(sl(x) for x in xs) + ']'


def zl(n):
    n = int(n)
    return str(n) if n >= 0 else '(%d)' % n


def pairlist(xs):
    return '[' + '; '.join('(%s, %s)' % (zl(a), zl(b)) for a, b in xs) + ']'


def import_repo(modname):
    """Import tlslite.<modname> from VERIF_REPO (and insist that it really came from there)."""
    if REPO not in sys.path:
        sys.path.insert(0, REPO)
    m = importlib.import_module(modname)
    f = os.path.realpath(getattr(m, '__file__', ''))
    if not f.startswith(REPO + os.sep):
        raise Refuse('%s was imported from %s, not from %s' % (modname, f, REPO))
    return m


class SettingsUnit(object):
    def __init__(self):
        self.path = os.path.join(REPO, 'tlslite/handshakesettings.py')

    # ------------------------------------------------------------------ ast skeleton
    def skeleton(self):
        """Facts read from the FLATTENED, NORMALISED closure of validate() (translator/c19_astnorm.py), so that
        extracting/merging helper methods, renaming locals, De Morgan rewrites and reworded messages do not change
        them: the copy phase (other.X = self.X, in order), every in-place list mutation, every re-binding of
        other.X to a new object, and a digest of the whole normal form."""
        import c19_astnorm
        with open(self.path) as f:
            src = f.read()
        tree = ast.parse(src)
        cls = [n for n in tree.body if isinstance(n, ast.ClassDef) and n.name == 'HandshakeSettings']
        if not cls:
            raise Refuse('class HandshakeSettings not found')
        funs = {n.name: n for n in cls[0].body if isinstance(n, ast.FunctionDef)}
        for fn in ['validate', '__init__']:
            if fn not in funs:
                raise Refuse('method %s not found' % fn)
        try:
            norm = c19_astnorm.Normaliser(cls[0])
            flat = c19_astnorm.inline_single_assignments(norm.flatten('validate'))
            text = c19_astnorm.closure_text(cls[0])
        except RecursionError as e:
            raise Refuse('validate() closure cannot be flattened: %s' % e)
        # methods still referenced by name from the closure (not inlined: they return a value through several
        # statements) and the validate() of the helper classes are part of the digest as well
        extra = []
        for n in ast.walk(ast.parse(text)):
            if isinstance(n, ast.Attribute) and isinstance(n.value, ast.Name) and n.value.id in ('self', 'HandshakeSettings') \
                    and n.attr in funs and n.attr not in extra and n.attr != 'validate':
                extra.append(n.attr)
        for fn in extra:
            text += '\n# ' + fn + '\n' + c19_astnorm.closure_text(cls[0], fn)
        for other_cls in ('VirtualHost', 'Keypair'):
            oc = [n for n in tree.body if isinstance(n, ast.ClassDef) and n.name == other_cls]
            if oc and any(isinstance(n, ast.FunctionDef) and n.name == 'validate' for n in oc[0].body):
                text += '\n# %s.validate\n' % other_cls + c19_astnorm.closure_text(oc[0])
        closure_digest = hashlib.sha256(text.encode()).hexdigest()[:16]
        copies, muts, rebinds = [], [], []
        for st in flat:
            for node in ast.walk(st):
                d = self.mutation_site(node)
                if d:
                    muts.append(d)
                if isinstance(node, ast.Assign):
                    for t in node.targets:
                        if isinstance(t, ast.Attribute) and isinstance(t.value, ast.Name) and t.value.id == 'other':
                            c = self.copy_kind(t, node.value)
                            if c:
                                copies.append(c)
                            else:
                                rebinds.append('%s:%s' % (t.attr, type(node.value).__name__))
        inits = []
        init_norm = c19_astnorm.Normaliser(cls[0]).flatten('__init__')
        for st in init_norm:
            for node in ast.walk(st):
                if isinstance(node, (ast.Assign, ast.AugAssign)):
                    tg = node.targets if isinstance(node, ast.Assign) else [node.target]
                    for t in tg:
                        if isinstance(t, ast.Attribute) and isinstance(t.value, ast.Name) and t.value.id == 'self' \
                                and t.attr not in inits:
                            inits.append(t.attr)
        # per-method digests: hints for locating a drift, not part of the tie
        digests = []
        for fn in sorted(funs):
            if fn.startswith('_') and not fn.startswith('__') or fn == 'validate':
                node = funs[fn]
                body = [x for x in node.body if not (isinstance(x, ast.Expr) and isinstance(x.value, ast.Constant)
                                                     and isinstance(x.value.value, str))]
                dump = ast.dump(ast.Module(body=body, type_ignores=[]), annotate_fields=False)
                digests.append((fn, hashlib.sha256(dump.encode()).hexdigest()[:16]))
        return copies, muts, inits, digests, rebinds, closure_digest, text

    @staticmethod
    def copy_kind(t, v):
        """other.X = self.X -> ('alias', X); list(self.X) / self.X[:] -> ('copy', X); anything else -> None"""
        def self_attr(e):
            return isinstance(e, ast.Attribute) and isinstance(e.value, ast.Name) and e.value.id == 'self'
        if self_attr(v) and v.attr == t.attr:
            return ('alias', t.attr)
        if isinstance(v, ast.Call) and isinstance(v.func, ast.Name) and v.func.id == 'list' \
                and len(v.args) == 1 and self_attr(v.args[0]) and v.args[0].attr == t.attr:
            return ('copy', t.attr)
        if isinstance(v, ast.Subscript) and self_attr(v.value) and isinstance(v.slice, ast.Slice) \
                and v.slice.lower is None and v.slice.upper is None and v.slice.step is None and v.value.attr == t.attr:
            return ('copy', t.attr)
        return None

    @staticmethod
    def copy_stmt(st, fn):
        if not (isinstance(st, ast.Assign) and len(st.targets) == 1):
            raise Refuse('%s: statement at line %d is not a single assignment' % (fn, st.lineno))
        t, v = st.targets[0], st.value
        if not (isinstance(t, ast.Attribute) and isinstance(t.value, ast.Name) and t.value.id == 'other'):
            raise Refuse('%s line %d: target is not other.<field>' % (fn, st.lineno))

        def self_attr(e):
            return isinstance(e, ast.Attribute) and isinstance(e.value, ast.Name) and e.value.id == 'self'
        if self_attr(v):
            kind, src = 'alias', v.attr
        elif isinstance(v, ast.Call) and isinstance(v.func, ast.Name) and v.func.id == 'list' \
                and len(v.args) == 1 and self_attr(v.args[0]):
            kind, src = 'copy', v.args[0].attr
        elif isinstance(v, ast.Subscript) and self_attr(v.value) and isinstance(v.slice, ast.Slice) \
                and v.slice.lower is None and v.slice.upper is None and v.slice.step is None:
            kind, src = 'copy', v.value.attr
        else:
            raise Refuse('%s line %d: right-hand side is not self.X / list(self.X) / self.X[:]' % (fn, st.lineno))
        if src != t.attr:
            raise Refuse('%s line %d: other.%s is assigned from self.%s' % (fn, st.lineno, t.attr, src))
        return (kind, t.attr)

    @staticmethod
    def validate_stmt(st):
        if isinstance(st, ast.Expr) and isinstance(st.value, ast.Call):
            f = st.value.func
            if isinstance(f, ast.Attribute) and isinstance(f.value, ast.Name) and f.value.id == 'self':
                return 'call:' + f.attr
            raise Refuse('validate line %d: unknown call' % st.lineno)
        if isinstance(st, ast.Assign) and len(st.targets) == 1:
            t, v = st.targets[0], st.value
            if isinstance(t, ast.Name) and t.id == 'other' and isinstance(v, ast.Call) \
                    and isinstance(v.func, ast.Name) and v.func.id == 'HandshakeSettings' and not v.args:
                return 'new:other'
            if isinstance(t, ast.Attribute) and isinstance(t.value, ast.Name) and t.value.id == 'other':
                if isinstance(v, ast.Attribute) and isinstance(v.value, ast.Name) and v.value.id == 'self' \
                        and v.attr == t.attr:
                    return 'alias:' + t.attr
            raise Refuse('validate line %d: unknown assignment' % st.lineno)
        if isinstance(st, ast.If) and not st.orelse:
            cond = ast.unparse(st.test)
            inner = []
            for s in st.body:
                if isinstance(s, ast.Raise):
                    inner.append('raise')
                elif isinstance(s, ast.Assign) and len(s.targets) == 1 and isinstance(s.targets[0], ast.Attribute):
                    inner.append('set:' + s.targets[0].attr + ':' + type(s.value).__name__)
                else:
                    raise Refuse('validate line %d: unknown statement in if' % s.lineno)
            return 'if(%s){%s}' % (cond, ','.join(inner))
        if isinstance(st, ast.Return) and isinstance(st.value, ast.Name) and st.value.id == 'other':
            return 'return:other'
        raise Refuse('validate line %d: unknown statement %s' % (st.lineno, type(st).__name__))

    @staticmethod
    def mutation_site(node):
        """In-place mutation of a list object (as opposed to rebinding an attribute)."""
        if isinstance(node, ast.Assign):
            for t in node.targets:
                if isinstance(t, ast.Subscript):
                    return 'setitem:' + ast.unparse(t)
        if isinstance(node, ast.AugAssign):
            return 'augassign:' + ast.unparse(node.target)
        if isinstance(node, ast.Delete):
            return 'del:' + ','.join(ast.unparse(t) for t in node.targets)
        if isinstance(node, ast.Call) and isinstance(node.func, ast.Attribute) and node.func.attr in MUTATORS:
            return 'call:' + ast.unparse(node.func)
        return None

    # ------------------------------------------------------------------ suites
    @staticmethod
    def suite_table():
        C = import_repo('tlslite.constants').CipherSuite
        cipher_lists = [('chacha20-poly1305', 'chacha20Suites'), ('chacha20-poly1305_draft00', 'chacha20draft00Suites'),
                        ('aes128gcm', 'aes128GcmSuites'), ('aes256gcm', 'aes256GcmSuites'),
                        ('aes128ccm', 'aes128CcmSuites'), ('aes128ccm_8', 'aes128Ccm_8Suites'),
                        ('aes256ccm', 'aes256CcmSuites'), ('aes256ccm_8', 'aes256Ccm_8Suites'),
                        ('aes128', 'aes128Suites'), ('aes256', 'aes256Suites'), ('3des', 'tripleDESSuites'),
                        ('rc4', 'rc4Suites'), ('null', 'nullSuites')]
        mac_lists = [('sha', 'shaSuites'), ('sha256', 'sha256Suites'), ('sha384', 'sha384Suites'),
                     ('md5', 'md5Suites'), ('aead', 'aeadSuites')]
        kex_lists = [('tls13', 'tls13Suites'), ('rsa', 'certSuites'), ('dhe_rsa', 'dheCertSuites'),
                     ('dhe_dsa', 'dheDsaSuites'), ('ecdhe_rsa', 'ecdheCertSuites'),
                     ('ecdhe_ecdsa', 'ecdheEcdsaSuites'), ('srp_sha', 'srpSuites'),
                     ('srp_sha_rsa', 'srpCertSuites'), ('dh_anon', 'anonSuites'), ('ecdh_anon', 'ecdhAnonSuites')]
        rows = []
        for sid in sorted(C.ietfNames):
            if sid in (C.TLS_EMPTY_RENEGOTIATION_INFO_SCSV, C.TLS_FALLBACK_SCSV):
                continue
            ciph = [n for n, l in cipher_lists if sid in getattr(C, l)]
            mac = [n for n, l in mac_lists if sid in getattr(C, l)]
            kex = [n for n, l in kex_lists if sid in getattr(C, l)]
            if len(ciph) != 1 or len(mac) != 1 or len(kex) != 1:
                continue        # not negotiable through _filterSuites (needs exactly one of each to be listed)
            rows.append((sid, ciph[0], mac[0], kex[0], sid in C.tls12Suites, sid in C.sha384PrfSuites,
                         sid in C.ssl3Suites))
        return rows

    # ------------------------------------------------------------------ text
    def translate(self):
        hs = import_repo('tlslite.handshakesettings')
        cm = import_repo('tlslite.utils.cryptomath')
        cf = import_repo('tlslite.utils.cipherfactory')
        compat = import_repo('tlslite.utils.compat')
        copies, muts, inits, digests, rebinds, closure_digest, closure_text = self.skeleton()
        out = ['(* GENERATED by translator/units_settings.py from %s -- do not edit *)' % 'tlslite/handshakesettings.py',
               'From Coq Require Import ZArith List Bool String.',
               'Import ListNotations.', 'Open Scope Z_scope.', 'Open Scope string_scope.', '']
        for t in STR_TABLES:
            v = getattr(hs, t, None)
            if not isinstance(v, (list, tuple)) or not all(isinstance(x, str) for x in v):
                raise Refuse('table %s missing or not a list of strings' % t)
            out.append('Definition %s : list string := %s.' % (t, strlist(v)))
        out.append('Definition KNOWN_VERSIONS : list (Z * Z) := %s.' % pairlist(hs.KNOWN_VERSIONS))
        out.append('Definition EC_POINT_FORMATS : list Z := [%s].' % '; '.join(zl(x) for x in hs.EC_POINT_FORMATS))
        out.append('Definition EC_POINT_UNCOMPRESSED : Z := %s.' % zl(hs.ECPointFormat.uncompressed))
        out.append('Definition DC_FORBIDDEN_ALG : list (Z * Z) := %s.' % pairlist(hs.DELEGETED_CREDENTIAL_FORBIDDEN_ALG))
        out.append('Definition DC_VALID_TIME : Z := %s.' % zl(hs.DC_VALID_TIME))
        out.append('')
        out.append('(* installation flags *)')
        flags = [('m2cryptoLoaded', cm.m2cryptoLoaded), ('pycryptoLoaded', cm.pycryptoLoaded),
                 ('tripleDESPresent', cf.tripleDESPresent), ('gmpyLoaded', cm.gmpyLoaded),
                 ('ML_KEM_AVAILABLE', compat.ML_KEM_AVAILABLE), ('ML_DSA_AVAILABLE', compat.ML_DSA_AVAILABLE),
                 ('ecdsaAllCurves', bool(compat.ecdsaAllCurves))]
        try:
            tack = import_repo('tlslite.utils.tackwrapper').tackpyLoaded
        except Exception:  # noqa
            tack = False
        flags.append(('tackpyLoaded', tack))
        for n, v in flags:
            out.append('Definition flag_%s : bool := %s.' % (n, 'true' if v else 'false'))
        out.append('')
        out.append('(* defaults of HandshakeSettings() *)')
        d = hs.HandshakeSettings()
        attrs = sorted(vars(d))
        out.append('Definition default_attrs : list string := %s.' % strlist(attrs))
        for a in attrs:
            v = getattr(d, a)
            if isinstance(v, list) and all(isinstance(x, str) for x in v):
                out.append('Definition default_%s : list string := %s.' % (a, strlist(v)))
            elif isinstance(v, bool):
                out.append('Definition default_%s : bool := %s.' % (a, 'true' if v else 'false'))
            elif isinstance(v, int):
                out.append('Definition default_%s : Z := %s.' % (a, zl(v)))
            elif isinstance(v, str):
                out.append('Definition default_%s : string := %s.' % (a, sl(v)))
            elif isinstance(v, tuple) and len(v) == 2 and all(isinstance(x, int) for x in v):
                out.append('Definition default_%s : Z * Z := (%s, %s).' % (a, zl(v[0]), zl(v[1])))
            elif isinstance(v, list) and all(isinstance(x, tuple) and len(x) == 2 for x in v):
                out.append('Definition default_%s : list (Z * Z) := %s.' % (a, pairlist(v)))
            elif isinstance(v, list) and all(isinstance(x, int) for x in v):
                out.append('Definition default_%s : list Z := [%s].' % (a, '; '.join(zl(x) for x in v)))
            elif v is None:
                out.append('(* default_%s = None *)' % a)
            else:
                raise Refuse('default of %s has an unmodelled type: %r' % (a, v))
        out.append('')
        out.append('(* structure of the copy phase and of validate(), read from the ast *)')
        out.append('Definition gen_copies : list (string * string) := [\n  %s].'
                   % ';\n  '.join('(%s, %s)' % (sl(a), sl(b)) for a, b in copies))
        out.append('Definition gen_mutation_sites : list string := [\n  %s].' % ';\n  '.join(sl(a) for a in muts))
        out.append('Definition gen_rebinds : list string := [\n  %s].' % ';\n  '.join(sl(a) for a in rebinds))
        out.append('Definition gen_closure_digest : string := %s.' % sl(closure_digest))
        out.append('Definition gen_init_attrs : list string := %s.' % strlist(inits))
        out.append('Definition gen_digests : list (string * string) := [\n  %s].'
                   % ';\n  '.join('(%s, %s)' % (sl(a), sl(b)) for a, b in digests))
        out.append('')
        out.append('(* negotiable cipher suites: id, cipher, mac, key exchange, TLS1.2-only, sha384 PRF, allowed in SSLv3 *)')
        rows = self.suite_table()
        out.append('Definition SUITES : list (Z * string * string * string * bool * bool * bool) := [\n  %s].'
                   % ';\n  '.join('(%d, %s, %s, %s, %s, %s, %s)' % (
                       r[0], sl(r[1]), sl(r[2]), sl(r[3]), str(r[4]).lower(), str(r[5]).lower(), str(r[6]).lower())
                       for r in rows))
        return '\n'.join(out)


UNITS = {'SettingsTables': SettingsUnit}

if __name__ == '__main__':
    print(SettingsUnit().translate())
