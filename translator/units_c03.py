"""Translation unit for C03 (and the spec of C07): tlslite/constants.py + handshakesettings.py +
the suite-ordering skeleton of tlsconnection.py  ->  coq/Gen/C03Tables.v

Regenerated on every run from the tree named by VERIF_REPO:

* every CipherSuite list the negotiation code consults, by importing tlslite.constants;
* the three classification tables of CipherSuite._filterSuites, read from its *ast*
  (`if "name" in macNames [and version >= (3, 3)]: macSuites += CipherSuite.X` ...), i.e. which
  settings name admits which list and whether the admission is gated on TLS 1.2;
* the ordered list of suite getters the client uses to build its offer, per flavour
  (ast of _clientSendClientHello), and the ordered, guarded list the server uses
  (ast of _serverGetClientHello), each getter resolved to the base list it filters
  (ast of the getter: `cls._filterSuites(CipherSuite.X, settings, version)`);
* name <-> wire-id tables: GroupName, SignatureScheme, HashAlgorithm, the settings name
  tables of handshakesettings.py (the code of a name is its index in the ALL_* table);
* the default HandshakeSettings as a model record (used for `Example`s).

Fail-closed: any statement of the three functions that does not have the expected shape
raises Refuse (reported as a broken tie).
"""
import ast
import importlib
import os
import sys

sys.path.insert(0, os.path.dirname(os.path.abspath(__file__)))
from pylite import Refuse  # noqa: E402

REPO = os.path.realpath(os.environ.get('VERIF_REPO', '/repo'))

SUITE_LISTS = ['ssl3Suites', 'tls12Suites', 'tls13Suites', 'certSuites', 'certAllSuites', 'dheCertSuites',
               'ecdheCertSuites', 'ecdheEcdsaSuites', 'dheDsaSuites', 'srpSuites', 'srpCertSuites',
               'srpAllSuites', 'anonSuites', 'ecdhAnonSuites', 'dhAllSuites', 'ecdhAllSuites',
               'streamSuites', 'aeadSuites', 'sha384PrfSuites', 'sha256PrfSuites',
               'shaSuites', 'sha256Suites', 'sha384Suites', 'md5Suites']

# how the model addresses names (index into these tables of handshakesettings.py)
NAME_TABLES = {'cipher': 'ALL_CIPHER_NAMES', 'mac': 'ALL_MAC_NAMES', 'kx': 'KEY_EXCHANGE_NAMES'}
HASH_NAMES = ['md5', 'sha1', 'sha224', 'sha256', 'sha384', 'sha512']
MORE_SIG = ['Ed25519', 'Ed448', 'ecdsa_brainpoolP512r1tls13_sha512', 'ecdsa_brainpoolP384r1tls13_sha384',
            'ecdsa_brainpoolP256r1tls13_sha256', 'mldsa44', 'mldsa65', 'mldsa87']


def import_repo(modname):
    if REPO not in sys.path:
        sys.path.insert(0, REPO)
    m = importlib.import_module(modname)
    f = os.path.realpath(getattr(m, '__file__', ''))
    if not f.startswith(REPO + os.sep):
        raise Refuse('%s was imported from %s, not from %s' % (modname, f, REPO))
    return m


def zl(n):
    n = int(n)
    return str(n) if n >= 0 else '(%d)' % n


def zlist(xs):
    return '[' + '; '.join(zl(x) for x in xs) + ']'


def find_func(tree, cls, name):
    for node in ast.walk(tree):
        if isinstance(node, ast.ClassDef) and node.name == cls:
            for f in node.body:
                if isinstance(f, ast.FunctionDef) and f.name == name:
                    return f
    raise Refuse('function %s.%s not found' % (cls, name))


def suite_attr(e):
    """CipherSuite.X -> 'X'"""
    if isinstance(e, ast.Attribute) and isinstance(e.value, ast.Name) and e.value.id == 'CipherSuite':
        return e.attr
    raise Refuse('expected CipherSuite.<list>, got %s' % ast.unparse(e))


class C03Unit(object):
    def __init__(self):
        self.consts_path = os.path.join(REPO, 'tlslite/constants.py')
        self.conn_path = os.path.join(REPO, 'tlslite/tlsconnection.py')

    # ---------------------------------------------------------------- _filterSuites
    def filter_tables(self, tree, hs):
        f = find_func(tree, 'CipherSuite', '_filterSuites')
        tables = {'macSuites': [], 'cipherSuites': [], 'keyExchangeSuites': []}
        setting_of = {'macSuites': ('macNames', 'mac'), 'cipherSuites': ('cipherNames', 'cipher'),
                      'keyExchangeSuites': ('keyExchangeNames', 'kx')}
        tls13_kx = None
        seen_return = False
        for st in f.body:
            if isinstance(st, ast.Expr) and isinstance(st.value, ast.Constant):
                continue
            src = ast.unparse(st)
            if isinstance(st, ast.If) and src.startswith('if version is None'):
                if src.replace(' ', '').replace('\n', '') != 'ifversionisNone:version=settings.maxVersion':
                    raise Refuse('_filterSuites: unexpected default-version statement: %s' % src)
                continue
            if isinstance(st, ast.Assign):
                t = ast.unparse(st.targets[0])
                v = ast.unparse(st.value)
                if (t, v) in (('macNames', 'settings.macNames'), ('cipherNames', 'settings.cipherNames'),
                              ('keyExchangeNames', 'settings.keyExchangeNames'), ('macSuites', '[]'),
                              ('cipherSuites', '[]'), ('keyExchangeSuites', '[]')):
                    continue
                raise Refuse('_filterSuites: unexpected assignment %s' % src)
            if isinstance(st, ast.If):
                if st.orelse or len(st.body) != 1 or not isinstance(st.body[0], ast.AugAssign) \
                        or not isinstance(st.body[0].op, ast.Add):
                    raise Refuse('_filterSuites: unexpected if-shape: %s' % src)
                target = ast.unparse(st.body[0].target)
                lst = suite_attr(st.body[0].value)
                if target not in tables:
                    raise Refuse('_filterSuites: unexpected target %s' % target)
                test = st.test
                conds = test.values if isinstance(test, ast.BoolOp) and isinstance(test.op, ast.And) else [test]
                name, gate = None, False
                for c in conds:
                    cs = ast.unparse(c)
                    if isinstance(c, ast.Compare) and isinstance(c.ops[0], ast.In) and \
                            isinstance(c.left, ast.Constant) and isinstance(c.left.value, str):
                        if ast.unparse(c.comparators[0]) != setting_of[target][0]:
                            raise Refuse('_filterSuites: %s tested against %s' % (target, cs))
                        name = c.left.value
                    elif cs == 'version >= (3, 3)':
                        gate = True
                    elif cs == 'version >= (3, 4)' and len(conds) == 1 and target == 'keyExchangeSuites':
                        tls13_kx = lst
                    else:
                        raise Refuse('_filterSuites: unexpected condition %s' % cs)
                if name is not None:
                    allnames = getattr(hs, NAME_TABLES[setting_of[target][1]])
                    if name not in allnames:
                        raise Refuse('_filterSuites mentions unknown name %r' % name)
                    tables[target].append((allnames.index(name), gate, lst, name))
                continue
            if isinstance(st, ast.Return):
                want = '[s for s in suites if s in macSuites and s in cipherSuites and (s in keyExchangeSuites)]'
                if ast.unparse(st.value) != want:
                    raise Refuse('_filterSuites: unexpected return %s' % ast.unparse(st.value))
                seen_return = True
                continue
            raise Refuse('_filterSuites: unexpected statement %s' % src)
        if not seen_return or tls13_kx is None:
            raise Refuse('_filterSuites: return / TLS 1.3 key-exchange clause missing')
        return tables, tls13_kx

    # ---------------------------------------------------------------- getters
    def getter_base(self, tree, getter):
        f = find_func(tree, 'CipherSuite', getter)
        rets = [s for s in f.body if isinstance(s, ast.Return)]
        if len(rets) != 1:
            raise Refuse('%s: expected a single return' % getter)
        call = rets[0].value
        if not (isinstance(call, ast.Call) and ast.unparse(call.func) == 'cls._filterSuites' and
                len(call.args) == 3 and ast.unparse(call.args[1]) == 'settings' and
                ast.unparse(call.args[2]) == 'version'):
            raise Refuse('%s: unexpected body %s' % (getter, ast.unparse(rets[0])))
        return suite_attr(call.args[0])

    def getter_calls(self, stmts, ctree, var='cipherSuites', versioned=False):
        """[`cipherSuites += CipherSuite.getX(settings[, version])`] -> [base list names]"""
        out = []
        for st in stmts:
            if not (isinstance(st, ast.AugAssign) and isinstance(st.op, ast.Add) and
                    ast.unparse(st.target) == var and isinstance(st.value, ast.Call)):
                raise Refuse('suite order: unexpected statement %s' % ast.unparse(st))
            call = st.value
            args = [ast.unparse(a) for a in call.args]
            if args != (['settings', 'version'] if versioned else ['settings']):
                raise Refuse('suite order: unexpected arguments %s' % ast.unparse(st))
            out.append(self.getter_base(ctree, suite_attr(call.func)))
        return out

    def client_order(self, conn_tree, ctree):
        f = find_func(conn_tree, 'TLSConnection', '_clientSendClientHello')
        first = [s for s in f.body if isinstance(s, ast.Assign) and ast.unparse(s.targets[0]) == 'cipherSuites']
        if not first or ast.unparse(first[0].value) != '[CipherSuite.TLS_EMPTY_RENEGOTIATION_INFO_SCSV]':
            raise Refuse('client offer: initial cipherSuites assignment changed')
        node = [s for s in f.body if isinstance(s, ast.If) and ast.unparse(s.test) == 'srpParams']
        if len(node) != 1:
            raise Refuse('client offer: flavour dispatch not found')
        node = node[0]
        out = {'srp': self.getter_calls(node.body, ctree)}
        if len(node.orelse) != 1 or ast.unparse(node.orelse[0].test) != 'certParams':
            raise Refuse('client offer: expected elif certParams')
        node = node.orelse[0]
        out['cert'] = self.getter_calls(node.body, ctree)
        if len(node.orelse) != 1 or ast.unparse(node.orelse[0].test) != 'anonParams':
            raise Refuse('client offer: expected elif anonParams')
        node = node.orelse[0]
        out['anon'] = self.getter_calls(node.body, ctree)
        return out

    def server_order(self, conn_tree, ctree):
        f = find_func(conn_tree, 'TLSConnection', '_serverGetClientHello')
        idx = [i for i, s in enumerate(f.body) if isinstance(s, ast.Assign) and
               ast.unparse(s.targets[0]) == 'cipherSuites' and ast.unparse(s.value) == '[]']
        if len(idx) != 1:
            raise Refuse('server order: `cipherSuites = []` not found exactly once')
        node = f.body[idx[0] + 1]
        after = f.body[idx[0] + 2]
        want_after = ('cipherSuites = CipherSuite.filterForVersion(cipherSuites, minVersion=version, '
                      'maxVersion=version)')
        if ast.unparse(after) != want_after:
            raise Refuse('server order: expected filterForVersion(version, version), got %s' % ast.unparse(after))
        out = {}

        def expect(n, test):
            if not isinstance(n, ast.If) or ast.unparse(n.test) != test:
                raise Refuse('server order: expected `if %s`, got %s' % (test, ast.unparse(n)[:80]))
        expect(node, 'verifierDB')
        if len(node.body) != 2:
            raise Refuse('server order: srp branch changed')
        expect(node.body[0], 'cert_chain')
        out['srp_cert'] = self.getter_calls(node.body[0].body, ctree, versioned=True)
        out['srp'] = self.getter_calls(node.body[1:], ctree, versioned=True)
        node = node.orelse[0]
        expect(node, 'cert_chain')
        if len(node.body) != 4:
            raise Refuse('server order: cert branch changed')
        expect(node.body[0], 'ecGroupIntersect or ffGroupIntersect')
        out['cert_any'] = self.getter_calls(node.body[0].body, ctree, versioned=True)
        expect(node.body[1], 'ecGroupIntersect')
        out['cert_ec'] = self.getter_calls(node.body[1].body, ctree, versioned=True)
        expect(node.body[2], 'ffGroupIntersect')
        out['cert_ff'] = self.getter_calls(node.body[2].body, ctree, versioned=True)
        out['cert_rsa'] = self.getter_calls(node.body[3:], ctree, versioned=True)
        node = node.orelse[0]
        expect(node, 'anon')
        out['anon'] = self.getter_calls(node.body, ctree, versioned=True)
        node = node.orelse[0]
        expect(node, 'settings.pskConfigs')
        out['psk'] = self.getter_calls(node.body, ctree, versioned=True)
        return out

    # ---------------------------------------------------------------- repairs present in this tree?
    def repair_flags(self, conn_tree, conn_src):
        """Booleans telling which of the small repairs proposed for the C03 findings (proposed_fixes/C03-*.diff,
        C19-4.diff) are present in the tree under test; the model branches on them so that it describes
        the tree with or without each repair.  Each probe looks for the repaired construct inside the one
        function it belongs to."""
        def src(name):
            return ast.get_source_segment(conn_src, find_func(conn_tree, 'TLSConnection', name)) or ''

        def ems_test_mentions_13():
            f = find_func(conn_tree, 'TLSConnection', '_clientGetServerHello')
            for node in ast.walk(f):
                if isinstance(node, ast.If):
                    t = ast.unparse(node.test)
                    if 'requireExtendedMasterSecret' in t:
                        return '(3, 4)' in t
            raise Refuse('_clientGetServerHello: requireExtendedMasterSecret test not found')

        def server_ems_guarded():
            f = find_func(conn_tree, 'TLSConnection', '_handshakeServerAsyncHelper')
            for node in ast.walk(f):
                if isinstance(node, ast.If) and 'extended_master_secret' in ast.unparse(node.test) \
                        and 'useExtendedMasterSecret' not in ast.unparse(node.test):
                    return '(3, 0)' in ast.unparse(node.test)
            raise Refuse('_handshakeServerAsyncHelper: extended_master_secret test not found')

        def client_ems_guarded():
            f = find_func(conn_tree, 'TLSConnection', '_handshakeClientAsyncHelper')
            for node in ast.walk(f):
                if isinstance(node, ast.If) and ast.unparse(node.test) == \
                        'serverHello.getExtension(ExtensionType.extended_master_secret)':
                    return '(3, 0)' in ast.unparse(node)
            raise Refuse('_handshakeClientAsyncHelper: extended_master_secret test not found')
        def server_chain_covers_dsa():
            # the `if` whose body is `serverCertChain = cert_chain` in the TLS <= 1.2 server
            f = find_func(conn_tree, 'TLSConnection', '_handshakeServerAsyncHelper')
            for node in ast.walk(f):
                if isinstance(node, ast.If) and any(ast.unparse(b) == 'serverCertChain = cert_chain' for b in node.body):
                    return 'dheDsaSuites' in ast.unparse(node.test)
            raise Refuse('_handshakeServerAsyncHelper: `serverCertChain = cert_chain` not found')
        def psk_prf_only_tls13():
            # the `if` that narrows the server's suites by the PRF of a matching PSK (_server_select_certificate)
            f = find_func(conn_tree, 'TLSConnection', '_server_select_certificate')
            for node in ast.walk(f):
                if isinstance(node, ast.If) and 'pskConfigs' in ast.unparse(node.test) and 'filter_for_prfs' in ast.unparse(node):
                    return 'version' in ast.unparse(node.test)
            raise Refuse('_server_select_certificate: PSK PRF narrowing not found')
        def psk_prf_fallback():
            # `ciphers = filter_for_prfs(...)` (narrow always) or `x = filter_for_prfs(...); if any(.. cipher_suites ..): ciphers = x`
            f = find_func(conn_tree, 'TLSConnection', '_server_select_certificate')
            for node in ast.walk(f):
                if isinstance(node, ast.Assign) and 'filter_for_prfs' in ast.unparse(node.value) and len(node.targets) == 1:
                    name = ast.unparse(node.targets[0])
                    if name == 'ciphers':
                        return False
                    for n2 in ast.walk(f):
                        if isinstance(n2, ast.If) and 'cipher_suites' in ast.unparse(n2.test) and name in ast.unparse(n2.test) \
                                and [ast.unparse(b) for b in n2.body] == ['ciphers = %s' % name] and not n2.orelse:
                            return True
                    raise Refuse('_server_select_certificate: PSK PRF narrowing has an unknown shape')
            raise Refuse('_server_select_certificate: PSK PRF narrowing not found')
        cke = src('_clientKeyExchange')
        return [
            ('fix_dh_size', 'dhGroupSize' in cke and 'settings.minKeySize' in cke),
            ('fix_tls13_client_key', '_check_certchain_with_settings' in src('_serverTLS13Handshake')),
            ('fix_eddsa_server', 'Ed25519' in src('_server_select_certificate')),
            ('fix_eddsa_client', 'Ed25519' in cke),
            ('fix_sigalg_tls12', 'not valid_sig_algs' in cke),
            ('fix_sigalg_tls13', 'signature_scheme is None' in src('_clientTLS13Handshake')),
            ('fix_ems_sslv3_server', server_ems_guarded()),
            ('fix_ems_sslv3_client', client_ems_guarded()),
            ('fix_internal_error_srp', 'TLSInternalError' in src('_serverSRPKeyExchange')),
            ('fix_internal_error_anon', 'TLSInternalError' in src('_serverAnonKeyExchange')),
            ('fix_req_ems_tls13', ems_test_mentions_13()),
            ('fix_sigalg_assert', 'assert sig_list' not in src('_clientSendClientHello')),
            ('fix_dhe_dsa_chain', server_chain_covers_dsa()),
            ('fix_psk_prf_tls13_only', psk_prf_only_tls13()),
            ('fix_psk_prf_fallback', psk_prf_fallback()),
            ('fix_cert_type_vs_suite', '.certAlg' in cke and 'ecdheEcdsaSuites' in cke),
        ]

    # ---------------------------------------------------------------- main
    def tables(self):
        consts = import_repo('tlslite.constants')
        hs = import_repo('tlslite.handshakesettings')
        with open(self.consts_path) as fh:
            ctree = ast.parse(fh.read())
        with open(self.conn_path) as fh:
            conn_src = fh.read()
        conn_tree = ast.parse(conn_src)
        CS = consts.CipherSuite
        t = {}
        t['filter'], t['tls13_kx'] = self.filter_tables(ctree, hs)
        names = list(SUITE_LISTS)
        for rows in t['filter'].values():
            for _, _, lst, _ in rows:
                if lst not in names:
                    names.append(lst)
        t['list_names'] = names
        t['lists'] = {n: list(getattr(CS, n)) for n in names}
        t['flags'] = self.repair_flags(conn_tree, conn_src)
        # behavioural probe: does validate() keep `versions` below maxVersion?
        probe = hs.HandshakeSettings()
        probe.minVersion, probe.maxVersion = (3, 1), (3, 2)
        t['flags'].append(('fix_versions_clipped', all(v <= (3, 2) for v in probe.validate().versions)))
        t['client_order'] = self.client_order(conn_tree, ctree)
        t['server_order'] = self.server_order(conn_tree, ctree)
        t['names'] = {k: list(getattr(hs, v)) for k, v in NAME_TABLES.items()}
        t['groups'] = {k: v for k, v in vars(consts.GroupName).items() if isinstance(v, int)}
        t['allFF'] = list(consts.GroupName.allFF)
        t['allEC'] = list(consts.GroupName.allEC)
        t['allKEM'] = list(consts.GroupName.allKEM)
        t['forbidden13'] = sorted(consts.TLS_1_3_FORBIDDEN_GROUPS)
        t['hash'] = {n: getattr(consts.HashAlgorithm, n) for n in HASH_NAMES}
        t['sigalg'] = {k: v for k, v in vars(consts.SignatureAlgorithm).items() if isinstance(v, int)}
        t['scheme'] = {k: v for k, v in vars(consts.SignatureScheme).items() if isinstance(v, tuple)}
        t['more_sig'] = [(i, n, getattr(consts.SignatureScheme, n, None) or getattr(consts.SignatureScheme, n.lower(), None))
                         for i, n in enumerate(MORE_SIG)]
        t['scsv'] = CS.TLS_EMPTY_RENEGOTIATION_INFO_SCSV
        t['fallback_scsv'] = CS.TLS_FALLBACK_SCSV
        d = hs.HandshakeSettings()
        t['defaults'] = d
        t['hs'] = hs
        return t

    def translate(self):
        t = self.tables()
        L = ['(* GENERATED by translator/units_c03.py from %s -- do not edit *)' % 'tlslite/{constants,handshakesettings,tlsconnection}.py',
             'From Coq Require Import ZArith List Bool.', 'Import ListNotations.', 'Open Scope Z_scope.', '']
        for n in t['list_names']:
            L.append('Definition %s : list Z := %s.' % (n, zlist(t['lists'][n])))
        L.append('')
        for tgt, cname in (('macSuites', 'mac_table'), ('cipherSuites', 'cipher_table'),
                           ('keyExchangeSuites', 'kx_table')):
            rows = ['(%d, %s, %s) (* %s *)' % (code, 'true' if gate else 'false', lst, name)
                    for code, gate, lst, name in t['filter'][tgt]]
            L.append('(* (settings name code, admitted only when version >= TLS 1.2, list) in source order *)')
            L.append('Definition %s : list (Z * bool * list Z) := [\n  %s].' % (cname, ';\n  '.join(rows)))
        L.append('Definition kx_tls13_list : list Z := %s.   (* admitted when version >= TLS 1.3 *)' % t['tls13_kx'])
        L.append('')
        for k, v in t['client_order'].items():
            L.append('Definition client_order_%s : list (list Z) := [%s].' % (k, '; '.join(v)))
        for k, v in t['server_order'].items():
            L.append('Definition server_order_%s : list (list Z) := [%s].' % (k, '; '.join(v)))
        L.append('')
        for k, names in t['names'].items():
            L.append('(* %s name codes: %s *)' % (k, ', '.join('%d=%s' % (i, n) for i, n in enumerate(names))))
            L.append('Definition n_%s_names : Z := %d.' % (k, len(names)))
        L.append('Definition group_ids : list Z := %s.' % zlist(sorted(t['groups'].values())))
        L.append('(* groups: %s *)' % ', '.join('%s=%d' % kv for kv in sorted(t['groups'].items(), key=lambda kv: kv[1])))
        L.append('Definition groups_ff : list Z := %s.' % zlist(t['allFF']))
        L.append('Definition groups_ec : list Z := %s.' % zlist(t['allEC']))
        L.append('Definition groups_kem : list Z := %s.' % zlist(t['allKEM']))
        L.append('Definition groups_forbidden13 : list Z := %s.' % zlist(t['forbidden13']))
        L.append('Definition ffdhe_bits : list (Z * Z) := [%s].' % '; '.join(
            '(%d, %s)' % (t['groups'][n], n[5:]) for n in ('ffdhe2048', 'ffdhe3072', 'ffdhe4096', 'ffdhe6144', 'ffdhe8192')
            if n in t['groups']))
        for n in ('secp256r1', 'secp384r1', 'secp521r1', 'brainpoolP256r1', 'brainpoolP384r1', 'brainpoolP512r1',
                  'x25519', 'x448'):
            L.append('Definition g_%s : Z := %d.' % (n, t['groups'][n]))
        L.append('')
        L.append('(* signature schemes are encoded as hash*256 + signature *)')
        for n in HASH_NAMES:
            L.append('Definition h_%s : Z := %d.' % (n, t['hash'][n]))
        for k, v in sorted(t['sigalg'].items()):
            L.append('Definition sa_%s : Z := %d.' % (k, v))
        for k, v in sorted(t['scheme'].items()):
            L.append('Definition ss_%s : Z := %d.' % (k, v[0] * 256 + v[1]))
        L.append('(* more_sig_schemes codes -> scheme id: %s *)' % ', '.join('%d=%s' % (i, n) for i, n, _ in t['more_sig']))
        L.append('Definition more_sig_table : list (Z * Z) := [%s].' % '; '.join(
            '(%d, %d)' % (i, v[0] * 256 + v[1]) for i, n, v in t['more_sig'] if v))
        L.append('(* which of the proposed small repairs are present in this tree (see repair_flags) *)')
        for k, v in t['flags']:
            L.append('Definition %s : bool := %s.' % (k, 'true' if v else 'false'))
        L.append('Definition scsv_renego : Z := %d.' % t['scsv'])
        L.append('Definition scsv_fallback : Z := %d.' % t['fallback_scsv'])
        return '\n'.join(L)


def settings_record(t, v, psks=()):
    """Gallina `Settings` literal for a (validated) HandshakeSettings object v."""
    names, hashid, groups = t['names'], t['hash'], t['groups']
    more = {n: i for i, n, _ in t['more_sig']}

    def zs(xs):
        return zlist(xs)
    f = ['st_minV := %d' % v.minVersion[1], 'st_maxV := %d' % v.maxVersion[1],
         'st_versions := %s' % zs([x[1] for x in v.versions]),
         'st_ciphers := %s' % zs([names['cipher'].index(x) for x in v.cipherNames]),
         'st_macs := %s' % zs([names['mac'].index(x) for x in v.macNames]),
         'st_kxs := %s' % zs([names['kx'].index(x) for x in v.keyExchangeNames]),
         'st_curves := %s' % zs([groups[x] for x in v.eccCurves]),
         'st_dhgroups := %s' % zs([groups[x] for x in v.dhGroups]),
         'st_shares := %s' % zs([groups[x] for x in v.keyShares]),
         'st_default_curve := %d' % groups[v.defaultCurve],
         'st_rsa_hashes := %s' % zs([hashid[x] for x in v.rsaSigHashes]),
         'st_rsa_schemes := %s' % zs([0 if x == 'pss' else 1 for x in v.rsaSchemes]),
         'st_ecdsa_hashes := %s' % zs([hashid[x] for x in v.ecdsaSigHashes]),
         'st_dsa_hashes := %s' % zs([hashid[x] for x in v.dsaSigHashes]),
         'st_more_sigs := %s' % zs([more[x] for x in v.more_sig_schemes]),
         'st_min_key := %d' % v.minKeySize, 'st_max_key := %d' % v.maxKeySize,
         'st_etm := %s' % ('true' if v.useEncryptThenMAC else 'false'),
         'st_ems := %s' % ('true' if v.useExtendedMasterSecret else 'false'),
         'st_req_ems := %s' % ('true' if v.requireExtendedMasterSecret else 'false'),
         'st_rsl := %s' % ('(Some %d)' % v.record_size_limit if v.record_size_limit else 'None'),
         'st_psks := [%s]' % ';'.join('(%d,%d)' % (i, 1 if h == 'sha384' else 0) for i, h in psks),
         'st_psk_modes := %s' % zs([0 if m == 'psk_dhe_ke' else 1 for m in v.psk_modes]),
         'st_dh_bits := 2048']
    return '{| ' + '; '.join(f) + ' |}'


class C03Defaults(object):
    """coq/Gen/C03Defaults.v: HandshakeSettings().validate() as a model record."""

    def translate(self):
        t = C03Unit().tables()
        d = t['hs'].HandshakeSettings().validate()
        return ('(* GENERATED by translator/units_c03.py from tlslite/handshakesettings.py -- do not edit *)\n'
                'From Coq Require Import ZArith List Bool.\nFrom TV Require Import Gen.C03Tables Model.C03_Negotiate.\n'
                'Import ListNotations.\nOpen Scope Z_scope.\n\n'
                'Definition default_settings : Settings :=\n  %s.' % settings_record(t, d))


UNITS = {'C03Tables': C03Unit, 'C03Defaults': C03Defaults}


# ---- helpers shared with the harness (name <-> code) ------------------------------------------
def codes():
    """Python-side view of the same tables (used by harness/props/C03.py to encode settings)."""
    return C03Unit().tables()
