"""C05 translation units (regenerated from /repo on every run, fail-closed):

  C05_VerifyBytes : KeyExchange.calcVerifyBytes  ->  Gallina function over oracles
                    (handshake-hash digests, secureHash, PKCS#1 prefix, SSLv3 master secret)
  C05_Sites       : table of every authentication-relevant program point of
                    tlsconnection.py / tlsrecordlayer.py / keyexchange.py / x509.py /
                    handshakehelpers.py: verification calls, offered-scheme checks,
                    Finished comparisons, binder checks, assignments to the identity
                    variables and every session.create(...) -- in source order, with the
                    guard path (enclosing conditions) and what happens when the check fails.
"""
import ast
import os
import sys

sys.path.insert(0, os.path.dirname(os.path.abspath(__file__)))
from pylite import Refuse  # noqa: E402

REPO = os.path.realpath(os.environ.get('VERIF_REPO', '/repo'))


def cstr(s):
    return '"' + s.replace('"', '""') + '"'


# =========================================================================================
# calcVerifyBytes
# =========================================================================================
class VBTranslator(object):
    """Handles exactly the constructs calcVerifyBytes uses; anything else -> Refuse.
    Value types: ver (Z*Z) | osch option (Z*Z) | ostr option string | bytes | Z | bool.
    Branches are translated in continuation-passing style (the tail of the function is
    duplicated into each branch), so 'maybe undefined' variables are refused exactly on the
    paths where Python would raise NameError."""

    PARAMS = [('version', 'ver'), ('handshakeHashes', 'bytes'), ('signatureAlg', 'osch'),
              ('premasterSecret', 'bytes'), ('clientRandom', 'bytes'), ('serverRandom', 'bytes'),
              ('prf_name', 'ostr'), ('peer_tag', 'bytes'), ('key_type', 'ostr')]
    TY = {'ver': '(Z * Z)', 'osch': 'option (Z * Z)', 'ostr': 'option string', 'bytes': 'list Z',
          'Z': 'Z', 'bool': 'bool'}

    def __init__(self, path):
        self.path = path
        self.tmp = 0
        import importlib
        self.consts = importlib.import_module('tlslite.constants')

    def fresh(self):
        self.tmp += 1
        return 't%d_' % self.tmp

    # -- constants resolved by importing /repo
    def const(self, e):
        """SignatureScheme.ed25519 / SignatureAlgorithm.dsa -> python value"""
        if isinstance(e, ast.Attribute) and isinstance(e.value, ast.Name) and \
                e.value.id in ('SignatureScheme', 'SignatureAlgorithm', 'HashAlgorithm'):
            cls = getattr(self.consts, e.value.id)
            if not hasattr(cls, e.attr):
                raise Refuse('constant %s.%s does not resolve' % (e.value.id, e.attr))
            return getattr(cls, e.attr)
        return None

    def bytes_const(self, e):
        if isinstance(e, ast.Constant) and isinstance(e.value, bytes):
            return e.value
        if isinstance(e, ast.BinOp) and isinstance(e.op, ast.Mult):
            a, b = self.bytes_const(e.left), e.right
            if a is not None and isinstance(b, ast.Constant) and isinstance(b.value, int):
                return a * b.value
        return None

    # -- expressions: returns (code, type, binds)
    def expr(self, e, env):
        bc = self.bytes_const(e)
        if bc is not None:
            return '[' + ';'.join(str(x) for x in bc) + ']', 'bytes', []
        if isinstance(e, ast.Constant):
            if e.value is None:
                return 'None', 'none', []
            if isinstance(e.value, str):
                return '(Some %s)' % cstr(e.value), 'ostr', []
            if isinstance(e.value, bool):
                return ('true' if e.value else 'false'), 'bool', []
            if isinstance(e.value, int):
                return str(e.value), 'Z', []
            raise Refuse('constant %r' % (e.value,))
        if isinstance(e, ast.Name):
            if e.id not in env:
                raise Refuse('variable %s may be undefined (line %d)' % (e.id, e.lineno))
            return env[e.id][1], env[e.id][0], []
        if isinstance(e, ast.Tuple):
            if all(isinstance(x, ast.Constant) and isinstance(x.value, int) for x in e.elts) and len(e.elts) == 2:
                return '(%d, %d)' % (e.elts[0].value, e.elts[1].value), 'ver', []
            raise Refuse('tuple expression (line %d)' % e.lineno)
        c = self.const(e)
        if c is not None:
            if isinstance(c, tuple) and len(c) == 2:
                return '(Some (%d, %d))' % c, 'osch', []
            if isinstance(c, int):
                return str(c), 'Z', []
            raise Refuse('constant of unsupported type')
        if isinstance(e, ast.Subscript):
            v, ty, b = self.expr(e.value, env)
            if ty == 'bytes' and isinstance(e.slice, ast.Slice) and e.slice.step is None:
                bnds = []
                for bd in (e.slice.lower, e.slice.upper):
                    if bd is None:
                        bnds.append('None')
                    elif isinstance(bd, ast.Constant) and isinstance(bd.value, int):
                        bnds.append('(Some %s)' % (str(bd.value) if bd.value >= 0 else '(%d)' % bd.value))
                    else:
                        raise Refuse('slice bound (line %d)' % e.lineno)
                return '(py_slice %s %s %s)' % (v, bnds[0], bnds[1]), 'bytes', b
            if ty == 'osch' and isinstance(e.slice, ast.Constant) and e.slice.value in (0, 1):
                t = self.fresh()
                return t, 'Z', b + [(t, 'osch_index %s %d' % (v, e.slice.value))]
            raise Refuse('subscript (line %d)' % e.lineno)
        if isinstance(e, ast.BinOp) and isinstance(e.op, ast.Add):
            a, ta, ba = self.expr(e.left, env)
            c2, tb, bb = self.expr(e.right, env)
            if ta == 'bytes' and tb == 'bytes':
                return '(%s ++ %s)%%list' % (a, c2), 'bytes', ba + bb
            raise Refuse('+ on %s,%s (line %d)' % (ta, tb, e.lineno))
        if isinstance(e, ast.Compare) and len(e.ops) == 1:
            op = e.ops[0]
            a, ta, ba = self.expr(e.left, env)
            rhs = e.comparators[0]
            if isinstance(op, (ast.In, ast.NotIn)):
                if not isinstance(rhs, ast.Tuple):
                    raise Refuse('in: non-literal container')
                items = [self.expr(x, env) for x in rhs.elts]
                binds = ba + sum((i[2] for i in items), [])
                code = '(existsb (%s %s) [%s])' % (self.eqb(ta, items[0][1]), a, '; '.join(i[0] for i in items))
                if isinstance(op, ast.NotIn):
                    code = '(negb %s)' % code
                return code, 'bool', binds
            c2, tb, bb = self.expr(rhs, env)
            if isinstance(op, (ast.Eq, ast.NotEq)):
                code = '(%s %s %s)' % (self.eqb(ta, tb), a, c2)
                if isinstance(op, ast.NotEq):
                    code = '(negb %s)' % code
                return code, 'bool', ba + bb
            if isinstance(op, (ast.Is, ast.IsNot)) and tb == 'none' and ta in ('ostr', 'osch'):
                code = '(is_none %s)' % a
                if isinstance(op, ast.IsNot):
                    code = '(negb %s)' % code
                return code, 'bool', ba
            raise Refuse('comparison (line %d)' % e.lineno)
        if isinstance(e, ast.Call):
            return self.call(e, env)
        raise Refuse('expression %s (line %d)' % (type(e).__name__, getattr(e, 'lineno', 0)))

    def eqb(self, ta, tb):
        if ta == 'ver' and tb == 'ver':
            return 'pairZ_eqb'
        if ta == 'osch' and tb == 'osch':
            return 'osch_eqb'
        if ta == 'ostr' and tb in ('ostr', 'none'):
            return 'ostr_eqb'
        if ta == 'Z' and tb == 'Z':
            return 'Z.eqb'
        raise Refuse('no equality between %s and %s' % (ta, tb))

    def call(self, e, env):
        f = e.func
        name = ast.unparse(f)
        args = [self.expr(a, env) for a in e.args]
        kws = [(k.arg, self.expr(k.value, env)) for k in e.keywords]
        binds = sum((a[2] for a in args), []) + sum((k[1][2] for k in kws), [])
        codes = [a[0] for a in args]
        tys = [a[1] for a in args]
        if name == 'bytearray' and tys == ['bytes']:
            return codes[0], 'bytes', binds
        if name == 'SignatureScheme.toRepr' and tys == ['osch']:
            return '(SignatureScheme_toRepr %s)' % codes[0], 'ostr', binds
        if name == 'HashAlgorithm.toRepr' and tys == ['Z']:
            return '(HashAlgorithm_toRepr %s)' % codes[0], 'ostr', binds
        if name in ('SignatureScheme.getHash', 'SignatureScheme.getPadding') and tys == ['ostr']:
            t = self.fresh()
            return t, 'ostr', binds + [(t, '%s %s' % (name.replace('.', '_'), codes[0]))]
        if isinstance(f, ast.Attribute) and isinstance(f.value, ast.Name) and f.attr in ('digest', 'digestSSL') \
                and f.value.id in env and env[f.value.id][0] == 'bytes':
            recv = env[f.value.id][1]            # the HandshakeHashes object (any local name bound to it)
            if f.attr == 'digest' and tys in ([], ['ostr']):
                return '(hh_digest %s %s)' % (recv, codes[0] if codes else 'None'), 'bytes', binds
            if f.attr == 'digestSSL' and tys == ['bytes', 'bytes']:
                return '(hh_digestSSL %s %s %s)' % (recv, codes[0], codes[1]), 'bytes', binds
        if name == 'calc_key':
            if tys != ['ver', 'bytes', 'Z', 'bytes'] or [k for k, _ in kws] != ['client_random', 'server_random', 'output_length']:
                raise Refuse('calc_key call shape changed (line %d)' % e.lineno)
            return '(calc_key %s %s)' % (' '.join(codes), ' '.join(k[1][0] for k in kws)), 'bytes', binds
        if name == 'RSAKey.addPKCS1Prefix' and tys == ['bytes', 'ostr']:
            return '(addPKCS1Prefix %s %s)' % tuple(codes), 'bytes', binds
        if name == 'secureHash' and tys == ['bytes', 'ostr']:
            return '(secureHash %s %s)' % tuple(codes), 'bytes', binds
        raise Refuse('call of %s with %s (line %d)' % (name, tys, e.lineno))

    # -- truthiness of an if-test
    def test(self, e, env):
        code, ty, b = self.expr(e, env)
        if ty == 'bool':
            return code, b
        if ty == 'ostr':                     # "if scheme:"  None or '' are false
            return '(ostr_truthy %s)' % code, b
        raise Refuse('truthiness of %s (line %d)' % (ty, e.lineno))

    @staticmethod
    def wrap(binds, body):
        for n, c in reversed(binds):
            body = '%s <- %s ;;\n%s' % (n, c, body)
        return body

    # -- helper static methods of KeyExchange called from calcVerifyBytes are INLINED (their locals get a
    #    unique suffix), so extracting parts of the function into helpers does not change the model
    def helper_of(self, call):
        f = call.func
        if isinstance(f, ast.Attribute) and isinstance(f.value, ast.Name) and f.value.id in ('KeyExchange', 'cls', 'self') \
                and f.attr in self.helpers and not call.keywords:
            return self.helpers[f.attr]
        return None

    def inline(self, call, env, k):
        fd = self.helper_of(call)
        if self.depth > 4:
            raise Refuse('helper recursion')
        params = [a.arg for a in fd.args.args]
        if fd.args.defaults or fd.args.vararg or fd.args.kwarg or len(params) != len(call.args):
            raise Refuse('helper %s: call shape (line %d)' % (fd.name, call.lineno))
        args = [self.expr(a, env) for a in call.args]
        self.inl += 1
        suffix = '__%d' % self.inl
        henv = {}
        lets = ''
        for pn, (code, ty, _) in zip(params, args):
            henv[pn] = (ty, pn + suffix)
            lets += 'let %s := %s in\n' % (pn + suffix, code)
        old_suffix, self.suffix = self.suffix, suffix
        self.depth += 1

        def kk(vals, _env):
            self.suffix = old_suffix               # the continuation is code of the CALLER
            try:
                return k(vals)
            finally:
                self.suffix = suffix
        body = self.block(fd.body, henv, kk)
        self.depth -= 1
        self.suffix = old_suffix
        return self.wrap(sum((a[2] for a in args), []), lets + body)

    def bind_targets(self, target, vals, env, lineno):
        names = [target] if isinstance(target, ast.Name) else list(target.elts) if isinstance(target, ast.Tuple) else None
        if names is None or any(not isinstance(n, ast.Name) for n in names) or len(names) != len(vals):
            raise Refuse('assignment form (line %d)' % lineno)
        env2 = dict(env)
        lets = ''
        for n, (code, ty) in zip(names, vals):
            if ty == 'none':
                ty, code = 'ostr', '(@None string)'
            cn = n.id + self.suffix
            env2[n.id] = (ty, cn)
            lets += 'let %s := %s in\n' % (cn, code)
        return lets, env2

    def block(self, stmts, env, k=None):
        """k(values, env) -> code: what happens with the value(s) of a `return` (None: the function's own return)"""
        if not stmts:
            raise Refuse('control reaches end of function')
        s, rest = stmts[0], stmts[1:]
        if isinstance(s, ast.Expr) and isinstance(s.value, ast.Constant) and isinstance(s.value.value, str):
            return self.block(rest, env, k)
        if isinstance(s, ast.Assign):
            if len(s.targets) != 1:
                raise Refuse('assignment form (line %d)' % s.lineno)
            if isinstance(s.value, ast.Call) and self.helper_of(s.value) is not None:
                def after(vals):
                    lets, env2 = self.bind_targets(s.targets[0], vals, env, s.lineno)
                    return lets + self.block(rest, env2, k)
                return self.inline(s.value, env, after)
            if isinstance(s.value, ast.Tuple) and isinstance(s.targets[0], ast.Tuple):
                vs = [self.expr(x, env) for x in s.value.elts]
                lets, env2 = self.bind_targets(s.targets[0], [(c, t) for c, t, _ in vs], env, s.lineno)
                return self.wrap(sum((v[2] for v in vs), []), lets + self.block(rest, env2, k))
            code, ty, b = self.expr(s.value, env)
            lets, env2 = self.bind_targets(s.targets[0], [(code, ty)], env, s.lineno)
            return self.wrap(b, lets + self.block(rest, env2, k))
        if isinstance(s, ast.If):
            c, b = self.test(s.test, env)
            A = self.block(s.body + rest, env, k)
            B = self.block(s.orelse + rest, env, k)
            return self.wrap(b, 'if %s then (\n%s\n) else (\n%s\n)' % (c, A, B))
        if isinstance(s, ast.Return):
            if isinstance(s.value, ast.Call) and self.helper_of(s.value) is not None:
                return self.inline(s.value, env, (lambda vals: k(vals, env)) if k else (lambda vals: self.ret(vals)))
            if isinstance(s.value, ast.Tuple):
                vs = [self.expr(x, env) for x in s.value.elts]
                vals = [(c, t) for c, t, _ in vs]
                return self.wrap(sum((v[2] for v in vs), []), k(vals, env) if k else self.ret(vals))
            code, ty, b = self.expr(s.value, env)
            return self.wrap(b, k([(code, ty)], env) if k else self.ret([(code, ty)]))
        if isinstance(s, ast.Raise):
            exc = s.exc.func.id if isinstance(s.exc, ast.Call) and isinstance(s.exc.func, ast.Name) else None
            if exc != 'ValueError':
                raise Refuse('raise of %s' % exc)
            return 'Err ValueError'
        raise Refuse('statement %s (line %d)' % (type(s).__name__, s.lineno))

    def ret(self, vals):
        if len(vals) != 1 or vals[0][1] != 'bytes':
            raise Refuse('calcVerifyBytes returns %s' % [t for _, t in vals])
        return 'Ok %s' % vals[0][0]

    def tables(self):
        SS, HA = self.consts.SignatureScheme, self.consts.HashAlgorithm
        out = []
        names = sorted(k for k, v in vars(SS).items() if isinstance(v, tuple) and len(v) == 2 and
                       all(isinstance(x, int) for x in v))
        rows = []
        seen = set()
        for n in names:
            v = getattr(SS, n)
            r = SS.toRepr(v)
            if v not in seen and r is not None:
                seen.add(v)
                rows.append('((%d, %d), %s)' % (v[0], v[1], cstr(r)))
        out.append('Definition SignatureScheme_table : list ((Z * Z) * string) :=\n  [%s].' % ';\n   '.join(rows))
        rows = []
        for i in range(0, 256):
            r = HA.toRepr(i)
            if r is not None:
                rows.append('(%d, %s)' % (i, cstr(r)))
        out.append('Definition HashAlgorithm_table : list (Z * string) :=\n  [%s].' % '; '.join(rows))
        for fn in ('getHash', 'getPadding'):
            rows = []
            for n in names:
                try:
                    r = getattr(SS, fn)(n)
                    rows.append('(%s, Some %s)' % (cstr(n), cstr(r)))
                except Exception:   # noqa  (AssertionError/ValueError for non-RSA schemes)
                    rows.append('(%s, None)' % cstr(n))
            out.append('Definition SignatureScheme_%s_table : list (string * option string) :=\n  [%s].'
                       % (fn, ';\n   '.join(rows)))
        return out

    def translate(self):
        with open(self.path) as f:
            tree = ast.parse(f.read())
        fd = None
        for n in ast.walk(tree):
            if isinstance(n, ast.ClassDef) and n.name == 'KeyExchange':
                for m in n.body:
                    if isinstance(m, ast.FunctionDef) and m.name == 'calcVerifyBytes':
                        fd = m
        if fd is None:
            raise Refuse('KeyExchange.calcVerifyBytes not found')
        argnames = [a.arg for a in fd.args.args]
        if argnames != [p for p, _ in self.PARAMS]:
            raise Refuse('signature of calcVerifyBytes changed: %s' % argnames)
        defaults = [ast.unparse(d) for d in fd.args.defaults]
        if defaults != ['None', "b'client'", "'rsa'"]:
            raise Refuse('defaults of calcVerifyBytes changed: %s' % defaults)
        self.helpers = {}
        for n in ast.walk(tree):
            if isinstance(n, ast.ClassDef) and n.name == 'KeyExchange':
                for m in n.body:
                    if isinstance(m, ast.FunctionDef) and m.name != 'calcVerifyBytes':
                        self.helpers[m.name] = m
        self.inl, self.depth, self.suffix = 0, 0, ''
        body = self.block(fd.body, {p: (t, p) for p, t in self.PARAMS})
        from pylite import indent
        out = ['(* GENERATED by translator/units_c05.py from %s -- do not edit. *)' % self.path,
               'From Coq Require Import ZArith List Bool String.',
               'From TV Require Import Base.Prelude Base.C05_Lib.',
               'Import ListNotations.', 'Open Scope Z_scope.', 'Open Scope string_scope.', '']
        out += self.tables()
        out += ['',
                'Definition SignatureScheme_toRepr (s : option (Z * Z)) : option string :=',
                '  match s with None => None | Some v => assoc_sch v SignatureScheme_table end.',
                'Definition HashAlgorithm_toRepr (h : Z) : option string := assoc_z h HashAlgorithm_table.',
                'Definition SignatureScheme_getHash (s : option string) : res (option string) :=',
                '  scheme_attr SignatureScheme_getHash_table s.',
                'Definition SignatureScheme_getPadding (s : option string) : res (option string) :=',
                '  scheme_attr SignatureScheme_getPadding_table s.', '',
                'Section VerifyBytes.',
                '(* external functions = oracles (arity as at the call sites) *)',
                'Variable hh_digest : list Z -> option string -> list Z.',
                'Variable hh_digestSSL : list Z -> list Z -> list Z -> list Z.',
                'Variable calc_key : (Z * Z) -> list Z -> Z -> list Z -> list Z -> list Z -> Z -> list Z.',
                'Variable addPKCS1Prefix : list Z -> option string -> list Z.',
                'Variable secureHash : list Z -> option string -> list Z.', '',
                '(* tlslite/keyexchange.py:%d KeyExchange.calcVerifyBytes ' % fd.lineno +
                "defaults: prf_name=None peer_tag=b'client' key_type='rsa' *)",
                'Definition calcVerifyBytes %s : res (list Z) :=\n%s.' % (
                    ' '.join('(%s : %s)' % (p, self.TY[t]) for p, t in self.PARAMS), indent(body)),
                'End VerifyBytes.']
        return '\n'.join(out)


# =========================================================================================
# authentication sites table
# =========================================================================================
IDENT_NAMES = {'clientCertChain', 'serverCertChain', 'srpUsername', 'client_cert_chain',
               'resumed_client_cert_chain', 'delegated_credential'}
VERIFY_CALLS = {'verifyServerKeyExchange', '_tls12_verify_SKE', '_tls12_verify_ecdsa_SKE',
                '_tls12_verify_eddsa_ske', '_tls12_verify_dsa_SKE', 'calcVerifyBytes', 'verify_binder',
                'verify', 'hashAndVerify', 'method', 'ver_func', '_getFinished', 'checker',
                'ct_compare_digest', '_calc_binder', 'compute_certificate_dc_sig_context'}
COMPARE_WORDS = ('verify_data', 'sig_algs', 'sigalgs', 'signature_algs', 'sigHashesToList', 'verifyData', 'dc_cert_verify_algorithm')
FILES = ['tlslite/tlsconnection.py', 'tlslite/tlsrecordlayer.py', 'tlslite/keyexchange.py',
         'tlslite/x509.py', 'tlslite/handshakehelpers.py']
# functions of keyexchange.py/x509.py that only SIGN (peer role) are not part of the table
SKIP_FUNCS = {'makeCertificateVerify', '_tls12_sign_ecdsa_SKE', '_tls12_sign_dsa_SKE', '_tls12_sign_eddsa_ske',
              '_tls12_signSKE', 'signServerKeyExchange', 'hashAndSign', 'sign'}


def short(node, n=150):
    s = ' '.join(ast.unparse(node).split())
    return s if len(s) <= n else s[:n - 3] + '...'


def fail_action(stmts):
    """What a failing check leads to: first alert / raise found in the guarded body."""
    for s in stmts:
        for n in ast.walk(s):
            if isinstance(n, ast.Call) and isinstance(n.func, ast.Attribute) and n.func.attr == '_sendError':
                a0 = n.args[0] if n.args else None
                return 'alert:' + (a0.attr if isinstance(a0, ast.Attribute) else short(a0, 40) if a0 is not None else '?')
            if isinstance(n, ast.Raise):
                if n.exc is None:
                    return 'reraise'
                e = n.exc.func if isinstance(n.exc, ast.Call) else n.exc
                return 'raise:' + short(e, 40)
    return 'continue'


NOISY_NAMES = {'self', 'result', 'settings', 'i', 'e', 'exc', 'alert'}


def _pure_alias(v):
    """an expression that only NAMES an existing value: local.attr..., x[const], tuples of those"""
    if isinstance(v, ast.Name):
        return v.id not in NOISY_NAMES          # `x = result` names a generator's current value, not a stable object
    if isinstance(v, ast.Attribute):
        return _pure_alias(v.value)
    if isinstance(v, ast.Subscript):
        return isinstance(v.slice, ast.Constant) and _pure_alias(v.value)
    if isinstance(v, ast.Tuple):
        return bool(v.elts) and all(_pure_alias(x) for x in v.elts)
    return False


def collect_aliases(fdef):
    """local names bound EXACTLY ONCE in the function, by a plain assignment of a pure alias expression.
    They are replaced by that expression in the table texts, so that introducing / removing such a local
    (schemeID = (ske.hashAlg, ske.signAlg)) does not change the table, while a second binding of the name
    (the rebinding of cert_entry by a loop) does."""
    count, value = {}, {}
    for n in ast.walk(fdef):
        targets = []
        if isinstance(n, ast.Assign):
            for t in n.targets:
                targets += list(t.elts) if isinstance(t, ast.Tuple) else [t]
            if len(n.targets) == 1 and isinstance(n.targets[0], ast.Name) and _pure_alias(n.value):
                value[n.targets[0].id] = n.value
        elif isinstance(n, (ast.AugAssign, ast.AnnAssign)):
            targets = [n.target]
        elif isinstance(n, (ast.For, ast.comprehension)):
            targets = list(n.target.elts) if isinstance(n.target, ast.Tuple) else [n.target]
        elif isinstance(n, ast.ExceptHandler) and n.name:
            count[n.name] = count.get(n.name, 0) + 1
        elif isinstance(n, ast.withitem) and n.optional_vars is not None:
            targets = [n.optional_vars]
        for t in targets:
            if isinstance(t, ast.Name):
                count[t.id] = count.get(t.id, 0) + 1
    params = {a.arg for a in fdef.args.args}
    return {k: v for k, v in value.items() if count.get(k) == 1 and k not in params and k not in NOISY_NAMES}


class _Subst(ast.NodeTransformer):
    def __init__(self, aliases):
        self.aliases = aliases
        self.depth = 0

    def visit_Name(self, node):
        if isinstance(node.ctx, ast.Load) and node.id in self.aliases and self.depth < 6:
            import copy
            self.depth += 1
            r = self.visit(copy.deepcopy(self.aliases[node.id]))
            self.depth -= 1
            return r
        return node

    def visit_Subscript(self, node):
        node = self.generic_visit(node)
        if isinstance(node.value, ast.Tuple) and isinstance(node.slice, ast.Constant) and isinstance(node.slice.value, int) \
                and 0 <= node.slice.value < len(node.value.elts):
            return node.value.elts[node.slice.value]
        return node


NEG_OP = {ast.Eq: ast.NotEq, ast.NotEq: ast.Eq, ast.Is: ast.IsNot, ast.IsNot: ast.Is, ast.In: ast.NotIn, ast.NotIn: ast.In,
          ast.Lt: ast.GtE, ast.GtE: ast.Lt, ast.Gt: ast.LtE, ast.LtE: ast.Gt}


def negate(test):
    """negation normal form of a guard (one level): not X -> X, a op b -> a (neg op) b"""
    if isinstance(test, ast.UnaryOp) and isinstance(test.op, ast.Not):
        return test.operand
    if isinstance(test, ast.Compare) and len(test.ops) == 1 and type(test.ops[0]) in NEG_OP:
        return ast.Compare(left=test.left, ops=[NEG_OP[type(test.ops[0])]()], comparators=test.comparators)
    return ast.UnaryOp(op=ast.Not(), operand=test)


def stmt_terminates(stmts):
    """the block never falls through: ends in return / raise / an if whose branches all do"""
    if not stmts:
        return False
    st = stmts[-1]
    if isinstance(st, (ast.Return, ast.Raise)):
        return True
    # (the `for result in self._sendError(...)` idiom also never falls through, but those are the sanity checks
    #  of C06/C08 sprinkled over the handshake functions: their failure action is recorded on their own rows, and
    #  making each of them a guard of everything that follows would tie every row to every unrelated check)
    if isinstance(st, ast.If):
        return stmt_terminates(st.body) and stmt_terminates(st.orelse)
    return False


class SiteWalker(object):
    def __init__(self, fname, func, bindings=None, aliases=None, early_exit=False):
        # early_exit: a branch ending in return / raise guards what follows the `if` (used for the small
        # verification helpers of keyexchange.py / x509.py / handshakehelpers.py, where `elif` after a return
        # and `if` are interchangeable; not for the long handshake generators, whose argument checks would
        # otherwise become guards of every row)
        self.early_exit = early_exit
        self.rows = []
        self.fname = fname
        self.func = func
        self.aliases = aliases or {}
        # name -> every binding of that local name seen so far in source order (assignments, loop
        # targets): argument provenance of the verification calls
        self.bindings = bindings if bindings is not None else {}

    def txt(self, node, n=150):
        """source text with single-assignment alias locals replaced by what they name"""
        if self.aliases and node is not None:
            import copy
            node = ast.fix_missing_locations(_Subst(self.aliases).visit(copy.deepcopy(node)))
        return short(node, n)

    def bind(self, target, text):
        names = []
        for t in (target.elts if isinstance(target, ast.Tuple) else [target]):
            if isinstance(t, ast.Name):
                names.append(t.id)
        for n in names:
            if n in NOISY_NAMES or n in self.aliases:
                continue
            l = self.bindings.setdefault(n, [])
            if text not in l:
                l.append(text)

    def provenance(self, call):
        """which object every argument (and the receiver) of a verification call is: for each
        local name occurring in the call, all its bindings before this point"""
        names = []
        if self.aliases:
            import copy
            call = _Subst(self.aliases).visit(copy.deepcopy(call))
        for n in ast.walk(call):
            if isinstance(n, ast.Name) and n.id not in NOISY_NAMES and n.id not in names:
                names.append(n.id)
        import re
        for n in list(names):                      # one more level for the receiver (method / ver_func <- key object)
            if n in ('method', 'ver_func'):
                for txt in self.bindings.get(n, []):
                    for w in re.findall(r'[A-Za-z_]\w*', txt):
                        if w in self.bindings and w not in names and w not in NOISY_NAMES:
                            names.append(w)
        parts = []
        for n in names:
            if n in self.bindings:
                parts.append('%s<-%s' % (n, ' | '.join(sorted(self.bindings[n]))))      # a SET of possible bindings
        return (' {' + '; '.join(parts) + '}') if parts else ''

    def row(self, kind, text, guards, fail):
        self.rows.append((self.fname, self.func, kind, text, ' && '.join(guards), fail))

    def events_in(self, node, guards, fail='-'):
        """events inside one expression/simple statement, in source order"""
        found = []
        for n in ast.walk(node):
            if isinstance(n, ast.Call):
                f = n.func
                nm = f.attr if isinstance(f, ast.Attribute) else f.id if isinstance(f, ast.Name) else None
                if nm in VERIFY_CALLS:
                    found.append((n.lineno, n.col_offset, 'check', self.txt(n) + self.provenance(n)))
                elif nm == 'create' and isinstance(f, ast.Attribute) and short(f.value, 60).endswith('session'):
                    args = [self.txt(a, 70) for a in n.args[3:6]]
                    kw = [k.arg + '=' + self.txt(k.value, 50) for k in n.keywords if k.arg == 'delegated_credential']
                    found.append((n.lineno, n.col_offset, 'create', short(f.value, 40) + '.create(srp=%s, client=%s, server=%s%s)'
                                  % (tuple(args + ['?'] * (3 - len(args))) + ((', ' + kw[0]) if kw else '',))))
            elif isinstance(n, ast.Compare):
                t = self.txt(n)
                if any(w in t for w in COMPARE_WORDS) or any(w in short(n) for w in COMPARE_WORDS):
                    found.append((n.lineno, n.col_offset, 'compare', t))
        for f in sorted(found):
            self.row(f[2], f[3], guards, fail)

    def walk(self, stmts, guards):
        for s in stmts:
            if isinstance(s, (ast.FunctionDef, ast.ClassDef)):
                continue
            if isinstance(s, ast.If):
                self.events_in(s.test, guards, fail_action(s.body))
                g = self.txt(s.test, 90)
                ng = self.txt(negate(s.test), 96)
                self.walk(s.body, guards + [g])
                self.walk(s.orelse, guards + [ng])
                # a branch that never falls through guards everything after the `if` (early exit): the rest
                # runs under the negated condition, whether it is written as `else:` / `elif` or not
                extra, cur = [], (s if self.early_exit else None)
                while cur is not None and stmt_terminates(cur.body):
                    extra.append(self.txt(negate(cur.test), 96))
                    cur = cur.orelse[0] if len(cur.orelse) == 1 and isinstance(cur.orelse[0], ast.If) else None
                if self.early_exit and stmt_terminates(s.orelse) and not stmt_terminates(s.body):
                    extra.append(g)
                guards = guards + [x for x in extra if x not in guards]
            elif isinstance(s, (ast.For, ast.While)):
                self.events_in(s.iter if isinstance(s, ast.For) else s.test, guards)
                if isinstance(s, ast.For):
                    self.bind(s.target, 'for ' + self.txt(s.iter, 60))
                # "for result in self._xxx(...): yield" is the generator-call idiom: no new guard
                idiom = isinstance(s, ast.For) and isinstance(s.target, ast.Name) and s.target.id == 'result'
                self.walk(s.body, guards if idiom else guards + ['loop ' + short(s.target if isinstance(s, ast.For) else s.test, 50)])
                self.walk(s.orelse, guards)
            elif isinstance(s, ast.Try):
                hs = ';'.join('%s->%s' % (short(h.type, 50) if h.type is not None else 'any', fail_action(h.body))
                              for h in s.handlers)
                w = SiteWalker(self.fname, self.func, self.bindings, self.aliases, self.early_exit)
                w.walk(s.body, guards)
                for r in w.rows:
                    self.rows.append(r[:5] + ((r[5] + '|except ' + hs) if r[2] in ('check', 'compare') else r[5],))
                for h in s.handlers:
                    self.walk(h.body, guards + ['except ' + (short(h.type, 50) if h.type is not None else 'any')])
                self.walk(s.orelse, guards)
                self.walk(s.finalbody, guards)
            elif isinstance(s, ast.With):
                self.walk(s.body, guards)
            else:
                if isinstance(s, (ast.Assign, ast.AugAssign)):
                    targets = s.targets if isinstance(s, ast.Assign) else [s.target]
                    flat = []
                    for t in targets:
                        flat += list(t.elts) if isinstance(t, ast.Tuple) else [t]
                    self.events_in(s.value, guards)
                    for t in targets:
                        self.bind(t, self.txt(s.value, 60))
                    for t in flat:
                        nm = t.id if isinstance(t, ast.Name) else t.attr if isinstance(t, ast.Attribute) else None
                        if nm == 'session' and isinstance(t, ast.Attribute) and short(t.value, 20) == 'self':
                            # the connection's session object carries the identities: when it is (re)bound
                            self.row('assign', 'self.session = ' + self.txt(s.value, 60), guards, '-')
                        if nm in IDENT_NAMES:
                            self.row('assign', short(t, 60) + ' = ' + self.txt(s.value, 90), guards, '-')
                else:
                    self.events_in(s, guards)


class SitesUnit(object):
    def translate(self):
        rows = []
        for rel in FILES:
            path = os.path.join(REPO, rel)
            with open(path) as f:
                tree = ast.parse(f.read())
            for n in ast.walk(tree):
                if isinstance(n, ast.ClassDef):
                    for m in n.body:
                        if isinstance(m, ast.FunctionDef) and m.name not in SKIP_FUNCS:
                            w = SiteWalker(os.path.basename(rel), n.name + '.' + m.name, aliases=collect_aliases(m),
                                           early_exit=os.path.basename(rel) not in ('tlsconnection.py', 'tlsrecordlayer.py'))
                            w.walk(m.body, [])
                            # keep functions that verify something or touch identity state
                            if any(r[2] in ('check', 'compare', 'create') for r in w.rows) or \
                                    any(r[2] == 'assign' and 'session' in r[3].split('=')[0] for r in w.rows):
                                rows += w.rows
        if not rows:
            raise Refuse('no authentication sites found')
        out = ['(* GENERATED by translator/units_c05.py from %s -- do not edit. *)' % ', '.join(FILES),
               'From Coq Require Import List String.', 'Import ListNotations.', 'Open Scope string_scope.', '',
               '(* (file, function, kind, text, guard path, on-failure) in source order *)',
               'Definition extracted_sites : list (string * string * string * string * string * string) := [']
        out.append(';\n'.join('  (%s, %s, %s,\n   %s,\n   %s, %s)' % tuple(cstr(x) for x in r) for r in rows))
        out.append('].')
        return '\n'.join(out)


# =========================================================================================
# DSA verification tail (range guard + verification equation) of Python_DSAKey.verify
# =========================================================================================
class DSATailUnit(object):
    """Translates the statements of Python_DSAKey.verify from the first `if` that compares r / s with
    self.q to the end of the function (the DER parsing before it is C15/C08's subject; r, s, digest
    are inputs).  invMod / powMod are Section variables.  Fail-closed."""
    ATTRS = {'q': 'q', 'p': 'p', 'g': 'g', 'public_key': 'y'}
    CMP = {ast.Lt: '<?', ast.LtE: '<=?', ast.Gt: '>?', ast.GtE: '>=?', ast.Eq: '=?'}

    def __init__(self, path):
        self.path = path

    def expr(self, e, env):
        if isinstance(e, ast.Constant):
            if isinstance(e.value, bool):
                return ('true' if e.value else 'false'), 'bool'
            if isinstance(e.value, int):
                return (str(e.value) if e.value >= 0 else '(%d)' % e.value), 'Z'
            raise Refuse('constant %r' % (e.value,))
        if isinstance(e, ast.Name):
            if e.id not in env:
                raise Refuse('unbound name %s (line %d)' % (e.id, e.lineno))
            return e.id, env[e.id]
        if isinstance(e, ast.Attribute) and isinstance(e.value, ast.Name) and e.value.id == 'self':
            if e.attr not in self.ATTRS:
                raise Refuse('attribute self.%s' % e.attr)
            return self.ATTRS[e.attr], 'Z'
        if isinstance(e, ast.BinOp):
            a, ta = self.expr(e.left, env)
            b, tb = self.expr(e.right, env)
            if ta != 'Z' or tb != 'Z':
                raise Refuse('arithmetic on non-int (line %d)' % e.lineno)
            op = {ast.Mult: '*', ast.Add: '+', ast.Sub: '-', ast.Mod: 'mod'}.get(type(e.op))
            if op is None:
                raise Refuse('operator %s' % type(e.op).__name__)
            return '(%s %s %s)' % (a, op, b), 'Z'      # `mod`: moduli are the positive key parameters q, p
        if isinstance(e, ast.Compare):
            parts = []
            left = e.left
            for op, right in zip(e.ops, e.comparators):
                a, ta = self.expr(left, env)
                b, tb = self.expr(right, env)
                if ta != 'Z' or tb != 'Z':
                    raise Refuse('comparison of non-ints (line %d)' % e.lineno)
                if isinstance(op, ast.NotEq):
                    parts.append('(negb (%s =? %s))' % (a, b))
                elif type(op) in self.CMP:
                    parts.append('(%s %s %s)' % (a, self.CMP[type(op)], b))
                else:
                    raise Refuse('comparison operator')
                left = right
            return ('(' + ' && '.join(parts) + ')') if len(parts) > 1 else parts[0], 'bool'
        if isinstance(e, ast.BoolOp):
            vs = [self.expr(v, env) for v in e.values]
            if any(t != 'bool' for _, t in vs):
                raise Refuse('and/or on non-bool')
            return '(' + (' && ' if isinstance(e.op, ast.And) else ' || ').join(c for c, _ in vs) + ')', 'bool'
        if isinstance(e, ast.UnaryOp) and isinstance(e.op, ast.Not):
            c, t = self.expr(e.operand, env)
            if t != 'bool':
                raise Refuse('not on non-bool')
            return '(negb %s)' % c, 'bool'
        if isinstance(e, ast.Call) and isinstance(e.func, ast.Name) and e.func.id in ('invMod', 'powMod') and not e.keywords:
            args = [self.expr(a, env) for a in e.args]
            if len(args) != (2 if e.func.id == 'invMod' else 3) or any(t != 'Z' for _, t in args):
                raise Refuse('call shape of %s' % e.func.id)
            return '(%s %s)' % (e.func.id, ' '.join(c for c, _ in args)), 'Z'
        raise Refuse('expression %s (line %d)' % (type(e).__name__, getattr(e, 'lineno', 0)))

    def block(self, stmts, env):
        if not stmts:
            raise Refuse('control reaches the end of verify without return')
        st, rest = stmts[0], stmts[1:]
        if isinstance(st, ast.Assign) and len(st.targets) == 1 and isinstance(st.targets[0], ast.Name):
            c, t = self.expr(st.value, env)
            env2 = dict(env)
            env2[st.targets[0].id] = t
            return 'let %s := %s in\n%s' % (st.targets[0].id, c, self.block(rest, env2))
        if isinstance(st, ast.If):
            c, t = self.expr(st.test, env)
            if t != 'bool':
                raise Refuse('if on non-bool')
            return 'if %s then (\n%s\n) else (\n%s\n)' % (c, self.block(st.body + rest, env), self.block(st.orelse + rest, env))
        if isinstance(st, ast.Return):
            c, t = self.expr(st.value, env)
            if t != 'bool':
                raise Refuse('verify returns a non-bool (line %d)' % st.lineno)
            return c
        raise Refuse('statement %s (line %d)' % (type(st).__name__, st.lineno))

    def translate(self):
        with open(self.path) as f:
            tree = ast.parse(f.read())
        fd = None
        for n in ast.walk(tree):
            if isinstance(n, ast.ClassDef) and n.name == 'Python_DSAKey':
                for m in n.body:
                    if isinstance(m, ast.FunctionDef) and m.name == 'verify':
                        fd = m
        if fd is None:
            raise Refuse('Python_DSAKey.verify not found')
        start = None
        for i, st in enumerate(fd.body):
            if isinstance(st, ast.If):
                src = ast.unparse(st.test)
                names = {x.id for x in ast.walk(st.test) if isinstance(x, ast.Name)}
                if 'self.q' in src and names & {'r', 's'}:
                    start = i
                    break
        if start is None:
            raise Refuse('no range check of r / s against self.q found in Python_DSAKey.verify')
        # nothing between the DER parsing and the guard may rebind r / s except the mpz() conversions
        from pylite import indent
        body = self.block(fd.body[start:], {'r': 'Z', 's': 'Z', 'digest': 'Z'})
        return '\n'.join([
            '(* GENERATED by translator/units_c05.py from %s -- do not edit. *)' % self.path,
            'From Coq Require Import ZArith Bool.', 'Open Scope Z_scope.', '',
            'Section DSA.',
            'Variable invMod : Z -> Z -> Z.',
            'Variable powMod : Z -> Z -> Z -> Z.', '',
            '(* tlslite/utils/python_dsakey.py:%d Python_DSAKey.verify, from the range check of (r, s) on;' % fd.body[start].lineno,
            '   q p g y = self.q self.p self.g self.public_key; digest = the truncated hash as a number *)',
            'Definition dsa_verify_tail (p q g y digest r s : Z) : bool :=\n%s.' % indent(body),
            'End DSA.'])


UNITS = {
    'C05_DsaVerify': lambda: DSATailUnit(os.path.join(REPO, 'tlslite/utils/python_dsakey.py')),
    'C05_VerifyBytes': lambda: VBTranslator(os.path.join(REPO, 'tlslite/keyexchange.py')),
    'C05_Sites': lambda: SitesUnit(),
}
