"""Translation unit for C04: structural tables read from the *ast* of the tree named by VERIF_REPO
-> coq/Gen/C04_Sites.v (regenerated on every run).

(a) hash_sites : every place that feeds or restarts the handshake transcript:
      `<x>._handshake_hash.update(arg)`, `<x>._handshake_hash = HandshakeHashes()`,
      `hh.update(arg)` on a copy of the transcript in handshakehelpers (PSK binders),
    each with file, enclosing function, kind, argument text and the chain of enclosing
    conditions (so that a new guard such as "skip this message type" is visible).
(b) guard_sites : the downgrade-protection and binding checks, with enclosing function, the
    condition text, the alert sent / exception raised, and their position relative to the
    anchor statements that must come before/after:
      sentinel writes  (random[-8:] = TLS_1_x_DOWNGRADE_SENTINEL, before serverHello.create)
      sentinel checks  (client, after _clientGetServerHello, before any key exchange)
      FALLBACK_SCSV    (server, after version selection, before suite selection)
      second-ClientHello comparison after HelloRetryRequest
      every comparison of a received Finished.verify_data / PSK binder.
(d) client_hello_sites : every `X.create(` on a ClientHello object in _clientSendClientHello with the enclosing
    conditions and the text of the version, session-id and cipher-suite arguments (which list variable goes on
    the wire in each branch); client_suite_sites : every statement of that function that binds or mutates
    `cipherSuites` / `wireCipherSuites` (where the renegotiation SCSV and TLS_FALLBACK_SCSV are added).
(c) server_hello_sites : every `X.create(` on a ServerHello object with the text of the random
    argument (which ServerHello constructions can carry the sentinel at all).

Fail-closed: a file that does not parse or an anchor function that no longer exists raises Refuse.
"""
import ast
import os
import sys

sys.path.insert(0, os.path.dirname(os.path.abspath(__file__)))
from pylite import Refuse  # noqa: E402

REPO = os.path.realpath(os.environ.get('VERIF_REPO', '/repo'))
FILES = ['tlslite/tlsrecordlayer.py', 'tlslite/tlsconnection.py', 'tlslite/handshakehelpers.py']
ANCHOR_FUNCS = {'tlslite/tlsrecordlayer.py': ['_sendMsg', '_queue_message', '_getMsg', '_handshakeStart'],
                'tlslite/tlsconnection.py': ['_clientSendClientHello', '_clientGetServerHello', '_serverGetClientHello',
                                             '_handshakeClientAsyncHelper', '_handshakeServerAsyncHelper',
                                             '_sendFinished', '_getFinished', '_clientTLS13Handshake',
                                             '_serverTLS13Handshake'],
                'tlslite/handshakehelpers.py': ['update_binders', 'verify_binder']}


def sl(s):
    return '"' + str(s).replace('"', '""') + '"'


def src(node):
    return ' '.join(ast.unparse(node).split())


class Walker(ast.NodeVisitor):
    def __init__(self, fname):
        self.fname = fname
        self.func = []
        self.conds = []
        self.hash_sites = []
        self.guard_sites = []
        self.sh_sites = []
        self.ch_sites = []
        self.suite_sites = []
        self.order = {}            # function -> list of (lineno, tag) for position facts

    # -- bookkeeping
    def visit_FunctionDef(self, node):
        self.func.append(node.name)
        saved, self.conds = self.conds, []
        self.generic_visit(node)
        self.conds = saved
        self.func.pop()

    visit_AsyncFunctionDef = visit_FunctionDef

    def _fn(self):
        return self.func[-1] if self.func else '<module>'

    def _conds(self):
        return ' && '.join(c for c in self.conds if not c.startswith('for result'))

    def _mark(self, node, tag):
        self.order.setdefault(self._fn(), []).append((node.lineno, tag))

    def visit_If(self, node):
        t = src(node.test)
        self._guard_if(node, t)
        self.visit(node.test)
        self.conds.append('if ' + t)
        for s in node.body:
            self.visit(s)
        self.conds.pop()
        self.conds.append('else ' + t)
        for s in node.orelse:
            self.visit(s)
        self.conds.pop()

    def _loop(self, node, label):
        self.conds.append(label)
        self.generic_visit(node)
        self.conds.pop()

    def visit_While(self, node):
        self._loop(node, 'while ' + src(node.test))

    def visit_For(self, node):
        # the "for result in self._sendError(...)" idiom carries no information
        self._loop(node, 'for ' + src(node.target) + ' in ' + src(node.iter)[:60])

    def visit_Try(self, node):
        self.generic_visit(node)

    # -- (a) transcript sites
    def visit_Call(self, node):
        f = node.func
        if isinstance(f, ast.Attribute) and f.attr == 'update' and node.args:
            tgt = src(f.value)
            if tgt.endswith('_handshake_hash') or (self.fname.endswith('handshakehelpers.py') and tgt == 'hh'):
                self.hash_sites.append((self.fname, self._fn(), 'update', tgt + ' <- ' + src(node.args[0]),
                                        ' && '.join(c for c in self.conds if not c.startswith('for result'))))
        if isinstance(f, ast.Attribute) and f.attr == 'create':
            tgt = src(f.value)
            if tgt in ('serverHello', 'hrr', 'server_hello') and len(node.args) >= 2:
                self.sh_sites.append((self.fname, self._fn(), tgt, src(node.args[0]), src(node.args[1])))
                self._mark(node, 'server_hello_create')
        if isinstance(f, ast.Attribute) and f.attr == 'create' and self._fn() == '_clientSendClientHello' \
                and src(f.value) in ('clientHello', 'client_hello') and len(node.args) >= 4:
            self.ch_sites.append((self.fname, self._fn(), self._conds(), src(node.args[0]), src(node.args[2]),
                                  src(node.args[3])))
        if isinstance(f, ast.Attribute) and self._fn() == '_clientSendClientHello' \
                and src(f.value) in ('cipherSuites', 'wireCipherSuites'):
            self.suite_sites.append((self.fname, self._fn(), self._conds(), src(node)))
        if isinstance(f, ast.Attribute) and f.attr in ('_clientGetServerHello', '_clientTLS13Handshake',
                                                       '_server_select_certificate', '_clientKeyExchange',
                                                       '_clientResume', '_serverTLS13Handshake'):
            self._mark(node, 'call:' + f.attr)
        self.generic_visit(node)

    def visit_AugAssign(self, node):
        if isinstance(node.target, ast.Name) and node.target.id in ('cipherSuites', 'wireCipherSuites') \
                and self._fn() == '_clientSendClientHello':
            self.suite_sites.append((self.fname, self._fn(), self._conds(), src(node)))
        self.generic_visit(node)

    def visit_Assign(self, node):
        t0 = node.targets[0]
        if isinstance(t0, ast.Attribute) and t0.attr == '_handshake_hash':
            self.hash_sites.append((self.fname, self._fn(), 'assign', src(t0) + ' = ' + src(node.value),
                                    ' && '.join(c for c in self.conds if not c.startswith('for result'))))
        # sentinel write: random[-8:] = TLS_1_x_DOWNGRADE_SENTINEL
        if isinstance(node.value, ast.Name) and node.value.id.endswith('DOWNGRADE_SENTINEL'):
            self.guard_sites.append((self.fname, self._fn(), 'sentinel_write', src(t0) + ' = ' + node.value.id,
                                     ' && '.join(c for c in self.conds if not c.startswith('for result')), ''))
            self._mark(node, 'sentinel_write')
        if isinstance(t0, ast.Name) and t0.id in ('cipherSuites', 'wireCipherSuites') \
                and self._fn() == '_clientSendClientHello':
            self.suite_sites.append((self.fname, self._fn(), self._conds(), src(node)))
        if isinstance(t0, ast.Name) and t0.id == 'version' and self._fn() == '_serverGetClientHello':
            self._mark(node, 'version_assigned')
        self.generic_visit(node)

    # -- (b) guards
    @staticmethod
    def _reaction(node):
        """alert / exception of the first statement of an if body"""
        for s in ast.walk(ast.Module(body=node.body, type_ignores=[])):
            if isinstance(s, ast.Call) and isinstance(s.func, ast.Attribute) and s.func.attr == '_sendError' and s.args:
                return 'alert ' + src(s.args[0])
            if isinstance(s, ast.Raise) and s.exc is not None:
                e = s.exc
                return 'raise ' + src(e.func if isinstance(e, ast.Call) else e)
        return 'none'

    def _guard_if(self, node, t):
        kind = None
        if 'DOWNGRADE_SENTINEL' in t:
            kind = 'sentinel_check'
        elif 'TLS_FALLBACK_SCSV' in t and 'clientHello' in t:
            kind = 'scsv_check'
        elif 'clientHello1' in t and ('!=' in t or '==' in t):
            kind = 'hrr_second_hello_compare'
        elif 'verify_data' in t:
            kind = 'finished_compare'
        elif 'ct_compare_digest' in t and 'binder' in t:
            kind = 'binder_compare'
        if kind:
            self.guard_sites.append((self.fname, self._fn(), kind, t, self._reaction(node),
                                     ' && '.join(c for c in self.conds if not c.startswith('for result'))))
            self._mark(node, kind)


class Sites(object):
    def translate(self):
        hs, gs, shs, pos, chs, sus = [], [], [], [], [], []
        for rel in FILES:
            path = os.path.join(REPO, rel)
            try:
                with open(path) as f:
                    tree = ast.parse(f.read(), filename=path)
            except (OSError, SyntaxError) as e:
                raise Refuse('cannot parse %s: %s' % (rel, e))
            names = {n.name for n in ast.walk(tree) if isinstance(n, (ast.FunctionDef, ast.AsyncFunctionDef))}
            for a in ANCHOR_FUNCS[rel]:
                if a not in names:
                    raise Refuse('anchor function %s missing from %s' % (a, rel))
            w = Walker(rel)
            w.visit(tree)
            hs += w.hash_sites
            gs += w.guard_sites
            shs += w.sh_sites
            chs += w.ch_sites
            sus += w.suite_sites
            # position facts: per function, the order of the marked statements
            for fn in sorted(w.order):
                marks = [t for _, t in sorted(w.order[fn])]
                if any(t in ('sentinel_write', 'sentinel_check', 'scsv_check') for t in marks):
                    pos.append((rel, fn, ' < '.join(marks)))
        out = ['(* GENERATED by translator/units_c04.py from %s -- do not edit *)' % 'tlslite (ast walk)',
               'From Coq Require Import List String.', 'Import ListNotations.', 'Open Scope string_scope.', '']
        out.append('Definition hash_sites : list (string * string * string * string * string) := [')
        out.append(';\n'.join('  (%s, %s, %s, %s, %s)' % tuple(sl(x) for x in r) for r in hs))
        out.append('].\n')
        out.append('Definition guard_sites : list (string * string * string * string * string * string) := [')
        out.append(';\n'.join('  (%s, %s, %s, %s, %s, %s)' % tuple(sl(x) for x in r) for r in gs))
        out.append('].\n')
        out.append('Definition server_hello_sites : list (string * string * string * string * string) := [')
        out.append(';\n'.join('  (%s, %s, %s, %s, %s)' % tuple(sl(x) for x in r) for r in shs))
        out.append('].\n')
        out.append('Definition guard_positions : list (string * string * string) := [')
        out.append(';\n'.join('  (%s, %s, %s)' % tuple(sl(x) for x in r) for r in pos))
        out.append('].\n')
        out.append('Definition client_hello_sites : list (string * string * string * string * string * string) := [')
        out.append(';\n'.join('  (%s, %s, %s, %s, %s, %s)' % tuple(sl(x) for x in r) for r in chs))
        out.append('].\n')
        out.append('Definition client_suite_sites : list (string * string * string * string) := [')
        out.append(';\n'.join('  (%s, %s, %s, %s)' % tuple(sl(x) for x in r) for r in sus))
        out.append('].')
        return '\n'.join(out)


UNITS = {'C04_Sites': Sites}
