"""Translation unit for C04: structural tables read from the *ast* of the tree named by VERIF_REPO
-> coq/Gen/C04_Sites.v (regenerated on every run).

(a) hash_sites : every place that feeds or restarts the handshake transcript:
      `<x>._handshake_hash.update(arg)`, `<x>._handshake_hash = HandshakeHashes()`,
      `hh.update(arg)` on a copy of the transcript in handshakehelpers (PSK binders),
    each with file, enclosing function, kind, argument text and the chain of enclosing
    conditions (so that a new guard such as "skip this message type" is visible).
(b) guard_sites : the downgrade-protection and binding checks, with enclosing function, the
    condition text, the alert sent / exception raised, and their position relative to the
    anchor statements that must come before/after:
      sentinel writes  (random[-8:] = TLS_1_x_DOWNGRADE_SENTINEL, before serverHello.create)
      sentinel checks  (client, after _clientGetServerHello, before any key exchange)
      FALLBACK_SCSV    (server, after version selection, before suite selection)
      second-ClientHello comparison after HelloRetryRequest
      every comparison of a received Finished.verify_data / PSK binder.
(d) client_hello_sites : every `X.create(` on a ClientHello object in _clientSendClientHello with the enclosing
    conditions and the text of the version, session-id and cipher-suite arguments (which list variable goes on
    the wire in each branch); client_suite_sites : every statement of that function that binds or mutates
    `cipherSuites` / `wireCipherSuites` (where the renegotiation SCSV and TLS_FALLBACK_SCSV are added).
(c) server_hello_sites : every `X.create(` on a ServerHello object with the text of the random
    argument (which ServerHello constructions can carry the sentinel at all).

Fail-closed: a file that does not parse or an anchor function that no longer exists raises Refuse.
"""
import ast
import os
import sys

sys.path.insert(0, os.path.dirname(os.path.abspath(__file__)))
from pylite import Refuse  # noqa: E402

REPO = os.path.realpath(os.environ.get('VERIF_REPO', '/repo'))
FILES = ['tlslite/tlsrecordlayer.py', 'tlslite/tlsconnection.py', 'tlslite/handshakehelpers.py']
ANCHOR_FUNCS = {'tlslite/tlsrecordlayer.py': ['_sendMsg', '_queue_message', '_getMsg', '_handshakeStart'],
                'tlslite/tlsconnection.py': ['_clientSendClientHello', '_clientGetServerHello', '_serverGetClientHello',
                                             '_handshakeClientAsyncHelper', '_handshakeServerAsyncHelper',
                                             '_sendFinished', '_getFinished', '_clientTLS13Handshake',
                                             '_serverTLS13Handshake'],
                'tlslite/handshakehelpers.py': ['update_binders', 'verify_binder']}


def sl(s):
    return '"' + str(s).replace('"', '""') + '"'


def src(node):
    return ' '.join(ast.unparse(node).split())


class Walker(ast.NodeVisitor):
    def __init__(self, fname):
        self.fname = fname
        self.func = []
        self.conds = []
        self.hash_sites = []
        self.guard_sites = []
        self.sh_sites = []
        self.ch_sites = []
        self.suite_sites = []
        self.order = {}            # function -> list of (lineno, tag) for position facts

    # -- bookkeeping
    def visit_FunctionDef(self, node):
        self.func.append(node.name)
        saved, self.conds = self.conds, []
        self.generic_visit(node)
        self.conds = saved
        self.func.pop()

    visit_AsyncFunctionDef = visit_FunctionDef

    def _fn(self):
        return self.func[-1] if self.func else '<module>'

    def _conds(self):
        return ' && '.join(c for c in self.conds if not c.startswith('for result'))

    def _mark(self, node, tag):
        self.order.setdefault(self._fn(), []).append((node.lineno, tag))

    def visit_If(self, node):
        t = src(node.test)
        self._guard_if(node, t)
        self.visit(node.test)
        self.conds.append('if ' + t)
        for s in node.body:
            self.visit(s)
        self.conds.pop()
        self.conds.append('else ' + t)
        for s in node.orelse:
            self.visit(s)
        self.conds.pop()

    def _loop(self, node, label):
        self.conds.append(label)
        self.generic_visit(node)
        self.conds.pop()

    def visit_While(self, node):
        self._loop(node, 'while ' + src(node.test))

    def visit_For(self, node):
        # the "for result in self._sendError(...)" idiom carries no information
        self._loop(node, 'for ' + src(node.target) + ' in ' + src(node.iter)[:60])

    def visit_Try(self, node):
        self.generic_visit(node)

    # -- (a) transcript sites
    def visit_Call(self, node):
        f = node.func
        if isinstance(f, ast.Attribute) and f.attr == 'update' and node.args:
            tgt = src(f.value)
            if tgt.endswith('_handshake_hash') or (self.fname.endswith('handshakehelpers.py') and tgt == 'hh'):
                self.hash_sites.append((self.fname, self._fn(), 'update', tgt + ' <- ' + src(node.args[0]),
                                        ' && '.join(c for c in self.conds if not c.startswith('for result'))))
        if isinstance(f, ast.Attribute) and f.attr == 'create':
            tgt = src(f.value)
            if tgt in ('serverHello', 'hrr', 'server_hello') and len(node.args) >= 2:
                self.sh_sites.append((self.fname, self._fn(), tgt, src(node.args[0]), src(node.args[1])))
                self._mark(node, 'server_hello_create')
        if isinstance(f, ast.Attribute) and f.attr == 'create' and self._fn() == '_clientSendClientHello' \
                and src(f.value) in ('clientHello', 'client_hello') and len(node.args) >= 4:
            self.ch_sites.append((self.fname, self._fn(), self._conds(), src(node.args[0]), src(node.args[2]),
                                  src(node.args[3])))
        if isinstance(f, ast.Attribute) and self._fn() == '_clientSendClientHello' \
                and src(f.value) in ('cipherSuites', 'wireCipherSuites'):
            self.suite_sites.append((self.fname, self._fn(), self._conds(), src(node)))
        if isinstance(f, ast.Attribute) and f.attr in ('_clientGetServerHello', '_clientTLS13Handshake',
                                                       '_server_select_certificate', '_clientKeyExchange',
                                                       '_clientResume', '_serverTLS13Handshake'):
            self._mark(node, 'call:' + f.attr)
        self.generic_visit(node)

    def visit_AugAssign(self, node):
        if isinstance(node.target, ast.Name) and node.target.id in ('cipherSuites', 'wireCipherSuites') \
                and self._fn() == '_clientSendClientHello':
            self.suite_sites.append((self.fname, self._fn(), self._conds(), src(node)))
        self.generic_visit(node)

    def visit_Assign(self, node):
        t0 = node.targets[0]
        if isinstance(t0, ast.Attribute) and t0.attr == '_handshake_hash':
            self.hash_sites.append((self.fname, self._fn(), 'assign', src(t0) + ' = ' + src(node.value),
                                    ' && '.join(c for c in self.conds if not c.startswith('for result'))))
        # sentinel write: random[-8:] = TLS_1_x_DOWNGRADE_SENTINEL
        if isinstance(node.value, ast.Name) and node.value.id.endswith('DOWNGRADE_SENTINEL'):
            self._mark(node, 'sentinel_write')
        if isinstance(t0, ast.Name) and t0.id in ('cipherSuites', 'wireCipherSuites') \
                and self._fn() == '_clientSendClientHello':
            self.suite_sites.append((self.fname, self._fn(), self._conds(), src(node)))
        if isinstance(t0, ast.Name) and t0.id == 'version' and self._fn() == '_serverGetClientHello':
            self._mark(node, 'version_assigned')
        self.generic_visit(node)

    # -- (b) guards
    @staticmethod
    def _reaction(node):
        """what the body of the if does: an alert counts only when the _sendError generator is actually driven
        (`for x in self._sendError(...): yield x`); a bare call of a generator function does nothing"""
        body = ast.Module(body=node.body, type_ignores=[])
        for s in ast.walk(body):
            if isinstance(s, ast.For) and isinstance(s.iter, ast.Call) and isinstance(s.iter.func, ast.Attribute) \
                    and s.iter.func.attr == '_sendError' and s.iter.args \
                    and any(isinstance(y, (ast.Yield, ast.YieldFrom)) for y in ast.walk(s)):
                return 'alert ' + src(s.iter.args[0])
            if isinstance(s, ast.Raise) and s.exc is not None:
                e = s.exc
                return 'raise ' + src(e.func if isinstance(e, ast.Call) else e)
        for s in ast.walk(body):
            if isinstance(s, ast.Call) and isinstance(s.func, ast.Attribute) and s.func.attr == '_sendError':
                return 'UNDRIVEN ' + src(s)[:60]
        return 'none'

    @staticmethod
    def _writes_sentinel(node):
        for x in ast.walk(node):
            if isinstance(x, ast.Assign) and isinstance(x.targets[0], ast.Subscript) \
                    and isinstance(x.value, ast.Name) and x.value.id.endswith('DOWNGRADE_SENTINEL'):
                return True
        return False

    def _guard_if(self, node, t):
        kind = None
        if 'DOWNGRADE_SENTINEL' in src(node) and not self._writes_sentinel(node):
            # position only; WHAT the check decides is extracted semantically (sentinel_check_table)
            self._mark(node, 'sentinel_check')
        if 'TLS_FALLBACK_SCSV' in t and 'clientHello' in t:
            kind = 'scsv_check'
        elif 'clientHello1' in t and ('!=' in t or '==' in t):
            kind = 'hrr_second_hello_compare'
        elif 'verify_data' in t:
            kind = 'finished_compare'
        elif 'ct_compare_digest' in t and 'binder' in t:
            kind = 'binder_compare'
        if kind:
            self.guard_sites.append((self.fname, self._fn(), kind, t, self._reaction(node),
                                     ' && '.join(c for c in self.conds if not c.startswith('for result'))))
            self._mark(node, kind)



# ------------------------------------------------------------------------------------------
# semantic extraction: the sentinel decision regions are EXECUTED over their whole finite domain, so that any
# behaviour-preserving rewrite of them yields the same table (and any behavioural change a different one)
VERSIONS = [(3, 0), (3, 1), (3, 2), (3, 3), (3, 4)]
S11 = bytes.fromhex('444f574e47524400')
S12 = bytes.fromhex('444f574e47524401')


class _Abort(Exception):
    def __init__(self, desc):
        Exception.__init__(self, desc)
        self.desc = desc


class _Stub(object):
    """anything the region touches besides what the table is about"""

    def __init__(self, **kw):
        self.__dict__.update(kw)

    def __getattr__(self, k):
        if k.startswith('__'):
            raise AttributeError(k)
        return _Stub()

    def __call__(self, *a, **kw):
        return None

    def __bool__(self):
        return False

    def __iter__(self):
        return iter(())


def _func(tree, name):
    for n in ast.walk(tree):
        if isinstance(n, (ast.FunctionDef, ast.AsyncFunctionDef)) and n.name == name:
            return n
    raise Refuse('function %s not found' % name)


def _calls(node, attr):
    return any(isinstance(x, ast.Call) and isinstance(x.func, ast.Attribute) and x.func.attr == attr for x in ast.walk(node))


def _module_globals():
    import importlib
    m = importlib.import_module('tlslite.tlsconnection')
    return dict(vars(m))


def _tailcode(t):
    t = bytes(t)
    return 1 if t == S11 else 2 if t == S12 else 0


def sentinel_check_rows(tree):
    """_handshakeClientAsyncHelper: everything between the call of _clientGetServerHello and the first branch into
    _clientTLS13Handshake / _clientResume / _clientKeyExchange, run for every (maxVersion, negotiated version, tail)."""
    fn = _func(tree, '_handshakeClientAsyncHelper')
    body = fn.body
    a = next((i for i, st in enumerate(body) if _calls(st, '_clientGetServerHello')), None)
    b = next((i for i, st in enumerate(body) if a is not None and i > a and
              any(_calls(st, c) for c in ('_clientTLS13Handshake', '_clientResume', '_clientKeyExchange'))), None)
    if a is None or b is None:
        raise Refuse('anchors of the client sentinel region not found')
    region = body[a + 1:b]
    f = ast.FunctionDef(name='__region__',
                        args=ast.arguments(posonlyargs=[], args=[ast.arg(arg=x) for x in
                                                                 ('self', 'settings', 'result', 'session', 'clientHello')],
                                           kwonlyargs=[], kw_defaults=[], defaults=[]),
                        body=list(region) + [ast.Expr(ast.Yield(ast.Constant('__END__')))], decorator_list=[])
    mod = ast.Module(body=[f], type_ignores=[])
    ast.fix_missing_locations(mod)
    g = _module_globals()
    exec(compile(mod, '<client sentinel region>', 'exec'), g)
    rows = []
    for cmax in VERSIONS:
        for v in VERSIONS:
            for tail in (S11, S12, bytes(8)):
                def send_error(desc, msg=None):
                    raise _Abort(int(desc))
                    yield None
                me = _Stub(version=v, _sendError=send_error)
                st = _Stub(maxVersion=cmax, minVersion=(3, 0), versions=[x for x in VERSIONS if x <= cmax])
                sh = _Stub(random=bytearray(24) + bytearray(tail), cipher_suite=0x9d, server_version=min(v, (3, 3)),
                           getExtension=lambda t: None)
                try:
                    for _ in g['__region__'](me, st, sh, _Stub(), _Stub()):
                        pass
                    rows.append((cmax, v, _tailcode(tail), False, 0))
                except _Abort as e:
                    rows.append((cmax, v, _tailcode(tail), True, e.desc))
                except Exception as e:  # noqa
                    raise Refuse('client sentinel region not executable: %r' % (e,))
    return rows


def _blocks(node):
    for x in ast.walk(node):
        for fld in ('body', 'orelse', 'finalbody'):
            b = getattr(x, fld, None)
            if isinstance(b, list) and b and isinstance(b[0], ast.stmt):
                yield b


def sentinel_write_rows(tree):
    """every TLS <= 1.2 ServerHello construction (X.create(version, random, ...) whose version is not the constant
    (3, 3)): the statements that build its random argument, run for every (maxVersion, version)."""
    rows, fns = [], []
    for fname in ('_handshakeServerAsyncHelper', '_serverGetClientHello'):
        fn = _func(tree, fname)
        for block in _blocks(fn):
            for i, st in enumerate(block):
                if not (isinstance(st, ast.Expr) and isinstance(st.value, ast.Call) and
                        isinstance(st.value.func, ast.Attribute) and st.value.func.attr == 'create' and
                        src(st.value.func.value) in ('serverHello', 'server_hello') and len(st.value.args) >= 2):
                    continue
                ver, rnd = st.value.args[0], st.value.args[1]
                if src(ver) == '(3, 3)':
                    continue                      # TLS 1.3 ServerHello / HelloRetryRequest: no sentinel
                if isinstance(rnd, ast.Name):
                    j = next((k for k in range(i - 1, -1, -1) if isinstance(block[k], ast.Assign) and
                              isinstance(block[k].targets[0], ast.Name) and block[k].targets[0].id == rnd.id), None)
                    if j is None:
                        raise Refuse('%s: cannot find where %s is built' % (fname, rnd.id))
                    region, ret = block[j:i], ast.Name(id=rnd.id, ctx=ast.Load())
                else:
                    region, ret = [], rnd
                f = ast.FunctionDef(name='__wregion__',
                                    args=ast.arguments(posonlyargs=[], args=[ast.arg(arg=x) for x in
                                                                             ('self', 'version', 'settings', 'getRandomBytes')],
                                                       kwonlyargs=[], kw_defaults=[], defaults=[]),
                                    body=list(region) + [ast.Return(ret)], decorator_list=[])
                mod = ast.Module(body=[f], type_ignores=[])
                ast.fix_missing_locations(mod)
                g = _module_globals()
                exec(compile(mod, '<server sentinel region>', 'exec'), g)
                fns.append(fname)
                for smax in VERSIONS:
                    for v in VERSIONS:
                        if v > smax or v > (3, 3):
                            continue
                        st2 = _Stub(maxVersion=smax, minVersion=(3, 0))
                        try:
                            r = g['__wregion__'](_Stub(version=v), v, st2, lambda n: bytearray(n))
                            rows.append((fname, smax, v, _tailcode(bytes(r)[-8:])))
                        except Exception as e:  # noqa
                            raise Refuse('%s: ServerHello random region not executable: %r' % (fname, e))
    return rows, fns


def vz(v):
    return v[0] * 256 + v[1]


def undriven_generator_calls(trees):
    """every expression statement that merely CALLS a generator method of these files (the call builds a generator
    object and runs nothing): (file, function, call text).  Expected: none."""
    gens = set()
    for rel, tree in trees:
        for n in ast.walk(tree):
            if isinstance(n, (ast.FunctionDef, ast.AsyncFunctionDef)) and \
                    any(isinstance(x, (ast.Yield, ast.YieldFrom)) for x in ast.walk(n)):
                gens.add(n.name)
    rows = []
    for rel, tree in trees:
        for fn in ast.walk(tree):
            if not isinstance(fn, (ast.FunctionDef, ast.AsyncFunctionDef)):
                continue
            for n in ast.walk(fn):
                if isinstance(n, ast.Expr) and isinstance(n.value, ast.Call) and \
                        isinstance(n.value.func, ast.Attribute) and n.value.func.attr in gens:
                    rows.append((rel, fn.name, src(n.value)[:100]))
    return sorted(set(rows))


class Sites(object):
    def translate(self):
        hs, gs, shs, pos, chs, sus = [], [], [], [], [], []
        trees = []
        for rel in FILES:
            path = os.path.join(REPO, rel)
            try:
                with open(path) as f:
                    tree = ast.parse(f.read(), filename=path)
            except (OSError, SyntaxError) as e:
                raise Refuse('cannot parse %s: %s' % (rel, e))
            names = {n.name for n in ast.walk(tree) if isinstance(n, (ast.FunctionDef, ast.AsyncFunctionDef))}
            for a in ANCHOR_FUNCS[rel]:
                if a not in names:
                    raise Refuse('anchor function %s missing from %s' % (a, rel))
            trees.append((rel, tree))
            if rel.endswith('tlsconnection.py'):
                self._check_rows = sentinel_check_rows(tree)
                self._write_rows, self._write_fns = sentinel_write_rows(tree)
            w = Walker(rel)
            w.visit(tree)
            hs += w.hash_sites
            gs += w.guard_sites
            shs += w.sh_sites
            chs += w.ch_sites
            sus += w.suite_sites
            # position facts: per function, the order of the marked statements
            for fn in sorted(w.order):
                marks = []
                for _, t in sorted(w.order[fn]):
                    if not marks or marks[-1] != t:          # consecutive repeats carry no information
                        marks.append(t)
                if any(t in ('sentinel_write', 'sentinel_check', 'scsv_check') for t in marks):
                    pos.append((rel, fn, ' < '.join(marks)))
        out = ['(* GENERATED by translator/units_c04.py from %s -- do not edit *)' % 'tlslite (ast walk)',
               'From Coq Require Import ZArith List String.', 'Import ListNotations.', 'Open Scope string_scope.', 'Open Scope Z_scope.', '']
        out.append('Definition hash_sites : list (string * string * string * string * string) := [')
        out.append(';\n'.join('  (%s, %s, %s, %s, %s)' % tuple(sl(x) for x in r) for r in hs))
        out.append('].\n')
        out.append('Definition guard_sites : list (string * string * string * string * string * string) := [')
        out.append(';\n'.join('  (%s, %s, %s, %s, %s, %s)' % tuple(sl(x) for x in r) for r in gs))
        out.append('].\n')
        out.append('Definition server_hello_sites : list (string * string * string * string * string) := [')
        out.append(';\n'.join('  (%s, %s, %s, %s, %s)' % tuple(sl(x) for x in r) for r in shs))
        out.append('].\n')
        out.append('Definition guard_positions : list (string * string * string) := [')
        out.append(';\n'.join('  (%s, %s, %s)' % tuple(sl(x) for x in r) for r in pos))
        out.append('].\n')
        out.append('Definition client_hello_sites : list (string * string * string * string * string * string) := [')
        out.append(';\n'.join('  (%s, %s, %s, %s, %s, %s)' % tuple(sl(x) for x in r) for r in chs))
        out.append('].\n')
        out.append('Definition undriven_generator_calls : list (string * string * string) := [')
        out.append(';\n'.join('  (%s, %s, %s)' % tuple(sl(x) for x in r) for r in undriven_generator_calls(trees)))
        out.append('].\n')
        out.append('Definition sentinel_check_table : list (Z * Z * Z * bool * Z) := [')
        out.append(';\n'.join('  (%d, %d, %d, %s, %d)' % (vz(a), vz(b), c, 'true' if d else 'false', e)
                              for a, b, c, d, e in self._check_rows))
        out.append('].\n')
        out.append('Definition sentinel_write_table : list (string * Z * Z * Z) := [')
        out.append(';\n'.join('  (%s, %d, %d, %d)' % (sl(a), vz(b), vz(c), d) for a, b, c, d in self._write_rows))
        out.append('].\n')
        out.append('Definition sentinel_write_functions : list string := [' + '; '.join(sl(x) for x in self._write_fns) + '].\n')
        out.append('Definition client_suite_sites : list (string * string * string * string) := [')
        out.append(';\n'.join('  (%s, %s, %s, %s)' % tuple(sl(x) for x in r) for r in sus))
        out.append('].')
        return '\n'.join(out)


UNITS = {'C04_Sites': Sites}
