"""C08 translation units: crash-analysis models of the hello decision regions
(translator/crashlite.py), the schema of abstract parsed-message values, and the conversion
of real parsed tlslite objects into Gallina literals of that schema (used by the
correspondence check to validate schema and translation on every run)."""
import ast
import importlib
import os
import sys

sys.path.insert(0, os.path.dirname(os.path.abspath(__file__)))
from pylite import Refuse  # noqa: E402
import crashlite as cl  # noqa: E402
from crashlite import Z, BOOL, VER, BYTES, EXT, LIST, OPT, OBJ, PAIR, FUN, TAG  # noqa: E402

REPO = os.path.realpath(os.environ.get('VERIF_REPO', '/repo'))

# ---------------------------------------------------------------------------------------------
# Schema: what the *parsers* can produce (validated on every run: an attribute that is None
# where the schema says it cannot be, or of another Python type, is reported as a broken tie).
EXT_PAYLOAD = {
    # class name: (ext type number attribute of ExtensionType, fields)
    'SNIExtension': ('server_name', [('serverNames', OPT(LIST(PAIR(Z, BYTES))))]),
    'SupportedGroupsExtension': ('supported_groups', [('groups', OPT(LIST(Z)))]),
    'ECPointFormatsExtension': ('ec_point_formats', [('formats', OPT(LIST(Z)))]),
    'SignatureAlgorithmsExtension': ('signature_algorithms', [('sigalgs', OPT(LIST(VER)))]),
    'ALPNExtension': ('alpn', [('protocol_names', LIST(BYTES))]),
    'SupportedVersionsExtension': ('supported_versions', [('versions', OPT(LIST(VER)))]),
    'PskKeyExchangeModesExtension': ('psk_key_exchange_modes', [('modes', OPT(LIST(Z)))]),
    'ClientKeyShareExtension': ('key_share', [('client_shares', OPT(LIST(OBJ('KeyShareEntry'))))]),
    'PreSharedKeyExtension': ('pre_shared_key', [('identities', OPT(LIST(OBJ('PskIdentity')))),
                                                 ('binders', OPT(LIST(BYTES)))]),
    'HeartbeatExtension': ('heartbeat', [('mode', OPT(Z))]),
    'RecordSizeLimitExtension': ('record_size_limit', [('record_size_limit', OPT(Z))]),
    # server-side forms
    'SrvSupportedVersionsExtension': ('supported_versions', [('version', VER)]),
    'SrvPreSharedKeyExtension': ('pre_shared_key', [('selected', OPT(Z))]),
    'ServerKeyShareExtension': ('key_share', [('server_share', OPT(OBJ('KeyShareEntry')))]),
}

PRELUDE = '''
(* SNIExtension.hostNames: names of type host_name (0); empty tuple when serverNames is None *)
Definition sni_hostNames (s : SNIExtension_r) : list (list Z) :=
  match SNIExtension_serverNames s with
  | None => []
  | Some l => map snd (filter (fun p => fst p =? 0) l)
  end.
(* SNIExtension.extData: empty iff serverNames is None (2-byte list length, then type, 2-byte
   length, name for each entry) *)
Definition sni_extData (s : SNIExtension_r) : list Z :=
  match SNIExtension_serverNames s with
  | None => []
  | Some l =>
    let body := flat_map (fun p => fst p :: (zlen (snd p) / 256) :: (zlen (snd p) mod 256) :: snd p) l in
    (zlen body / 256) :: (zlen body mod 256) :: body
  end.
'''


def tls():
    if REPO not in sys.path:
        sys.path.insert(0, REPO)
    return importlib.import_module('tlslite.tlsconnection')


def build_schema(ext_names, extra_classes):
    """ext_names: the extension classes that are constructors of `ext` for this unit."""
    mod = tls()
    ET = mod.ExtensionType
    import tlslite.extensions as X
    classes = {
        'KeyShareEntry': {'fields': [('group', Z), ('key_exchange', BYTES)]},
        'PskIdentity': {'fields': [('identity', BYTES), ('obfuscated_ticket_age', Z)]},
    }
    for cn in ext_names:
        tname, fields = EXT_PAYLOAD[cn]
        pycls = getattr(X, cn)
        if any(hasattr(pycls, m) for m in ('__len__', '__bool__')):
            raise Refuse('extension class %s defines __len__/__bool__: truthiness is not "is not None"' % cn)
        classes[cn] = {'fields': fields, 'ext': getattr(ET, tname)}
    if 'SNIExtension' in classes:
        classes['SNIExtension']['derived'] = {'hostNames': (LIST(BYTES), 'sni_hostNames'),
                                              'extData': (BYTES, 'sni_extData')}
    classes['TLSExtension'] = {'fields': [('extType', Z), ('extData', BYTES)], 'ext': 'generic'}
    if any(hasattr(X.TLSExtension, m) for m in ('__len__', '__bool__')):
        raise Refuse('TLSExtension defines __len__/__bool__')
    classes.update(extra_classes)
    return cl.Schema(classes, list(ext_names) + ['TLSExtension'], PRELUDE if 'SNIExtension' in classes else '')


CH_EXTS = ['SNIExtension', 'SupportedGroupsExtension', 'ECPointFormatsExtension', 'SignatureAlgorithmsExtension',
           'ALPNExtension', 'SupportedVersionsExtension', 'PskKeyExchangeModesExtension', 'ClientKeyShareExtension',
           'PreSharedKeyExtension']
CH_CLASSES = {
    'ClientHello': {'fields': [('client_version', VER), ('cipher_suites', LIST(Z)), ('compression_methods', LIST(Z)),
                               ('session_id', BYTES), ('extensions', OPT(LIST(EXT)))]},
    'Settings': {'fields': [('minVersion', VER), ('maxVersion', VER), ('max_early_data', Z), ('versions', LIST(VER))]},
}


def registry_client(t):
    import tlslite.extensions as X
    return X.TLSExtension._universalExtensions.get(t, X.TLSExtension).__name__


def registry_server(t):
    import tlslite.extensions as X
    for d in (X.TLSExtension._serverExtensions, X.TLSExtension._universalExtensions):
        if t in d:
            return d[t].__name__
    return 'TLSExtension'


class HelloUnit:
    """One region -> one Gallina file Gen/<name>.v"""

    def __init__(self, name, func, start, end, inputs, schema_thunk, registries, externals=None, local_types=None,
                 slice_doc='', pre=None, opaque=None, boundaries=True, effects=None, hyp=None):
        self.name, self.func, self.start, self.end = name, func, start, end
        self.inputs, self.schema_thunk, self.registries = inputs, schema_thunk, registries
        self.externals = externals or {}
        self.local_types = local_types or {}
        self.slice_doc = slice_doc
        self.opaque = opaque or {}
        self.boundaries = boundaries
        self.effects = effects or []
        self.hyp = hyp          # Gallina text of a HYPOTHESIS on own state (definition emitted into the model file)
        self.pre = pre          # dict(name, args, gallina, prove, use): see crashlite.emit_proofs
        self.last = None

    def translate(self):
        mod = tls()
        path = os.path.join(REPO, 'tlslite/tlsconnection.py')
        with open(path) as f:
            tree = ast.parse(f.read())
        fdef = None
        for n in ast.walk(tree):
            if isinstance(n, ast.FunctionDef) and n.name == self.func:
                fdef = n
        if fdef is None:
            raise Refuse('function %s not found' % self.func)
        schema = self.schema_thunk()
        rt = cl.RegionTranslator(self.name, schema, vars(mod), fdef, self.start, self.end, self.inputs,
                                 self.registries, externals=self.externals, opaque=self.opaque, boundaries=self.boundaries, effects=self.effects)
        body = rt.translate(self.local_types)
        self.last = rt
        head = ['(* GENERATED by translator/crashlite.py (unit %s) from %s:%s lines %d-%d -- do not edit.'
                % (self.name, 'tlslite/tlsconnection.py', self.func, rt.lines[0], rt.lines[1]),
                '   %s *)' % self.slice_doc,
                'From Coq Require Import ZArith List Bool String.',
                'From TV Require Import Base.Prelude Base.C08_Lib.',
                'Import ListNotations.', 'Open Scope Z_scope.', '',
                schema.emit_types(), '',
                '(* program points with an explicit Crash outcome (kind, site, source line) *)',
                'Definition %s_crash_points : list (string * string) := [\n%s\n].' % (
                    self.name, ';\n'.join('  (%s, %s) (* line %d *)' % (cl.gstr(k), cl.gstr(s), ln) for k, s, ln in rt.sites)),
                '', body] + ([self.pre['gallina']] if self.pre else []) + ([self.hyp] if self.hyp else [])
        return '\n'.join(head)


# Fact about the ClientHello established by the first check of the region (an empty
# supported_versions extension is answered with decode_error) and needed by later statements
# (`for v in ext.versions`, `(3, 4) in ver_ext.versions`).  It is PROVED at the first boundary of
# the entry point and ASSUMED by the boundary lemmas (the inputs are immutable); nothing is trusted.
CH_PRE = dict(
    name='ch_pre', args=['clientHello'],
    gallina='''
Definition ch_pre (clientHello : ClientHello_r) : Prop :=
  forall r, getExtensionAs as_SupportedVersionsExtension (ClientHello_extensions clientHello) 43 = OK (Some r) ->
    exists x l, SupportedVersionsExtension_versions r = Some (x :: l).
''',
    prove='''unfold ch_pre; let r_ := fresh "r_" in let Hr_ := fresh "Hr_" in intros r_ Hr_;
  match goal with
  | E : getExtensionAs as_SupportedVersionsExtension _ 43 = OK None |- _ => rewrite E in Hr_; discriminate Hr_
  | E : getExtensionAs as_SupportedVersionsExtension _ 43 = OK (Some ?s) |- _ =>
    tryif constr_eq s r_ then fail else
    (rewrite E in Hr_; injection Hr_ as <-;
     repeat match goal with H : Some _ = Some _ |- _ => injection H as H end;
     subst; eauto)
  end''',
    use='''match goal with
  | Hpre : ch_pre _, E : getExtensionAs as_SupportedVersionsExtension _ 43 = OK (Some ?r)
    |- context [SupportedVersionsExtension_versions ?r] =>
    let x := fresh "x" in let l := fresh "l" in let Hv := fresh "Hv" in
    destruct (Hpre r E) as [x [l Hv]]; rewrite Hv in *
  end''')


def ch_unit():
    return HelloUnit(
        'ChChecks', '_serverGetClientHello',
        start='ext = clientHello.getExtension(ExtensionType.supported_versions)', end='high_ver = None',
        inputs=[('clientHello', OBJ('ClientHello')), ('settings', OBJ('Settings')),
                ('is_valid_hostname', FUN([BYTES], BOOL))],
        schema_thunk=lambda: build_schema(CH_EXTS, CH_CLASSES),
        registries={'ClientHello': registry_client},
        externals={'is_valid_hostname': ([BYTES], BOOL)},
        local_types={'key_exchange': OPT(TAG)},
        slice_doc='slice: from the first "ext = clientHello.getExtension(ExtensionType.supported_versions)" up to (not '
                  'including) "high_ver = None": the well-formedness checks of the ClientHello and its extensions',
        pre=CH_PRE)


PROOF_LIB = '''
Lemma getExtension_cases e t :
  (exists o, getExtension e t = OK o) \\/ getExtension e t = Raised "TLSInternalError".
Proof.
  unfold getExtension. destruct e as [l|]; [|left; eexists; reflexivity].
  destruct (filter (fun e => ext_type e =? t) l) as [|x [|y ys]];
    [left; eexists; reflexivity|left; eexists; reflexivity|right; reflexivity].
Qed.
Lemma getExtensionAs_cases {R} (c : ext -> option R) e t :
  (exists o, getExtensionAs c e t = OK o) \\/ getExtensionAs c e t = Raised "TLSInternalError".
Proof.
  unfold getExtensionAs. destruct (getExtension_cases e t) as [[o E]|E]; rewrite E; cbn [bindo].
  - left. destruct o; eexists; reflexivity.
  - right. reflexivity.
Qed.
(* an extension was found => the extension list exists and is not empty *)
Lemma getExtensionAs_some_nonempty {R} (c : ext -> option R) e t r :
  getExtensionAs c e t = OK (Some r) -> exists x l, e = Some (x :: l).
Proof.
  unfold getExtensionAs, getExtension. destruct e as [[|x l]|]; cbn; try discriminate.
  intros _. eexists; eexists; reflexivity.
Qed.
Ltac c08_domain ::=
  match goal with
  | |- _ => c08_unit_domain
  | |- _ => progress c08_unfold_props
  | |- context [getExtensionAs ?c ?e ?t] =>
    let o := fresh "o" in let E := fresh "E" in
    destruct (getExtensionAs_cases c e t) as [[o E]|E]; rewrite E; cbn [bindo]
  | |- context [getExtension ?e ?t] =>
    let o := fresh "o" in let E := fresh "E" in
    destruct (getExtension_cases e t) as [[o E]|E]; rewrite E; cbn [bindo]
  | H : getExtensionAs _ ?e _ = OK (Some _) |- context [match ?e with _ => _ end] =>
    let x := fresh "x" in let l := fresh "l" in let Hl := fresh "Hl" in
    destruct (getExtensionAs_some_nonempty _ _ _ _ H) as [x [l Hl]]; rewrite Hl in *
  end.
'''


class ProofUnit:
    """Gen/<name>Proof.v : the generated proof script for a HelloUnit"""

    def __init__(self, hello_thunk, sites_module, sites_name):
        self.hello_thunk, self.sites_module, self.sites_name = hello_thunk, sites_module, sites_name

    def translate(self):
        u = self.hello_thunk()
        u.translate()
        rt = u.last
        props = sorted(fn for c in rt.schema.classes.values() for _, fn in c.get('mderived', {}).values())
        return '\n'.join([
            '(* GENERATED by translator/crashlite.py: proof script for Gen/%s.v -- do not edit.' % u.name,
            '   Every boundary continuation (code after a top-level compound statement of the region) and',
            '   the entry point are crash-free outside %s for ALL values of their parameters. *)' % self.sites_name,
            'From Coq Require Import ZArith List Bool Lia String.',
            'From TV Require Import Base.Prelude Base.C08_Lib Gen.%s Proofs.C08_Symex %s.' % (u.name, self.sites_module),
            'Import ListNotations.', 'Open Scope Z_scope.',
            'Ltac c08_unfold_props := %s.' % (('unfold ' + ', '.join(props) + ' in *') if props else 'fail'),
            'Ltac c08_unit_domain := %s.' % (u.pre['use'] if u.pre else 'fail'),
            'Ltac c08_pre := %s.' % (u.pre['prove'] if u.pre else 'fail'),
            PROOF_LIB,
            rt.emit_proofs(self.sites_name, (u.pre['name'], u.pre['args']) if u.pre else None,
                           entry_assumes=bool(u.pre and u.pre.get('assumed'))),
            'Theorem %s_crash_sites : forall %s, %scrash_in %s (%s %s).' % (
                u.name, ' '.join(n for n, _ in u.inputs),
                ('%s %s -> ' % (u.pre['name'], ' '.join(u.pre['args']))) if (u.pre and u.pre.get('assumed')) else '',
                self.sites_name, u.name, ' '.join(n for n, _ in u.inputs)),
            'Proof. exact %s_ok. Qed.' % u.name, ''])


# ---------------------------------------------------------------------------------------------
# ServerHello checks of the client (_clientGetServerHello, after the HelloRetryRequest handling)
SH_EXTS = ['ALPNExtension', 'SrvSupportedVersionsExtension', 'HeartbeatExtension', 'RecordSizeLimitExtension',
           'ServerCertTypeExtension', 'NPNExtension']
EXT_PAYLOAD['ServerCertTypeExtension'] = ('cert_type', [('cert_type', OPT(Z))])
EXT_PAYLOAD['NPNExtension'] = ('supports_npn', [('protocols', LIST(BYTES))])

SH_PRELUDE = '''
(* ServerHello.certificate_type (messages.py): x509 (0) when there is no cert_type extension,
   else the extension's value (None-able) *)
Definition sh_certificate_type (m : ServerHello_r) : outcome (option Z) :=
  bindo (getExtensionAs as_ServerCertTypeExtension (ServerHello_extensions m) 9) (fun o =>
    match o with None => OK (Some 0) | Some e => OK (ServerCertTypeExtension_cert_type e) end).
(* ServerHello.next_protos: None without the NPN extension, else its protocol list *)
Definition sh_next_protos (m : ServerHello_r) : outcome (option (list (list Z))) :=
  bindo (getExtensionAs as_NPNExtension (ServerHello_extensions m) 13172) (fun o =>
    match o with None => OK None | Some e => OK (Some (NPNExtension_protocols e)) end).
(* ServerHello.tackExt with tackpy not installed (checked at generation time): the extension is
   looked up (duplicates raise), the result is always None *)
Definition sh_tackExt (m : ServerHello_r) : outcome (option TackExtension_r) :=
  bindo (getExtension (ServerHello_extensions m) 62208) (fun _ => OK None).
Definition tack_verifySignatures (_ : TackExtension_r) : bool := true.
'''


def sh_schema():
    import tlslite.messages as M
    from tlslite.constants import ExtensionType as ET, CertificateType
    if getattr(M, 'tackpyLoaded', False):
        raise Refuse('tackpy is installed: ServerHello.tackExt is not modelled for that configuration')
    if ET.cert_type != 9 or ET.supports_npn != 13172 or ET.tack != 62208 or CertificateType.x509 != 0:
        raise Refuse('extension type constants used by the hand-written ServerHello properties changed')
    for c in (M.ServerHello, M.ClientHello):
        if any(hasattr(c, m) for m in ('__len__', '__bool__')):
            raise Refuse('%s defines __len__/__bool__' % c.__name__)
    extra = {
        'TackExtension': {'fields': [], 'methods': {'verifySignatures': (BOOL, 'tack_verifySignatures')}},
        'ServerHello': {'fields': [('server_version', VER), ('random', BYTES), ('session_id', BYTES), ('cipher_suite', Z),
                                   ('compression_method', Z), ('extensions', OPT(LIST(EXT)))],
                        'mderived': {'certificate_type': (OPT(Z), 'sh_certificate_type'),
                                     'next_protos': (OPT(LIST(BYTES)), 'sh_next_protos'),
                                     'tackExt': (OPT(OBJ('TackExtension')), 'sh_tackExt')}},
        # the client's own ClientHello: an honest object, its properties are plain values
        'ClientHello': {'fields': [('session_id', BYTES), ('cipher_suites', LIST(Z)), ('certificate_types', LIST(Z)),
                                   ('tack', BOOL), ('supports_npn', BOOL), ('extensions', OPT(LIST(EXT)))]},
        'Settings': {'fields': [('minVersion', VER), ('maxVersion', VER), ('versions', LIST(VER)),
                                ('requireExtendedMasterSecret', BOOL), ('use_heartbeat_extension', BOOL),
                                ('heartbeat_response_callback', OPT(TAG)), ('record_size_limit', OPT(Z))]},
    }
    sc = build_schema(SH_EXTS, extra)
    sc.prelude = SH_PRELUDE
    return sc


def sh_unit():
    return HelloUnit(
        'ShChecks', '_clientGetServerHello',
        start='real_version = serverHello.server_version', end='yield serverHello',
        inputs=[('serverHello', OBJ('ServerHello')), ('clientHello', OBJ('ClientHello')), ('settings', OBJ('Settings')),
                ('hello_retry', OPT(OBJ('ServerHello'))), ('defrag_is_empty', BOOL),
                ('CipherSuite_filterForVersion', FUN([LIST(Z), VER, VER], LIST(Z)))],
        schema_thunk=sh_schema,
        registries={'ServerHello': registry_server, 'ClientHello': registry_client},
        externals={'CipherSuite.filterForVersion': ([LIST(Z), VER, VER], LIST(Z))},
        opaque={'self._defragmenter.is_empty()': ('defrag_is_empty', BOOL)},
        slice_doc='slice: from "real_version = serverHello.server_version" up to (not including) "yield serverHello": '
                  'the checks of the (final) ServerHello against the ClientHello and the settings')


# ---------------------------------------------------------------------------------------------
# Server: validation of the SECOND ClientHello after a HelloRetryRequest (nested region of
# _serverGetClientHello: the key_share checks; the second hello does NOT go through ChChecks again)
def hrr_ch_unit():
    return HelloUnit(
        'HrrChChecks', '_serverGetClientHello',
        start='ext = clientHello.getExtension(ExtensionType.key_share)',
        end='old_ext = clientHello1.getExtension(ExtensionType.key_share)',
        inputs=[('clientHello', OBJ('ClientHello')), ('selected_group', Z)],
        schema_thunk=lambda: build_schema(CH_EXTS, CH_CLASSES),
        registries={'ClientHello': registry_client}, boundaries=False,
        slice_doc='slice (nested, after the HelloRetryRequest was sent and the second ClientHello parsed): from '
                  '"ext = clientHello.getExtension(ExtensionType.key_share)" up to (not including) '
                  '"old_ext = clientHello1.getExtension(ExtensionType.key_share)"')


# ---------------------------------------------------------------------------------------------
# Client: handling of a HelloRetryRequest (nested region of _clientGetServerHello)
EXT_PAYLOAD['CookieExtension'] = ('cookie', [('cookie', OPT(BYTES))])
EXT_PAYLOAD['HRRKeyShareExtension'] = ('key_share', [('selected_group', Z)])
HRR_SH_EXTS = ['SupportedGroupsExtension', 'ClientKeyShareExtension', 'CookieExtension', 'HRRKeyShareExtension',
               'SrvSupportedVersionsExtension']


def registry_hrr(t):
    import tlslite.extensions as X
    for d in (X.TLSExtension._hrrExtensions, X.TLSExtension._universalExtensions):
        if t in d:
            return d[t].__name__
    return 'TLSExtension'


def hrr_sh_schema():
    extra = {
        'ServerHello': {'fields': [('server_version', VER), ('random', BYTES), ('session_id', BYTES), ('cipher_suite', Z),
                                   ('compression_method', Z), ('extensions', OPT(LIST(EXT)))]},
        'ClientHello': {'fields': [('session_id', BYTES), ('cipher_suites', LIST(Z)), ('extensions', OPT(LIST(EXT)))]},
    }
    return build_schema(HRR_SH_EXTS, extra)


# HYPOTHESIS about the client's OWN ClientHello and the enclosing test (not proved by the region):
# the own hello has an extension list with supported_groups (groups a list) and key_share (client_shares a
# list) -- invariant of hellos built by _clientSendClientHello for TLS 1.3 since /repo 40ad8d2, checked on
# every own hello observed by the tie -- and the HelloRetryRequest has an extension list (the enclosing `if`
# found its supported_versions extension).
HRR_SH_HYP = dict(
    name='hrr_own_ok', args=['clientHello', 'hello_retry'], assumed=True,
    gallina='''
Definition hrr_own_ok (clientHello : ClientHello_r) (hello_retry : ServerHello_r) : Prop :=
  exists l g gl k sl hl,
    ClientHello_extensions clientHello = Some l /\\
    getExtensionAs as_SupportedGroupsExtension (Some l) 10 = OK (Some g) /\\
    SupportedGroupsExtension_groups g = Some gl /\\
    getExtensionAs as_ClientKeyShareExtension (Some l) 51 = OK (Some k) /\\
    ClientKeyShareExtension_client_shares k = Some sl /\\
    ServerHello_extensions hello_retry = Some hl.
''',
    prove='assumption',
    use='''match goal with
  | H : hrr_own_ok _ _ |- _ =>
    let l := fresh "l" in let g := fresh "g" in let gl := fresh "gl" in let k := fresh "k" in
    let sl := fresh "sl" in let hl := fresh "hl" in
    let H1 := fresh "Hown" in let H2 := fresh "Hown" in let H3 := fresh "Hown" in let H4 := fresh "Hown" in
    let H5 := fresh "Hown" in let H6 := fresh "Hown" in
    destruct H as (l & g & gl & k & sl & hl & H1 & H2 & H3 & H4 & H5 & H6); rewrite ?H1, ?H6 in *
  | H : getExtensionAs ?c ?e ?t = _ |- context [getExtensionAs ?c ?e ?t] => rewrite H
  | H : SupportedGroupsExtension_groups ?g = _ |- context [SupportedGroupsExtension_groups ?g] => rewrite H
  | H : ClientKeyShareExtension_client_shares ?k = _ |- context [ClientKeyShareExtension_client_shares ?k] => rewrite H
  end''')


def hrr_sh_unit():
    return HelloUnit(
        'HrrShChecks', '_clientGetServerHello',
        start='ch_ext_types = set(', end='ext = clientHello.getExtension(ExtensionType.pre_shared_key)',
        inputs=[('clientHello', OBJ('ClientHello')), ('hello_retry', OBJ('ServerHello')),
                ('self__genKeyShareEntry', FUN([Z, VER], OBJ('KeyShareEntry')))],
        schema_thunk=hrr_sh_schema,
        registries={'ServerHello': registry_hrr, 'ClientHello': registry_client},
        externals={'self._genKeyShareEntry': ([Z, VER], OBJ('KeyShareEntry'))},
        effects=['clientHello.addExtension(cookie)', 'cl_key_share_ext.client_shares'],
        boundaries=False, pre=HRR_SH_HYP,
        slice_doc='slice (nested, inside the HelloRetryRequest branch): from "ch_ext_types = set(...)" up to (not '
                  'including) "ext = clientHello.getExtension(ExtensionType.pre_shared_key)"; effects on own objects '
                  'dropped: clientHello.addExtension(cookie) (cookie is not looked up in the own hello afterwards), '
                  'cl_key_share_ext.client_shares = [key_share] (not read afterwards); self._genKeyShareEntry is an '
                  'external assumed total for a group of the own supported_groups')


UNITS = {
    'ChChecks': ch_unit,
    'HrrShChecks': hrr_sh_unit,
    'HrrShChecksProof': lambda: ProofUnit(hrr_sh_unit, 'Model.C08_Known', 'hrr_sh_known_sites'),
    'HrrChChecks': hrr_ch_unit,
    'HrrChChecksProof': lambda: ProofUnit(hrr_ch_unit, 'Model.C08_Known', 'hrr_ch_known_sites'),
    'ShChecks': sh_unit,
    'ShChecksProof': lambda: ProofUnit(sh_unit, 'Model.C08_Known', 'sh_known_sites'),
    'ChChecksProof': lambda: ProofUnit(ch_unit, 'Model.C08_Known', 'ch_known_sites'),
}


# ---------------------------------------------------------------------------------------------
# real parsed objects -> Gallina literals of the schema (translation validation / schema check)
class SchemaMismatch(Exception):
    pass


def _z(n):
    return str(n) if n >= 0 else '(%d)' % n


def to_lit(v, ty, schema, path='value'):
    k = ty[0]
    if k == 'Z':
        if isinstance(v, bool) or not isinstance(v, int):
            raise SchemaMismatch('%s: expected int, got %r' % (path, type(v).__name__))
        return _z(v)
    if k == 'bool':
        return 'true' if v else 'false'
    if k == 'tag':
        return 'tt'
    if k == 'ver':
        if not (isinstance(v, tuple) and len(v) == 2 and all(isinstance(x, int) for x in v)):
            raise SchemaMismatch('%s: expected version pair, got %r' % (path, v))
        return '(%s, %s)' % (_z(v[0]), _z(v[1]))
    if k == 'bytes':
        if not isinstance(v, (bytes, bytearray)):
            raise SchemaMismatch('%s: expected bytes, got %r' % (path, type(v).__name__))
        return '[' + ';'.join(str(b) for b in v) + ']'
    if k == 'list':
        if not isinstance(v, (list, tuple)):
            raise SchemaMismatch('%s: expected list, got %r' % (path, type(v).__name__))
        return '[' + ';'.join(to_lit(x, ty[1], schema, '%s[%d]' % (path, i)) for i, x in enumerate(v)) + ']'
    if k == 'opt':
        if v is None:
            return 'None'
        return '(Some %s)' % to_lit(v, ty[1], schema, path)
    if k == 'pair':
        if not (isinstance(v, tuple) and len(v) == 2):
            raise SchemaMismatch('%s: expected pair, got %r' % (path, v))
        return '(%s, %s)' % (to_lit(v[0], ty[1], schema, path + '.0'), to_lit(v[1], ty[2], schema, path + '.1'))
    if k == 'obj':
        cn = ty[1]
        fields = schema.classes[cn]['fields']
        if not fields:
            return '{| %s_unit_ := tt |}' % cn
        parts = []
        for f, fty in fields:
            if not hasattr(v, f):
                raise SchemaMismatch('%s: %s object has no attribute %s' % (path, type(v).__name__, f))
            parts.append('%s_%s := %s' % (cn, f, to_lit(getattr(v, f), fty, schema, '%s.%s' % (path, f))))
        return '{| ' + '; '.join(parts) + ' |}'
    if k == 'ext':
        cn = type(v).__name__
        if cn in schema.ext_classes and schema.classes[cn].get('ext') != 'generic':
            if v.extType != schema.classes[cn]['ext']:
                raise SchemaMismatch('%s: %s with extType %r' % (path, cn, v.extType))
            return '(X_%s %s)' % (cn, to_lit(v, OBJ(cn), schema, path))
        # any other class: only type and payload matter to the region (it never asks for this type's fields)
        return '(X_TLSExtension {| TLSExtension_extType := %s; TLSExtension_extData := %s |})' % (
            _z(v.extType), '[' + ';'.join(str(b) for b in v.extData) + ']')
    raise SchemaMismatch('%s: no literal for type %r' % (path, ty))
