"""Translation unit for C10: /repo -> coq/Gen/C10_Tables.v  (regenerated on every run)

Emits, from the tree named by VERIF_REPO:

* `pkcs1_prefixes`  : RSAKey._pkcs1Prefixes (DigestInfo prefixes), read from the *ast* of the class
                       body of tlslite/utils/rsakey.py (literal bytearray([...]) entries only);
* `sha1_prefix_no_null` : the literal of the `if not withNULL` branch of addPKCS1SHA1Prefix;
* `sign_sites`      : one record per call of `.sign(` / `.hashAndSign(` (direct, or through an alias
                       `sig_func = key.sign`) in tlslite/keyexchange.py, tlsconnection.py,
                       tlsrecordlayer.py, saying whether the produced signature is checked with the
                       matching verify function of the SAME key object on the SAME data in the
                       statement(s) immediately following, on a branch that always ends in
                       TLSInternalError / an internal_error alert, before anything else can use it;
* `raise_callers`   : for the sites that raise TLSInternalError, the callers in tlsconnection.py of the
                       enclosing helper (makeServerKeyExchange / makeCertificateVerify) and whether
                       they turn the exception into an internal_error alert;
* `src_fingerprints`: sha256 (first 16 hex digits) of the ast of every function that is modelled by
                       hand in coq/Model/C10_*.v (docstrings and comments excluded).

Fail-closed: a prefix entry that is not a literal, a missing function, or a signing call in a shape
the analysis does not know is either refused (Refuse) or emitted as an unchecked site, which breaks
the obligation `sign_sites_as_modelled` in coq/Props/C10.v.
"""
import ast
import hashlib
import os
import re
import sys

sys.path.insert(0, os.path.dirname(os.path.abspath(__file__)))
from pylite import Refuse  # noqa: E402

REPO = os.path.realpath(os.environ.get('VERIF_REPO', '/repo'))

SIGN_FILES = ['tlslite/keyexchange.py', 'tlslite/tlsconnection.py', 'tlslite/tlsrecordlayer.py']
PAIR = {'sign': 'verify', 'hashAndSign': 'hashAndVerify'}
RAISING_HELPERS = {'signServerKeyExchange': 'makeServerKeyExchange',
                   '_tls12_sign_ecdsa_SKE': 'makeServerKeyExchange',
                   '_tls12_sign_dsa_SKE': 'makeServerKeyExchange',
                   '_tls12_sign_eddsa_ske': 'makeServerKeyExchange',
                   '_tls12_signSKE': 'makeServerKeyExchange',
                   'makeCertificateVerify': 'makeCertificateVerify'}

MODELLED = {
    'tlslite/utils/rsakey.py': ['RSAKey.hashAndSign', 'RSAKey.hashAndVerify', 'RSAKey.MGF1',
                                'RSAKey.EMSA_PSS_encode', 'RSAKey.RSASSA_PSS_sign', 'RSAKey.EMSA_PSS_verify',
                                'RSAKey.RSASSA_PSS_verify', 'RSAKey._raw_pkcs1_sign', 'RSAKey.sign',
                                'RSAKey._raw_pkcs1_verify', 'RSAKey.verify', 'RSAKey._raw_private_key_op_bytes',
                                'RSAKey._raw_public_key_op_bytes', 'RSAKey.addPKCS1SHA1Prefix',
                                'RSAKey.addPKCS1Prefix', 'RSAKey._addPKCS1Padding'],
    'tlslite/utils/python_rsakey.py': ['Python_RSAKey._rawPrivateKeyOp', 'Python_RSAKey._rawPrivateKeyOpHelper',
                                       'Python_RSAKey._rawPublicKeyOp'],
    'tlslite/keyexchange.py': ['FFDHKeyExchange.__init__', 'FFDHKeyExchange.calc_public_value',
                               'FFDHKeyExchange._normalise_peer_share', 'FFDHKeyExchange.calc_shared_key',
                               'ECDHKeyExchange._non_zero_check', 'ECDHKeyExchange.calc_shared_key',
                               'ECDHKeyExchange._get_fun_gen_size'],
    'tlslite/utils/python_dsakey.py': ['Python_DSAKey.sign', 'Python_DSAKey.verify', 'Python_DSAKey.hashAndSign',
                                       'Python_DSAKey.hashAndVerify', 'Python_DSAKey.generate', 'Python_DSAKey.generate_qp'],
    'tlslite/utils/x25519.py': ['decodeUCoordinate', 'decodeScalar22519', 'decodeScalar448', 'cswap',
                                'x25519', 'x448', '_x25519_generic'],
    'tlslite/utils/cryptomath.py': ['bytesToNumber', 'numberToByteArray', 'divceil', 'secureHash'],
}


def sl(s):
    return '"' + str(s).replace('"', '""') + '"'


def blist(bs):
    return '[' + '; '.join(str(int(b)) for b in bs) + ']'


def parse(rel):
    path = os.path.join(REPO, rel)
    try:
        with open(path) as f:
            return ast.parse(f.read())
    except OSError as e:
        raise Refuse('cannot read %s: %s' % (rel, e))


def strip_doc(fd):
    fd = ast.parse(ast.unparse(fd)).body[0]           # private copy
    for n in ast.walk(fd):
        if isinstance(n, (ast.FunctionDef, ast.ClassDef)) and n.body and isinstance(n.body[0], ast.Expr) and \
                isinstance(n.body[0].value, ast.Constant) and isinstance(n.body[0].value.value, str):
            n.body = n.body[1:] or [ast.Pass()]
    return fd


def find_def(tree, qual):
    parts = qual.split('.')
    body = tree.body
    node = None
    for i, p in enumerate(parts):
        node = None
        for n in body:
            if isinstance(n, (ast.FunctionDef, ast.ClassDef)) and n.name == p:
                node = n
        if node is None:
            return None
        body = node.body
    return node


# ------------------------------------------------------------------------------ prefixes
def literal_bytes(node):
    """bytearray([c1, c2, ...]) with integer constants -> list of ints, else None"""
    if isinstance(node, ast.Call) and isinstance(node.func, ast.Name) and node.func.id == 'bytearray' and \
            len(node.args) == 1 and isinstance(node.args[0], ast.List) and not node.keywords:
        out = []
        for e in node.args[0].elts:
            if not (isinstance(e, ast.Constant) and isinstance(e.value, int) and 0 <= e.value < 256):
                return None
            out.append(e.value)
        return out
    return None


def prefixes():
    tree = parse('tlslite/utils/rsakey.py')
    cls = find_def(tree, 'RSAKey')
    if cls is None:
        raise Refuse('class RSAKey not found')
    table = None
    for n in cls.body:
        if isinstance(n, ast.Assign) and len(n.targets) == 1 and isinstance(n.targets[0], ast.Name) and \
                n.targets[0].id == '_pkcs1Prefixes':
            if not isinstance(n.value, ast.Dict):
                raise Refuse('_pkcs1Prefixes is not a dict literal')
            table = []
            for k, v in zip(n.value.keys, n.value.values):
                bs = literal_bytes(v)
                if not (isinstance(k, ast.Constant) and isinstance(k.value, str)) or bs is None:
                    raise Refuse('_pkcs1Prefixes entry is not a literal')
                table.append((k.value, bs))
    if table is None:
        raise Refuse('_pkcs1Prefixes not found')
    fd = find_def(tree, 'RSAKey.addPKCS1SHA1Prefix')
    if fd is None:
        raise Refuse('addPKCS1SHA1Prefix not found')
    nonull = None
    for n in ast.walk(fd):
        if isinstance(n, ast.If) and isinstance(n.test, ast.UnaryOp) and isinstance(n.test.op, ast.Not) and \
                isinstance(n.test.operand, ast.Name) and n.test.operand.id == 'withNULL':
            for s in n.body:
                if isinstance(s, ast.Assign):
                    nonull = literal_bytes(s.value)
    if nonull is None:
        raise Refuse('no-NULL SHA-1 prefix literal not found')
    return table, nonull


# ------------------------------------------------------------------------------ sign sites
def dump(n):
    """structural identity of an expression, ignoring Load/Store context and positions"""
    return re.sub(r'(Load|Store|Del)\(\)', '', ast.dump(n, annotate_fields=False, include_attributes=False))


def is_internal_error_exit(body):
    """body always ends the flow with TLSInternalError / an internal_error alert?  -> kind or None"""
    if len(body) != 1:
        return None
    s = body[0]
    if isinstance(s, ast.Raise) and isinstance(s.exc, ast.Call) and isinstance(s.exc.func, ast.Name) and \
            s.exc.func.id == 'TLSInternalError':
        return 'FailRaise'
    if isinstance(s, ast.For) and isinstance(s.iter, ast.Call) and isinstance(s.iter.func, ast.Attribute) and \
            s.iter.func.attr == '_sendError' and isinstance(s.iter.func.value, ast.Name) and \
            s.iter.func.value.id == 'self' and s.iter.args and \
            isinstance(s.iter.args[0], ast.Attribute) and s.iter.args[0].attr == 'internal_error' and \
            isinstance(s.iter.args[0].value, ast.Name) and s.iter.args[0].value.id == 'AlertDescription' and \
            len(s.body) == 1 and isinstance(s.body[0], ast.Expr) and isinstance(s.body[0].value, ast.Yield) and \
            not s.orelse:
        return 'FailAlert'
    return None


class SiteFinder(ast.NodeVisitor):
    def __init__(self, rel):
        self.rel = rel
        self.sites = []
        self.stack = []

    def visit_FunctionDef(self, fd):
        self.stack.append(fd.name)
        self.scan_function(fd)
        for n in fd.body:
            self.visit(n)
        self.stack.pop()

    def visit_ClassDef(self, cd):
        self.stack.append(cd.name)
        for n in cd.body:
            self.visit(n)
        self.stack.pop()

    # -- per function
    def scan_function(self, fd):
        own = []            # nodes of this function, not of nested defs

        def collect(n):
            for c in ast.iter_child_nodes(n):
                if isinstance(c, (ast.FunctionDef, ast.ClassDef, ast.Lambda)):
                    continue
                own.append(c)
                collect(c)
        collect(fd)
        # alias assignments  name = X.sign / X.verify ...
        alias = {}          # name -> list of (attr, dump(X))
        blocks = []         # every statement list of the function
        for n in [fd] + own:
            for fld in ('body', 'orelse', 'finalbody'):
                b = getattr(n, fld, None)
                if isinstance(b, list) and b and isinstance(b[0], ast.stmt):
                    blocks.append(b)
            if isinstance(n, ast.Try):
                for h in n.handlers:
                    blocks.append(h.body)
        for n in own:
            if isinstance(n, ast.Assign) and len(n.targets) == 1 and isinstance(n.targets[0], ast.Name) and \
                    isinstance(n.value, ast.Attribute) and n.value.attr in list(PAIR) + list(PAIR.values()):
                alias.setdefault(n.targets[0].id, []).append((n.value.attr, dump(n.value.value), n))
        sign_aliases = [a for a, v in alias.items() if any(x[0] in PAIR for x in v)]

        def body_ok(body, sa, va):
            sas = [t for t in body if isinstance(t, ast.Assign) and len(t.targets) == 1 and
                   isinstance(t.targets[0], ast.Name) and t.targets[0].id == sa]
            vas = [t for t in body if isinstance(t, ast.Assign) and len(t.targets) == 1 and
                   isinstance(t.targets[0], ast.Name) and t.targets[0].id == va]
            if len(sas) != 1 or len(vas) != 1:
                return False
            x, y = sas[0].value, vas[0].value
            return isinstance(x, ast.Attribute) and isinstance(y, ast.Attribute) and x.attr in PAIR and \
                y.attr == PAIR[x.attr] and dump(x.value) == dump(y.value)

        def chain_ok(node, sa, va):
            """`node` is an exhaustive if/elif/else chain every branch of which binds sa to K.sign (or
            K.hashAndSign) and va to the matching verify method of the same expression K"""
            if not isinstance(node, ast.If) or not node.orelse or not body_ok(node.body, sa, va):
                return False
            if len(node.orelse) == 1 and isinstance(node.orelse[0], ast.If):
                return chain_ok(node.orelse[0], sa, va)
            return body_ok(node.orelse, sa, va)
        alias_ok = chain_ok
        # signing calls
        for n in own:
            if not isinstance(n, ast.Call):
                continue
            kind = None
            if isinstance(n.func, ast.Attribute) and n.func.attr in PAIR:
                kind = ('direct', n.func.attr, dump(n.func.value), ast.unparse(n.func.value))
            elif isinstance(n.func, ast.Name) and n.func.id in sign_aliases:
                objs = sorted(set(ast.unparse(x[2].value.value) for x in alias[n.func.id]))
                fns = sorted(set(x[0] for x in alias[n.func.id]))
                kind = ('alias', '|'.join(fns), n.func.id, '|'.join(objs))
            if kind is None:
                continue
            self.sites.append(self.analyse(fd, blocks, n, kind, alias_ok))

    def analyse(self, fd, blocks, call, kind, alias_ok):
        site = {'file': self.rel, 'func': '.'.join(self.stack), 'signer': kind[3], 'sign_fn': kind[1],
                'via_alias': kind[0] == 'alias', 'assigned': False, 'empty_check': False,
                'verified': False, 'same_key': False, 'same_data': False, 'fail': 'FailNone',
                'line': call.lineno}
        # the call must be the whole right-hand side of an assignment statement
        stmt, blk = None, None
        for b in blocks:
            for s in b:
                if isinstance(s, ast.Assign) and s.value is call and len(s.targets) == 1 and \
                        isinstance(s.targets[0], (ast.Name, ast.Attribute)):
                    stmt, blk = s, b
        if stmt is None or not call.args:
            return site
        site['assigned'] = True
        target = dump(stmt.targets[0])
        data = dump(call.args[0])
        i = blk.index(stmt) + 1
        # optional:  if not <sig>: raise TLSInternalError
        if i < len(blk) and isinstance(blk[i], ast.If) and isinstance(blk[i].test, ast.UnaryOp) and \
                isinstance(blk[i].test.op, ast.Not) and dump(blk[i].test.operand) == target and \
                is_internal_error_exit(blk[i].body) and not blk[i].orelse:
            site['empty_check'] = True
            i += 1
        if i >= len(blk):
            return site
        s = blk[i]
        if not (isinstance(s, ast.If) and isinstance(s.test, ast.UnaryOp) and isinstance(s.test.op, ast.Not) and
                isinstance(s.test.operand, ast.Call) and not s.orelse):
            return site
        v = s.test.operand
        if kind[0] == 'direct':
            if isinstance(v.func, ast.Attribute) and v.func.attr == PAIR[kind[1]]:
                site['verified'] = True
                site['same_key'] = dump(v.func.value) == kind[2]
        else:
            if isinstance(v.func, ast.Name) and v.func.id != kind[2]:
                site['verified'] = True
                # the statement just before the signing assignment must be the binding if-chain
                j = blk.index(stmt)
                site['same_key'] = bool(j > 0 and alias_ok(blk[j - 1], kind[2], v.func.id))
        if site['verified'] and len(v.args) >= 2:
            site['same_data'] = dump(v.args[0]) == target and dump(v.args[1]) == data
        site['fail'] = is_internal_error_exit(s.body) or 'FailNone'
        return site


def sign_sites():
    sites = []
    for rel in SIGN_FILES:
        f = SiteFinder(rel)
        f.visit(parse(rel))
        sites += f.sites
    if not sites:
        raise Refuse('no signing call found at all: the analysis no longer matches the code')
    return sites


def raise_callers():
    """(helper, calling function in tlsconnection.py, handled) for every call of a raising helper"""
    tree = parse('tlslite/tlsconnection.py')
    out = []
    targets = sorted(set(RAISING_HELPERS.values()))

    def handled_by(try_node):
        for h in try_node.handlers:
            names = []
            if isinstance(h.type, ast.Name):
                names = [h.type.id]
            elif isinstance(h.type, ast.Tuple):
                names = [e.id for e in h.type.elts if isinstance(e, ast.Name)]
            if 'TLSInternalError' in names and is_internal_error_exit(h.body) == 'FailAlert':
                return True
        return False

    def walk(node, fname, in_try):
        for c in ast.iter_child_nodes(node):
            if isinstance(c, ast.FunctionDef):
                walk(c, c.name, False)
                continue
            if isinstance(c, ast.Try):
                h = handled_by(c)
                for s in c.body:
                    walk_stmt(s, fname, in_try or h)
                for part in (c.handlers, c.orelse, c.finalbody):
                    for s in part:
                        walk_stmt(s, fname, in_try)
                continue
            walk_stmt(c, fname, in_try, descend_only=True)

    def walk_stmt(s, fname, in_try, descend_only=False):
        if isinstance(s, ast.Call) and isinstance(s.func, ast.Attribute) and s.func.attr in targets:
            nargs = len(s.args) + len(s.keywords)
            out.append((s.func.attr, fname, bool(in_try), nargs))
        walk(s, fname, in_try)

    walk(tree, '<module>', False)
    return out


GUARDED = {
    'tlslite/utils/rsakey.py': ['RSAKey._raw_public_key_op_bytes', 'RSAKey._raw_private_key_op_bytes', 'RSAKey._raw_pkcs1_verify',
                                'RSAKey._raw_pkcs1_sign', 'RSAKey.EMSA_PSS_verify', 'RSAKey.RSASSA_PSS_verify', 'RSAKey.verify'],
    'tlslite/utils/python_dsakey.py': ['Python_DSAKey.verify'],
    'tlslite/keyexchange.py': ['FFDHKeyExchange.__init__', 'FFDHKeyExchange.calc_public_value', 'FFDHKeyExchange._normalise_peer_share',
                               'FFDHKeyExchange.calc_shared_key', 'ECDHKeyExchange._non_zero_check', 'ECDHKeyExchange.calc_shared_key'],
}


def range_guards():
    """Every `if` condition of the verification / key-agreement functions, as normalised source text, with
    what the guarded branch does: (function, condition, 'raise' | 'return-false' | 'branch').  The range and
    length guards the theorems rely on (s < n, 0 < r,s < q, 2 <= y < p-1, ...) are checked to be present by
    the obligation range_guards_present."""
    out = []
    for rel, quals in sorted(GUARDED.items()):
        tree = parse(rel)
        for q in quals:
            fd = find_def(tree, q)
            if fd is None:
                raise Refuse('guarded function %s not found in %s' % (q, rel))
            cls = find_def(tree, q.rsplit('.', 1)[0])
            fd = inline_tail_helpers(strip_doc(fd), cls)
            for n in ast.walk(fd):
                if isinstance(n, ast.If):
                    b = n.body[0] if len(n.body) == 1 else None
                    kind = 'branch'
                    if isinstance(b, ast.Raise):
                        kind = 'raise'
                    elif isinstance(b, ast.Return) and isinstance(b.value, ast.Constant) and b.value.value is False:
                        kind = 'return-false'
                    out.append((q.split('.')[-1], ast.unparse(n.test), kind))
    return out


def rsa_state_accesses():
    """Every read/write of a mutable attribute of Python_RSAKey (an attribute assigned through
    self.<name> in a method other than __init__: the blinding pair) with whether it happens inside
    `with self._lock:`.  (method, attribute, is_store, locked)"""
    tree = parse('tlslite/utils/python_rsakey.py')
    cls = find_def(tree, 'Python_RSAKey')
    if cls is None:
        raise Refuse('class Python_RSAKey not found')
    methods = [n for n in cls.body if isinstance(n, ast.FunctionDef)]
    mutable = set()
    for m in methods:
        if m.name == '__init__':
            continue
        for n in ast.walk(m):
            if isinstance(n, ast.Attribute) and isinstance(n.ctx, ast.Store) and isinstance(n.value, ast.Name) and \
                    n.value.id == 'self':
                mutable.add(n.attr)
    out = []

    def is_lock(item):
        e = item.context_expr
        return isinstance(e, ast.Attribute) and e.attr == '_lock' and isinstance(e.value, ast.Name) and e.value.id == 'self'

    def walk(node, meth, locked):
        if isinstance(node, ast.With):
            inner = locked or any(is_lock(i) for i in node.items)
            for i in node.items:
                walk(i.context_expr, meth, locked)
            for st in node.body:
                walk(st, meth, inner)
            return
        if isinstance(node, ast.Attribute) and isinstance(node.value, ast.Name) and node.value.id == 'self' and \
                node.attr in mutable:
            out.append((meth, node.attr, isinstance(node.ctx, ast.Store), locked))
        for c in ast.iter_child_nodes(node):
            walk(c, meth, locked)
    for m in methods:
        if m.name == '__init__':
            continue
        for st in m.body:
            walk(st, m.name, False)
    if not out:
        raise Refuse('no access to mutable state found in Python_RSAKey: the analysis no longer matches the code')
    return out


def inline_tail_helpers(fd, cls, depth=3):
    """Normalisation for the source fingerprints: a statement `return self.h(a, b, ...)` whose callee h is
    a method of the same class, called with plain names equal to h's own parameter names, is replaced by
    the body of h (so that moving a branch verbatim into a private helper does not change the fingerprint).
    Anything else is left alone."""
    if cls is None or depth == 0:
        return fd
    methods = {n.name: n for n in cls.body if isinstance(n, ast.FunctionDef)}

    def expand(stmts, seen):
        out = []
        for st in stmts:
            for fld in ('body', 'orelse', 'finalbody'):
                b = getattr(st, fld, None)
                if isinstance(b, list) and b and isinstance(b[0], ast.stmt):
                    setattr(st, fld, expand(b, seen))
            if isinstance(st, ast.Try):
                for h in st.handlers:
                    h.body = expand(h.body, seen)
            c = st.value if isinstance(st, ast.Return) else None
            if isinstance(c, ast.Call) and isinstance(c.func, ast.Attribute) and isinstance(c.func.value, ast.Name) and \
                    c.func.value.id == 'self' and c.func.attr in methods and c.func.attr not in seen and not c.keywords:
                h = methods[c.func.attr]
                params = [a.arg for a in h.args.args][1:]
                if all(isinstance(a, ast.Name) for a in c.args) and [a.id for a in c.args] == params[:len(c.args)] and \
                        not h.args.vararg and not h.args.kwarg and len(c.args) == len(params):
                    body = strip_doc(h).body
                    out += expand(body, seen | {c.func.attr})
                    continue
            out.append(st)
        return out
    fd = ast.parse(ast.unparse(fd)).body[0]
    fd.body = expand(fd.body, {fd.name})
    return fd


def fingerprints():
    out = []
    for rel, quals in sorted(MODELLED.items()):
        tree = parse(rel)
        for q in quals:
            fd = find_def(tree, q)
            if fd is None:
                raise Refuse('modelled function %s not found in %s' % (q, rel))
            cls = find_def(tree, q.rsplit('.', 1)[0]) if '.' in q else None
            h = hashlib.sha256(dump(strip_doc(inline_tail_helpers(strip_doc(fd), cls))).encode()).hexdigest()[:16]
            out.append((rel.split('/')[-1] + ':' + q, h))
    return out


class C10Tables(object):
    def translate(self):
        table, nonull = prefixes()
        sites = sign_sites()
        callers = raise_callers()
        fps = fingerprints()
        acc = rsa_state_accesses()
        guards = range_guards()
        o = ['(* GENERATED by translator/units_c10.py from %s -- do not edit. *)' % REPO,
             'From Coq Require Import ZArith List Bool String.',
             'Import ListNotations.', 'Local Open Scope Z_scope.', 'Local Open Scope string_scope.', '',
             '(* rsakey.py RSAKey._pkcs1Prefixes *)',
             'Definition pkcs1_prefixes : list (string * list Z) := [',
             ';\n'.join('  (%s, %s)' % (sl(k), blist(v)) for k, v in table), '].', '',
             '(* rsakey.py addPKCS1SHA1Prefix, withNULL=False *)',
             'Definition sha1_prefix_no_null : list Z := %s.' % blist(nonull), '',
             'Inductive fail_kind := FailRaise | FailAlert | FailNone.',
             'Record sign_site := { ss_file : string; ss_func : string; ss_signer : string; ss_sign_fn : string;',
             '  ss_via_alias : bool; ss_assigned : bool; ss_empty_check : bool; ss_verified : bool;',
             '  ss_same_key : bool; ss_same_data : bool; ss_fail : fail_kind }.', '',
             '(* every call of .sign( / .hashAndSign( in %s *)' % ', '.join(SIGN_FILES),
             'Definition sign_sites : list sign_site := [']
        b = lambda x: 'true' if x else 'false'
        rows = []
        for s in sites:
            rows.append('  (* line %d *) {| ss_file := %s; ss_func := %s; ss_signer := %s; ss_sign_fn := %s;\n'
                        '     ss_via_alias := %s; ss_assigned := %s; ss_empty_check := %s; ss_verified := %s;\n'
                        '     ss_same_key := %s; ss_same_data := %s; ss_fail := %s |}'
                        % (s['line'], sl(s['file'].split('/')[-1]), sl(s['func']), sl(s['signer']), sl(s['sign_fn']),
                           b(s['via_alias']), b(s['assigned']), b(s['empty_check']), b(s['verified']),
                           b(s['same_key']), b(s['same_data']), s['fail']))
        o.append(';\n'.join(rows))
        o += ['].', '',
              '(* calls in tlsconnection.py of helpers whose signing sites raise TLSInternalError:',
              '   (helper, calling function, inside try/except TLSInternalError -> internal_error alert, #args) *)',
              'Definition raise_callers : list (string * string * bool * Z) := [',
              ';\n'.join('  (%s, %s, %s, %d)' % (sl(h), sl(f), b(t), n) for h, f, t, n in callers), '].', '',
              '(* every `if` condition of the verification / key-agreement functions: (function, condition, effect) *)',
              'Definition range_guards : list (string * string * string) := [',
              ';\n'.join('  (%s, %s, %s)' % (sl(f), sl(t), sl(k)) for f, t, k in guards), '].', '',
              '(* python_rsakey.py Python_RSAKey: every access to the mutable blinding state:',
              '   (method, attribute, is a store, inside `with self._lock`) *)',
              'Definition rsa_state_accesses : list (string * string * bool * bool) := [',
              ';\n'.join('  (%s, %s, %s, %s)' % (sl(m), sl(a), b(st), b(lk)) for m, a, st, lk in acc), '].', '',
              '(* sha256/16 of the ast of every function modelled by hand in Model/C10_*.v *)',
              'Definition src_fingerprints : list (string * string) := [',
              ';\n'.join('  (%s, %s)' % (sl(k), sl(v)) for k, v in fps), '].']
        return '\n'.join(o)


UNITS = {'C10_Tables': lambda: C10Tables()}

if __name__ == '__main__':
    print(C10Tables().translate())
